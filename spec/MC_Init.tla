------------------------------ MODULE MC_Init ------------------------------
(* Bounded model of Init.tla for TLC: exhaustive (MC_Init.cfg, with the transition tour export) and
   simulation/export (Sim_Init.cfg).  Two funded accounts exist at the start; everything else
   (placeholders, Ethereum accounts, contracts, multisigs, miners) is created by the explored calls. *)
EXTENDS Init, Json, Randomization

CONSTANTS FirstId, MaxNew, MaxMsgs, ExportLen, Wide

VARIABLES hist,    \* the calls made so far (exported for replay)
          base     \* [next, len] of the initial world (bounds are relative to it)
mcvars == <<vars, hist, base>>

K1 == <<"key", "k1">>
K2 == <<"key", "k2">>
K3 == <<"key", "k3">>
E1 == <<"raw", "e1">>
X1 == <<"raw", "x1">>
Caller == <<"caller">>
Last == <<"last">>

Blank == [ok |-> TRUE, res |-> <<>>, rid |-> 0, robust |-> None]

Cr(i) == [op |-> "create", init |-> i]
C2(sl, i) == [op |-> "create2", salt |-> sl, init |-> i]
Ds(b) == [op |-> "destroy", ben |-> b]
Rv == [op |-> "revert"]
Cl(t, p) == [op |-> "call", to |-> t, prog |-> p]

Leaves == {Cr("ok"), Cr("revert"), Cr("sd"), C2("s1", "ok"), C2("s1", "sd"), C2("s1", "revert"),
           C2("s2", "ok"), Ds(Caller), Ds(X1), Rv}

Inner == {<<Ds(Caller)>>, <<Cr("ok")>>, <<C2("s1", "ok")>>,
          <<Cr("ok"), Rv>>, <<Ds(Caller), Rv>>, <<C2("s1", "ok"), Ds(Caller)>>,
          <<Cr("ok"), Cl(Last, <<Ds(Caller)>>)>>}

EvmAddrs(s) == {s.act[i].addr : i \in {j \in Ids(s) : s.act[j].code = "evm"}}

Atoms(s) == Leaves \cup {Cl(t, p) : t \in {Last} \cup EvmAddrs(s), p \in Inner}

\* hand-picked longer shapes: create / destroy / re-create inside one message, failed creates between
\* successful ones, a reverted frame between two creates of the caller, nested re-entrancy
Shapes(self) ==
  {<<C2("s1", "ok"), Cl(Last, <<Ds(Caller)>>), C2("s1", "ok")>>,
   <<Cr("revert"), Cr("ok")>>, <<Cr("ok"), Cr("revert"), Cr("ok")>>,
   <<C2("s1", "revert"), C2("s1", "ok")>>, <<C2("s1", "ok"), C2("s1", "ok")>>,
   <<Cr("ok"), Cl(self, <<Cr("ok"), Rv>>), Cr("ok")>>,
   <<Cr("ok"), Cl(self, <<Cr("ok")>>), Cr("ok")>>,
   <<Cr("ok"), Cl(Last, <<Cr("ok"), Cl(Last, <<Ds(Caller)>>)>>)>>,
   <<C2("s1", "sd"), C2("s1", "ok")>>, <<Cr("sd"), Cr("ok")>>,
   <<Ds(X1), Cr("ok")>>, <<Cr("ok"), Ds(Caller)>>, <<Cr("ok"), Ds(Caller), Cr("ok")>>,
   <<C2("s1", "ok"), Rv>>, <<Cr("ok"), Cl(Last, <<C2("s1", "ok")>>), Rv>>,
   <<C2("s1", "ok"), Cl(Last, <<Cr("ok")>>)>>,
   <<Cr("reenter")>>, <<Cr("reenter"), Cr("ok")>>, <<C2("s1", "reenter")>>, <<Cr("reenter"), Rv>>,
   <<Cr("ok"), Cl(Last, <<Cr("reenter")>>)>>,
   <<Cl(self, <<Ds(Caller)>>), Cr("ok")>>, <<Cl(self, <<Ds(Caller), Rv>>), C2("s2", "ok")>>}

Progs(s, self) == {<<x>> : x \in Atoms(s)} \cup Shapes(self)
                  \cup (IF Wide THEN {<<x, y>> : x \in Leaves, y \in Leaves} ELSE {})

Senders(s) == {a \in {K1, K2, E1} : Exists(s, a)}

\* addresses a later creation will produce (so that the deployment lands on a placeholder)
Predicted(s) ==
     {<<"ext", K2, s.act[s.amap[K2]].seq>>}
  \cup {<<"c2", a, "s1", "ok">> : a \in EvmAddrs(s)}
  \cup {<<"c1", s.act[i].addr, s.act[i].nonce>> : i \in {j \in Ids(s) : s.act[j].code = "evm"}}

F4Targets(s) == {E1, X1} \cup EvmAddrs(s)
                \cup {s.act[i].addr : i \in {j \in Ids(s) : s.act[j].code = "placeholder"}}

Calls(s) ==
     {Blank @@ [a |-> "Send", from |-> K1, to |-> t] : t \in {K3, E1, X1} \cup Predicted(s)}
  \cup {Blank @@ [a |-> "Exec", from |-> K1, ct |-> "account", code |-> cd, ctorOK |-> ok, extra |-> None] :
          cd \in {"multisig", "paych"}, ok \in BOOLEAN}
  \cup {Blank @@ [a |-> "Exec", from |-> K1, ct |-> "account", code |-> cd, ctorOK |-> TRUE, extra |-> None] :
          cd \in {"miner", "evm", "account", "placeholder"}}
  \cup {Blank @@ [a |-> "Exec", from |-> K1, ct |-> "power", code |-> "miner", ctorOK |-> ok, extra |-> None] :
          ok \in BOOLEAN}
  \cup {Blank @@ [a |-> "Exec", from |-> <<"builtin", "power">>, ct |-> "power", code |-> cd, ctorOK |-> TRUE,
                  extra |-> None] : cd \in {"evm", "account"}}
  \cup {Blank @@ [a |-> "Exec", from |-> <<"builtin", "eam">>, ct |-> "eam", code |-> cd, ctorOK |-> TRUE,
                  extra |-> None] : cd \in {"miner", "evm"}}
  \cup {Blank @@ [a |-> "Exec", from |-> K1, ct |-> "account", code |-> "multisig", ctorOK |-> ok, extra |-> K3] :
          ok \in BOOLEAN}
  \cup {Blank @@ [a |-> "Exec4", from |-> <<"builtin", "eam">>, ct |-> "eam", f4 |-> t, init |-> i] :
          t \in F4Targets(s), i \in {"ok", "revert"}}
  \cup {Blank @@ [a |-> "Exec4", from |-> K1, ct |-> "account", f4 |-> X1, init |-> "ok", code |-> cd] :
          cd \in {"evm", "multisig"}}
  \cup {Blank @@ [a |-> "Exec4", from |-> <<"builtin", "power">>, ct |-> "power", f4 |-> X1, init |-> "ok",
                  code |-> cd] : cd \in {"evm", "multisig"}}
  \cup {Blank @@ [a |-> "Retire", from |-> K1] : x \in {i \in Ids(s) : s.act[i].code = "paych"}}
  \cup {Blank @@ [a |-> "CreateExternal", from |-> f, init |-> i] :
          f \in Senders(s), i \in {"ok", "revert", "sd", "empty", "reenter"}}
  \cup UNION {{Blank @@ [a |-> "Invoke", from |-> K1, to |-> t, prog |-> p] : p \in Progs(s, t)} :
              t \in EvmAddrs(s)}

Rec(r) == hist' = Append(hist, r) /\ UNCHANGED base
\* what the driver needs to replay a call: the call itself (observations are re-made on the real side)
Plain(c) == [x \in DOMAIN c \ {"ok", "res", "rid", "robust"} |-> c[x]]

\* (the depth bound is a guard, not only a CONSTRAINT: TLC would otherwise generate -- and then
\*  discard -- all successors of the states at the bound, which is most of the work)
CallStep == Len(hist) < base.len + MaxMsgs /\ \E c \in Calls(S) : Step(c) /\ Rec(Plain(c))
SimStep == \E c \in RandomSubset(12, Calls(S)) : Step(c) /\ Rec(Plain(c))

\* two funded accounts; K1 has already deployed one script contract F (its first message).
\* Further initial worlds are reached from that one by a fixed prefix of calls (exported with
\* the behaviours, so the driver replays them): a dead deployer with a live grandchild; placeholders
\* waiting at addresses that later creations will produce.
A0 == [code |-> "account", addr |-> K1, nonce |-> 0, seq |-> 0, tomb |-> 0, hc |-> FALSE]
F0 == <<"ext", K1, 0>>
C0 == <<"c2", F0, "s1", "ok">>
World0 ==
  [next |-> FirstId + 3,
   amap |-> (K1 :> FirstId) @@ (K2 :> (FirstId + 1)) @@ (F0 :> (FirstId + 2)),
   rob |-> (RobName(FirstId + 2) :> (FirstId + 2)),
   act |-> (FirstId :> [A0 EXCEPT !.seq = 1]) @@ ((FirstId + 1) :> [A0 EXCEPT !.addr = K2])
           @@ ((FirstId + 2) :> [code |-> "evm", addr |-> F0, nonce |-> 1, seq |-> 0, tomb |-> 0, hc |-> TRUE])]
Inv(t, p) == [a |-> "Invoke", from |-> K1, to |-> t, prog |-> p]
Snd(t) == [a |-> "Send", from |-> K1, to |-> t]
Prefixes ==
  {<<>>,
   <<Inv(F0, <<C2("s1", "ok")>>), Inv(C0, <<Cr("ok"), Ds(Caller)>>)>>,
   <<Snd(C0), Snd(E1), Snd(<<"ext", K2, 0>>)>>}
RECURSIVE RunHist(_, _)
RunHist(s, h) == IF h = <<>> THEN s ELSE RunHist(Do(s, Blank @@ Head(h)).S, Tail(h))

MCInit ==
  /\ \E h \in Prefixes :
       /\ S = RunHist(World0, h)
       /\ hist = h
       /\ base = [next |-> RunHist(World0, h).next, len |-> Len(h)]
  /\ used = Ids(S)
  /\ last = Blank @@ [a |-> "Init", from |-> <<"builtin", "system">>]
  /\ TLCSet(42, {})

MCNext == CallStep
SimNext == SimStep

\* ---- transition tour: one exported behaviour per abstract transition signature
AddrClass(s, a) ==
  IF a \notin DOMAIN s.amap THEN <<a[1], "absent">>
  ELSE LET i == s.amap[a] IN <<a[1], s.act[i].code, s.act[i].tomb, s.act[i].hc>>
RECURSIVE ProgShape(_, _, _)
ProgShape(s, self, p) ==
  [k \in 1..Len(p) |->
     CASE p[k].op = "call" -> <<"call", IF p[k].to = Last THEN "last" ELSE IF p[k].to = self THEN "self"
                                        ELSE "other", ProgShape(s, self, p[k].prog)>>
       [] p[k].op = "destroy" -> <<"destroy", p[k].ben[1]>>
       [] p[k].op = "create" -> <<"create", p[k].init>>
       [] p[k].op = "create2" -> <<"create2", p[k].salt, p[k].init>>
       [] OTHER -> <<p[k].op>>]
ResShape(res) == [k \in 1..Len(res) |-> <<res[k].kind, res[k].init, res[k].ok, res[k].how, res[k].kept>>]
Sig(s, c) ==
  CASE c.a = "Send" -> <<"Send", AddrClass(s, c.to)>>
    [] c.a = "Exec" -> <<"Exec", c.ct, c.code, c.ctorOK, c.extra # None, c.ok>>
    [] c.a = "Retire" -> <<"Retire", c.ok>>
    [] c.a = "Exec4" -> <<"Exec4", c.ct, AddrClass(s, c.f4), c.init, c.ok,
                          IF "code" \in DOMAIN c THEN c.code ELSE "evm">>
    [] c.a = "CreateExternal" -> <<"CreateExternal", AddrClass(s, c.from), c.init, ResShape(c.res), c.ok>>
    [] c.a = "Invoke" -> <<"Invoke", AddrClass(s, c.to), ProgShape(s, c.to, c.prog), ResShape(c.res), c.ok>>
Tour ==
  LET sig == Sig(S, last') IN
  IF sig \in TLCGet(42) THEN TRUE
  ELSE TLCSet(42, TLCGet(42) \cup {sig})
       /\ PrintT(<<"REPLAY", ToJson([sig |-> ToString(sig), calls |-> hist'])>>)

MCSpec == MCInit /\ [][MCNext]_mcvars
SimSpec == MCInit /\ [][SimNext]_mcvars
Bound == S.next <= base.next + MaxNew /\ Len(hist) <= base.len + MaxMsgs
View == <<S, used>>
StepOK == [][StepProps]_mcvars
Export == Len(hist) # ExportLen \/ PrintT(<<"REPLAY", ToJson(hist)>>)
=============================================================================
