------------------------------- MODULE Sectors -------------------------------
(***************************************************************************)
(* Sector lifecycle of one miner (actors/miner x actors/power x cron), at  *)
(* the granularity of sector status per (deadline, partition):             *)
(* non-interactive commit, Window PoSt with skipped sectors, fault and     *)
(* recovery declarations, termination, extension, and the proving-deadline *)
(* cron callback (missed PoSt, on-time expiry, fault time-out, early       *)
(* termination).  Money is not modelled here (see SectorsP.tla).           *)
(*                                                                         *)
(* SM = [sec : n -> [st, d, p, exp, fexp], posted : d -> SUBSET partition, *)
(*       alloc, off, cron, pre : n -> [exp, at] (pre-commitments)]         *)
(*   st \in {"unproven","active","faulty","recovering","term"}             *)
(*   fexp = epoch at which a faulty sector is terminated early (0 = none)  *)
(* Deadlines are 0..D-1, partitions 0.. ; epochs as in the actor.          *)
(***************************************************************************)
EXTENDS Integers, Sequences, FiniteSets, TLC

CONSTANTS D, W, PartSize, FaultMaxAge, FaultCutoff, MinLife, MaxLife, AddrSectorsMax, AddrPartsMax,
          MaxPC,       \* epochs a pre-commitment may wait for its proof (max_prove_commit_duration of the seal proof)
          ChalDelay    \* pre_commit_challenge_delay
\* one message may address at most AddrPartsMax partitions and AddrSectorsMax sectors; a Window PoSt, which loads whole
\* partitions, may therefore name at most this many of them
PostedPartsMax == IF AddrSectorsMax \div PartSize < AddrPartsMax THEN AddrSectorsMax \div PartSize ELSE AddrPartsMax

VARIABLES SM, epoch, last
vars == <<SM, epoch, last>>

P == D * W
Live == {"unproven", "active", "faulty", "recovering"}

\* ---- time (off = the miner's proving-period offset)
QuantDown(e, off) == e - ((e - off) % P)
QuantUp(e, off) == LET r == (e - off) % P IN IF r = 0 THEN e ELSE e + (P - r)
PeriodStart(sm, e) == QuantDown(e, sm.off)
CurDl(sm, e) == (e - PeriodStart(sm, e)) \div W
\* the next not-elapsed occurrence of deadline d
Open(sm, d, e) == LET o == PeriodStart(sm, e) + d * W IN IF e >= o + W THEN o + P ELSE o
LastOf(sm, d, e) == Open(sm, d, e) + W - 1
IsOpen(sm, d, e) == e >= Open(sm, d, e)
Mutable(sm, d, e) == e < Open(sm, d, e) - W
CutoffPassed(sm, d, e) == e >= Open(sm, d, e) - FaultCutoff
\* quantisation of expirations for deadline d: multiples of P aligned with the deadline's last epoch
QExp(sm, d, x) == QuantUp(x, (sm.off + (d + 1) * W - 1) % P)

Nos(sm) == DOMAIN sm.sec
InPart(sm, d, p) == {n \in Nos(sm) : sm.sec[n].d = d /\ sm.sec[n].p = p}
PartsOf(sm, d) == {sm.sec[n].p : n \in {x \in Nos(sm) : sm.sec[x].d = d}}
NParts(sm, d) == IF PartsOf(sm, d) = {} THEN 0 ELSE 1 + (CHOOSE x \in PartsOf(sm, d) : \A y \in PartsOf(sm, d) : y <= x)
St(sm, n) == sm.sec[n].st
Fail(sm) == [ok |-> FALSE, SM |-> sm]

\* the epoch at which a sector leaves: its (quantised) expiration, or earlier if it has been faulty too long
DueAt(sm, n) == LET s == sm.sec[n] q == QExp(sm, s.d, s.exp) IN
                IF s.st \in {"faulty", "recovering"} /\ s.fexp # 0 /\ QExp(sm, s.d, s.fexp) < q THEN QExp(sm, s.d, s.fexp) ELSE q

-----------------------------------------------------------------------------
\* CommitNI(ns, d, exps): non-interactive commit of new sectors straight into deadline d.
\* New sectors fill the deadline's last partition, then open new ones.
RECURSIVE PlaceAll(_, _, _, _, _)
PlaceAll(sm, ns, d, exps, i) ==
  IF i > Len(ns) THEN sm
  ELSE LET np == NParts(sm, d)
           lastp == np - 1
           p == IF np > 0 /\ Cardinality(InPart(sm, d, lastp)) < PartSize THEN lastp ELSE np
           rec == [st |-> "unproven", d |-> d, p |-> p, exp |-> exps[i], fexp |-> 0]
       IN  PlaceAll([sm EXCEPT !.sec = [x \in DOMAIN @ \cup {ns[i]} |-> IF x = ns[i] THEN rec ELSE @[x]]], ns, d, exps, i + 1)

\* (sub-sequence of s at the indices in I, in order)
SelectSeqIdx(s, I) == LET RECURSIVE F(_)
                          F(i) == IF i > Len(s) THEN <<>> ELSE (IF i \in I THEN <<s[i]>> ELSE <<>>) \o F(i + 1)
                      IN  F(1)

RECURSIVE SortIdx(_, _)
SortIdx(ns, I) == IF I = {} THEN <<>>
                  ELSE LET i == CHOOSE x \in I : \A y \in I : ns[x] <= ns[y] IN <<i>> \o SortIdx(ns, I \ {i})
CommitNI(sm, c, ns, d, exps, requireAll, e) ==
  LET okIdx == {i \in 1..Len(ns) : exps[i] - e >= MinLife /\ exps[i] - e <= MaxLife}
      dupOrUsed == \E i \in 1..Len(ns) : ns[i] \in sm.alloc \/ \E j \in 1..Len(ns) : i # j /\ ns[i] = ns[j]
  IN  IF c \notin {"owner", "worker"} \/ Len(ns) = 0 \/ d >= D \/ ~Mutable(sm, d, e) \/ dupOrUsed THEN Fail(sm)
      ELSE IF okIdx = {} \/ (requireAll /\ okIdx # 1..Len(ns)) THEN Fail(sm)
      \* (the accepted sectors are assigned to partitions in order of sector number, not in the order given)
      ELSE LET ord == SortIdx(ns, okIdx)
               sel == [k \in 1..Len(ord) |-> ns[ord[k]]]
               sx == [k \in 1..Len(ord) |-> exps[ord[k]]]
               sm1 == PlaceAll(sm, sel, d, sx, 1)
           IN  [ok |-> TRUE, SM |-> [sm1 EXCEPT !.alloc = @ \cup {ns[i] : i \in 1..Len(ns)}, !.cron = TRUE]]

-----------------------------------------------------------------------------
\* PreCommitSectorBatch2(ns, exps): all or nothing.  A pre-commitment reserves the sector number; the sector will be
\* activated by a proof no later than MaxPC epochs on, so its lifetime is counted from e + MaxPC.
PreNos(sm) == DOMAIN sm.pre
PreCommit(sm, c, ns, exps, e) ==
  LET act == e + MaxPC
      bad(i) == exps[i] <= act \/ exps[i] - act < MinLife \/ exps[i] > e + MaxLife
      dupOrUsed == \E i \in 1..Len(ns) : ns[i] \in sm.alloc \/ \E j \in 1..Len(ns) : i # j /\ ns[i] = ns[j]
  IN  IF c \notin {"owner", "worker"} \/ Len(ns) = 0 \/ dupOrUsed \/ \E i \in 1..Len(ns) : bad(i) THEN Fail(sm)
      ELSE [ok |-> TRUE,
            SM |-> [sm EXCEPT !.pre = [n \in DOMAIN @ \cup {ns[i] : i \in 1..Len(ns)} |->
                                         IF n \in DOMAIN @ THEN @[n]
                                         ELSE [exp |-> exps[CHOOSE i \in 1..Len(ns) : ns[i] = n], at |-> e]],
                             !.alloc = @ \cup {ns[i] : i \in 1..Len(ns)}, !.cron = TRUE]]

\* where a newly proven sector goes (deadline_assignment.rs): among the mutable deadlines the one that is least, in
\* this lexicographic order: partitions needed after compaction if it took the sector, partitions needed as it is,
\* "its last partition is full", (among non-full ones) the fuller one, fewer live sectors, lower index
CeilDiv(a, b) == (a + b - 1) \div b
DlLiveCnt(sm, d) == Cardinality({n \in Nos(sm) : sm.sec[n].d = d /\ St(sm, n) \in Live})
DlTotalCnt(sm, d) == Cardinality({n \in Nos(sm) : sm.sec[n].d = d})
AKey(sm, d) == LET lv == DlLiveCnt(sm, d) tt == DlTotalCnt(sm, d) full == (tt % PartSize = 0) IN
               <<CeilDiv(lv + 1, PartSize), CeilDiv(tt + 1, PartSize), IF full THEN 1 ELSE 0, IF full THEN 0 ELSE 0 - tt, lv, d>>
LexLess(a, b) == \E i \in 1..Len(a) : a[i] < b[i] /\ \A j \in 1..(i - 1) : a[j] = b[j]
BestDl(sm, C) == CHOOSE d \in C : \A x \in C \ {d} : LexLess(AKey(sm, d), AKey(sm, x))
RECURSIVE AssignAll(_, _, _, _, _)
AssignAll(sm, ns, exps, C, i) ==
  IF i > Len(ns) THEN sm
  ELSE AssignAll(PlaceAll(sm, <<ns[i]>>, BestDl(sm, C), <<exps[i]>>, 1), ns, exps, C, i + 1)

\* ProveCommitSectors3(ns) without pieces: every named number must be pre-committed and past its challenge delay
\* (else the whole message fails); a pre-commitment whose proof is overdue is skipped (or fails the message when
\* all must succeed); the proven sectors are assigned, in sector-number order, to the mutable deadlines
ProveCommit(sm, c, ns, requireAll, e) ==
  LET N == {ns[i] : i \in 1..Len(ns)}
      okN == {n \in N \cap PreNos(sm) : e <= sm.pre[n].at + MaxPC}
      C == {d \in 0..(D - 1) : Mutable(sm, d, e)}
  IN  IF c \notin {"owner", "worker"} \/ Len(ns) = 0 \/ ~(N \subseteq PreNos(sm)) \/ Cardinality(N) # Len(ns)
         \/ \E n \in N : e <= sm.pre[n].at + ChalDelay
         \/ okN = {} \/ (requireAll /\ okN # N) \/ C = {}
      THEN Fail(sm)
      ELSE LET ord == SortIdx(ns, {i \in 1..Len(ns) : ns[i] \in okN})
               sel == [k \in 1..Len(ord) |-> ns[ord[k]]]
               sx == [k \in 1..Len(ord) |-> sm.pre[ns[ord[k]]].exp]
               sm1 == AssignAll(sm, sel, sx, C, 1)
           IN  [ok |-> TRUE, SM |-> [sm1 EXCEPT !.pre = [n \in DOMAIN @ \ okN |-> @[n]]]]

-----------------------------------------------------------------------------
\* SubmitWindowedPoSt(d, parts) with parts = Seq of [i : partition, skipped : SUBSET n]
PoStOne(sm, d, pt, e) ==
  LET S == InPart(sm, d, pt.i)
      live == {n \in S : St(sm, n) \in Live}
      newf == {n \in pt.skipped \cap live : St(sm, n) \in {"unproven", "active"}}
      fe == LastOf(sm, d, e) + FaultMaxAge
  IN  [sm EXCEPT !.sec = [n \in DOMAIN @ |->
         IF n \notin live THEN @[n]
         ELSE IF n \in newf THEN [@[n] EXCEPT !.st = "faulty", !.fexp = fe]
         ELSE IF n \in pt.skipped /\ St(sm, n) = "recovering" THEN [@[n] EXCEPT !.st = "faulty"]
         ELSE IF St(sm, n) = "recovering" THEN [@[n] EXCEPT !.st = "active", !.fexp = 0]
         ELSE IF St(sm, n) = "unproven" THEN [@[n] EXCEPT !.st = "active"]
         ELSE @[n]],
       !.posted[d] = @ \cup {pt.i}]
RECURSIVE PoStFold(_, _, _, _, _)
PoStFold(sm, d, parts, i, e) == IF i > Len(parts) THEN sm ELSE PoStFold(PoStOne(sm, d, parts[i], e), d, parts, i + 1, e)

CanPoSt(sm, c, d, parts, proofOK, e) ==
  /\ c \in {"owner", "worker"} /\ d < D /\ Len(parts) > 0 /\ Len(parts) <= PostedPartsMax
  /\ e >= PeriodStart(sm, e) /\ CurDl(sm, e) = d
  /\ \A i, j \in 1..Len(parts) : i # j => parts[i].i # parts[j].i
  /\ \A i \in 1..Len(parts) :
        /\ parts[i].i < NParts(sm, d) /\ parts[i].i \notin sm.posted[d]
        /\ parts[i].skipped \subseteq InPart(sm, d, parts[i].i)
  \* something must remain to be proven
  /\ LET after == PoStFold(sm, d, parts, 1, e)
         proven == UNION {{n \in InPart(after, d, parts[i].i) : St(after, n) = "active"} : i \in 1..Len(parts)}
         recovered == UNION {{n \in InPart(sm, d, parts[i].i) : St(sm, n) = "recovering" /\ St(after, n) = "active"} : i \in 1..Len(parts)}
     IN  proven # {} /\ (recovered # {} => proofOK)
PoSt(sm, c, d, parts, proofOK, e) ==
  IF CanPoSt(sm, c, d, parts, proofOK, e) THEN [ok |-> TRUE, SM |-> PoStFold(sm, d, parts, 1, e)] ELSE Fail(sm)

-----------------------------------------------------------------------------
\* DeclareFaults / DeclareFaultsRecovered / TerminateSectors: decls = Seq of [d, p, s : SUBSET n]
DeclParts(decls) == {<<decls[i].d, decls[i].p>> : i \in 1..Len(decls)}
DeclAt(decls, dp) == UNION {decls[i].s : i \in {j \in 1..Len(decls) : <<decls[j].d, decls[j].p>> = dp}}
RECURSIVE SumCards(_, _)
SumCards(decls, dps) == IF dps = {} THEN 0 ELSE LET dp == CHOOSE x \in dps : TRUE IN Cardinality(DeclAt(decls, dp)) + SumCards(decls, dps \ {dp})
DeclOK(sm, decls) == /\ \A i \in 1..Len(decls) : decls[i].d < D /\ decls[i].p < NParts(sm, decls[i].d)
                                               /\ decls[i].s \subseteq InPart(sm, decls[i].d, decls[i].p)
                     /\ Cardinality(DeclParts(decls)) <= AddrPartsMax
                     /\ SumCards(decls, DeclParts(decls)) <= AddrSectorsMax

RECURSIVE FaultFold(_, _, _, _)
FaultFold(sm, decls, i, e) ==
  IF i > Len(decls) THEN sm
  ELSE LET dc == decls[i]
           fe == LastOf(sm, dc.d, e) + FaultMaxAge
       IN  FaultFold([sm EXCEPT !.sec = [n \in DOMAIN @ |->
                        IF n \in dc.s /\ St(sm, n) \in {"unproven", "active"} THEN [@[n] EXCEPT !.st = "faulty", !.fexp = fe]
                        ELSE IF n \in dc.s /\ St(sm, n) = "recovering" THEN [@[n] EXCEPT !.st = "faulty"]
                        ELSE @[n]]], decls, i + 1, e)
DeclareFaults(sm, c, decls, e) ==
  IF c \notin {"owner", "worker"} \/ ~DeclOK(sm, decls)
     \/ \E i \in 1..Len(decls) : CutoffPassed(sm, decls[i].d, e)
  \* (a terminated sector named in a declaration is ignored, not rejected: record_faults subtracts the terminated set)
  THEN Fail(sm) ELSE [ok |-> TRUE, SM |-> FaultFold(sm, decls, 1, e)]

RECURSIVE RecFold(_, _, _)
RecFold(sm, decls, i) ==
  IF i > Len(decls) THEN sm
  ELSE RecFold([sm EXCEPT !.sec = [n \in DOMAIN @ |->
                  IF n \in decls[i].s /\ St(sm, n) = "faulty" THEN [@[n] EXCEPT !.st = "recovering"] ELSE @[n]]], decls, i + 1)
DeclareRecovered(sm, c, decls, e) ==
  IF c \notin {"owner", "worker"} \/ ~DeclOK(sm, decls)
     \/ \E i \in 1..Len(decls) : CutoffPassed(sm, decls[i].d, e)
  THEN Fail(sm) ELSE [ok |-> TRUE, SM |-> RecFold(sm, decls, 1)]

RECURSIVE TermFold(_, _, _)
TermFold(sm, decls, i) ==
  IF i > Len(decls) THEN sm
  ELSE TermFold([sm EXCEPT !.sec = [n \in DOMAIN @ |->
                   IF n \in decls[i].s /\ St(sm, n) \in Live THEN [@[n] EXCEPT !.st = "term", !.fexp = 0] ELSE @[n]]], decls, i + 1)
\* the termination fee is processed in the same call (the pending set is emptied again)
Terminate(sm, c, decls, e) ==
  IF c \notin {"owner", "worker"} \/ ~DeclOK(sm, decls) \/ Len(decls) = 0
     \/ \E i \in 1..Len(decls) : ~Mutable(sm, decls[i].d, e) \/ decls[i].s = {} \/ \E n \in decls[i].s : St(sm, n) = "term"
  THEN Fail(sm) ELSE [ok |-> TRUE, SM |-> TermFold(sm, decls, 1)]

\* ExtendSectorExpiration2 (no claims): decls = Seq of [d, p, s, exp]
RECURSIVE ExtFold(_, _, _)
ExtFold(sm, decls, i) ==
  IF i > Len(decls) THEN sm
  ELSE ExtFold([sm EXCEPT !.sec = [n \in DOMAIN @ |-> IF n \in decls[i].s THEN [@[n] EXCEPT !.exp = decls[i].exp] ELSE @[n]]], decls, i + 1)
Extend(sm, c, decls, e) ==
  IF c \notin {"owner", "worker"} \/ ~DeclOK(sm, decls)
     \/ \E i \in 1..Len(decls) :
          \/ decls[i].s = {}
          \* (the minimum lifetime counts from activation, so it cannot be violated by an extension)
          \* (a sector whose expiration epoch has passed but whose deadline has not yet closed cannot be extended)
          \/ \E n \in decls[i].s : St(sm, n) # "active" \/ decls[i].exp < sm.sec[n].exp \/ decls[i].exp - e > MaxLife
                                     \/ sm.sec[n].exp < e
  THEN Fail(sm) ELSE [ok |-> TRUE, SM |-> ExtFold(sm, decls, 1)]

-----------------------------------------------------------------------------
\* the proving-deadline cron callback at the last epoch e of deadline d (runs while cron is active)
DeadlineEnd(sm, e) ==
  LET d == CurDl(sm, e)
      fe == e + FaultMaxAge
      \* partitions not posted: every live sector becomes faulty (unless all are already faulty and none recovering)
      missed(p) == p \notin sm.posted[d] /\ \E n \in InPart(sm, d, p) : St(sm, n) \in {"unproven", "active", "recovering"}
      sm1 == [sm EXCEPT !.sec = [n \in DOMAIN @ |->
                IF @[n].d = d /\ St(sm, n) \in Live /\ missed(@[n].p)
                THEN [@[n] EXCEPT !.st = "faulty", !.fexp = IF St(sm, n) \in {"unproven", "active"} THEN fe ELSE @]
                ELSE @[n]]]
      \* sectors due: on-time expiry or fault time-out
      gone == {n \in Nos(sm1) : sm1.sec[n].d = d /\ St(sm1, n) \in Live /\ DueAt(sm1, n) <= e}
      sm2 == [sm1 EXCEPT !.sec = [n \in DOMAIN @ |-> IF n \in gone THEN [@[n] EXCEPT !.st = "term", !.fexp = 0] ELSE @[n]],
                         !.posted[d] = {}]
  IN  sm2   \* (the cron stays enrolled while the miner holds funds; the creation deposit vests for 180 days)

\* one epoch passes: the cron fires at the last epoch of each deadline while the miner's cron is active
TickOne(sm, e) == IF sm.cron /\ e >= sm.off /\ (e - PeriodStart(sm, e)) % W = W - 1 THEN DeadlineEnd(sm, e) ELSE sm
RECURSIVE TickN(_, _, _)
TickN(sm, e, n) == IF n = 0 THEN sm ELSE TickN(TickOne(sm, e), e + 1, n - 1)

\* what can be observed of SM in the real state: per sector status, place, expiration and the epoch of
\* the expiration-queue entry it sits in
Abs(sm) == [sec |-> [n \in Nos(sm) |-> [st |-> St(sm, n), d |-> sm.sec[n].d, p |-> sm.sec[n].p,
                                         exp |-> IF St(sm, n) = "term" THEN 0 ELSE sm.sec[n].exp,
                                         due |-> IF St(sm, n) \in Live THEN DueAt(sm, n) ELSE 0]],
            \* (whether the deadline cron keeps running depends on the miner's money -- it stops once nothing is
            \* pledged, deposited or vesting -- which this model does not have: not compared)
            posted |-> sm.posted, alloc |-> sm.alloc, pre |-> sm.pre]

-----------------------------------------------------------------------------
(* design-level invariants checked by TLC on the bounded model (MC_Sectors) *)
ActiveSet(sm) == {n \in Nos(sm) : St(sm, n) = "active"}
\* power is credited only to sectors covered by a PoSt and currently healthy
PowerOnlyAfterPoSt == \A n \in Nos(SM) : St(SM, n) = "active" => n \in SM.alloc
PartitionsBounded == \A n \in Nos(SM) : Cardinality(InPart(SM, SM.sec[n].d, SM.sec[n].p)) <= PartSize
FaultsHaveExpiry == \A n \in Nos(SM) : St(SM, n) \in {"faulty", "recovering"} => SM.sec[n].fexp > 0
NothingOverdue == \A n \in Nos(SM) : (St(SM, n) \in Live /\ SM.cron) => DueAt(SM, n) + P >= epoch
TypeOK == /\ \A n \in Nos(SM) : St(SM, n) \in Live \cup {"term"} /\ SM.sec[n].d \in 0..(D - 1)
          /\ Nos(SM) \subseteq SM.alloc /\ PreNos(SM) \subseteq SM.alloc
          \* a number is a pre-commitment or a sector, never both
          /\ PreNos(SM) \cap Nos(SM) = {}
=============================================================================
