CHECK_DEADLOCK FALSE
