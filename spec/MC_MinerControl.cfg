SPECIFICATION MCSpec
CONSTANTS WorkerDelay = 2
          WorkerOK = {"w1", "w2"}
          Principals = {"o1", "o2", "b1", "s"}
          Workers = {"w1", "w2"}
          Bens = {"o1", "o2", "b1"}
          MaxEpoch = 3
          ExportLen = 0
          Quotas = {0, 2}
          Exps = {0, 2}
CONSTRAINT Bound
VIEW View
ACTION_CONSTRAINT Tour
PROPERTY StepOK
CHECK_DEADLOCK FALSE
