----------------------------- MODULE Trace_EVM -----------------------------
(***************************************************************************)
(* Trace validation for the EVM interpreter (harness/drivers/src/evm*.rs). *)
(* Every recorded program is re-executed by EVM.tla step by step and       *)
(* compared with what the REAL interpreter did at every step (pc, opcode,  *)
(* stack depth and content, memory size) and at the end (outcome class,    *)
(* return / revert data, final storage).                                   *)
(*                                                                         *)
(* C17: the property IS agreement with the specified function, so the      *)
(*   first disagreement of a run prints                                    *)
(*      <<"VIOL", "C17", formula, line, tag, event, ...>>                  *)
(*   with formula in StepExtra, StepPc, StepOp, StepDepth, StepStack,      *)
(*   StepMsize, Outcome, ReturnData, Storage, StorageApi, Deploy.          *)
(* C18: bounds that must hold on every recorded step whether or not the    *)
(*   specification can follow the program (StackBound, MemBound, JumpDest),*)
(*   and NoPanic, NoHang, OutcomeClass at the end of every run.            *)
(*                                                                         *)
(* Refinement mapping (where the actor legitimately differs in shape):     *)
(*  - a taken JUMP/JUMPI continues AFTER the JUMPDEST (the actor fuses the *)
(*    two instructions), so the JUMPDEST at a jump target is executed      *)
(*    silently;                                                            *)
(*  - running off the end of the code is the Yellow Paper's implicit STOP, *)
(*    which the actor's loop does not report as a step;                    *)
(*  - the step budget ("fuel") of the harness stands for gas.              *)
(*                                                                         *)
(* Programs are independent, so every program is its own TLC initial state *)
(* (a chain of states, one per event): several TLC workers validate them   *)
(* in parallel.  Acceptance = every line of the file was consumed.         *)
(***************************************************************************)
EXTENDS EVM, Json, IOUtils

CONSTANT KeccakKnown   \* 1: the VM's keccak-256 passed the driver's self-test, so the two digests built into
                       \* EVM!KMap0 are checked too; 0: the hash is treated as wholly uninterpreted

VARIABLES l,        \* the line (event) to be consumed next
          hdr,      \* the line of this run's header
          mode,     \* "cmp": spec and trace agree so far | "lost": a disagreement was reported |
                    \* "off": the program left the specified instruction set / was not to be compared
          nsteps,   \* recorded steps consumed in this run
          calls     \* TRUE once a call-like instruction was recorded (other frames may follow)

tvars == <<prog, mach, l, hdr, mode, nsteps, calls>>

Rec == ndJsonDeserialize(IOEnv.TRACE)
Starts == {i \in 1..Len(Rec) : Rec[i].ev \in {"Init", "Reset"}}
IsStep(e) == e.ev \notin {"Init", "Reset", "End"}

\* a logged word: big-endian bytes without leading zero bytes
W(s) == TLCEval([i \in 1..32 |-> IF i <= 32 - Len(s) THEN 0 ELSE s[i - (32 - Len(s))]])
ToStorage(arr) == LET ks == {W(arr[i][1]) : i \in 1..Len(arr)} IN
                  [k \in ks |-> W(arr[(CHOOSE j \in 1..Len(arr) : W(arr[j][1]) = k)][2])]

\* Keep the printed tuple short: TLC wraps values longer than 80 columns over several lines and the
\* checker reads VIOL lines one per line.  `a` must be a short scalar (never a message string).
Viol(prop, name, e, a, b) == PrintT(<<"VIOL", prop, name, l, "-", a>>)
\* IF, not a disjunction: TLC explores every disjunct of an action (and would print regardless)
Chk(cond, prop, name, e, a, b) == IF cond THEN TRUE ELSE Viol(prop, name, e, a, b)

-----------------------------------------------------------------------------
(* the specification's run, in the shape the actor reports it *)

\* implicit STOP at the end of the code
Settle(p, m) == IF Running(m) /\ m.pc >= Len(p.code) THEN Exec(p, m, NoHint) ELSE m
\* one recorded step: the instruction, the silently executed JUMPDEST after a taken jump, implicit STOP
Taken(p, m) == LET op == CodeAt(p.code, m.pc) IN
               \/ op = OpJUMP
               \/ op = OpJUMPI /\ Len(m.stack) >= 2 /\ ~WIsZero(S(m, 1))
ObsExec(p, m, hint) ==
  LET m1 == Exec(p, m, hint)
      m2 == IF Running(m1) /\ Taken(p, m) THEN Exec(p, m1, NoHint) ELSE m1
  IN  Settle(p, m2)

\* the class the harness reports for the specification's final status
ClassOf(st) == CASE st \in {"stop", "return"} -> "ok" [] OTHER -> st

\* the digest the real interpreter pushed for a KECCAK256 (it is the top of the next recorded stack)
HintAt(i) == IF i <= Len(Rec) /\ IsStep(Rec[i]) /\ Rec[i].d >= 1
             THEN W(Rec[i].stk[Len(Rec[i].stk)]) ELSE NoHint

-----------------------------------------------------------------------------
(* C18 bounds on one recorded step e (line i), independent of the specification's run *)
CallLike == {OpCREATE, OpCALL, OpCALLCODE, OpDELEGATECALL, OpCREATE2, OpSTATICCALL}

StepBounds(e, i) ==
  /\ Chk(e.d <= StackLimit, "C18", "StackBound", e, e.d, StackLimit)
  /\ Chk(e.ms <= MemCap /\ e.ms % 32 = 0, "C18", "MemBound", e, e.ms, MemCap)
  /\ IF calls \/ e.op \in CallLike \/ ~IsStep(Rec[i + 1]) THEN TRUE
     ELSE LET nx == Rec[i + 1]
              k  == Len(e.stk)
              jumps == \/ e.op = OpJUMP /\ e.d >= 1
                       \/ e.op = OpJUMPI /\ e.d >= 2 /\ ~WIsZero(W(e.stk[k - 1]))
          IN  IF jumps
              THEN LET d == Small(W(e.stk[k])) IN
                   Chk(d # -1 /\ d \in prog.jd /\ nx.pc = d + 1, "C18", "JumpDest", e, d, nx.pc)
              ELSE IF e.op = OpJUMPI /\ e.d >= 2
              THEN Chk(nx.pc = e.pc + 1, "C18", "JumpDest", e, e.pc, nx.pc)
              ELSE TRUE

-----------------------------------------------------------------------------
(* C17: compare the specification's state with a recorded step; "" = agreement *)
StackAgrees(m, e) ==
  LET k == Len(e.stk) n == Len(m.stack) IN
  \A j \in 1..k : m.stack[n - k + j] = W(e.stk[j])

StepDiff(m, e, fuel) ==
  IF ~Running(m) \/ nsteps >= fuel THEN "StepExtra"
  ELSE IF m.pc # e.pc THEN "StepPc"
  ELSE IF CodeAt(prog.code, m.pc) # e.op THEN "StepOp"
  ELSE IF Len(m.stack) # e.d THEN "StepDepth"
  ELSE IF ~StackAgrees(m, e) THEN "StepStack"
  ELSE IF m.msize # e.ms THEN "StepMsize"
  ELSE ""

\* what the specification expects at the end of the run
Expected(m, h) ==
  IF Running(m) THEN (IF nsteps >= h.fuel THEN "fuel" ELSE "running")
  ELSE IF h.kind = "init" /\ m.status \in {"stop", "return"} /\ ~DeployOK(m.output) THEN "illegal_argument"
  ELSE ClassOf(m.status)

AllowedClasses == {"ok", "revert", "invalid", "undefined", "underflow", "overflow", "mem", "badjump",
                   "fuel", "memcap", "selfdestruct_failed"}

\* the run, as far as the specification can follow it, against the recorded end of the run
EndAgrees(e, h) ==
  LET x == Expected(mach, h) IN
  IF x # e.class
  THEN /\ Viol("C17", "Outcome", e, x, e.class)
       /\ Viol("C18", "OutcomeClass", e, x, e.class)
       /\ Chk(e.class # "fuel", "C18", "NoHang", e, x, e.steps)
       \* the specification stopped the frame for a state change in a static context; the code did not
       /\ Chk(x # "readonly", "C18", "StaticNoEffect", e, x, e.class)
  ELSE /\ Chk(e.class \notin {"ok", "revert"} \/ mach.output = e.out,
              "C17", "ReturnData", e, Len(mach.output), Len(e.out))
       /\ Chk(h.kind = "static" \/
              ToStorage(e.storage) = (IF e.class = "ok" THEN mach.storage ELSE ToStorage(h.storage0)),
              "C17", "Storage", e, Len(e.storage), Cardinality(DOMAIN mach.storage))
       /\ Chk(e.stok, "C17", "StorageApi", e, "-", "-")

TEnd(e, h) ==
  /\ Chk(~e.panicked /\ e.class # "panic", "C18", "NoPanic", e, e.code, "-")
  /\ Chk(\/ e.class \in {"undeployable", "uncreated"}
         \/ e.class \in AllowedClasses
         \/ (h.kind = "init" /\ e.class = "illegal_argument")
         \/ (h.kind = "static" /\ e.class \in {"readonly", "unreached", "outside"}),
         "C18", "OutcomeClass", e, e.class, e.code)
  /\ IF h.kind = "static"
     THEN \* nothing in the state tree changed and no event was emitted during the whole message
          /\ Chk(e.same_state /\ e.same_bal /\ e.same_actors /\ e.events = 0,
                 "C18", "StaticNoEffect", e, e.events, e.class)
          \* what the caller saw is consistent with how the frame ended
          /\ Chk(e.flag = -1 \/ e.class \in {"unreached", "outside"} \/ ((e.flag = 1) <=> (e.class = "ok")),
                 "C18", "OutcomeClass", e, e.flag, e.class)
     ELSE TRUE
  /\ IF e.class = "undeployable"
     THEN Chk(~DeployOK(prog.code), "C17", "Deploy", e, Len(prog.code), "-")
     ELSE IF e.class \in {"uncreated", "unreached", "outside"} THEN TRUE
     ELSE IF mode # "cmp"
     THEN \* the specification did not follow this run to the end: a budget exhaustion is accepted only
          \* if the interpreter really used its whole budget
          Chk(e.class = "fuel" => e.steps >= h.fuel, "C18", "NoHang", e, e.steps, h.fuel)
     ELSE EndAgrees(e, h)

-----------------------------------------------------------------------------
TInit ==
  \E i \in Starts :
    LET h == Rec[i] IN
    /\ hdr = i /\ l = i + 1
    /\ prog = MkProg(h.code, h.calldata, h.static)
    /\ mach = Settle(MkProg(h.code, h.calldata, h.static),
                     [InitMach EXCEPT !.kmap = IF KeccakKnown = 1 THEN KMap0 ELSE <<>>,
                                      !.storage = ToStorage(h.storage0)])
    /\ mode = IF h.cmp THEN "cmp" ELSE "off"
    /\ nsteps = 0 /\ calls = FALSE

TStep ==
  /\ l <= Len(Rec) /\ Rec[l].ev \notin {"Init", "Reset"}
  /\ l' = l + 1 /\ UNCHANGED <<prog, hdr>>
  /\ LET e == Rec[l] h == Rec[hdr] IN
     IF IsStep(e)
     THEN /\ StepBounds(e, l)
          /\ nsteps' = nsteps + 1
          /\ calls' = (calls \/ e.op \in CallLike)
          /\ IF mode # "cmp" THEN UNCHANGED <<mach, mode>>
             ELSE LET diff == StepDiff(mach, e, h.fuel) IN
                  IF diff # ""
                  THEN /\ Viol("C17", diff, e, mach.pc, mach.status)
                       /\ Chk(mach.status # "readonly", "C18", "StaticNoEffect", e, mach.pc, mach.status)
                       /\ mode' = "lost" /\ UNCHANGED mach
                  ELSE LET m1 == ObsExec(prog, mach, HintAt(l + 1)) IN
                       /\ mach' = m1
                       /\ mode' = IF m1.status = "unsupported" THEN "off" ELSE "cmp"
     ELSE /\ TEnd(e, h)
          /\ UNCHANGED <<mach, mode, nsteps, calls>>

TSpec == TInit /\ [][TStep]_tvars

\* every line of the file was consumed exactly once (one state per line)
Accepted ==
  \/ TLCGet("distinct") = Len(Rec)
  \/ PrintT(<<"UNMATCHED", TLCGet("distinct"), Len(Rec)>>) /\ FALSE
=============================================================================
