SPECIFICATION MCSpec
CONSTANTS Holders = {"c1", "c2", "v1", "v2", "vr", "x"}
          Root = "root"
          MinerSet = {"m1", "m2"}
          MinSize = 256
          MinTerm = 10
          MaxTerm = 20
          MaxExp = 5
          MaxEpoch = 13
          MaxNext = 2
          ExportLen = 0
          Rich = FALSE
CONSTRAINT Bound
VIEW View
INVARIANT Inv
PROPERTY StepOK
ACTION_CONSTRAINT Tour
CHECK_DEADLOCK FALSE
