---------------------------- MODULE MC_VerifReg ----------------------------
EXTENDS VerifReg, Json, Randomization
CONSTANTS MaxEpoch, MaxNext, ExportLen, Rich
VARIABLE hist
mcvars == <<vars, hist>>

Clients == {"c1", "c2"}
Verifs == {"v1", "v2"}
Datas == {"dA", "dB"}
Blank == [ok |-> TRUE]
AllocReqs == {[provider |-> p, data |-> d, size |-> MinSize, tmin |-> MinTerm, tmax |-> MinTerm + x, exp |-> ex] :
                p \in {"m1"} \cup (IF Rich THEN {"m2", "c1"} ELSE {}), d \in (IF Rich THEN Datas ELSE {"dA"}),
                x \in {0, 2}, ex \in (IF Rich THEN {epoch - 1, epoch, epoch + 1, epoch + MaxExp + 1} ELSE {epoch, epoch + 1})}
Ids == 1..MaxNext
ExtReqs == {[provider |-> "m1", claim |-> i, tmax |-> t] : i \in Ids, t \in {MinTerm + 3, MaxTerm + 5}}
ClaimItems == {[client |-> c, id |-> i, data |-> d, size |-> MinSize] : c \in (IF Rich THEN Clients ELSE {"c1"}), i \in Ids,
                 d \in (IF Rich THEN Datas ELSE {"dA"})}
SectorGroups == {<<[sector |-> 1, expiry |-> epoch + x, claims |-> <<k>>]>> : k \in ClaimItems, x \in {MinTerm, MinTerm + 2, MinTerm + 9}}
         \cup {<<[sector |-> 1, expiry |-> epoch + MinTerm, claims |-> <<k1, k2>>]>> : k1, k2 \in {q \in ClaimItems : q.data = "dA" /\ q.client = "c1"}}
         \* two sector groups in one call (both may succeed: the burn must cover the sum), also with the same
         \* allocation in both, and a group without claims after one with a claim
         \cup {<<[sector |-> 1, expiry |-> epoch + MinTerm, claims |-> <<kk[1]>>],
                 [sector |-> 2, expiry |-> epoch + MinTerm, claims |-> <<kk[2]>>]>> :
                    kk \in {pr \in {q \in ClaimItems : q.data = "dA" /\ q.client = "c1"} \X {q \in ClaimItems : q.data = "dA" /\ q.client = "c1"} :
                              Rich \/ <<pr[1].id, pr[2].id>> \in {<<1, 2>>, <<1, 1>>}}}
         \cup {<<[sector |-> 1, expiry |-> epoch + MinTerm, claims |-> <<k1>>],
                 [sector |-> 2, expiry |-> epoch + MinTerm, claims |-> <<>>]>> :
                    k1 \in {q \in ClaimItems : q.data = "dA" /\ q.client = "c1" /\ q.id = 1}}
IdSeqs == {<<>>} \cup {<<i>> : i \in Ids} \cup {<<p[1], p[2]>> : p \in {q \in Ids \X Ids : q[1] < q[2]}}
Calls ==
     {Blank @@ [a |-> "AddVerifier", c |-> c, v |-> v, amt |-> am] : c \in {Root, "c1"}, v \in (IF Rich THEN Verifs \cup {"c1"} ELSE {"v1", "c1"}), am \in (IF Rich THEN {MinSize - 1, 2 * MinSize} ELSE {2 * MinSize})}
  \cup {Blank @@ [a |-> "RemoveVerifier", c |-> c, v |-> v] : c \in {Root, "v1"}, v \in {"v1"}}
  \cup {Blank @@ [a |-> "AddClient", c |-> c, cl |-> cl, amt |-> am] : c \in (IF Rich THEN Verifs \cup {"c1"} ELSE {"v1", "c1"}), cl \in (IF Rich THEN Clients \cup {"v2", "m1"} ELSE {"c1", "v1", "m1"}), am \in (IF Rich THEN {MinSize, 2 * MinSize} ELSE {2 * MinSize})}
  \cup {Blank @@ [a |-> "RemoveDataCap", c |-> Root, cl |-> "c1", amt |-> MinSize, v1 |-> "v1", v2 |-> v2, sig1OK |-> TRUE, sig2OK |-> s2, removed |-> 0] :
          v2 \in (IF Rich THEN Verifs ELSE {}), s2 \in BOOLEAN}
  \cup {Blank @@ [a |-> "Transfer", c |-> c, to |-> to, amt |-> am, allocs |-> al, exts |-> ex, ids |-> <<>>] :
          c \in (IF Rich THEN Clients ELSE {"c1"}), to \in {Reg} \cup (IF Rich THEN {"c2"} ELSE {}), am \in {MinSize, 2 * MinSize},
          al \in {<<>>} \cup {<<r>> : r \in AllocReqs} \cup {<<r, r>> : r \in AllocReqs},
          ex \in {<<>>} \cup {<<x>> : x \in ExtReqs}}
  \cup {Blank @@ [a |-> "Claim", m |-> m, sectors |-> sg, aon |-> aon, res |-> <<>>] :
          m \in {"m1"} \cup (IF Rich THEN {"m2", "c1"} ELSE {}), sg \in SectorGroups, aon \in BOOLEAN}
  \cup {Blank @@ [a |-> "RemoveExpiredAllocs", c |-> "x", cl |-> cl, ids |-> q, removed |-> {}] : cl \in (IF Rich THEN Clients ELSE {"c1"}), q \in IdSeqs}
  \cup {Blank @@ [a |-> "ExtendClaimTerms", c |-> c, terms |-> <<[provider |-> "m1", claim |-> i, tmax |-> t]>>, res |-> <<>>] :
          c \in (IF Rich THEN Clients ELSE {"c1"}), i \in Ids, t \in {MinTerm, MinTerm + 4, MaxTerm + 1}}
  \cup {Blank @@ [a |-> "RemoveExpiredClaims", c |-> "x", p |-> "m1", ids |-> q, removed |-> {}] : q \in IdSeqs}

Do(vr, call, e) ==
  CASE call.a = "AddVerifier" -> AddVerifier(vr, call.c, call.v, call.amt)
    [] call.a = "RemoveVerifier" -> RemoveVerifier(vr, call.c, call.v)
    [] call.a = "AddClient" -> AddClient(vr, call.c, call.cl, call.amt)
    [] call.a = "RemoveDataCap" -> RemoveDataCap(vr, call.c, call.cl, call.amt, call.v1, call.v2, call.sig1OK, call.sig2OK)
    [] call.a = "Transfer" -> Transfer(vr, call.c, call.to, call.amt, call.allocs, call.exts, e)
    [] call.a = "Claim" -> Claim(vr, call.m, call.sectors, call.aon, e)
    [] call.a = "RemoveExpiredAllocs" -> RemoveExpiredAllocs(vr, call.cl, call.ids, e)
    [] call.a = "ExtendClaimTerms" -> ExtendClaimTerms(vr, call.c, call.terms)
    [] call.a = "RemoveExpiredClaims" -> RemoveExpiredClaims(vr, call.p, call.ids, e)
Filled(call, r) ==
  CASE call.a = "RemoveDataCap" -> [call EXCEPT !.ok = r.ok, !.removed = r.removed]
    [] call.a = "Transfer" -> [call EXCEPT !.ok = r.ok, !.ids = r.ids]
    [] call.a \in {"Claim", "ExtendClaimTerms"} -> [call EXCEPT !.ok = r.ok, !.res = r.res]
    [] call.a \in {"RemoveExpiredAllocs", "RemoveExpiredClaims"} -> [call EXCEPT !.ok = r.ok, !.removed = r.removed]
    [] OTHER -> [call EXCEPT !.ok = r.ok]
CallStep(call) ==
  LET r == Do(VR, call, epoch) l == Filled(call, r) IN
  /\ VR' = r.VR /\ last' = l /\ G' = GhostNext(G, VR, r.VR, l) /\ hist' = Append(hist, l) /\ UNCHANGED epoch
\* (bounded model: single epochs only right at the start and after the long jump -- the time points at which
\* allocations expire and claim terms begin and end; the simulation config steps freely)
TickStep == \E n \in (IF Rich THEN {1, 2, MinTerm} ELSE (IF epoch < 2 \/ epoch > MinTerm THEN {1} ELSE {}) \cup {MinTerm + 1}) :
                                       /\ epoch' = epoch + n /\ UNCHANGED <<VR, G>>
                                       /\ last' = [a |-> "Tick", ok |-> TRUE, n |-> n] /\ hist' = Append(hist, last')
MCNext == (\E call \in Calls : CallStep(call)) \/ TickStep
SimNext == \/ \E call \in RandomSubset(30, Calls) : Do(VR, call, epoch).ok /\ CallStep(call)
           \/ \E call \in RandomSubset(30, Calls) : Do(VR, call, epoch).ok /\ CallStep(call)
           \/ \E call \in RandomSubset(2, Calls) : ~Do(VR, call, epoch).ok /\ CallStep(call)
           \/ TickStep
MCInit ==
  /\ VR = [verifiers |-> <<>>, tok |-> [h \in Holders |-> 0], supply |-> 0, allocs |-> <<>>, claims |-> <<>>, next |-> 1]
  /\ epoch = 0 /\ G = [minted |-> 0, burnt |-> 0, spent |-> {}]
  /\ last = [a |-> "Init", ok |-> TRUE] /\ hist = <<>> /\ TLCSet(42, {})
MCSpec == MCInit /\ [][MCNext]_mcvars
SimSpec == MCInit /\ [][SimNext]_mcvars
Bound == epoch <= MaxEpoch /\ VR.next <= MaxNext + 1 /\ G.minted <= 2 * MinSize
View == <<VR, epoch, G>>
Inv == StateInv(VR, G)
StepOK == [][StepProps]_mcvars
Alpha(vr, e) == <<DOMAIN vr.verifiers, {h \in DOMAIN vr.tok : vr.tok[h] > 0},
                  [i \in DOMAIN vr.allocs |-> <<e < vr.allocs[i].exp, e = vr.allocs[i].exp>>],
                  [i \in DOMAIN vr.claims |-> e >= vr.claims[i].tstart + vr.claims[i].tmax]>>
ArgClass(l) ==
  CASE l.a = "Transfer" -> <<l.c, l.to, Len(l.allocs), Len(l.exts), l.ids>>
    [] l.a = "Claim" -> <<l.m, l.aon, l.res, [k \in 1..Len(l.sectors) |-> Len(l.sectors[k].claims)]>>
    [] l.a \in {"RemoveExpiredAllocs", "RemoveExpiredClaims"} -> <<l.ids, l.removed>>
    [] l.a = "ExtendClaimTerms" -> <<l.c, l.res>>
    [] l.a = "AddClient" -> <<l.c, l.cl>>
    [] l.a \in {"AddVerifier", "RemoveVerifier"} -> <<l.c, l.v>>
    [] OTHER -> "-"
Tour ==
  IF last'.a \in {"Init", "Tick"} THEN TRUE
  ELSE LET sig == ToString(<<Alpha(VR, epoch), last'.a, ArgClass(last'), last'.ok>>)
       IN  IF sig \in TLCGet(42) THEN TRUE
           ELSE TLCSet(42, TLCGet(42) \cup {sig}) /\ PrintT(<<"REPLAY", ToJson([sig |-> sig, calls |-> hist'])>>)
Export == Len(hist) # ExportLen \/ PrintT(<<"REPLAY", ToJson(hist)>>)
=============================================================================
