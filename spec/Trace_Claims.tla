---------------------------- MODULE Trace_Claims ----------------------------
(* Trace validation of the real datacap + verified registry + miner + power + cron actors against
   Claims.tla (harness/drivers/src/claims.rs records the trace).
   VR / SM hold the OBSERVED state after every event (the miner lifted into the model's form: verified space =
   weight / duration, "term" = in the partition's terminated set, first-proof epoch of a still unproven sector =
   the next opening of its deadline); G = ghost (the pieces of pre-committed sectors, which the chain does not
   record; the ids dropped so far and the previous power claim).
   Layer P (C10): VIOL lines.  Layer R: the real verdict / results / post-state = the model's (DRIFT lines). *)
EXTENDS Claims, Json, IOUtils
VARIABLE l
Rec == ndJsonDeserialize(IOEnv.TRACE)
ToSet(arr) == {arr[i] : i \in 1..Len(arr)}
ToMap(arr, K(_), V(_)) ==
  LET ks == {K(arr[i]) : i \in 1..Len(arr)}
  IN  [k \in ks |-> LET i == CHOOSE j \in 1..Len(arr) : K(arr[j]) = k IN V(arr[i])]
ToVR(s) == [verifiers |-> ToMap(s.verifiers, LAMBDA x : x[1], LAMBDA x : x[2]), tok |-> s.tok, supply |-> s.supply,
            allocs |-> ToMap(s.allocs, LAMBDA x : x.id, LAMBDA x : x.a),
            claims |-> ToMap(s.claims, LAMBDA x : x.id, LAMBDA x : x.c), next |-> s.next]
\* the miner in the model's form; g.pieces = pieces of the pre-commits seen in this trace
Lift(st, g) ==
  LET m == st.m
      e == st.epoch
      o == [off |-> m.off]
      secs == ToMap(m.sectors, LAMBDA x : x.n,
                    LAMBDA x : [st |-> IF x.term THEN "term" ELSE "live", exp |-> x.exp, act |-> x.act, base |-> x.base,
                                vs |-> IF x.exp > x.base THEN x.vw \div (x.exp - x.base) ELSE 0, dw |-> x.dw, d |-> x.d,
                                pat |-> IF x.unproven THEN Open(o, x.d, e) ELSE e, at |-> 0, pieces |-> <<>>])
      pres == ToMap(m.pre, LAMBDA x : x.n,
                    LAMBDA x : [NoSec EXCEPT !.exp = x.exp, !.at = x.at,
                                             !.pieces = IF x.n \in DOMAIN g.pieces THEN g.pieces[x.n] ELSE <<>>])
  IN  [sec |-> secs @@ pres, alloc |-> ToSet(m.alloc), off |-> m.off]
\* observed facts that the lifted form does not carry
WeightIsSpaceTimesDuration(st) ==
  \A i \in 1..Len(st.m.sectors) : LET x == st.m.sectors[i] IN
     /\ x.simple
     /\ x.exp > x.base /\ x.vw = (x.vw \div (x.exp - x.base)) * (x.exp - x.base)
     /\ x.qa = SectorSize + 9 * (x.vw \div (x.exp - x.base))
GetClaimsAgrees(st) == ToMap(st.gc, LAMBDA x : x.id, LAMBDA x : x.c) = ToMap(st.vr.claims, LAMBDA x : x.id, LAMBDA x : x.c)
\* "(and its extra power)": the power actor's claim moves with the sectors' QA power
QAPowerFalls(sm, sm2, g, st, e, ev) ==
  (ev.a = "Extend" /\ ev.ok) =>
     LET ns == {ev.decls[i].n : i \in 1..Len(ev.decls)} \cap InAmt(sm) \cap InAmt(sm2)
         act == {n \in ns : Active(sm, n, e)}
     IN  st.pow.qa - g.pow.qa = SumSet(act, [n \in act |-> QA(sm2.sec[n]) - QA(sm.sec[n])])

ResultsMatch(e, r) ==
  CASE e.a = "Transfer" -> (e.ok => r.ids = e.ids)
    [] e.a \in {"ProveCommit", "ReplicaUpdate", "ExtendClaimTerms"} -> (e.ok => r.res = e.res)
    [] e.a \in {"RemoveExpiredAllocs", "RemoveExpiredClaims"} -> (e.ok => r.removed = ToSet(e.removed))
    [] OTHER -> TRUE
\* (the driver proves every sector in time: none is ever faulty)
Observed(st) == [qa |-> st.pow.qa, raw |-> st.pow.raw, faulty |-> {i \in 1..Len(st.m.sectors) : st.m.sectors[i].faulty}]
Explained(e) ==
  IF e.a = "Tick"
  THEN /\ e.cronOK /\ Len(e.notes) = 0 /\ VR' = VR /\ epoch' = epoch + e.n
       /\ AbsSM(SM, epoch') = AbsSM(SM', epoch')
       /\ Observed(e.st) = [qa |-> PowQA(SM, epoch'), raw |-> AbsSM(SM, epoch').raw, faulty |-> {}]
  ELSE LET r == CDo(VR, SM, e, epoch) IN
       /\ r.ok = e.ok /\ VR' = r.VR /\ ResultsMatch(e, r) /\ epoch' = epoch
       /\ AbsSM(r.SM, epoch) = AbsSM(SM', epoch)
       /\ Observed(e.st) = [qa |-> PowQA(r.SM, epoch), raw |-> AbsSM(r.SM, epoch).raw, faulty |-> {}]
Chk(prop, name, holds, e) == IF holds THEN TRUE ELSE PrintT(<<"VIOL", prop, name, l, "-", e.a>>)
Note(cond, name) == IF cond THEN PrintT(<<"NOTE", "C10", name, l>>) ELSE TRUE
TGhost(g, e, st) ==
  [dropped |-> CGhostNext(g, e).dropped,
   pieces |-> IF e.a = "PreCommit" /\ e.ok
              THEN [n \in DOMAIN g.pieces \cup {e.secs[i].n : i \in 1..Len(e.secs)} |->
                      IF \E i \in 1..Len(e.secs) : e.secs[i].n = n
                      THEN e.secs[CHOOSE i \in 1..Len(e.secs) : e.secs[i].n = n].pieces ELSE g.pieces[n]]
              ELSE g.pieces,
   pow |-> st.pow]
TStep ==
  /\ l <= Len(Rec)
  /\ l' = l + 1
  /\ LET e == Rec[l] IN
     IF e.ev \in {"Init", "Reset"}
     THEN /\ VR' = ToVR(e.st.vr) /\ epoch' = e.st.epoch /\ G' = [dropped |-> {}, pieces |-> <<>>, pow |-> e.st.pow]
          /\ SM' = Lift(e.st, G') /\ last' = [a |-> "Init", ok |-> TRUE]
     ELSE /\ VR' = ToVR(e.st.vr) /\ epoch' = e.st.epoch /\ last' = e
          /\ G' = TGhost(G, e, e.st)
          /\ SM' = Lift(e.st, G')
          /\ Chk("C10", "WeightBacked", WeightBacked(VR', SM', epoch'), e)
          /\ Chk("C10", "ClaimStartsAfterActivation", ClaimStartsAfterActivation(VR', SM', epoch'), e)
          /\ Chk("C10", "ExpirationWithinTerms", ExpirationWithinTerms(VR', SM', epoch'), e)
          /\ Chk("C10", "Backed", Backed(VR', SM', epoch'), e)
          /\ Chk("C10", "WeightIsSpaceTimesDuration", WeightIsSpaceTimesDuration(e.st), e)
          /\ Chk("C10", "GetClaimsAgrees", GetClaimsAgrees(e.st), e)
          /\ Chk("C10", "ExtendPastMaxOnlyByDrop", ExtendPastMaxOnlyByDrop(VR, SM, epoch, SM', e), e)
          /\ Chk("C10", "DroppedWeightGone", DroppedWeightGone(VR, SM, SM', e), e)
          /\ Chk("C10", "QAPowerFalls", QAPowerFalls(SM, SM', G, e.st, epoch, e), e)
          /\ Chk("C10", "WeightChangesOnlyByDecl", WeightChangesOnlyByDecl(VR, SM, VR', SM', e), e)
          /\ Chk("C10", "ClaimTermsMonotone", ClaimTermsMonotone, e)
          /\ Chk("C10", "ClaimRemovalOnlyExpired", ClaimRemovalOnlyExpired, e)
          /\ Chk("C10", "AllocRemovalOnlyExpired", AllocRemovalOnlyExpired, e)
          /\ Chk("C10", "RejectedIsNoop", (~e.ok) => (VR' = VR /\ AbsSM(SM, epoch) = AbsSM(SM', epoch)), e)
          /\ Note(e.a = "Extend" /\ e.ok /\ \E i \in 1..Len(e.decls) : SeqSet(e.decls[i].maintain) \cap G.dropped # {},
                  "dropped-claim-substitution")
          /\ Note(e.a # "Tick" /\ e.class = "panic", "panic-" \o e.a)
          /\ (IF Explained(e) THEN TRUE ELSE PrintT(<<"DRIFT", "C10", l, e.a, e.ok>>))
TInit == /\ VR = [verifiers |-> <<>>, tok |-> [h \in Holders |-> 0], supply |-> 0, allocs |-> <<>>, claims |-> <<>>, next |-> 1]
         /\ SM = [sec |-> <<>>, alloc |-> {}, off |-> 0]
         /\ epoch = 0 /\ G = [dropped |-> {}, pieces |-> <<>>, pow |-> [qa |-> 0, raw |-> 0]]
         /\ last = [a |-> "Init", ok |-> TRUE] /\ l = 1
TSpec == TInit /\ [][TStep]_<<cvars, l>>
Accepted == TLCGet("stats").diameter = Len(Rec) + 1
=============================================================================
