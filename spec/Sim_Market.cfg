SPECIFICATION SimSpec
CONSTANTS MinDur = 518400
          MaxDur = 3680640
          Interval = 86400
          Parties = {"c1", "c2", "m1", "m2", "x"}
          Miners = {"m1", "m2"}
          OwnerOf <- OwnerOfDef
          WorkerOf <- WorkerOfDef
          MaxEpochs = 12
          MaxDeals = 4
          ExportLen = 22
          Rich = TRUE
CONSTRAINT Bound
INVARIANT Inv
INVARIANT Export
PROPERTY StepOK
CHECK_DEADLOCK FALSE
