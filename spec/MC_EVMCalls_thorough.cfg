SPECIFICATION MCSpec
CONSTANTS Keys = {0, 1}
          MaxMsgs = 3
          ExportLen = 0
          Rich = TRUE
VIEW View
ACTION_CONSTRAINT Tour
INVARIANTS NoNegative MetaRevert MetaStatic MetaTransient MetaDelegate MetaDead
PROPERTY StepOK
CHECK_DEADLOCK FALSE
