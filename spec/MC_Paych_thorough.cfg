SPECIFICATION MCSpec
CONSTANTS SettleDelay = 2
          MaxLane = 2
          MaxNonce = 2
          MaxAmt = 2
          MaxBal = 2
          MaxEpoch = 4
          ExportLen = 0
          Mshs = {0, 4}
          GoodCallers = {"payee"}
          MergeNonces = {1, 2}
CONSTRAINT Bound
VIEW View
INVARIANT Solvent
PROPERTY StepOK
CHECK_DEADLOCK FALSE
