---------------------------- MODULE Trace_Access ----------------------------
(***************************************************************************)
(* Layer P of C11, evaluated on every executed cell of the matrix.         *)
(*                                                                         *)
(* A trace line is one call: (actor type, method number, variant, caller   *)
(* class, parameter mode, fixture) plus what the recording VM observed.    *)
(* The oracle is the table in Access.tla, looked up by (type, number,      *)
(* variant) -- never the `designated` flag the harness echoes.             *)
(***************************************************************************)
EXTENDS Access, Json, IOUtils

VARIABLE l
Rec == ndJsonDeserialize(IOEnv.TRACE)

\* NB: TLC's pretty-printer wraps a printed tuple at 80 columns and the check parses VIOL lines
\* line by line, so the last field is the (short) caller class, not the long event name -- the
\* line number l identifies the event.
Chk(prop, name, holds, e) == IF holds THEN TRUE ELSE PrintT(<<"VIOL", prop, name, l, "-", e.cls>>)

HasRow(e) == \E r \in Table[e.t] : r.hi = e.hi /\ r.lo = e.lo /\ r.var = e.var
RowOf(e) == CHOOSE r \in Table[e.t] : r.hi = e.hi /\ r.lo = e.lo /\ r.var = e.var

\* "rejected": aborted with a non-zero exit code (a panic is an abort), or -- only for the methods
\* that authorise per item and report per item -- completed with EVERY requested item refused
PerItemAuthorised == {<<"verifreg", "ExtendClaimTerms">>, <<"verifreg", "ExtendClaimTermsExported">>}
Rejected(e) == \/ e.exit \in {"rejected", "panic"}
               \/ (e.exit = "ok_allfailed" /\ <<e.t, e.name>> \in PerItemAuthorised)
IsDesignated(e, r) == e.cls \in r.who

\* "a call from a caller outside the method's designated set is rejected and changes nothing" --
\* for whatever reason it is rejected
NonDesignatedRejected(e, r) == ~IsDesignated(e, r) => (Rejected(e) /\ ~e.changed)

\* "... while the same call from a designated caller is accepted": a designated caller is never
\* turned away by a caller check, and where the harness built parameters for which the call is
\* valid (succ) it completes
AllValidationsOK(e) == \A i \in 1..Len(e.vals) : e.vals[i].ok
DesignatedAccepted(e, r) == IsDesignated(e, r) => (AllValidationsOK(e) /\ (e.succ => e.exit = "ok"))

\* a restrictive caller check (is / type / namespace) never lets a non-designated caller through,
\* even if the call fails later for another reason.  Exemption ORIGIN-ONLY: EAM.CreateExternal
\* checks `caller = origin` (i.e. "this is a top-level message") with validate_immediate_caller_is
\* and then restricts the caller's TYPE by hand; the harness impersonates every class as a
\* top-level sender, so that check passes for all of them by construction.
OriginOnly == {<<"eam", "CreateExternal">>}
RestrictiveCheckAgrees(e, r) ==
  (~IsDesignated(e, r) /\ <<e.t, e.name>> \notin OriginOnly) =>
     \A i \in 1..Len(e.vals) : ~(e.vals[i].ok /\ e.vals[i].kind # "any")

\* "no state write or send precedes validation".  Exemptions (read-only queries that are needed to
\* find out WHO is designated, or to validate parameters, none of which carries value or writes):
\*   market.WithdrawBalance*      -> miner.ControlAddresses(2): owner/worker of a provider's escrow
\*   miner.ChangeWorkerAddress*   -> account.PubkeyAddress(2): the new worker must have a BLS key
\*   miner.PreCommitSectorBatch2  -> reward.ThisEpochReward(3), power.CurrentTotalPower(9): deposit inputs
Query(t, n) == [to |-> t, hi |-> 0, lo |-> n]
PreValidationQueries(e) ==
  CASE e.t = "market" /\ e.name \in {"WithdrawBalance", "WithdrawBalanceExported"} -> {Query("miner", 2)}
    [] e.t = "miner" /\ e.name \in {"ChangeWorkerAddress", "ChangeWorkerAddressExported"} -> {Query("account", 2)}
    [] e.t = "miner" /\ e.name = "PreCommitSectorBatch2" -> {Query("reward", 3), Query("power", 9)}
    [] OTHER -> {}
PreSendsOK(e) ==
  /\ PreValidationQueries(e) # {}
  \* when the caller check failed the call ended right there: every recorded send preceded it
  /\ e.presendsExact =>
       \A i \in 1..Len(e.presends) :
          LET p == e.presends[i] IN
          /\ [to |-> p.to, hi |-> p.hi, lo |-> p.lo] \in PreValidationQueries(e)
          /\ p.value0 /\ ~p.wrote
ValidatedBeforeEffects(e) ==
  /\ ~e.wroteBeforeValidate
  /\ (e.sentBeforeValidate => PreSendsOK(e))
  /\ Len(e.treeBad) = 0          \* the same for every nested invocation of the call

\* "every call that completes has validated its caller" (the VM turns a completion without
\* validation into an abort, as FVM does, and says so)
CompletedImpliesValidated(e) ==
  /\ ~e.completedWithoutValidating
  /\ (e.exit \in {"ok", "ok_allfailed"} => Len(e.vals) > 0)

\* "methods numbered below the public-export range cannot be invoked by EVM contracts or other
\*  non-built-in code at all"
InternalNotForEvm(e) ==
  (e.hi < FirstExportedHi /\ e.cls \in {"evm", "unknown"} /\ e.t \notin Unrestricted)
     => (Rejected(e) /\ ~e.changed)

UndefinedRejected(e, r) == r.kind = "undefined" => (Rejected(e) /\ ~e.changed)

\* Exemption VM-UNKNOWN-CALLER: the recording VM's validate_immediate_caller_type looks the
\* caller's code up in the built-in table and unwraps; for the `unknown` class that lookup panics
\* inside the VM (not in actor code), the message is rolled back = rejected, as on chain.
NoPanic(e) == e.panicked => e.vmUnknownCallerArtefact

\* Layer R (diagnostic only, never an alarm): the protocol-plumbing methods, which the table gives
\* to exactly ONE singleton or actor type, are expected to discriminate at the caller check itself.
\* One that validates with accept_any and still rejects every other class by some later test
\* satisfies C11 -- but it is a drift from the specified shape worth a line in the output.
PlumbingCheckedAtValidation(e) ==
  (<<e.t, e.name>> \in SingletonInternal /\ Len(e.vals) > 0) => e.vals[1].kind # "any"

TStep ==
  /\ l <= Len(Rec)
  /\ l' = l + 1
  /\ LET e == Rec[l] IN
     IF e.ev \in {"Init", "Reset"} THEN TRUE
     ELSE IF ~HasRow(e) THEN Chk("C11", "CellInTable", FALSE, e)
     ELSE LET r == RowOf(e) IN
          /\ Chk("C11", "NonDesignatedRejected", NonDesignatedRejected(e, r), e)
          /\ Chk("C11", "DesignatedAccepted", DesignatedAccepted(e, r), e)
          /\ Chk("C11", "RestrictiveCheckAgrees", RestrictiveCheckAgrees(e, r), e)
          /\ Chk("C11", "ValidatedBeforeEffects", ValidatedBeforeEffects(e), e)
          /\ Chk("C11", "CompletedImpliesValidated", CompletedImpliesValidated(e), e)
          /\ Chk("C11", "InternalNotForEvm", InternalNotForEvm(e), e)
          /\ Chk("C11", "UndefinedRejected", UndefinedRejected(e, r), e)
          /\ Chk("C11", "NoPanic", NoPanic(e), e)
          /\ (IF PlumbingCheckedAtValidation(e) THEN TRUE
              ELSE PrintT(<<"DRIFT", "C11", l, "PlumbingAcceptAny", e.cls>>))

TrInit == l = 1
TSpec == TrInit /\ [][TStep]_l
Accepted == TLCGet("stats").diameter = Len(Rec) + 1
=============================================================================
