------------------------------ MODULE Multisig ------------------------------
(***************************************************************************)
(* Multisig wallet actor (actors/multisig).                                *)
(*                                                                         *)
(* The wallet's methods are written as pure functions on a state record S  *)
(* so that the transaction an approving step executes -- which may itself  *)
(* be any wallet method, because the wallet can send to itself and can be  *)
(* its own signer -- is evaluated by plain function composition:           *)
(*   Propose/Approve -> ApproveTx -> ExecIfApproved -> InnerSend -> Call.  *)
(* Every function returns [ok, S]: ok = FALSE means the invocation aborts  *)
(* and (as in the VM) its effects are discarded.                           *)
(*                                                                         *)
(* A transaction is [val, p] where the payload p is one of                 *)
(*   [k |-> "pay", to]                plain send to an outside account      *)
(*   [k |-> "failcall", to]           call that aborts in the callee        *)
(*   [k |-> "add", s, inc]  [k |-> "remove", s, dec]  [k |-> "swap", from, to]*)
(*   [k |-> "th", n]  [k |-> "lock", start, dur, amt]       (to the wallet) *)
(*   [k |-> "propose", tx]  [k |-> "approve", id, hashOK]                   *)
(*   [k |-> "cancel", id, hashOK]                           (to the wallet) *)
(***************************************************************************)
EXTENDS Integers, Sequences, FiniteSets, TLC

CONSTANTS MaxSigners      \* SIGNERS_MAX (256)

VARIABLES S,      \* [signers, th, next, pend, lock, bal]
          epoch,
          sentIds,  \* history: transaction ids whose inner send has happened
          last      \* history: the most recent call and what it executed

vars == <<S, epoch, sentIds, last>>

W == "w"   \* the wallet's own address

SelfKinds == {"add", "remove", "swap", "th", "lock", "propose", "approve", "cancel"}

CeilDiv(a, b) == (a + b - 1) \div b
Locked(lk, e) ==
  LET el == e - lk.start IN
  IF el >= lk.dur THEN 0
  ELSE IF el <= 0 THEN lk.init
  ELSE CeilDiv(lk.init * (lk.dur - el), lk.dur)

Avail(s, val, e) ==
  /\ val >= 0
  /\ s.bal >= val
  /\ (val = 0 \/ s.bal - val >= Locked(s.lock, e))

RemoveKey(f, k) == [x \in DOMAIN f \ {k} |-> f[x]]
PutKey(f, k, v) == [x \in DOMAIN f \cup {k} |-> IF x = k THEN v ELSE f[x]]
SeqWithout(sq, a) == SelectSeq(sq, LAMBDA y : y # a)
InSeq(sq, a) == \E i \in 1..Len(sq) : sq[i] = a

\* remove a's approvals everywhere; a transaction left without approvals is dropped
Purge(pend, a) ==
  LET keep == {i \in DOMAIN pend : SeqWithout(pend[i].appr, a) # <<>>}
  IN  [i \in keep |-> [pend[i] EXCEPT !.appr = SeqWithout(@, a)]]

Fail(s) == [ok |-> FALSE, S |-> s, ex |-> <<>>]

RECURSIVE Call(_, _, _, _), ExecIfApproved(_, _, _), ApproveTx(_, _, _, _)

\* execute transaction `id` if it has enough approvals.  Returns [ok, applied, S, ex] where ex is
\* the sequence of transaction ids executed (this one, then whatever it executed re-entrantly).
ExecIfApproved(s, id, e) ==
  LET t == s.pend[id] IN
  IF Len(t.appr) < s.th THEN [ok |-> TRUE, applied |-> FALSE, S |-> s, ex |-> <<>>]
  ELSE IF ~Avail(s, t.val, e) THEN [ok |-> FALSE, applied |-> FALSE, S |-> s, ex |-> <<>>]
  ELSE LET s1 == [s EXCEPT !.pend = RemoveKey(@, id)]     \* deleted BEFORE the send
       IN  CASE t.p.k = "pay"      -> [ok |-> TRUE, applied |-> TRUE, ex |-> <<id>>,
                                       S |-> [s1 EXCEPT !.bal = @ - t.val]]
             [] t.p.k = "failcall" -> [ok |-> TRUE, applied |-> TRUE, ex |-> <<id>>, S |-> s1]
             [] OTHER ->  \* a send to the wallet itself; a failure of the callee is tolerated
                  LET r == Call(s1, W, t.p, e) IN
                  IF r.ok THEN [ok |-> TRUE, applied |-> TRUE, ex |-> <<id>> \o r.ex, S |-> r.S]
                          ELSE [ok |-> TRUE, applied |-> TRUE, ex |-> <<id>>, S |-> s1]

ApproveTx(s, c, id, e) ==
  IF InSeq(s.pend[id].appr, c) THEN Fail(s)
  ELSE LET s1 == [s EXCEPT !.pend[id].appr = Append(@, c)]
           r  == ExecIfApproved(s1, id, e)
       IN  IF r.ok THEN [ok |-> TRUE, S |-> r.S, ex |-> r.ex] ELSE Fail(s)

DoPropose(s, c, tx, e) ==
  IF c \notin s.signers \/ tx.val < 0 THEN Fail(s)
  ELSE LET id == s.next
           s1 == [s EXCEPT !.next = @ + 1,
                           !.pend = PutKey(@, id, [val |-> tx.val, p |-> tx.p, appr |-> <<>>])]
           r  == ApproveTx(s1, c, id, e)
       IN  IF r.ok THEN r ELSE Fail(s)

DoApprove(s, c, id, hashOK, e) ==
  IF c \notin s.signers \/ id \notin DOMAIN s.pend \/ ~hashOK THEN Fail(s)
  ELSE LET r == ExecIfApproved(s, id, e) IN     \* the threshold may have been lowered meanwhile
       IF ~r.ok THEN Fail(s)
       ELSE IF r.applied THEN [ok |-> TRUE, S |-> r.S, ex |-> r.ex]
       ELSE ApproveTx(s, c, id, e)

DoCancel(s, c, id, hashOK) ==
  IF \/ c \notin s.signers \/ id \notin DOMAIN s.pend THEN Fail(s)
  ELSE IF s.pend[id].appr = <<>> \/ Head(s.pend[id].appr) # c \/ ~hashOK THEN Fail(s)
  ELSE [ok |-> TRUE, S |-> [s EXCEPT !.pend = RemoveKey(@, id)], ex |-> <<>>]

DoAdmin(s, c, p) ==
  IF c # W THEN Fail(s)
  ELSE CASE p.k = "add" ->
              IF Cardinality(s.signers) >= MaxSigners \/ p.s \in s.signers THEN Fail(s)
              ELSE [ok |-> TRUE, ex |-> <<>>,
                    S |-> [s EXCEPT !.signers = @ \cup {p.s}, !.th = IF p.inc THEN @ + 1 ELSE @]]
         [] p.k = "remove" ->
              IF \/ p.s \notin s.signers
                 \/ Cardinality(s.signers) = 1
                 \/ (~p.dec /\ Cardinality(s.signers) - 1 < s.th)
                 \/ (p.dec /\ s.th < 2)
              THEN Fail(s)
              ELSE [ok |-> TRUE, ex |-> <<>>,
                    S |-> [s EXCEPT !.signers = @ \ {p.s}, !.th = IF p.dec THEN @ - 1 ELSE @,
                                    !.pend = Purge(@, p.s)]]
         [] p.k = "swap" ->
              IF p.from \notin s.signers \/ p.to \in s.signers THEN Fail(s)
              ELSE [ok |-> TRUE, ex |-> <<>>,
                    S |-> [s EXCEPT !.signers = (@ \ {p.from}) \cup {p.to}, !.pend = Purge(@, p.from)]]
         [] p.k = "th" ->
              IF p.n = 0 \/ p.n > Cardinality(s.signers) THEN Fail(s)
              ELSE [ok |-> TRUE, ex |-> <<>>, S |-> [s EXCEPT !.th = p.n]]
         [] p.k = "lock" ->
              IF p.dur <= 0 \/ p.amt < 0 \/ s.lock.dur # 0 THEN Fail(s)
              ELSE [ok |-> TRUE, ex |-> <<>>,
                    S |-> [s EXCEPT !.lock = [init |-> p.amt, start |-> p.start, dur |-> p.dur]]]

\* a method of the wallet invoked by caller c
Call(s, c, p, e) ==
  CASE p.k = "propose" -> DoPropose(s, c, p.tx, e)
    [] p.k = "approve" -> DoApprove(s, c, p.id, p.hashOK, e)
    [] p.k = "cancel"  -> DoCancel(s, c, p.id, p.hashOK)
    [] p.k \in {"add", "remove", "swap", "th", "lock"} -> DoAdmin(s, c, p)
    [] OTHER -> Fail(s)     \* pay/failcall are not wallet methods

-----------------------------------------------------------------------------
(* top-level steps: a user message to the wallet (any method), a deposit, a tick *)

CanMsg(c, p) == Call(S, c, p, epoch).ok
Msg(c, p) ==
  /\ CanMsg(c, p)
  /\ LET r == Call(S, c, p, epoch) IN
     /\ S' = r.S
     /\ sentIds' = sentIds \cup {r.ex[i] : i \in 1..Len(r.ex)}
  /\ UNCHANGED epoch

Deposit(a) == a >= 0 /\ S' = [S EXCEPT !.bal = @ + a] /\ UNCHANGED <<epoch, sentIds>>
Tick(n) == n > 0 /\ epoch' = epoch + n /\ UNCHANGED <<S, sentIds>>

-----------------------------------------------------------------------------
(* Layer P: the clauses of C12 written from the English statement, over             *)
(* (pre-state, call, post-state).  `last'` = [a, ok, c, p, ex] where ex is the         *)
(* sequence of transaction ids whose inner send happened during the call (observed on  *)
(* the real side from the invocation tree, computed from the spec in the model).       *)

ExSet(l) == {l.ex[i] : i \in 1..Len(l.ex)}
Signers(s) == s.signers
ApprSet(sq) == {sq[i] : i \in 1..Len(sq)}

\* "1 <= threshold <= number of signers <= 256"; approvals of removed signers do not count
\* (they are purged), approvals are distinct
WellFormed(s) ==
  /\ 1 <= s.th /\ s.th <= Cardinality(s.signers) /\ Cardinality(s.signers) <= MaxSigners
  /\ \A i \in DOMAIN s.pend :
        /\ ApprSet(s.pend[i].appr) \subseteq s.signers
        /\ Cardinality(ApprSet(s.pend[i].appr)) = Len(s.pend[i].appr)
        /\ s.pend[i].appr # <<>>
        /\ i < s.next
Inv_WellFormed == WellFormed(S)

\* "sent at most once"
SentOnce ==
  /\ \A i \in 1..Len(last'.ex) : last'.ex[i] \notin sentIds
  /\ \A i, j \in 1..Len(last'.ex) : i # j => last'.ex[i] # last'.ex[j]
  /\ \A i \in ExSet(last') : i \notin DOMAIN S'.pend

\* the transaction the top-level call targets: "sent only when at least the current threshold of
\* distinct current signers has approved exactly that transaction"
TopJustified ==
  (last'.a = "Msg" /\ last'.ok /\ Len(last'.ex) > 0) =>
    LET id == last'.ex[1] IN
    CASE last'.p.k = "approve" ->
           /\ id = last'.p.id /\ id \in DOMAIN S.pend /\ last'.c \in S.signers
           /\ LET A == ApprSet(S.pend[id].appr) \cap S.signers IN
              \/ Cardinality(A) >= S.th
              \/ Cardinality(A \cup {last'.c}) >= S.th
      [] last'.p.k = "propose" ->
           /\ id = S.next /\ last'.c \in S.signers /\ S.th <= 1
      [] OTHER -> FALSE

\* every executed id was pending before the call or was created during it
ExecutedWerePending ==
  \A i \in ExSet(last') : i \in DOMAIN S.pend \/ (i >= S.next /\ i < S'.next)

\* exactly the transactions the ideal wallet would send in this step are sent
ExecutedAsSpecified ==
  (last'.a = "Msg" /\ last'.ok) =>
      LET r == Call(S, last'.c, last'.p, epoch) IN r.ok /\ ExSet(last') \subseteq {r.ex[i] : i \in 1..Len(r.ex)}

\* "never leaves the wallet's balance below the amount still locked": when value left the wallet
LockRespected == (S'.bal < S.bal) =>
   (S'.bal >= Locked(S.lock, epoch) \/ S'.bal >= Locked(S'.lock, epoch))

\* value leaves the wallet only through executed transactions
SpendOnlyByExec == (S'.bal < S.bal) => (last'.a = "Msg" /\ last'.ok /\ Len(last'.ex) > 0)

\* "only signers can propose or approve": new pending entries / new approvals need a signer caller
\* (the caller may be the wallet itself when it is its own signer and re-enters)
OnlySignersAct ==
  (\/ S'.next > S.next
   \/ \E i \in DOMAIN S.pend \cap DOMAIN S'.pend : Len(S'.pend[i].appr) > Len(S.pend[i].appr))
  => (last'.a = "Msg" /\ last'.ok /\ (last'.c \in S.signers \/ (W \in S.signers /\ Len(last'.ex) > 0)))

\* "Signers, threshold and lock-up change only through a transaction the wallet sends to itself"
AdminOnlyBySelf ==
  (S'.signers # S.signers \/ S'.th # S.th \/ S'.lock # S.lock) =>
     (last'.a = "Msg" /\ last'.ok /\ Len(last'.ex) > 0)

\* "a pending transaction can be cancelled only by its earliest remaining approver"
\* a pending id that disappears was executed, cancelled by Head(appr), or lost its last approval
\* through a signer removal/swap executed in this step
RemovalJustified ==
  \A i \in DOMAIN S.pend \ DOMAIN S'.pend :
     \/ i \in ExSet(last')
     \/ (last'.a = "Msg" /\ last'.ok /\ last'.p.k = "cancel" /\ last'.p.id = i
         /\ Head(S.pend[i].appr) = last'.c /\ last'.c \in S.signers)
     \/ (Len(last'.ex) > 0 /\ ApprSet(S.pend[i].appr) \cap S'.signers = {})   \* purged
     \/ (Len(last'.ex) > 0 /\ W \in S.signers)   \* re-entrant cancel by the wallet as a signer (Layer R decides)

RejectedIsNoop == (last'.a = "Msg" /\ ~last'.ok) => (S' = S /\ Len(last'.ex) = 0)

IdsIncrease == S'.next >= S.next

StepProps == /\ SentOnce /\ TopJustified /\ ExecutedWerePending /\ ExecutedAsSpecified
             /\ LockRespected /\ SpendOnlyByExec /\ OnlySignersAct /\ AdminOnlyBySelf
             /\ RemovalJustified /\ RejectedIsNoop /\ IdsIncrease
=============================================================================
