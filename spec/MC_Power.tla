------------------------------ MODULE MC_Power ------------------------------
(* Bounded model of Power for TLC: exhaustive (MC_Power*.cfg, with a transition tour) and simulation / export
   (Sim_Power.cfg).  Every call -- accepted or rejected -- is a step; rejected calls stutter on P and are
   recorded in `last` / `hist`, so exported behaviours contain the invalid calls too.  Callbacks of the tick
   fail nondeterministically (any subset of the dispatched ones; the undecodable "bad" payloads always). *)
EXTENDS Power, Json, Randomization

CONSTANTS PowerDeltas,    \* set of <<raw delta, qa delta>>
          PledgeDeltas,   \* set of integers
          EnrolOffsets,   \* event epochs offered: now + k for k in this set (and -1)
          PayloadsUsed,   \* subset of Payloads
          NonMiners,      \* caller classes that are not miner actors
          Period,         \* a successful "deadline" callback enrols the next one at now + Period
          MaxEpoch, MaxRaw, MaxQa, MaxPledge, MaxQueue,
          ExportLen

\* delta sets for the configs (a cfg file cannot write tuples): they cross the threshold in both directions,
\* move above and below it, and include deltas that would make a claim negative
DeltasQuick == {<<2, 3>>, <<-2, -3>>, <<1, 1>>, <<-1, -2>>}
DeltasWide  == {<<2, 3>>, <<-2, -3>>, <<1, 1>>, <<-1, -1>>, <<1, -1>>, <<0, 1>>, <<3, 3>>, <<-3, -4>>, <<0, -2>>}

\* for the simulation config (threshold 4): more ways up than down, so that MinMiners miners get above it
DeltasSim   == {<<4, 4>>, <<5, 9>>, <<8, 8>>, <<1, 2>>, <<3, 3>>, <<-4, -4>>, <<-1, -1>>, <<-5, -9>>, <<-3, -3>>,
                <<1, -1>>, <<0, -2>>, <<0, 3>>}
PledgeQuick == {1, -1, -2}
PledgeWide  == {1, 2, -1, -3}
OffsetsQuick == {-1, 0}
OffsetsWide  == {-2, -1, 0, 1, 2, 3}

VARIABLE hist            \* the calls made so far (export only; hidden by the VIEW)
mcvars == <<vars, hist>>

Blank == [ok |-> TRUE]
MinerCallers == MinerActors(P) \cup NonMiners

Rec(call) == hist' = Append(hist, last')

\* ---- one sub-action per (method, verdict): the coverage table shows that none is dead
DoCall(call, verdict) == Do(P, call).ok = verdict /\ Step(call) /\ Rec(call)

CreateCalls == {Blank @@ [a |-> "CreateMiner", c |-> c, funded |-> f] :
                  c \in NonMiners \cup (IF P.created > 0 THEN {MinerSeq[1]} ELSE {}), f \in BOOLEAN}
CreateOK  == P.created < Len(MinerSeq) /\ \E call \in CreateCalls : DoCall(call, TRUE)
CreateRej == P.created < Len(MinerSeq) /\ \E call \in CreateCalls : DoCall(call, FALSE)

PowerCalls == {Blank @@ [a |-> "UpdateClaimedPower", c |-> c, dr |-> d[1], dq |-> d[2]] :
                 c \in MinerCallers, d \in PowerDeltas}
PowerOK  == \E call \in PowerCalls : DoCall(call, TRUE)
PowerRej == \E call \in PowerCalls : DoCall(call, FALSE)

EnrolEpochs == {P.epoch + k : k \in EnrolOffsets} \cup {-1}
EnrolCalls == {Blank @@ [a |-> "EnrollCronEvent", c |-> c, e |-> e, p |-> p] :
                 c \in MinerCallers, e \in EnrolEpochs, p \in PayloadsUsed}
EnrolOK  == Len(P.queue) < MaxQueue /\ \E call \in EnrolCalls : DoCall(call, TRUE)
EnrolRej == \E call \in EnrolCalls : DoCall(call, FALSE)

PledgeCalls == {Blank @@ [a |-> "UpdatePledgeTotal", c |-> c, d |-> d] : c \in MinerCallers, d \in PledgeDeltas}
PledgeOK  == \E call \in PledgeCalls : DoCall(call, TRUE)
PledgeRej == \E call \in PledgeCalls : DoCall(call, FALSE)

TickEndRej == \E c \in (NonMiners \ {"cron"}) \cup (IF P.created > 0 THEN {MinerSeq[1]} ELSE {}) :
                 DoCall(Blank @@ [a |-> "OnEpochTickEnd", c |-> c], FALSE)

ReadStep == \E c \in NonMiners : DoCall(Blank @@ [a |-> "CurrentTotalPower", c |-> c], TRUE)

\* the callbacks of a tick: which of them fail, and what the successful ones ask for
CbOf(ev, fails, i) ==
  LET ok == i \notin fails IN
  [m |-> ev.m, p |-> ev.p, ok |-> ok,
   calls |-> IF ok /\ ev.p = "deadline"
             THEN <<[a |-> "EnrollCronEvent", c |-> ev.m, e |-> P.epoch + Period, p |-> "deadline", ok |-> TRUE]>>
             ELSE <<>>]
TickCalls ==
  LET disp == Dispatched(P)
      must == {i \in 1..Len(disp) : disp[i].p = "bad"}
  IN  {Blank @@ [a |-> "Tick", cbs |-> [i \in 1..Len(disp) |-> CbOf(disp[i], fails, i)]] :
         fails \in {F \in SUBSET (1..Len(disp)) : must \subseteq F}}
TickStep == \E call \in TickCalls : DoCall(call, TRUE)

MCNext == CreateOK \/ CreateRej \/ PowerOK \/ PowerRej \/ EnrolOK \/ EnrolRej \/ PledgeOK \/ PledgeRej
          \/ TickEndRej \/ ReadStep \/ TickStep

\* simulation: sample instead of enumerating
SimPick(S, n) == RandomSubset(IF Cardinality(S) < n THEN Cardinality(S) ELSE n, S)
SimNext ==
  IF Len(hist) < NumMiners - 1          \* first populate the world
  THEN \E call \in CreateCalls : DoCall(call, TRUE)
  ELSE
  \/ (P.created < Len(MinerSeq) /\ \E call \in CreateCalls : DoCall(call, TRUE))
  \/ (P.created < Len(MinerSeq) /\ \E call \in CreateCalls : DoCall(call, FALSE))
  \/ \E call \in SimPick(PowerCalls, 12) : DoCall(call, TRUE)
  \/ \E call \in SimPick(PowerCalls, 12) : DoCall(call, TRUE)
  \/ \E call \in SimPick(PowerCalls, 3) : DoCall(call, FALSE)
  \/ (Len(P.queue) < MaxQueue /\ \E call \in SimPick(EnrolCalls, 8) : DoCall(call, TRUE))
  \/ \E call \in SimPick(EnrolCalls, 2) : DoCall(call, FALSE)
  \/ \E call \in SimPick(PledgeCalls, 4) : DoCall(call, TRUE)
  \/ \E call \in SimPick(PledgeCalls, 2) : DoCall(call, FALSE)
  \/ TickEndRej \/ TickStep \/ TickStep

MCInit == Init /\ hist = <<>> /\ TLCSet(42, {})
MCSpec  == MCInit /\ [][MCNext]_mcvars
SimSpec == MCInit /\ [][SimNext]_mcvars

Bound == /\ P.epoch <= MaxEpoch /\ P.pledge <= MaxPledge /\ Len(P.queue) <= MaxQueue
         /\ \A m \in DOMAIN P.claims : P.claims[m].raw <= MaxRaw /\ P.claims[m].qa <= MaxQa
\* the frozen report influences nothing (the tick overwrites it, nobody reads it): leaving it out of the VIEW loses
\* no behaviour, and ReportRule is still evaluated on every explored transition
View == [P EXCEPT !.snapRaw = 0, !.snapQa = 0, !.snapPledge = 0]

StepOK == [][StepProps]_mcvars
\* with the tick's second transaction as coded, a miner whose two callbacks fail in one tick is counted twice:
\* MC_Power_count.cfg expects TLC to find that (finding "miner_count double decrement")
CountOK == InvCount

\* ---- transition tour: one exported behaviour per abstract transition signature (shortest first under BFS)
Regime(S) == S.aboveCount >= MinMiners
CallerClass(S, c) == IF ~IsMinerActor(S, c) THEN c ELSE IF HasClaim(S, c) THEN "miner" ELSE "frozen-miner"
Sgn(x) == IF x < 0 THEN -1 ELSE IF x > 0 THEN 1 ELSE 0
ArgClass(S, r) ==
  CASE r.a = "UpdateClaimedPower" ->
         IF HasClaim(S, r.c)
         THEN <<S.claims[r.c].raw >= MinPower, S.claims[r.c].raw + r.dr >= MinPower, Sgn(r.dr), Sgn(r.dq),
                S.claims[r.c].raw + r.dr < 0, S.claims[r.c].qa + r.dq < 0>>
         ELSE <<"-">>
    [] r.a = "EnrollCronEvent" ->
         <<IF r.e < 0 THEN "neg" ELSE IF r.e < S.firstCron THEN "before-first" ELSE IF r.e <= S.epoch THEN "due"
           ELSE "future", r.p>>
    [] r.a = "UpdatePledgeTotal" -> <<Sgn(r.d), S.pledge + r.d < 0>>
    [] r.a = "CreateMiner" -> <<r.funded>>
    [] r.a = "Tick" ->
         LET n == Len(r.cbs)
             F == {i \in 1..n : ~r.cbs[i].ok}
         IN  <<IF n > 2 THEN 2 ELSE n, IF Cardinality(F) > 2 THEN 2 ELSE Cardinality(F),
               \E i, j \in F : i < j /\ r.cbs[i].m = r.cbs[j].m,                 \* one miner fails twice
               \E i \in 1..Len(S.queue) : Scanned(S, S.queue[i]) /\ ~HasClaim(S, S.queue[i].m),  \* dropped silently
               \E i \in 1..n : r.cbs[i].ok /\ Len(r.cbs[i].calls) > 0,
               \E i \in F : S.claims[r.cbs[i].m].raw >= MinPower>>
    [] OTHER -> <<"-">>
Tour ==
  IF last'.a = "Init" THEN TRUE
  ELSE LET sig == <<last'.a, last'.ok, IF "c" \in DOMAIN last' THEN CallerClass(P, last'.c) ELSE "cron",
                    Regime(P), Regime(P'), ArgClass(P, last')>>
       IN  IF sig \in TLCGet(42) THEN TRUE
           ELSE TLCSet(42, TLCGet(42) \cup {sig})
                /\ PrintT(<<"REPLAY", ToJson([sig |-> ToString(sig), calls |-> <<[a |-> "World", minPower |-> MinPower]>> \o hist'])>>)

Export == Len(hist) # ExportLen
          \/ PrintT(<<"REPLAY", ToJson(<<[a |-> "World", minPower |-> MinPower]>> \o hist)>>)
=============================================================================
