-------------------------------- MODULE Init --------------------------------
(***************************************************************************)
(* Actor identities: the init actor (Exec, Exec4), the Ethereum address    *)
(* manager (CreateExternal and the CREATE / CREATE2 entry points used by   *)
(* EVM contracts), the VM's auto-creation of account actors (f1/f3) and    *)
(* placeholders (f4), self-destruct / resurrection and deployer nonces.    *)
(*                                                                         *)
(* ADDRESSES are tuples; Keccak/RLP is an injective uninterpreted          *)
(* function, i.e. a derived address IS its derivation:                     *)
(*   <<"key", k>>              f1/f3 key address                           *)
(*   <<"raw", x>>              an f410 address with a driver-chosen name   *)
(*   <<"ext", A, n>>           CREATE formula over the stable address of   *)
(*                             the origin A and the message nonce n        *)
(*   <<"c1", A, n>>            CREATE  (deployer address A, nonce n)       *)
(*   <<"c2", A, salt, init>>   CREATE2 (deployer, salt, init-code)         *)
(*   <<"f2", i>>               robust address (an id gets at most one; in   *)
(*                             traces they are compared up to renaming)    *)
(* (the harness checks the literal formulas by independent recomputation   *)
(*  and logs addrOK; it names real addresses by these derivations).        *)
(*                                                                         *)
(* S = [next, amap, rob, act]                                              *)
(*   amap : key/f4 address -> id        rob : robust address -> id         *)
(*   act  : id -> [code, addr, nonce, seq, tomb, hc]                       *)
(*          addr  = the actor's own key/f4 address or None                 *)
(*          nonce = EVM deployer nonce, seq = message sequence number      *)
(*          tomb  = 0 | 1 self-destructed by the current/latest message    *)
(*                    | 2 self-destructed by an earlier message (= dead)   *)
(*          hc    = has (non-empty) EVM bytecode                           *)
(* Every top-level message is a pure function Do(S, call) -> [ok, S, res]; *)
(* a message to a contract carries a PROGRAM (sequence of ops, calls nest) *)
(* evaluated by plain recursion, so re-entrancy / revert are composition.  *)
(* res = the creation attempts made, in execution order.                   *)
(***************************************************************************)
EXTENDS Integers, Sequences, FiniteSets, TLC

VARIABLES S,      \* see above
          used,   \* history: every id that ever denoted an actor
          last    \* the most recent call + what was observed: [a, ok, res, rid, ...]

vars == <<S, used, last>>

None == <<"none">>
Builtin(a) == a[1] = "builtin"            \* <<"builtin", "power">> etc.: impersonated singleton sender

Put(f, k, v) == [x \in DOMAIN f \cup {k} |-> IF x = k THEN v ELSE f[x]]

Ids(s) == DOMAIN s.act
IdOf(s, a) == IF a \in DOMAIN s.amap THEN s.amap[a] ELSE 0
Exists(s, a) == a \in DOMAIN s.amap /\ s.amap[a] \in Ids(s)

NewRec(code, a) == [code |-> code, addr |-> a, nonce |-> 0, seq |-> 0, tomb |-> 0, hc |-> FALSE]

\* dead = self-destructed in an EARLIER message (alive until the end of its own message)
Dead(s, i) == s.act[i].tomb = 2
Runs(s, i) == i \in Ids(s) /\ s.act[i].code = "evm" /\ ~Dead(s, i) /\ s.act[i].hc

\* allocate the next id for address a with the given code (VM auto-creation and init's id allocation)
NewActor(s, a, code) ==
  [s EXCEPT !.next = @ + 1, !.amap = Put(@, a, s.next), !.act = Put(@, s.next, NewRec(code, a))]

\* a plain send to address a: accounts for key addresses, placeholders for f4 addresses
AutoCreate(s, a) ==
  IF a \in DOMAIN s.amap THEN s
  ELSE IF a[1] = "key" THEN NewActor(s, a, "account")
  ELSE NewActor(s, a, "placeholder")

\* a fresh robust address for id i
RobName(i) == <<"f2", i>>
Robust(s, i) == [s EXCEPT !.rob = Put(@, RobName(i), i)]

CanExec(ct, code) == code \in {"multisig", "paych"} \/ (code = "miner" /\ ct = "power")

Reserved(a) == a[1] = "raw" /\ a[2] \in {"null", "precompile", "idlike"}

NoDeploy == [ok |-> FALSE, id |-> 0, how |-> "-", rob |-> None, res |-> <<>>]

RECURSIVE RunOps(_, _, _, _, _), Construct(_, _, _, _, _, _, _), Deploy(_, _, _, _)

\* run the EVM constructor on id i (fresh, placeholder or dead contract) at address a.  Init code
\* "reenter" calls the creator back (program <<create ok>>) before returning the code: the creator is
\* re-entered while its own CREATE is in progress.  While it is being constructed the new contract
\* has no code.
Construct(s, i, a, init, how, rb, creator) ==
  IF init = "revert" THEN NoDeploy
  ELSE LET s1 == [s EXCEPT !.act[i] = [code |-> "evm", addr |-> a, nonce |-> 1, seq |-> s.act[i].seq,
                                       tomb |-> IF init = "sd" THEN 1 ELSE 0, hc |-> FALSE]]
           rc == IF init = "reenter" /\ Runs(s1, creator)
                 THEN RunOps(s1, creator, <<[op |-> "create", init |-> "ok"]>>, 1, 0)
                 ELSE [ok |-> TRUE, S |-> s1, res |-> <<>>]
           s2 == IF rc.ok THEN rc.S ELSE s1
       IN  [ok |-> TRUE, id |-> i, how |-> how, rob |-> rb, res |-> rc.res,
            S |-> [s2 EXCEPT !.act[i].hc = init \in {"ok", "reenter"}]]

\* the EAM's create_actor + init.Exec4 + EVM constructor / Resurrect
Deploy(s, a, init, creator) ==
  IF Reserved(a) THEN NoDeploy
  ELSE IF a \in DOMAIN s.amap THEN
       LET i == s.amap[a] IN
       IF i \notin Ids(s) THEN NoDeploy
       ELSE IF s.act[i].code = "evm" THEN
            IF Dead(s, i) THEN Construct(s, i, a, init, "resurrect", None, creator) ELSE NoDeploy
       ELSE IF s.act[i].code = "placeholder"
            THEN Construct(Robust(s, i), i, a, init, "placeholder", RobName(i), creator)
       ELSE NoDeploy
  ELSE Construct(Robust(NewActor(s, a, "placeholder"), s.next), s.next, a, init, "new", RobName(s.next), creator)

Attempt(d, kind, n, salt, init, a, r) ==
  [d |-> d, kind |-> kind, nonce |-> n, salt |-> salt, init |-> init, f4 |-> a,
   ok |-> r.ok, id |-> r.id, how |-> r.how, robust |-> r.rob, kept |-> TRUE]

Unkeep(res) == [k \in 1..Len(res) |-> [res[k] EXCEPT !.kept = FALSE]]

(* A program op is one of
     [op |-> "create", init]   [op |-> "create2", salt, init]
     [op |-> "call", to, prog]            to: an address, or <<"last">> = the contract created last in this frame
     [op |-> "destroy", ben]              ben: <<"caller">> or an f4 address (a placeholder is auto-created if new)
     [op |-> "revert"]
   RunOps returns [ok, S, res]; ok = FALSE: the frame reverted, its effects are dropped by the caller. *)
RunOps(s, self, prog, i, lastC) ==
  IF i > Len(prog) THEN [ok |-> TRUE, S |-> s, res |-> <<>>]
  ELSE LET o == prog[i] IN
    CASE o.op \in {"create", "create2"} ->
           LET n  == s.act[self].nonce
               a  == IF o.op = "create" THEN <<"c1", s.act[self].addr, n>>
                                        ELSE <<"c2", s.act[self].addr, o.salt, o.init>>
               s1 == [s EXCEPT !.act[self].nonce = n + 1]      \* consumed BEFORE, kept on failure
               r  == Deploy(s1, a, o.init, self)
               s2 == IF r.ok THEN r.S ELSE s1
               at == Attempt(self, IF o.op = "create" THEN "c1" ELSE "c2",
                             IF o.op = "create" THEN n ELSE -1,
                             IF o.op = "create2" THEN o.salt ELSE "-", o.init, a, r)
               rest == RunOps(s2, self, prog, i + 1, IF r.ok THEN r.id ELSE 0)
           IN  [ok |-> rest.ok, S |-> rest.S,
                res |-> (IF rest.ok THEN <<at>> \o r.res ELSE Unkeep(<<at>> \o r.res)) \o rest.res]
      [] o.op = "call" ->
           LET t  == IF o.to = <<"last">> THEN lastC ELSE IdOf(s, o.to)
               rc == IF Runs(s, t) THEN RunOps(s, t, o.prog, 1, 0)
                                   ELSE [ok |-> TRUE, S |-> s, res |-> <<>>]
               s2 == IF rc.ok THEN rc.S ELSE s
               rest == RunOps(s2, self, prog, i + 1, lastC)
           IN  [ok |-> rest.ok, S |-> rest.S,
                res |-> (IF rest.ok THEN rc.res ELSE Unkeep(rc.res)) \o rest.res]
      [] o.op = "destroy" ->
           LET s1 == IF o.ben = <<"caller">> THEN s ELSE AutoCreate(s, o.ben)
           IN  [ok |-> TRUE, S |-> [s1 EXCEPT !.act[self].tomb = 1], res |-> <<>>]
      [] o.op = "revert" -> [ok |-> FALSE, S |-> s, res |-> <<>>]

\* what every top-level message does first: contracts self-destructed by the previous message are
\* dead now; the sender's sequence number is consumed (also by a failing message); a placeholder
\* that sends becomes an Ethereum account
Begin(s, from) ==
  LET s1 == [s EXCEPT !.act = [i \in DOMAIN @ |-> [@[i] EXCEPT !.tomb = IF @ = 1 THEN 2 ELSE @]]] IN
  IF ~Builtin(from) /\ Exists(s, from)
  THEN LET i == s.amap[from] IN
       [s1 EXCEPT !.act[i].seq = @ + 1,
                  !.act[i].code = IF @ = "placeholder" THEN "ethaccount" ELSE @]
  ELSE s1

(* Top-level calls (from / to are ADDRESSES, never ids, so that behaviours are replayable):
     [a |-> "Send", from, to]
     [a |-> "Exec", from, ct, code, ctorOK, extra]   ct = type of the immediate caller of init.Exec
                                                     ("account"; "power" = via power.CreateMiner or
                                                     impersonated; "eam" impersonated); extra = a key
                                                     address the constructor resolves (auto-created) or None
     [a |-> "Exec4", from, ct, f4, init]             component level (immediate caller type ct)
     [a |-> "CreateExternal", from, init]
     [a |-> "Invoke", from, to, prog]
     [a |-> "Retire", from]                          Settle + Collect of the youngest payment channel       *)
Do(s, c) ==
  LET b    == Begin(s, c.from)
      fail == [ok |-> FALSE, S |-> b, res |-> <<>>, rid |-> 0, robust |-> None]
  IN
  CASE c.a = "Send" -> [ok |-> TRUE, S |-> AutoCreate(b, c.to), res |-> <<>>, rid |-> 0, robust |-> None]
    [] c.a = "Exec" ->
         IF ~CanExec(c.ct, c.code) \/ ~c.ctorOK THEN fail
         ELSE LET s1 == Robust([b EXCEPT !.next = @ + 1,
                                         !.act = Put(@, b.next, NewRec(c.code, None))], b.next)
                  s2 == IF c.extra = None THEN s1 ELSE AutoCreate(s1, c.extra)
              IN  [ok |-> TRUE, S |-> s2, res |-> <<>>, rid |-> b.next, robust |-> RobName(b.next)]
    [] c.a = "Exec4" ->
         IF c.ct # "eam" THEN fail
         ELSE LET ex == c.f4 \in DOMAIN b.amap
                  i  == IF ex THEN b.amap[c.f4] ELSE b.next
              IN  IF ex /\ (i \notin Ids(b) \/ b.act[i].code # "placeholder") THEN fail
                  ELSE LET s1 == IF ex THEN b ELSE NewActor(b, c.f4, "placeholder")
                           r  == Construct(Robust(s1, i), i, c.f4, c.init, IF ex THEN "placeholder" ELSE "new", RobName(i), 0)
                       IN  IF r.ok THEN [ok |-> TRUE, S |-> r.S, res |-> <<>>, rid |-> i, robust |-> r.rob] ELSE fail
    [] c.a = "CreateExternal" ->
         IF Builtin(c.from) \/ ~Exists(s, c.from) THEN fail
         ELSE LET i == s.amap[c.from]
                  a == <<"ext", s.act[i].addr, s.act[i].seq>>
                  r == Deploy(b, a, c.init, i)
                  at == Attempt(i, "ext", s.act[i].seq, "-", c.init, a, r)
              IN  IF b.act[i].code \notin {"account", "ethaccount"}      \* refused before any address is computed
                  THEN [fail EXCEPT !.res = <<[Attempt(i, "ext", s.act[i].seq, "-", c.init, a, NoDeploy) EXCEPT !.kept = FALSE]>>]
                  ELSE IF r.ok THEN [ok |-> TRUE, S |-> r.S, res |-> <<at>> \o r.res, rid |-> r.id, robust |-> r.rob]
                  ELSE [fail EXCEPT !.res = <<[at EXCEPT !.kept = FALSE]>>]
    [] c.a = "Retire" ->
         \* two messages of the sender (paych.Settle, then -- after the settling delay -- paych.Collect) that
         \* delete its youngest payment channel: the actor disappears, its id and addresses stay taken
         LET ps == {i \in Ids(s) : s.act[i].code = "paych"}
             b2 == Begin(b, c.from)
         IN  IF ps = {} THEN [fail EXCEPT !.S = b2]
             ELSE LET p == CHOOSE i \in ps : \A j \in ps : j <= i IN
                  [ok |-> TRUE, S |-> [b2 EXCEPT !.act = [i \in DOMAIN @ \ {p} |-> @[i]]], res |-> <<>>,
                   rid |-> p, robust |-> None]
    [] c.a = "Invoke" ->
         LET t == IdOf(b, c.to) IN
         IF ~Runs(b, t) THEN [ok |-> TRUE, S |-> b, res |-> <<>>, rid |-> 0, robust |-> None]
         ELSE LET r == RunOps(b, t, c.prog, 1, 0) IN
              IF r.ok THEN [ok |-> TRUE, S |-> r.S, res |-> r.res, rid |-> 0, robust |-> None]
                      ELSE [fail EXCEPT !.res = r.res]

Step(c) ==
  LET r == Do(S, c) IN
  /\ S' = r.S
  /\ used' = used \cup Ids(r.S)
  /\ last' = [c EXCEPT !.ok = r.ok, !.res = r.res, !.rid = r.rid, !.robust = r.robust]

-----------------------------------------------------------------------------
(* Layer P: C20 from the English statement, over (S, last', S'), independent of Do. *)

NewIds == Ids(S') \ Ids(S)
Res == last'.res
KeptOK(k) == Res[k].ok /\ Res[k].kept
DeployedHere(i) == \/ \E k \in 1..Len(Res) : KeptOK(k) /\ Res[k].id = i
                   \/ (last'.a = "Exec4" /\ last'.ok /\ last'.rid = i)

\* "receives a fresh ID that was never used before"
IdsFresh == \A i \in NewIds : i >= S.next /\ i \notin used
\* ids are handed out below next_id, which never goes back
NextCovers ==
  /\ S'.next >= S.next
  /\ \A i \in Ids(S') : i < S'.next
  /\ \A a \in DOMAIN S'.amap : S'.amap[a] < S'.next
  /\ \A a \in DOMAIN S'.rob : S'.rob[a] < S'.next
\* nothing that failed (constructor, reverted frame, refused creator) consumed an id
NextExact == S'.next = S.next + Cardinality(NewIds)

\* "its stable address maps to that ID from then on": the registry only grows, never remaps
MapOnlyGrows ==
  /\ \A a \in DOMAIN S.amap : a \in DOMAIN S'.amap /\ S'.amap[a] = S.amap[a]
  /\ \A a \in DOMAIN S.rob : a \in DOMAIN S'.rob /\ S'.rob[a] = S.rob[a]
\* new registry entries belong to new actors (a robust address may also name a placeholder that
\* has just been turned into a contract); distinct new addresses get distinct ids
MapFresh ==
  /\ \A a \in DOMAIN S'.amap \ DOMAIN S.amap : S'.amap[a] \in NewIds
  /\ \A a, b \in DOMAIN S'.amap \ DOMAIN S.amap : a # b => S'.amap[a] # S'.amap[b]
  /\ \A a \in DOMAIN S'.rob \ DOMAIN S.rob :
        \/ S'.rob[a] \in NewIds
        \/ (S'.rob[a] \in Ids(S) /\ S.act[S'.rob[a]].code = "placeholder" /\ DeployedHere(S'.rob[a]))
  /\ \A a, b \in DOMAIN S'.rob \ DOMAIN S.rob : a # b => S'.rob[a] # S'.rob[b]
\* an actor's own address resolves to it
AddrResolves ==
  \A i \in Ids(S') : S'.act[i].addr # None =>
      (S'.act[i].addr \in DOMAIN S'.amap /\ S'.amap[S'.act[i].addr] = i)
\* what a creation returned is what the registry says afterwards
ReturnedResolves ==
  /\ \A k \in 1..Len(Res) : KeptOK(k) =>
        /\ Res[k].f4 \in DOMAIN S'.amap /\ S'.amap[Res[k].f4] = Res[k].id
        /\ Res[k].id \in Ids(S') /\ S'.act[Res[k].id].code = "evm" /\ S'.act[Res[k].id].addr = Res[k].f4
        /\ (Res[k].how # "resurrect" => (Res[k].robust \in DOMAIN S'.rob /\ S'.rob[Res[k].robust] = Res[k].id))
  /\ (last'.a \in {"Exec", "Exec4"} /\ last'.ok) =>
        (last'.rid \in Ids(S') /\ last'.robust \in DOMAIN S'.rob /\ S'.rob[last'.robust] = last'.rid)

\* "only permitted creator/code combinations succeed"
ExecMatrix ==
  /\ (last'.a = "Exec" /\ last'.ok) => CanExec(last'.ct, last'.code)
  /\ (last'.a = "Exec4" /\ last'.ok) => last'.ct = "eam"
NewActorKinds ==
  \A i \in NewIds : LET k == S'.act[i].code IN
    CASE k = "account" -> S'.act[i].addr[1] = "key"
      [] k = "placeholder" -> S'.act[i].addr[1] \notin {"key", "none"}
      [] k \in {"multisig", "paych"} -> last'.a = "Exec" /\ last'.ok /\ last'.code = k /\ last'.rid = i
      [] k = "miner" -> last'.a = "Exec" /\ last'.ok /\ last'.code = k /\ last'.ct = "power" /\ last'.rid = i
      [] k = "evm" -> DeployedHere(i) /\ S'.act[i].addr[1] \notin {"key", "none"}
      [] OTHER -> FALSE
\* "anyone may create multisigs and payment channels, only the power actor miners"
PermittedSucceeds ==
  (last'.a = "Exec" /\ CanExec(last'.ct, last'.code) /\ last'.ctorOK) => last'.ok

\* "a deployment never overwrites an existing actor other than a placeholder or a self-destructed contract"
NoOverwrite ==
  /\ \A i \in Ids(S) \cap Ids(S') :
       /\ S'.act[i].addr = S.act[i].addr
       /\ S'.act[i].code # S.act[i].code =>
            \/ (S.act[i].code = "placeholder" /\ S'.act[i].code = "ethaccount"
                /\ ~Builtin(last'.from) /\ Exists(S, last'.from) /\ S.amap[last'.from] = i)
            \/ (S.act[i].code = "placeholder" /\ S'.act[i].code = "evm" /\ DeployedHere(i))
  /\ \A k \in 1..Len(Res) : KeptOK(k) =>
       IF Res[k].f4 \in DOMAIN S.amap
       THEN LET i == S.amap[Res[k].f4] IN
            /\ Res[k].id = i /\ i \in Ids(S)
            /\ \/ S.act[i].code = "placeholder"
               \/ (S.act[i].code = "evm" /\ S.act[i].tomb # 0)      \* dead: destroyed by an earlier message
       ELSE Res[k].id \in NewIds
  /\ \A j, k \in 1..Len(Res) : (j # k /\ KeptOK(j) /\ KeptOK(k)) => Res[j].f4 # Res[k].f4
\* actors do not vanish (except a collected payment channel), and a contract that was not (re)deployed
\* by this message keeps its code; a dead contract stays dead
Incarnation ==
  /\ \A i \in Ids(S) \ Ids(S') : last'.a = "Retire" /\ last'.ok /\ last'.rid = i /\ S.act[i].code = "paych"
  /\ \A i \in Ids(S) : (S.act[i].code = "evm" /\ ~DeployedHere(i)) =>
        /\ S'.act[i].hc = S.act[i].hc
        /\ (S.act[i].tomb # 0 => S'.act[i].tomb = 2)
        /\ (S.act[i].tomb = 0 => S'.act[i].tomb \in {0, 1})
\* "reserved address ranges are never assigned"
ReservedFree == \A i \in Ids(S') : S'.act[i].code = "evm" => ~Reserved(S'.act[i].addr)

\* "deployer nonces only grow" and every CREATE/CREATE2 that was not rolled back consumed exactly one
KeptBy(d, upto) == Cardinality({k \in 1..upto : Res[k].d = d /\ Res[k].kept /\ Res[k].kind \in {"c1", "c2"}})
NonceRules ==
  /\ \A i \in Ids(S) \cap Ids(S') : (S.act[i].code = "evm" /\ ~DeployedHere(i)) =>
        S'.act[i].nonce = S.act[i].nonce + KeptBy(i, Len(Res))
  /\ \A i \in Ids(S') : S'.act[i].code = "evm" => S'.act[i].nonce >= 1
  /\ \A k \in 1..Len(Res) :
        (Res[k].kept /\ Res[k].kind = "c1" /\ Res[k].d \in Ids(S) /\ ~DeployedHere(Res[k].d)) =>
            Res[k].nonce = S.act[Res[k].d].nonce + KeptBy(Res[k].d, k - 1)
\* the sender's sequence number is consumed by every message, nobody else's moves
SeqRules ==
  \A i \in Ids(S) \cap Ids(S') :
     S'.act[i].seq = S.act[i].seq +
        (IF ~Builtin(last'.from) /\ Exists(S, last'.from) /\ S.amap[last'.from] = i
         THEN (IF last'.a = "Retire" THEN 2 ELSE 1) ELSE 0)

\* "Contract addresses follow Ethereum's CREATE and CREATE2 formulas from the deployer's address and
\*  nonce or salt": the derivation recorded for every attempt is the one of ITS deployer and inputs
\* (addrOK, checked in the trace spec, says the literal bytes agree with the independent recomputation)
Derivation ==
  \A k \in 1..Len(Res) : Res[k].kept => LET r == Res[k] IN
     /\ r.d \in Ids(S')
     /\ CASE r.kind = "ext" -> r.d \in Ids(S) /\ r.f4 = <<"ext", S.act[r.d].addr, S.act[r.d].seq>>
                               /\ r.nonce = S.act[r.d].seq
          [] r.kind = "c1" -> r.f4 = <<"c1", S'.act[r.d].addr, r.nonce>>
          [] r.kind = "c2" -> r.f4 = <<"c2", S'.act[r.d].addr, r.salt, r.init>>

\* a failed top-level message leaves nothing but the consumed sequence number
RejectedIsNoop ==
  (~last'.ok) => /\ S'.next = S.next /\ S'.amap = S.amap /\ S'.rob = S.rob /\ Ids(S') = Ids(S)
                 /\ \A i \in Ids(S) : /\ S'.act[i].nonce = S.act[i].nonce
                                      /\ (S'.act[i].tomb = 0) = (S.act[i].tomb = 0)
                                      /\ S'.act[i].hc = S.act[i].hc

StepProps == /\ IdsFresh /\ NextCovers /\ NextExact /\ MapOnlyGrows /\ MapFresh /\ AddrResolves
             /\ ReturnedResolves /\ ExecMatrix /\ NewActorKinds /\ PermittedSucceeds /\ NoOverwrite
             /\ Incarnation /\ ReservedFree /\ NonceRules /\ SeqRules /\ Derivation /\ RejectedIsNoop
=============================================================================
