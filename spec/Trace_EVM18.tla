---------------------------- MODULE Trace_EVM18 ----------------------------
(* Trace validation for property C18 (harness/drivers/src/evm18.rs).  The events, the re-execution by
   EVM.tla and all formulas are those of Trace_EVM: the C18 formulas StackBound, MemBound, JumpDest
   (every recorded step), NoPanic, NoHang, OutcomeClass (every run) and StaticNoEffect (header kind
   "static": the target frame of a STATICCALL chain is re-executed with static = TRUE; the End event
   carries same_state / same_bal / same_actors / events for the whole top-level message) live there
   because the C17 traces are checked against the same bounds.  This module only gives the suite its
   own name and configuration. *)
EXTENDS Trace_EVM
=============================================================================
