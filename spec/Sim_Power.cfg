SPECIFICATION SimSpec
CONSTANTS MinPower = 4
          MinMiners = 4
          NumMiners = 6
          CountFix = TRUE
          PowerDeltas <- DeltasSim
          PledgeDeltas <- PledgeWide
          EnrolOffsets <- OffsetsWide
          PayloadsUsed = {"noop", "deadline", "bad"}
          NonMiners = {"acct", "cron"}
          Period = 3
          MaxEpoch = 14
          MaxRaw = 16
          MaxQa = 40
          MaxPledge = 8
          MaxQueue = 6
          ExportLen = 36
CONSTRAINT Bound
INVARIANT Inv
INVARIANT InvCount
INVARIANT Export
PROPERTY StepOK
CHECK_DEADLOCK FALSE
