SPECIFICATION SimSpec
CONSTANTS Holders = {"c1", "c2", "v1", "v2", "vr", "x"}
          Root = "root"
          MinerSet = {"m1", "m2"}
          MinSize = 256
          MinTerm = 10
          MaxTerm = 20
          MaxExp = 5
          MaxEpoch = 40
          MaxNext = 4
          ExportLen = 20
          Rich = TRUE
CONSTRAINT Bound
INVARIANT Inv
INVARIANT Export
PROPERTY StepOK
CHECK_DEADLOCK FALSE
