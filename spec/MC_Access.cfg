SPECIFICATION MCSpec
INVARIANT TableInv
INVARIANT CellInv
ACTION_CONSTRAINT Tour
CHECK_DEADLOCK FALSE
