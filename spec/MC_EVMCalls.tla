---------------------------- MODULE MC_EVMCalls ----------------------------
(* Bounded model of EVMCalls.tla: two script contracts A and B (plus the children they create with
   CREATE2).  TLC enumerates every script of a generated alphabet (write / call / read patterns over
   every call kind, target, nesting up to 3 with re-entrancy, reverting / aborting / self-destructing
   callees) as the first message and probe / life-cycle scripts afterwards, checks the semantics'
   own meta-properties in every reachable world and exports a tour of (script shape, outcome). *)
EXTENDS EVMCalls, Json, Randomization

CONSTANTS MaxMsgs, ExportLen, Rich

VARIABLES hist, base      \* calls so far (exported for replay); length of the initial prefix
mcvars == <<vars, hist, base>>

A == <<"A">>
B == <<"B">>
X1 == <<"x1">>
Caller == <<"caller">>
Kinds == {"call", "static", "delegate"}
Other(c) == IF c = A THEN B ELSE A
Child(c) == <<"c2", c, "s1">>

SS(k, v) == [op |-> "sstore", k |-> k, v |-> v]
SL(k) == [op |-> "sload", k |-> k]
TS(k, v) == [op |-> "tstore", k |-> k, v |-> v]
TL(k) == [op |-> "tload", k |-> k]
LG(t) == [op |-> "log", t |-> t]
EN == [op |-> "env"]
RV == [op |-> "revert"]
IV == [op |-> "invalid"]
DS(b) == [op |-> "destroy", ben |-> b]
C2(s, v) == [op |-> "create2", salt |-> s, value |-> v, init |-> "plain"]
C1(v) == [op |-> "create", value |-> v, init |-> "plain"]
C2s(s, v) == [op |-> "create2", salt |-> s, value |-> v, init |-> "store"]
Kid(c) == <<"c2", c, "t1">>
Cl(k, t, v, p) == [op |-> "call", kind |-> k, to |-> t, value |-> v, prog |-> p]

\* depth-2 bodies
I2 == {<<SL(0)>>, <<SS(0, 2)>>, <<SS(0, 2), RV>>, <<TS(0, 2)>>, <<TL(0)>>}
\* depth-1 bodies: plain, failing in every way, and "write / call onwards (incl. back into the caller) / read"
I1 == I2 \cup {<<SL(0), SS(0, 2), SL(0)>>, <<SS(0, 2), IV>>, <<LG(1), RV>>, <<LG(1)>>, <<EN>>,
               <<TS(0, 2), TL(0), RV>>, <<DS(X1)>>, <<SS(0, 2), DS(X1)>>, <<DS(X1), RV>>}
         \cup {<<SS(0, 2), Cl(k, t, 0, q), SL(0)>> : k \in Kinds, t \in {A, B}, q \in I2}
Pre == {<<>>, <<SS(0, 1)>>, <<TS(0, 1)>>}
Post == {<<SL(0)>>, <<TL(0)>>, <<SL(0), RV>>}
Big == {pre \o <<Cl(k, t, v, q)>> \o post :
           pre \in Pre, k \in Kinds, t \in {A, B}, v \in (IF Rich THEN {0, 1} ELSE {0}), q \in I1, post \in Post}

Life(c) ==
  LET N == Child(c) IN
  {<<C2("s1", 1)>>, <<C1(0), C1(1)>>,
   <<C2("s1", 0), Cl("call", N, 1, <<SS(0, 1), TS(0, 1), SL(0)>>)>>,
   <<Cl("call", N, 0, <<SS(0, 2)>>)>>,
   <<Cl("call", N, 0, <<DS(Caller)>>), Cl("call", N, 1, <<SL(0), TL(0), SS(0, 1), SL(0)>>), SL(0)>>,
   <<Cl("call", N, 0, <<DS(X1)>>)>>,
   <<Cl("call", N, 0, <<DS(Caller), RV>>)>>,
   <<Cl("call", N, 0, <<SL(0), TL(0), EN>>)>>,
   <<C2("s1", 0), Cl("call", N, 0, <<SL(0), TL(0)>>)>>,
   <<C2("s1", 0), C2("s1", 0)>>,
   <<Cl("delegate", Other(c), 0, <<DS(X1)>>), SL(0)>>,
   <<SS(0, 1), Cl("delegate", Other(c), 0, <<SS(0, 2), C2("s1", 0)>>), SL(0)>>,
   <<DS(X1)>>, <<SS(0, 1), DS(Caller)>>,
   \* a child whose constructor writes storage and transient storage; destroyed and re-created
   <<C2s("t1", 0), Cl("call", Kid(c), 0, <<SL(0), TL(1), SS(0, 1)>>)>>,
   <<[op |-> "create", value |-> 0, init |-> "store"], SL(0)>>,
   <<Cl("call", Kid(c), 0, <<SL(0), DS(Caller)>>)>>,
   \* the running contract is re-entered; the inner activation writes / self-destructs, the outer one
   \* then writes something else: neither may clobber the other
   <<Cl("call", c, 0, <<SS(0, 2), TS(0, 2)>>), SS(1, 1), SL(0), TL(0)>>,
   <<Cl("call", c, 0, <<DS(X1)>>), SS(0, 1), SL(0)>>,
   <<Cl("call", Other(c), 0, <<Cl("call", c, 0, <<SS(0, 2)>>), RV>>), SS(1, 1), SL(0)>>,
   <<Cl("static", N, 0, <<SL(0)>>), Cl("static", Other(c), 0, <<C2("s1", 0)>>)>>,
   <<Cl("static", Other(c), 0, <<Cl("call", c, 0, <<SS(0, 2)>>)>>), SL(0)>>,
   <<Cl("call", Other(c), 1, <<Cl("call", c, 1, <<EN>>), EN>>)>>}
Probe(c) ==
  {<<TL(0), SL(0)>>, <<SL(0), TL(0), EN>>,
   <<Cl("static", Other(c), 0, <<SL(0), TL(0)>>), SL(0)>>,
   <<Cl("delegate", Other(c), 0, <<SL(0), TL(0), EN>>)>>,
   <<SS(0, 1), TS(0, 1), LG(2)>>}

\* calls go to contracts that exist (or that the script itself creates first): on the recording VM a
\* call to an address without actor does not behave as on the FVM (see notes/INIT-CALLS.md)
RECURSIVE Targets(_)
Targets(p) == UNION {IF p[i].op = "call" THEN {p[i].to} \cup Targets(p[i].prog) ELSE {} : i \in 1..Len(p)}
Runnable(w, c, p) == \A t \in Targets(p) :
                        IsCon(w, t) \/ (t \in {Child(c), Kid(c)} /\ \E i \in 1..Len(p) : p[i].op = "create2")

Blank == [ok |-> TRUE, obs |-> <<>>]
Msgs(d) ==
  UNION {{Blank @@ [a |-> "Msg", to |-> c, value |-> v, prog |-> p] :
            p \in {q \in Life(c) \cup Probe(c) : Runnable(W, c, q)}, v \in {0, 1}} : c \in {A, B}}
  \cup UNION {{Blank @@ [a |-> "Msg", to |-> c, value |-> 0, prog |-> p] :
            p \in (IF d = 0 THEN Big ELSE {})} : c \in {A, B}}
  \cup {Blank @@ [a |-> "Msg", to |-> Child(c), value |-> 0, prog |-> p] :
          c \in {x \in {A} : IsCon(W, Child(x))}, p \in {<<SL(0), TL(0)>>, <<DS(Caller)>>}}

Rec(r) == hist' = Append(hist, r) /\ UNCHANGED base
Plain(c) == [x \in DOMAIN c \ {"ok", "obs"} |-> c[x]]
MsgStep == Len(hist) < base + MaxMsgs /\ \E m \in Msgs(Len(hist)) : Step(m) /\ Rec(Plain(m))
SimStep == \E m \in RandomSubset(10, Msgs(IF Len(hist) < 3 THEN 0 ELSE 1)) : Step(m) /\ Rec(Plain(m))

World0 == [con |-> (A :> [Fresh(1) EXCEPT !.nonce = 1]) @@ (B :> Fresh(2)),
           bal |-> (A :> 2) @@ (B :> 2),
           logs |-> <<>>]
\* initial worlds: the plain one, and one reached by a fixed prefix (replayed by the driver) in which
\* A's child holds storage and value and has just been destroyed
M0(c, v, p) == [a |-> "Msg", to |-> c, value |-> v, prog |-> p]
Prefixes == {<<>>,
             <<M0(A, 1, <<C2("s1", 1), Cl("call", Child(A), 0, <<SS(0, 2), SS(1, 1)>>)>>),
               M0(A, 0, <<Cl("call", Child(A), 0, <<DS(X1)>>)>>)>>}
RECURSIVE RunHist(_, _)
RunHist(w, h) == IF h = <<>> THEN w ELSE RunHist(Do(w, Head(h)).W, Tail(h))
MCInit == /\ \E h \in Prefixes : W = RunHist(World0, h) /\ hist = h /\ base = Len(h)
          /\ last = Blank @@ [a |-> "Init"]
          /\ TLCSet(42, {})

\* ---- the semantics' own meta-properties, in every reachable world
Qs == {<<SS(0, 2)>>, <<TS(0, 2), SS(1, 1)>>, <<LG(1), SS(0, 1)>>, <<Cl("call", B, 0, <<DS(X1)>>)>>, <<C2("s2", 0)>>,
       <<SS(0, 2), Cl("call", A, 0, <<SS(0, 1)>>)>>, <<Cl("call", B, 1, <<SS(1, 2)>>)>>}
M(c, p) == [a |-> "Msg", to |-> c, value |-> 0, prog |-> p]
\* "a call that reverts or fails leaves no trace of its writes, logs or transfers"
MetaRevert ==
  \A c \in {A, B}, t \in {A, B}, k \in Kinds, q \in Qs, e \in {RV, IV} :
     LET r == Do(W, M(c, <<Cl(k, t, 0, q \o <<e>>)>>)) IN
     r.ok /\ Norm(r.W) = Norm(Begin(W)) /\ r.W.logs = <<>>
\* a static call (and everything below it) has no effect at all
MetaStatic ==
  \A c \in {A, B}, t \in {A, B}, q \in Qs :
     LET r == Do(W, M(c, <<Cl("static", t, 0, q)>>)) IN
     r.ok /\ Norm(r.W) = Norm(Begin(W)) /\ r.W.logs = <<>>
\* "transient storage is ... empty in the next" message
MetaTransient ==
  \A c \in DOMAIN W.con : \A k \in Keys :
     Live(Begin(W), c) => Do(W, M(c, <<TL(k)>>)).obs = << <<"t", 0>> >>
\* delegate-called code sees the caller's storage and never the callee's
MetaDelegate ==
  \A c \in {A, B} :
     (Live(Begin(W), c) /\ Live(Begin(W), Other(c))) =>
        LET r == Do(W, M(c, <<Cl("delegate", Other(c), 0, <<SS(1, 2), SL(1)>>), SL(1)>>)) IN
        /\ r.obs = << <<"call", TRUE>>, <<"s", 2>>, <<"end">>, <<"s", 2>> >>
        /\ r.W.con[Other(c)].st = Begin(W).con[Other(c)].st
\* a destroyed contract is empty from the next message on
MetaDead == \A c \in DOMAIN W.con : W.con[c].tomb # 0 => ~Live(Begin(W), c) /\ Begin(W).con[c].st = Zeros

\* ---- transition tour
RECURSIVE Shape(_, _)
Rel(self, t) == IF t = self THEN "self" ELSE IF t[1] = "c2" THEN "child" ELSE IF Len(t) = 1 /\ t[1] \in {"A", "B"} THEN "other" ELSE t[1]
Shape(self, p) ==
  [i \in 1..Len(p) |->
     CASE p[i].op = "call" -> <<"call", p[i].kind, Rel(self, p[i].to), p[i].value,
                                Shape(IF p[i].kind = "delegate" THEN self ELSE p[i].to, p[i].prog)>>
       [] p[i].op \in {"sstore", "tstore"} -> <<p[i].op, p[i].k>>
       [] p[i].op \in {"sload", "tload"} -> <<p[i].op, p[i].k>>
       [] p[i].op = "destroy" -> <<"destroy", p[i].ben[1]>>
       [] OTHER -> <<p[i].op>>]
ObsTags(obs) == [i \in 1..Len(obs) |-> IF obs[i][1] \in {"s", "t", "call"} THEN obs[i] ELSE <<obs[i][1]>>]
Tour ==
  LET sig == <<Rel(<<"-">>, last'.to), last'.value, Shape(last'.to, last'.prog), ObsTags(last'.obs), last'.ok>> IN
  IF sig \in TLCGet(42) THEN TRUE
  ELSE TLCSet(42, TLCGet(42) \cup {sig})
       /\ PrintT(<<"REPLAY", ToJson([sig |-> ToString(sig), calls |-> hist'])>>)

MCNext == MsgStep
SimNext == SimStep
MCSpec == MCInit /\ [][MCNext]_mcvars
SimSpec == MCInit /\ [][SimNext]_mcvars
View == Norm(W)
StepOK == [][StepProps]_mcvars
Export == Len(hist) # ExportLen \/ PrintT(<<"REPLAY", ToJson(hist)>>)
=============================================================================
