-------------------------- MODULE Trace_EVMCalls --------------------------
(* Trace validation of real EVM contracts (the script contract U, deployed through the EAM and run
   by the real EVM actor on verif_vm) against the ideal semantics EVMCalls.tla.  For C19 the
   property IS agreement with the ideal semantics, so the comparison formulas are Layer P: each
   names the aspect that differs.  RevertLeavesNoTrace, StaticNoEffect, DestroyedIsEmpty and
   TombstoneLifecycle are additionally stated over the recorded pre/post states alone. *)
EXTENDS EVMCalls, Json, IOUtils

VARIABLE l
Rec == ndJsonDeserialize(IOEnv.TRACE)

Range(sq) == {sq[i] : i \in 1..Len(sq)}
ToFn(pairs) == [k \in {p[1] : p \in Range(pairs)} |-> (CHOOSE p \in Range(pairs) : p[1] = k)[2]]
ToSt(arr) == [k \in Keys |-> arr[k + 1]]
ToCon(pairs) == [c \in {p[1] : p \in Range(pairs)} |->
                   LET r == (CHOOSE p \in Range(pairs) : p[1] = c)[2] IN
                   [st |-> ToSt(r.st), ts |-> Zeros, nonce |-> r.nonce, tomb |-> r.tomb, hc |-> r.hc,
                    cid |-> r.cid]]
ToW(st) == [con |-> ToCon(st.con), bal |-> ToFn(st.bal), logs |-> st.logs]

Filter(obs, tags) == SelectSeq(obs, LAMBDA x : x[1] \in tags)
Count(sq, x) == Cardinality({i \in 1..Len(sq) : sq[i] = x})
SameBag(p, q) == Len(p) = Len(q) /\ \A x \in Range(p) : Count(p, x) = Count(q, x)

\* everything below: R = what the ideal semantics says about the recorded message, N = its world in
\* canonical form, P = the recorded post-state (already canonical: the outside sees a destroyed
\* contract as empty, transient storage is not observable from outside)
Cons(w) == DOMAIN w.con

CallOutcome(R, e) == R.ok = e.ok
ReadsCoherent(R, e) == Filter(R.obs, {"s", "call", "end", "new", "b"}) = Filter(e.obs, {"s", "call", "end", "new", "b"})
TransientScope(R, e) == Filter(R.obs, {"t"}) = Filter(e.obs, {"t"})
DelegateContext(R, e) == Filter(R.obs, {"env"}) = Filter(e.obs, {"env"})
StorageCoherent(N, P) == Cons(N) = Cons(P) /\ \A c \in Cons(N) \cap Cons(P) : N.con[c].st = P.con[c].st
BalancesCoherent(N, P) == \A a \in DOMAIN N.bal \cup DOMAIN P.bal : Bal(N, a) = Bal(P, a)
LogsCoherent(R, e) == SameBag(R.W.logs, e.st.logs)
TombstoneCoherent(N, P) == \A c \in Cons(N) \cap Cons(P) :
                              N.con[c].tomb = P.con[c].tomb /\ N.con[c].hc = P.con[c].hc /\ N.con[c].cid = P.con[c].cid

\* "a call that reverts or fails leaves no trace": a failed message, on the recorded states alone
RevertLeavesNoTrace(e, P) ==
  (~e.ok) => /\ Cons(P) = Cons(W) /\ P.bal = Norm(Begin(W)).bal /\ e.st.logs = <<>>
             /\ \A c \in Cons(W) : /\ P.con[c].st = Norm(Begin(W)).con[c].st
                                   /\ P.con[c].nonce = W.con[c].nonce
                                   /\ (P.con[c].tomb = 0) = (W.con[c].tomb = 0)
\* a script whose top frame only reads and makes static calls changes nothing (whatever is below)
PureTop(p) == \A i \in 1..Len(p) : \/ p[i].op \in {"sload", "tload", "env", "bal"}
                                   \/ (p[i].op = "call" /\ p[i].kind = "static")
StaticNoEffect(e, P) ==
  (PureTop(e.prog) /\ e.value = 0) =>
      /\ e.ok /\ Cons(P) = Cons(W) /\ P.bal = W.bal /\ e.st.logs = <<>>
      /\ \A c \in Cons(W) : P.con[c].st = Norm(Begin(W)).con[c].st /\ P.con[c].nonce = W.con[c].nonce
\* "a self-destructed contract ... is empty afterwards": no storage, no code; dead stays dead unless
\* re-created by this message (then it is a fresh contract: nonce 1)
DestroyedIsEmpty(P) == \A c \in Cons(P) : P.con[c].tomb # 0 => (P.con[c].st = Zeros /\ ~P.con[c].hc)
TombstoneLifecycle(P) ==
  \A c \in Cons(W) :
     /\ c \in Cons(P)
     /\ (W.con[c].tomb = 0) => P.con[c].tomb \in {0, 1}
     /\ (W.con[c].tomb # 0 /\ P.con[c].tomb # 0) => P.con[c].tomb = 2
     /\ (W.con[c].tomb # 0 /\ P.con[c].tomb = 0) => P.con[c].nonce >= 1
\* value that reaches a contract after it self-destructed stays with the dead contract (Ethereum
\* would burn it); recorded as a NOTE, not a verdict
FundsInDestroyed(P) == \E c \in Cons(P) : P.con[c].tomb # 0 /\ Bal(P, c) > 0

Chk(prop, name, holds, e) == IF holds THEN TRUE ELSE PrintT(<<"VIOL", prop, name, l, "-", e.a>>)

TStep ==
  /\ l <= Len(Rec)
  /\ l' = l + 1
  /\ LET e == Rec[l] IN
     IF e.ev \in {"Init", "Reset"}
     THEN W' = ToW(e.st) /\ last' = [a |-> "Init", ok |-> TRUE, obs |-> <<>>]
     ELSE LET R == Do(W, e)
              N == Norm(R.W)
              P == ToW(e.st)
          IN
          /\ W' = P
          /\ last' = [a |-> e.a, ok |-> e.ok, obs |-> e.obs]
          /\ Chk("C19", "CallOutcome", CallOutcome(R, e), e)
          /\ Chk("C19", "ReadsCoherent", ReadsCoherent(R, e), e)
          /\ Chk("C19", "TransientScope", TransientScope(R, e), e)
          /\ Chk("C19", "DelegateContext", DelegateContext(R, e), e)
          /\ Chk("C19", "StorageCoherent", StorageCoherent(N, P), e)
          /\ Chk("C19", "BalancesCoherent", BalancesCoherent(N, P), e)
          /\ Chk("C19", "LogsCoherent", LogsCoherent(R, e), e)
          /\ Chk("C19", "TombstoneCoherent", TombstoneCoherent(N, P), e)
          /\ Chk("C19", "RevertLeavesNoTrace", RevertLeavesNoTrace(e, P), e)
          /\ Chk("C19", "StaticNoEffect", StaticNoEffect(e, P), e)
          /\ Chk("C19", "DestroyedIsEmpty", DestroyedIsEmpty(P), e)
          /\ Chk("C19", "TombstoneLifecycle", TombstoneLifecycle(P), e)
          /\ (IF FundsInDestroyed(P) THEN PrintT(<<"NOTE", "C19", "funds-in-destroyed", l>>) ELSE TRUE)
          /\ (IF \A c \in Cons(N) \cap Cons(P) : N.con[c].nonce = P.con[c].nonce THEN TRUE
              ELSE PrintT(<<"DRIFT", "C19", l, e.a, e.ok>>))

TInit == /\ W = [con |-> <<>>, bal |-> <<>>, logs |-> <<>>]
         /\ last = [a |-> "Init", ok |-> TRUE, obs |-> <<>>]
         /\ l = 1
TSpec == TInit /\ [][TStep]_<<vars, l>>
Accepted == TLCGet("stats").diameter = Len(Rec) + 1
=============================================================================
