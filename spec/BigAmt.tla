------------------------------- MODULE BigAmt -------------------------------
(* Arbitrary-size integers for TLC (whose integers are 32 bit): FIL amounts reach 2*10^27 atto.
   A value is a tuple <<sign, l1, l2, ...>> with sign \in {1,-1} and little-endian base-10^4 limbs,
   no leading (high) zero limbs; zero is <<1>>.  This is exactly what harness util::big() logs.
   All function-valued results are forced with TLCEval (TLC's lazy function values otherwise make
   iterated arithmetic explode). *)
EXTENDS Integers, Sequences, TLC

LOCAL B == 10000

BZero == <<1>>
BSign(x) == x[1]
BMag(x) == SubSeq(x, 2, Len(x))
BIsZero(x) == Len(x) = 1
BIsNeg(x) == x[1] = -1 /\ Len(x) > 1
BIsPos(x) == x[1] = 1 /\ Len(x) > 1
LOCAL Mk(s, m) == IF Len(m) = 0 THEN <<1>> ELSE TLCEval(<<s>> \o m)

RECURSIVE BStrip(_)
LOCAL BStrip(m) == IF Len(m) > 0 /\ m[Len(m)] = 0 THEN BStrip(SubSeq(m, 1, Len(m) - 1)) ELSE m

LOCAL L(m, i) == IF i <= Len(m) THEN m[i] ELSE 0

RECURSIVE MagAddR(_, _, _, _)
LOCAL MagAddR(a, b, i, c) ==
  IF i > Len(a) /\ i > Len(b) THEN (IF c = 0 THEN <<>> ELSE <<c>>)
  ELSE LET x == L(a, i) + L(b, i) + c IN <<x % B>> \o MagAddR(a, b, i + 1, x \div B)
LOCAL MagAdd(a, b) == TLCEval(MagAddR(a, b, 1, 0))

\* a >= b required
RECURSIVE MagSubR(_, _, _, _)
LOCAL MagSubR(a, b, i, br) ==
  IF i > Len(a) THEN <<>>
  ELSE LET x == L(a, i) - L(b, i) - br IN
       IF x < 0 THEN <<x + B>> \o MagSubR(a, b, i + 1, 1) ELSE <<x>> \o MagSubR(a, b, i + 1, 0)
LOCAL MagSub(a, b) == TLCEval(BStrip(MagSubR(a, b, 1, 0)))

\* -1, 0, 1
RECURSIVE MagCmpR(_, _, _)
LOCAL MagCmpR(a, b, i) ==
  IF i = 0 THEN 0 ELSE IF a[i] < b[i] THEN -1 ELSE IF a[i] > b[i] THEN 1 ELSE MagCmpR(a, b, i - 1)
LOCAL MagCmp(a, b) ==
  IF Len(a) < Len(b) THEN -1 ELSE IF Len(a) > Len(b) THEN 1 ELSE MagCmpR(a, b, Len(a))

BNeg(x) == IF BIsZero(x) THEN x ELSE Mk(-x[1], BMag(x))
BAdd(x, y) ==
  IF BIsZero(x) THEN y ELSE IF BIsZero(y) THEN x
  ELSE IF x[1] = y[1] THEN Mk(x[1], MagAdd(BMag(x), BMag(y)))
  ELSE LET c == MagCmp(BMag(x), BMag(y)) IN
       IF c = 0 THEN BZero
       ELSE IF c > 0 THEN Mk(x[1], MagSub(BMag(x), BMag(y)))
       ELSE Mk(y[1], MagSub(BMag(y), BMag(x)))
BSub(x, y) == BAdd(x, BNeg(y))
BCmp(x, y) ==
  IF BIsZero(x) /\ BIsZero(y) THEN 0
  ELSE IF BIsZero(x) THEN -y[1]
  ELSE IF BIsZero(y) THEN x[1]
  ELSE IF x[1] # y[1] THEN x[1]
  ELSE x[1] * MagCmp(BMag(x), BMag(y))
BLeq(x, y) == BCmp(x, y) <= 0
BLt(x, y) == BCmp(x, y) < 0
BEq(x, y) == BCmp(x, y) = 0
BMin(x, y) == IF BLeq(x, y) THEN x ELSE y
BMax(x, y) == IF BLeq(x, y) THEN y ELSE x

RECURSIVE BSumSeqR(_, _, _)
LOCAL BSumSeqR(sq, i, acc) == IF i > Len(sq) THEN acc ELSE BSumSeqR(sq, i + 1, BAdd(acc, sq[i]))
BSumSeq(sq) == BSumSeqR(sq, 1, BZero)

\* small non-negative machine integer -> big
RECURSIVE MagOfInt(_)
LOCAL MagOfInt(n) == IF n = 0 THEN <<>> ELSE <<n % B>> \o MagOfInt(n \div B)
BOfInt(n) == IF n = 0 THEN BZero ELSE IF n > 0 THEN Mk(1, MagOfInt(n)) ELSE Mk(-1, MagOfInt(-n))

\* multiply by a small non-negative integer k <= 200000
RECURSIVE MagMulR(_, _, _, _)
LOCAL MagMulR(a, k, i, c) ==
  IF i > Len(a) THEN (IF c = 0 THEN <<>> ELSE MagOfInt(c))
  ELSE LET x == a[i] * k + c IN <<x % B>> \o MagMulR(a, k, i + 1, x \div B)
BMulSmall(x, k) == IF k = 0 \/ BIsZero(x) THEN BZero ELSE Mk(x[1], TLCEval(MagMulR(BMag(x), k, 1, 0)))

\* floor division of a NON-NEGATIVE big by a small positive integer k <= 200000
RECURSIVE MagDivR(_, _, _, _)
LOCAL MagDivR(a, k, i, r) ==
  IF i = 0 THEN <<>>
  ELSE LET x == r * B + a[i] IN MagDivR(a, k, i - 1, x % k) \o <<x \div k>>
BDivSmall(x, k) == IF BIsZero(x) THEN BZero ELSE Mk(x[1], TLCEval(BStrip(MagDivR(BMag(x), k, Len(x) - 1, 0))))

\* well-formedness of a logged value
BWf(x) == /\ Len(x) >= 1 /\ x[1] \in {1, -1}
          /\ \A i \in 2..Len(x) : x[i] \in 0..(B - 1)
          /\ (Len(x) > 1 => x[Len(x)] # 0)
=============================================================================
