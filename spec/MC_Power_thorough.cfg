SPECIFICATION MCSpec
CONSTANTS MinPower = 2
          MinMiners = 2
          NumMiners = 3
          CountFix = TRUE
          PowerDeltas <- DeltasQuick
          PledgeDeltas <- PledgeQuick
          EnrolOffsets <- OffsetsQuick
          PayloadsUsed = {"noop", "deadline", "bad"}
          NonMiners = {"acct"}
          Period = 1
          MaxEpoch = 1
          MaxRaw = 2
          MaxQa = 3
          MaxPledge = 1
          MaxQueue = 2
          ExportLen = 0
CONSTRAINT Bound
VIEW View
ACTION_CONSTRAINT Tour
INVARIANT Inv
INVARIANT InvCount
PROPERTY StepOK
CHECK_DEADLOCK FALSE
