------------------------------- MODULE Power -------------------------------
(***************************************************************************)
(* The storage power actor (actors/power) as an explicit state machine,    *)
(* structured like the code: one operator per exported method, the         *)
(* incremental bookkeeping of `add_to_claim` transcribed case by case,     *)
(* the regime switch of `current_total_power`, the cron queue and the      *)
(* end-of-epoch tick with its callbacks (which may re-enter this actor).   *)
(*                                                                         *)
(* The whole actor state is one record P (so that the tick can thread it   *)
(* through the callbacks); `Do(S, call)` is the transition FUNCTION:       *)
(* [ok, st, ...].  Rejected calls leave the state unchanged (the           *)
(* runtime rolls the transaction back).                                    *)
(*                                                                         *)
(* Layer P (bottom): the clauses of C02 / C03 / C05 / C11 about this actor *)
(* written from the English statements, over (P, call record last', P').   *)
(* They are checked by TLC on the bounded model (MC_Power) and on every    *)
(* recorded step of the real actor (Trace_Power).                          *)
(***************************************************************************)
EXTENDS Integers, Sequences, FiniteSets, TLC

CONSTANTS MinPower,     \* policy.minimum_consensus_power (in the trace's power unit)
          MinMiners,    \* CONSENSUS_MINER_MIN_MINERS (4 in the code)
          NumMiners,    \* how many miner actors may ever be created (they are called "m1", "m2", ... in creation order)
          CountFix      \* FALSE: the tick's claim deletion as coded; TRUE: as intended (see DeleteFailed)

VARIABLES P,            \* the power actor's state + the chain epoch + which miner actors exist
          last          \* history: the most recent call with its verdict (hidden by a VIEW in MC)

vars == <<P, last>>

MinerSeq == [i \in 1..NumMiners |-> "m" \o ToString(i)]

Payloads == {"noop", "deadline", "bad"}
  \* "noop"     a well-formed payload of an event type the miner ignores: the callback succeeds
  \* "deadline" the miner's proving-deadline event: the callback succeeds and may enrol the next one
  \* "bad"      bytes the miner cannot decode: the callback fails (nobody but a buggy miner enrols it)

MinerActors(S) == {MinerSeq[i] : i \in 1..S.created}
IsMinerActor(S, c) == c \in MinerActors(S)
HasClaim(S, m) == m \in DOMAIN S.claims

InitP ==
  [created |-> 0, claims |-> <<>>,
   totRaw |-> 0, totQa |-> 0,            \* total_raw_byte_power / total_quality_adj_power ("above minimum")
   comRaw |-> 0, comQa |-> 0,            \* total_bytes_committed / total_qa_bytes_committed (all claims)
   minerCount |-> 0, aboveCount |-> 0,   \* miner_count / miner_above_min_power_count
   pledge |-> 0,                         \* total_pledge_collateral
   queue |-> <<>>,                       \* cron_event_queue: [e, m, p] in dispatch order (epoch, then insertion)
   firstCron |-> 0,                      \* first_cron_epoch
   snapRaw |-> 0, snapQa |-> 0, snapPledge |-> 0,   \* this_epoch_* (what CurrentTotalPower returns)
   epoch |-> 0]

Rej(S) == [ok |-> FALSE, st |-> S]
Acc(S) == [ok |-> TRUE, st |-> S]

-----------------------------------------------------------------------------
(* state.rs *)

\* add_to_claim: the committed totals always move; the "above minimum" totals move according to where the
\* claim was and is relative to the threshold
AddToClaim(S, m, dr, dq) ==
  IF ~HasClaim(S, m) THEN Rej(S)                                   \* not_found "no claim for actor"
  ELSE
  LET old == S.claims[m]
      new == [raw |-> old.raw + dr, qa |-> old.qa + dq]
      prevBelow  == old.raw < MinPower
      stillBelow == new.raw < MinPower
      S1 == [S EXCEPT !.comQa = @ + dq, !.comRaw = @ + dr]
      S2 == IF prevBelow /\ ~stillBelow                            \* just passed min miner size
            THEN [S1 EXCEPT !.aboveCount = @ + 1, !.totQa = @ + new.qa, !.totRaw = @ + new.raw]
            ELSE IF ~prevBelow /\ stillBelow                       \* just went below min miner size
            THEN [S1 EXCEPT !.aboveCount = @ - 1, !.totQa = @ - old.qa, !.totRaw = @ - old.raw]
            ELSE IF ~prevBelow /\ ~stillBelow                      \* was above the threshold, still above
            THEN [S1 EXCEPT !.totQa = @ + dq, !.totRaw = @ + dr]
            ELSE S1
  IN  IF new.raw < 0 \/ new.qa < 0 \/ S2.aboveCount < 0 THEN Rej(S)     \* illegal_state, rolled back
      ELSE Acc([S2 EXCEPT !.claims = [@ EXCEPT ![m] = new]])

\* delete_claim: Ok(()) without touching anything when the claim is already gone
DeleteClaim(S, m) ==
  IF ~HasClaim(S, m) THEN Acc(S)
  ELSE LET r == AddToClaim(S, m, -S.claims[m].raw, -S.claims[m].qa)
       IN  IF ~r.ok THEN Rej(S)
           ELSE Acc([r.st EXCEPT !.claims = [x \in (DOMAIN r.st.claims) \ {m} |-> r.st.claims[x]]])

\* current_total_power
CurrentTotal(S) ==
  IF S.aboveCount < MinMiners THEN [raw |-> S.comRaw, qa |-> S.comQa]
                              ELSE [raw |-> S.totRaw, qa |-> S.totQa]

\* append_cron_event (the multimap keeps, per epoch, the events in insertion order)
InsertEvent(q, ev) ==
  LET k == Cardinality({i \in 1..Len(q) : q[i].e <= ev.e})
  IN  SubSeq(q, 1, k) \o <<ev>> \o SubSeq(q, k + 1, Len(q))

-----------------------------------------------------------------------------
(* lib.rs: the exported methods.  A call is a record with field `a` (method) and `c` (caller). *)

CreateMiner(S, call) ==
  IF ~call.funded THEN Rej(S)                     \* the miner constructor refuses less than the creation deposit
  ELSE IF S.created >= Len(MinerSeq) THEN Rej(S)  \* (bound of the model; never offered beyond it)
  ELSE LET m == MinerSeq[S.created + 1]
       IN  Acc([S EXCEPT !.created = @ + 1,
                         !.claims = [x \in DOMAIN S.claims \cup {m} |->
                                       IF x = m THEN [raw |-> 0, qa |-> 0] ELSE S.claims[x]],
                         !.minerCount = @ + 1,
                         \* update_stats_for_new_miner
                         !.aboveCount = IF MinPower <= 0 THEN @ + 1 ELSE @])

UpdateClaimedPower(S, call) ==
  IF ~IsMinerActor(S, call.c) THEN Rej(S)         \* validate_immediate_caller_type(Miner)
  ELSE AddToClaim(S, call.c, call.dr, call.dq)

EnrollCronEvent(S, call) ==
  IF ~IsMinerActor(S, call.c) THEN Rej(S)
  ELSE IF call.e < 0 THEN Rej(S)
  ELSE Acc([S EXCEPT !.firstCron = IF call.e < @ THEN call.e ELSE @,
                     !.queue = InsertEvent(@, [e |-> call.e, m |-> call.c, p |-> call.p])])

UpdatePledgeTotal(S, call) ==
  IF ~IsMinerActor(S, call.c) THEN Rej(S)
  ELSE IF ~HasClaim(S, call.c) THEN Rej(S)        \* validate_miner_has_claim: forbidden
  ELSE IF S.pledge + call.d < 0 THEN Rej(S)       \* "negative total pledge collateral" (the mechanism of finding F1)
  ELSE Acc([S EXCEPT !.pledge = @ + call.d])

\* read-only: the values frozen by the last tick
CurrentTotalPowerRet(S) == [raw |-> S.snapRaw, qa |-> S.snapQa, pledge |-> S.snapPledge]

\* every method but the tick
DoSimple(S, call) ==
  CASE call.a = "CreateMiner"        -> CreateMiner(S, call)
    [] call.a = "UpdateClaimedPower" -> UpdateClaimedPower(S, call)
    [] call.a = "EnrollCronEvent"    -> EnrollCronEvent(S, call)
    [] call.a = "UpdatePledgeTotal"  -> UpdatePledgeTotal(S, call)
    [] call.a = "CurrentTotalPower"  -> Acc(S)
    [] call.a = "OnEpochTickEnd"     -> Rej(S)    \* by anybody but cron (cron's own call is the Tick below)
    [] OTHER                         -> Rej(S)

(* OnEpochTickEnd as called by cron at the end of epoch S.epoch.
   1. process_deferred_cron_events, first transaction: every event with first_cron_epoch <= e <= now leaves
      the queue; those whose miner has a claim AT THAT MOMENT are dispatched, in order.
   2. the callbacks: cbs[i] = [m, p, ok, calls] describes what the i-th callback did -- it failed, or it
      succeeded after making the nested calls `calls` to this actor (each with its own verdict `ok`; the
      effects of a failed callback are rolled back by the runtime and never reach us).
   3. second transaction: for every failed callback, delete_claim(miner) and miner_count -= 1.
   4. snapshots refreshed from current_total_power(); the reward actor is told; the VM moves to the next epoch.
   Returns [ok, st, disp, agree]: disp = what was dispatched, agree = the callback descriptions fit.        *)
Scanned(S, ev) == S.firstCron <= ev.e /\ ev.e <= S.epoch

RECURSIVE Nested(_, _, _, _, _)
Nested(S, m, calls, j, agree) ==
  IF j > Len(calls) THEN [st |-> S, agree |-> agree]
  ELSE LET c == calls[j]
           r == DoSimple(S, c)
       IN  Nested(IF c.ok THEN r.st ELSE S, m, calls, j + 1, agree /\ c.c = m /\ r.ok = c.ok)

RECURSIVE RunCallbacks(_, _, _, _, _, _)
RunCallbacks(S, disp, cbs, i, failed, agree) ==
  IF i > Len(disp) THEN [st |-> S, failed |-> failed, agree |-> agree]
  ELSE IF ~cbs[i].ok THEN RunCallbacks(S, disp, cbs, i + 1, Append(failed, disp[i].m), agree)
  ELSE LET r == Nested(S, disp[i].m, cbs[i].calls, 1, TRUE)
       IN  RunCallbacks(r.st, disp, cbs, i + 1, failed, agree /\ r.agree)

\* as coded (CountFix = FALSE): one decrement of miner_count per failed CALLBACK -- delete_claim returns Ok for a
\* claim that is already gone, so a miner with two failed callbacks in one tick is counted twice.
\* CountFix = TRUE is the intended behaviour: one decrement per claim actually deleted.
RECURSIVE DeleteFailed(_, _, _, _)
DeleteFailed(S, failed, i, fix) ==
  IF i > Len(failed) THEN S
  ELSE LET r == DeleteClaim(S, failed[i])
           counted == r.ok /\ (~fix \/ HasClaim(S, failed[i]))
       IN  DeleteFailed(IF counted THEN [r.st EXCEPT !.minerCount = @ - 1] ELSE r.st, failed, i + 1, fix)

Dispatched(S) == SelectSeq(S.queue, LAMBDA ev : Scanned(S, ev) /\ HasClaim(S, ev.m))

TickWith(S, cbs, fix) ==
  LET disp == Dispatched(S)
      S1 == [S EXCEPT !.queue = SelectSeq(@, LAMBDA ev : ~Scanned(S, ev)), !.firstCron = S.epoch + 1]
      fit == /\ Len(cbs) = Len(disp)
             /\ \A i \in 1..Len(disp) : /\ cbs[i].m = disp[i].m /\ cbs[i].p = disp[i].p
                                        /\ (disp[i].p = "bad" => ~cbs[i].ok)
  IN  IF ~fit THEN [ok |-> TRUE, st |-> S, disp |-> disp, agree |-> FALSE]
      ELSE LET r  == RunCallbacks(S1, disp, cbs, 1, <<>>, TRUE)
               S2 == DeleteFailed(r.st, r.failed, 1, fix)
               t  == CurrentTotal(S2)
           IN  [ok |-> TRUE, disp |-> disp, agree |-> r.agree,
                st |-> [S2 EXCEPT !.snapPledge = S2.pledge, !.snapQa = t.qa, !.snapRaw = t.raw,
                                  !.epoch = @ + 1]]

Tick(S, cbs) == TickWith(S, cbs, CountFix)

Do(S, call) == IF call.a = "Tick" THEN Tick(S, call.cbs) ELSE DoSimple(S, call)

\* the model's step: P' is what the code computes, last' remembers the call and its verdict
Step(call) ==
  LET r == Do(P, call) IN
  /\ P' = r.st
  /\ last' = [call EXCEPT !.ok = r.ok] @@ [ret |-> CurrentTotalPowerRet(r.st)]

Init == P = InitP /\ last = [a |-> "Init", c |-> "-", ok |-> TRUE, ret |-> CurrentTotalPowerRet(InitP)]

-----------------------------------------------------------------------------
(* Layer P.  Written from the statements of C02, C03, C05, C11 -- not from the code above.              *)
(* S, T = state before / after a step; r = the call record (with verdict r.ok, and r.ret = what         *)
(* CurrentTotalPower returns after the step).                                                           *)

RECURSIVE SumOver(_, _, _)
SumOver(cl, M, f) ==           \* f \in {"raw", "qa"}
  IF M = {} THEN 0 ELSE LET m == CHOOSE x \in M : TRUE IN cl[m][f] + SumOver(cl, M \ {m}, f)

AboveMin(cl) == {m \in DOMAIN cl : cl[m].raw >= MinPower}

\* C02 "the network totals equal the sum of per-miner claims under the consensus-minimum rule": if at least
\* MinMiners miners reach the consensus minimum, only those count; otherwise everybody counts
Rule(cl) ==
  LET M == IF Cardinality(AboveMin(cl)) >= MinMiners THEN AboveMin(cl) ELSE DOMAIN cl
  IN  [raw |-> SumOver(cl, M, "raw"), qa |-> SumOver(cl, M, "qa")]

\* the totals the actor would report if asked to freeze them now, and its counters
TotalsRule(S) ==
  /\ CurrentTotal(S) = Rule(S.claims)
  /\ S.comRaw = SumOver(S.claims, DOMAIN S.claims, "raw")
  /\ S.comQa  = SumOver(S.claims, DOMAIN S.claims, "qa")
  /\ S.aboveCount = Cardinality(AboveMin(S.claims))
\* the stored "above minimum" totals (reported as soon as the regime switches) are those of the miners above it
StoredTotals(S) ==
  /\ S.totRaw = SumOver(S.claims, AboveMin(S.claims), "raw")
  /\ S.totQa  = SumOver(S.claims, AboveMin(S.claims), "qa")
MinerCountExact(S) == S.minerCount = Cardinality(DOMAIN S.claims)
\* (the same as a step formula, so that a recorded trace is blamed at the step that breaks it)
MinerCountStep(S, T) ==
  T.minerCount - S.minerCount = Cardinality(DOMAIN T.claims) - Cardinality(DOMAIN S.claims)

\* what CurrentTotalPower REPORTS is frozen by the tick: right after a tick it is the rule applied to the claims
\* (and the pledge total) of that moment; no message between two ticks changes it
ReportRule(S, r, T) ==
  /\ r.ret = CurrentTotalPowerRet(T)
  /\ IF r.a = "Tick" /\ r.ok
     THEN /\ [raw |-> r.ret.raw, qa |-> r.ret.qa] = Rule(T.claims)
          /\ r.ret.pledge = T.pledge
     ELSE r.ret = CurrentTotalPowerRet(S)

ClaimsNonNeg(S) == \A m \in DOMAIN S.claims : S.claims[m].raw >= 0 /\ S.claims[m].qa >= 0
\* C03 "the network-wide pledge total ... is never negative"
PledgeTotalNonNeg(S) == S.pledge >= 0 /\ S.snapPledge >= 0

\* C05 -------------------------------------------------------------------------------------------
\* events are queued only for miner actors, and the queue grows only by an accepted enrolment made by that
\* very miner (directly, or from inside its callback during the tick)
QueueBag(q, ev) == Cardinality({i \in 1..Len(q) : q[i] = ev})
EnrolledBy(r) ==       \* the events this step's accepted enrolments ask for, as a sequence
  IF r.a = "EnrollCronEvent" /\ r.ok THEN <<[e |-> r.e, m |-> r.c, p |-> r.p]>>
  ELSE IF r.a = "Tick" /\ r.ok
  THEN LET RECURSIVE Cat(_)
           Cat(i) == IF i > Len(r.cbs) THEN <<>>
                     ELSE (IF r.cbs[i].ok
                           THEN LET cs == SelectSeq(r.cbs[i].calls, LAMBDA c : c.a = "EnrollCronEvent" /\ c.ok)
                                IN  [j \in 1..Len(cs) |-> [e |-> cs[j].e, m |-> cs[j].c, p |-> cs[j].p]]
                           ELSE <<>>) \o Cat(i + 1)
       IN  Cat(1)
  ELSE <<>>
Range(sq) == {sq[i] : i \in 1..Len(sq)}
CronEventsOnlyByMiners(S, r, T) ==
  /\ \A i \in 1..Len(T.queue) : IsMinerActor(T, T.queue[i].m)
  /\ \A ev \in Range(T.queue) :
        QueueBag(T.queue, ev) <= QueueBag(S.queue, ev) + QueueBag(EnrolledBy(r), ev)
  /\ \A ev \in Range(EnrolledBy(r)) : IsMinerActor(S, ev.m)
\* nothing is queued where the tick will not look: every event is due (and in the scanned range) or in the future
QueueOnlyFutureOrDue(S) ==
  \A i \in 1..Len(S.queue) : S.queue[i].e >= 0 /\ S.queue[i].e >= S.firstCron
\* nothing leaves the queue but through the tick, and only what was due; an accepted enrolment is really queued
QueueKeeps(S, r, T) ==
  \A ev \in Range(S.queue) \cup Range(EnrolledBy(r)) :
     QueueBag(T.queue, ev) >= (IF r.a = "Tick" /\ ev.e <= S.epoch THEN 0 ELSE QueueBag(S.queue, ev))
                              + QueueBag(EnrolledBy(r), ev)
\* after a tick at epoch `now` no event with epoch <= now remains (but for those a callback enrolled meanwhile);
\* events of later epochs stay
TickDrainsDue(S, r, T) ==
  (r.a = "Tick" /\ r.ok) =>
     /\ \A ev \in Range(T.queue) : ev.e <= S.epoch => QueueBag(T.queue, ev) <= QueueBag(EnrolledBy(r), ev)
     /\ \A ev \in Range(S.queue) : ev.e > S.epoch => QueueBag(T.queue, ev) >= QueueBag(S.queue, ev)
\* every due event of a miner that holds a claim is dispatched exactly once, nothing else is
TickDispatchesDue(S, r) ==
  (r.a = "Tick" /\ r.ok) =>
     LET due == SelectSeq(S.queue, LAMBDA ev : ev.e <= S.epoch /\ ev.m \in DOMAIN S.claims)
         got == [i \in 1..Len(r.cbs) |-> [m |-> r.cbs[i].m, p |-> r.cbs[i].p]]
         Cnt(sq, m, p) == Cardinality({i \in 1..Len(sq) : sq[i].m = m /\ sq[i].p = p})
     IN  /\ Len(due) = Len(got)
         /\ \A i \in 1..Len(due) : Cnt(due, due[i].m, due[i].p) = Cnt(got, due[i].m, due[i].p)
\* a miner loses its claim only through a failed callback of its own; the other claims change only by what their
\* own miners asked for
FailedMiners(r) == IF r.a = "Tick" THEN {r.cbs[i].m : i \in {j \in 1..Len(r.cbs) : ~r.cbs[j].ok}} ELSE {}
OwnUpdates(r, m, f) ==      \* sum of the deltas miner m was granted in this step
  LET One(c) == IF c.a = "UpdateClaimedPower" /\ c.ok /\ c.c = m THEN (IF f = "raw" THEN c.dr ELSE c.dq) ELSE 0
      RECURSIVE SumCalls(_, _)
      SumCalls(cs, j) == IF j > Len(cs) THEN 0 ELSE One(cs[j]) + SumCalls(cs, j + 1)
      RECURSIVE SumCbs(_)
      SumCbs(i) == IF i > Len(r.cbs) THEN 0
                   ELSE (IF r.cbs[i].ok THEN SumCalls(r.cbs[i].calls, 1) ELSE 0) + SumCbs(i + 1)
  IN  IF r.a = "Tick" THEN SumCbs(1) ELSE One(r)
FailedCallbackDeletesOnlyThatClaim(S, r, T) ==
  /\ (DOMAIN S.claims) \ (DOMAIN T.claims) = FailedMiners(r) \cap DOMAIN S.claims
  /\ \A m \in (DOMAIN S.claims) \cap (DOMAIN T.claims) :
        /\ T.claims[m].raw = S.claims[m].raw + OwnUpdates(r, m, "raw")
        /\ T.claims[m].qa  = S.claims[m].qa  + OwnUpdates(r, m, "qa")
  /\ \A m \in (DOMAIN T.claims) \ (DOMAIN S.claims) :
        r.a = "CreateMiner" /\ r.ok /\ T.claims[m] = [raw |-> 0, qa |-> 0]
\* the tick itself succeeds whatever the callbacks do, and moves on by one epoch
TickNeverFails(S, r, T) == r.a = "Tick" => (r.ok /\ T.epoch = S.epoch + 1)

\* C11 -------------------------------------------------------------------------------------------
MinerOnly == {"UpdateClaimedPower", "EnrollCronEvent", "UpdatePledgeTotal"}
CallerRules(S, r, T) ==
  \* a caller that is not a miner actor is refused; so is anybody but cron for the tick
  /\ (r.a \in MinerOnly /\ ~IsMinerActor(S, r.c)) => ~r.ok
  /\ (r.a = "OnEpochTickEnd" /\ r.c # "cron") => ~r.ok
  \* power and pledge are updated only for a miner that holds a claim
  /\ (r.a \in {"UpdateClaimedPower", "UpdatePledgeTotal"} /\ r.ok) => HasClaim(S, r.c)
  \* anyone may create a miner (given the deposit): a new miner actor with an empty claim
  /\ (r.a = "CreateMiner" /\ r.ok) => (T.created = S.created + 1 /\ HasClaim(T, MinerSeq[T.created]))
  /\ T.created >= S.created /\ (T.created # S.created => (r.a = "CreateMiner" /\ r.ok))
\* the designated caller's well-formed call is accepted
DesignatedAccepted(S, r) ==
  /\ (r.a = "CreateMiner" /\ r.funded /\ S.created < Len(MinerSeq)) => r.ok
  /\ (r.a = "UpdateClaimedPower" /\ HasClaim(S, r.c)
        /\ S.claims[r.c].raw + r.dr >= 0 /\ S.claims[r.c].qa + r.dq >= 0) => r.ok
  /\ (r.a = "EnrollCronEvent" /\ IsMinerActor(S, r.c) /\ r.e >= 0) => r.ok
  /\ (r.a = "UpdatePledgeTotal" /\ HasClaim(S, r.c) /\ S.pledge + r.d >= 0) => r.ok
  /\ r.a = "CurrentTotalPower" => r.ok
RejectedIsNoop(S, r, T) == ~r.ok => T = S
\* only the methods that say so change what they own
FrameRules(S, r, T) ==
  /\ T.pledge # S.pledge => (r.ok /\ (r.a = "UpdatePledgeTotal" \/ r.a = "Tick"))
  /\ (r.a = "UpdatePledgeTotal" /\ r.ok) => T.pledge = S.pledge + r.d
  /\ T.epoch # S.epoch => r.a = "Tick"

StateProps(S) == /\ TotalsRule(S) /\ StoredTotals(S) /\ ClaimsNonNeg(S) /\ PledgeTotalNonNeg(S)
                 /\ QueueOnlyFutureOrDue(S)
StepPropsOf(S, r, T) ==
  /\ ReportRule(S, r, T) /\ CronEventsOnlyByMiners(S, r, T) /\ QueueKeeps(S, r, T) /\ TickDrainsDue(S, r, T)
  /\ TickDispatchesDue(S, r) /\ FailedCallbackDeletesOnlyThatClaim(S, r, T) /\ TickNeverFails(S, r, T)
  /\ CallerRules(S, r, T) /\ DesignatedAccepted(S, r) /\ RejectedIsNoop(S, r, T) /\ FrameRules(S, r, T)

Inv == StateProps(P)
InvCount == MinerCountExact(P)
StepProps == StepPropsOf(P, last', P')
=============================================================================
