---------------------------- MODULE Trace_Market ----------------------------
(* Trace validation of the real storage market actor against Market.tla. *)
EXTENDS Market, Json, IOUtils

VARIABLE l
OwnerOfDef == [m \in {"m1", "m2"} |-> IF m = "m1" THEN "o1" ELSE "o2"]
WorkerOfDef == [m \in {"m1", "m2"} |-> IF m = "m1" THEN "w1" ELSE "w2"]
Rec == ndJsonDeserialize(IOEnv.TRACE)

ToSet(arr) == {arr[i] : i \in 1..Len(arr)}
ToMap(arr, K(_), V(_)) ==
  LET ks == {K(arr[i]) : i \in 1..Len(arr)}
  IN  [k \in ks |-> LET i == CHOOSE j \in 1..Len(arr) : K(arr[j]) = k IN V(arr[i])]
ToMS(s) ==
  [escrow |-> s.escrow, locked |-> s.locked, tcc |-> s.tcc, tpc |-> s.tpc, tfee |-> s.tfee, next |-> s.next,
   prop |-> ToMap(s.prop, LAMBDA x : x.id, LAMBDA x : x.d),
   st |-> ToMap(s.st, LAMBDA x : x.id, LAMBDA x : x.s),
   pending |-> ToSet(s.pending),
   ops |-> ToMap(s.ops, LAMBDA x : x.e, LAMBDA x : ToSet(x.ids)),
   lastCron |-> s.lastCron,
   psec |-> ToMap(s.psec, LAMBDA x : x.p, LAMBDA x : ToMap(x.secs, LAMBDA y : y.sector, LAMBDA y : ToSet(y.ids))),
   bal |-> s.bal, burnt |-> s.burnt]

Do(ms, call, e) ==
  CASE call.a = "AddBalance"     -> AddBalance(ms, call.party, call.amt)
    [] call.a = "Withdraw"       -> Withdraw(ms, call.c, call.party, call.amt)
    [] call.a = "Publish"        -> Publish(ms, call.c, call.batch, e)
    [] call.a = "Activate"       -> Activate(ms, call.m, call.sectors, e)
    [] call.a = "ContentChanged" -> ContentChanged(ms, call.m, call.sectors, e)
    [] call.a = "Settle"         -> Settle(ms, call.ids, e)
    [] call.a = "Terminate"      -> Terminate(ms, call.m, call.secs, e)

ResultsMatch(e, r) ==
  CASE e.a = "Withdraw" -> (e.ok => (r.paid = e.paid /\ r.to = e.to))
    [] e.a = "Publish"  -> (e.ok => (r.valid = e.valid /\ r.ids = e.ids))
    [] e.a \in {"Activate", "ContentChanged", "Settle"} -> (e.ok => r.res = e.res)
    [] OTHER -> TRUE

Explained(e) ==
  IF e.a = "Tick" THEN MS' = TickTo(MS, epoch, e.n) /\ epoch' = epoch + e.n
  ELSE LET r == Do(MS, e, epoch) IN
       /\ r.ok = e.ok /\ MS' = r.MS /\ ResultsMatch(e, r) /\ epoch' = epoch

Chk(prop, name, holds, e) == IF holds THEN TRUE ELSE PrintT(<<"VIOL", prop, name, l, "-", e.a>>)

TStep ==
  /\ l <= Len(Rec)
  /\ l' = l + 1
  /\ LET e == Rec[l] IN
     IF e.ev \in {"Init", "Reset"}
     THEN /\ MS' = ToMS(e.st) /\ epoch' = e.st.epoch
          /\ G' = [dep |-> [x \in Parties |-> 0], wd |-> [x \in Parties |-> 0], fin |-> <<>>, act |-> {}]
          /\ last' = [a |-> "Init", ok |-> TRUE]
     ELSE /\ MS' = ToMS(e.st) /\ epoch' = e.st.epoch
          /\ last' = e
          /\ G' = GhostNext(G, MS, ToMS(e.st), e, e.st.epoch)
          /\ Chk("C06", "LockedIsObligation", LockedIsObligation(MS'), e)
          /\ Chk("C06", "LockedLeqEscrow", LockedLeqEscrow(MS'), e)
          /\ Chk("C06", "TotalsMatch", TotalsMatch(MS'), e)
          /\ Chk("C01", "MarketSolvent", Solvent(MS'), e)
          /\ Chk("C01", "MarketNoStranding", NoStranding, e)
          /\ Chk("C06", "WithdrawExact", WithdrawExact, e)
          /\ Chk("C06", "EscrowOnlyOwnMoves", EscrowOnlyOwnMoves, e)
          /\ Chk("C07", "EscrowExplained", EscrowExplained(MS', G'), e)
          /\ Chk("C07", "BurnExact", BurnExact(MS', G'), e)
          /\ Chk("C07", "EndLegit", EndLegit, e)
          /\ Chk("C07", "TerminationEndsDeals", TerminationEndsDeals, e)
          /\ Chk("C08", "IdsFresh", IdsFresh, e)
          /\ Chk("C08", "NoTwinDeals", NoTwinDeals(MS'), e)
          /\ Chk("C08", "PendingIsLive", PendingIsLive(MS'), e)
          /\ Chk("C08", "PublishRules", PublishRules, e)
          /\ Chk("C08", "PublishFunded", PublishFunded, e)
          /\ Chk("C08", "ActivationRules", ActivationRules, e)
          /\ Chk("C08", "ActivatedOnce", ActivatedOnce, e)
          /\ Chk("C08", "ActivatedOnceInCall", ActivatedOnceInCall, e)
          /\ Chk("C06", "RejectedIsNoop", RejectedIsNoop, e)
          /\ Chk("C05", "CronOK", e.a # "Tick" \/ e.cronOK, e)
          /\ (IF Explained(e) THEN TRUE ELSE PrintT(<<"DRIFT", "C06", l, e.a, e.ok>>))

TInit == /\ MS = [escrow |-> [x \in Parties |-> 0], locked |-> [x \in Parties |-> 0], tcc |-> 0, tpc |-> 0,
                  tfee |-> 0, next |-> 0, prop |-> <<>>, st |-> <<>>, pending |-> {}, ops |-> <<>>,
                  lastCron |-> -1, psec |-> <<>>, bal |-> 0, burnt |-> 0]
         /\ epoch = 0
         /\ G = [dep |-> [x \in Parties |-> 0], wd |-> [x \in Parties |-> 0], fin |-> <<>>, act |-> {}]
         /\ last = [a |-> "Init", ok |-> TRUE] /\ l = 1
TSpec == TInit /\ [][TStep]_<<vars, l>>
Accepted == TLCGet("stats").diameter = Len(Rec) + 1
=============================================================================
