-------------------------------- MODULE EVM --------------------------------
(***************************************************************************)
(* The EVM instruction semantics of the Ethereum Yellow Paper (section 9   *)
(* and appendix H) for one message-call frame, for the instruction groups  *)
(* of properties C17/C18: arithmetic, comparison, bitwise, stack, memory,  *)
(* storage, transient storage (EIP-1153), call-data / code / return-data   *)
(* copying, KECCAK256 (uninterpreted), control flow, RETURN / REVERT, plus *)
(* EIP-3855 PUSH0, EIP-5656 MCOPY, EIP-145 shifts, EIP-7939 CLZ.           *)
(*                                                                         *)
(* Shape: `Exec(p, m, hint)` is the state-transition FUNCTION on machine   *)
(* records (used by the trace specs to re-execute recorded programs) and   *)
(* the actions `Step*` apply it to the VARIABLES (used by TLC to check the *)
(* machine's own invariants over all small programs, MC_EVM).              *)
(*                                                                         *)
(* What is NOT Ethereum here (and why):                                    *)
(*  - no gas.  The only two places where the Yellow Paper's behaviour      *)
(*    depends on gas for the instructions in scope are (a) termination --  *)
(*    handled by the harness' step budget, outside this module -- and (b)  *)
(*    memory expansion.  A memory access whose end lies beyond 2^32-1      *)
(*    "would need more gas than exists": outcome "mem" (the actor's        *)
(*    ILLEGAL_MEMORY_ACCESS).  An access that fits 32 bits but would grow  *)
(*    memory beyond MemCap is the harness' stand-in for out-of-gas:        *)
(*    outcome "memcap".                                                    *)
(*  - exceptional halts are split into the classes the actor reports       *)
(*    (undefined / invalid / underflow / overflow / badjump / mem /        *)
(*    readonly); in the Yellow Paper they are all the same halt.           *)
(*  - instructions outside the groups above end the run with status        *)
(*    "unsupported": the specification says nothing about them.            *)
(***************************************************************************)
EXTENDS Words, FiniteSets
LOCAL INSTANCE SequencesExt     \* CommunityModules: FoldLeftDomain

CONSTANTS MemCap,        \* bytes; memory may not grow beyond this (multiple of 32)
          StackLimit     \* 1024 (Yellow Paper 9.1); smaller in MC_EVM

VARIABLES prog,          \* [code, calldata, static, jd, starts]  -- fixed during a run
          mach           \* the machine record, see InitMach

vars == <<prog, mach>>

-----------------------------------------------------------------------------
(* Opcodes *)
OpSTOP == 0      OpADD == 1      OpMUL == 2       OpSUB == 3       OpDIV == 4      OpSDIV == 5
OpMOD == 6       OpSMOD == 7     OpADDMOD == 8    OpMULMOD == 9    OpEXP == 10     OpSIGNEXTEND == 11
OpLT == 16       OpGT == 17      OpSLT == 18      OpSGT == 19      OpEQ == 20      OpISZERO == 21
OpAND == 22      OpOR == 23      OpXOR == 24      OpNOT == 25      OpBYTE == 26    OpSHL == 27
OpSHR == 28      OpSAR == 29     OpCLZ == 30      OpKECCAK == 32
OpCALLDATALOAD == 53   OpCALLDATASIZE == 54   OpCALLDATACOPY == 55   OpCODESIZE == 56   OpCODECOPY == 57
OpRETURNDATASIZE == 61 OpRETURNDATACOPY == 62
OpPOP == 80      OpMLOAD == 81   OpMSTORE == 82   OpMSTORE8 == 83  OpSLOAD == 84   OpSSTORE == 85
OpJUMP == 86     OpJUMPI == 87   OpPC == 88       OpMSIZE == 89    OpJUMPDEST == 91
OpTLOAD == 92    OpTSTORE == 93  OpMCOPY == 94    OpPUSH0 == 95
OpPUSH1 == 96    OpPUSH32 == 127 OpDUP1 == 128    OpDUP16 == 143   OpSWAP1 == 144  OpSWAP16 == 159
OpLOG0 == 160    OpLOG4 == 164   OpCREATE == 240  OpCALL == 241    OpCALLCODE == 242
OpRETURN == 243  OpDELEGATECALL == 244  OpCREATE2 == 245  OpSTATICCALL == 250
OpREVERT == 253  OpINVALID == 254       OpSELFDESTRUCT == 255

IsPush(op) == op >= OpPUSH1 /\ op <= OpPUSH32
IsDup(op)  == op >= OpDUP1 /\ op <= OpDUP16
IsSwap(op) == op >= OpSWAP1 /\ op <= OpSWAP16
IsLog(op)  == op >= OpLOG0 /\ op <= OpLOG4

\* the instruction groups this specification defines
ArithOps   == 1..11
CompareOps == 16..21
BitOps     == 22..30
StackOps   == {OpPOP, OpPUSH0} \cup (OpPUSH1..OpPUSH32) \cup (OpDUP1..OpDUP16) \cup (OpSWAP1..OpSWAP16)
MemOps     == {OpMLOAD, OpMSTORE, OpMSTORE8, OpMSIZE, OpMCOPY}
StorageOps == {OpSLOAD, OpSSTORE, OpTLOAD, OpTSTORE}
DataOps    == {OpCALLDATALOAD, OpCALLDATASIZE, OpCALLDATACOPY, OpCODESIZE, OpCODECOPY,
               OpRETURNDATASIZE, OpRETURNDATACOPY}
HashOps    == {OpKECCAK}
FlowOps    == {OpJUMP, OpJUMPI, OpPC, OpJUMPDEST}
EndOps     == {OpSTOP, OpRETURN, OpREVERT, OpINVALID}
Ops3       == {OpADDMOD, OpMULMOD}
Ops1       == {OpISZERO, OpNOT, OpCLZ}
Ops2       == (ArithOps \cup CompareOps \cup BitOps) \ (Ops3 \cup Ops1)
InScope    == ArithOps \cup CompareOps \cup BitOps \cup StackOps \cup MemOps \cup StorageOps
              \cup DataOps \cup HashOps \cup FlowOps \cup EndOps
\* defined by Ethereum (or by the actor) but outside the property: environment, calls, logs, creation
OutOfScope == (48..52) \cup {58, 59, 60, 63} \cup (64..74) \cup {90} \cup (OpLOG0..OpLOG4)
              \cup {OpCREATE, OpCALL, OpCALLCODE, OpDELEGATECALL, OpCREATE2, OpSTATICCALL, OpSELFDESTRUCT}
Undefined  == (0..255) \ (InScope \cup OutOfScope)
\* state-modifying instructions outside the groups: forbidden in a static context (EIP-214)
StaticForbidden == (OpLOG0..OpLOG4) \cup {OpCREATE, OpCREATE2, OpSELFDESTRUCT}

\* <<items removed, items added>>  (delta, alpha of appendix H)
ArityOf(op) ==
  CASE op \in Ops3                                          -> <<3, 1>>
    [] op \in Ops2                                          -> <<2, 1>>
    [] op \in Ops1                                          -> <<1, 1>>
    [] op = OpKECCAK                                        -> <<2, 1>>
    [] op \in {OpCALLDATALOAD, OpMLOAD, OpSLOAD, OpTLOAD}   -> <<1, 1>>
    [] op \in {OpCALLDATASIZE, OpCODESIZE, OpRETURNDATASIZE, OpPC, OpMSIZE, OpPUSH0} -> <<0, 1>>
    [] op \in {OpCALLDATACOPY, OpCODECOPY, OpRETURNDATACOPY, OpMCOPY} -> <<3, 0>>
    [] op \in {OpPOP, OpJUMP}                               -> <<1, 0>>
    [] op \in {OpMSTORE, OpMSTORE8, OpSSTORE, OpTSTORE, OpJUMPI, OpRETURN, OpREVERT} -> <<2, 0>>
    [] op \in {OpJUMPDEST, OpSTOP, OpINVALID}               -> <<0, 0>>
    [] IsPush(op)                                           -> <<0, 1>>
    [] IsDup(op)                                            -> <<op - OpDUP1 + 1, op - OpDUP1 + 2>>
    [] IsSwap(op)                                           -> <<op - OpSWAP1 + 2, op - OpSWAP1 + 2>>
    \* out of scope, needed only for the static-context rule
    [] IsLog(op)                                            -> <<op - OpLOG0 + 2, 0>>
    [] op = OpCREATE                                        -> <<3, 1>>
    [] op = OpCREATE2                                       -> <<4, 1>>
    [] op = OpSELFDESTRUCT                                  -> <<1, 0>>
    [] op \in {OpCALL, OpCALLCODE}                          -> <<7, 1>>
    [] OTHER                                                -> <<0, 0>>
Arity == TLCEval([op \in 0..255 |-> ArityOf(op)])

-----------------------------------------------------------------------------
(* Code *)

\* byte of the code at position i (0-based); beyond the end the code reads as STOP / zero (YP 9.4.1)
CodeAt(code, i) == IF i < Len(code) THEN code[i + 1] ELSE 0

\* valid jump destinations D(c) (YP eq. 148-150): positions of JUMPDEST bytes that are reached by
\* walking the code instruction by instruction, skipping the data bytes of PUSH instructions
RECURSIVE JumpDestsR(_, _, _)
JumpDestsR(code, i, acc) ==
  IF i >= Len(code) THEN acc
  ELSE LET op == code[i + 1] IN
       IF op = OpJUMPDEST THEN JumpDestsR(code, i + 1, acc \cup {i})
       ELSE IF IsPush(op) THEN JumpDestsR(code, i + (op - OpPUSH1) + 2, acc)
       ELSE JumpDestsR(code, i + 1, acc)
JumpDests(code) == JumpDestsR(code, 0, {})

\* positions where an instruction starts (for the invariant "pc is never inside push data")
RECURSIVE InstrStartsR(_, _, _)
InstrStartsR(code, i, acc) ==
  IF i >= Len(code) THEN acc
  ELSE LET op == code[i + 1] IN
       InstrStartsR(code, IF IsPush(op) THEN i + (op - OpPUSH1) + 2 ELSE i + 1, acc \cup {i})
InstrStarts(code) == InstrStartsR(code, 0, {})

(* The same two sets by ONE left-to-right pass (SequencesExt!FoldLeftDomain, which TLC evaluates    *)
(* without recursion): real programs have thousands of instructions and the recursive definitions *)
(* above would need a stack frame per instruction.  MC_EVM checks that both formulations agree on  *)
(* every program it explores (invariant ScanAgrees).                                               *)
ScanStep(code, acc, i) ==        \* i = 1-based index of the byte at position i - 1
  IF i - 1 < acc.next THEN acc   \* a data byte of the preceding PUSH
  ELSE LET op == code[i] IN
       [next   |-> i - 1 + (IF IsPush(op) THEN (op - OpPUSH1) + 2 ELSE 1),
        jd     |-> IF op = OpJUMPDEST THEN Append(acc.jd, i - 1) ELSE acc.jd,
        starts |-> Append(acc.starts, i - 1)]
Scan(code) == FoldLeftDomain(LAMBDA acc, i : ScanStep(code, acc, i),
                             [next |-> 0, jd |-> <<>>, starts |-> <<>>], code)
SeqToSet(s) == {s[i] : i \in 1..Len(s)}

MkProg(code, calldata, static) ==
  LET sc == Scan(code) IN
  [code |-> code, calldata |-> calldata, static |-> static, jd |-> SeqToSet(sc.jd),
   starts |-> SeqToSet(sc.starts)]

-----------------------------------------------------------------------------
(* Machine state *)

\* keccak256 is uninterpreted: kmap is the part of its graph seen so far.  Two digests are common
\* knowledge and are built in: of the empty string and of 32 zero bytes.
KeccakEmpty == <<197,210,70,1,134,247,35,60,146,126,125,178,220,199,3,192,229,0,182,83,202,130,39,59,
                 123,250,216,4,93,133,164,112>>
KeccakZero32 == <<41,13,236,217,84,139,98,168,214,3,69,169,136,56,111,200,75,166,188,149,72,64,8,246,
                  54,47,147,22,14,243,229,99>>
KMap0 == (<<>> :> KeccakEmpty) @@ (WZero :> KeccakZero32)

InitMach == [pc |-> 0, stack |-> <<>>, mem |-> <<>>, msize |-> 0,
             storage |-> <<>>, tstorage |-> <<>>,   \* Word -> Word, zero entries absent
             retbuf |-> <<>>,                       \* return data of the last sub-call (always empty: no calls)
             status |-> "run", output |-> <<>>, kmap |-> KMap0]

Running(m) == m.status = "run"
Failure == {"undefined", "invalid", "underflow", "overflow", "badjump", "mem", "memcap", "readonly"}

\* i-th item from the top, i = 0 is the top (mu_s[i])
S(m, i) == m.stack[Len(m.stack) - i]
Popped(m, n) == SubSeq(m.stack, 1, Len(m.stack) - n)

Halt(m, st) == [m EXCEPT !.status = st, !.output = <<>>]
\* replace the n top items by the word r and go to the next instruction
Ret1(m, n, r) == [m EXCEPT !.stack = Append(Popped(m, n), r), !.pc = m.pc + 1]
Ret0(m, n) == [m EXCEPT !.stack = Popped(m, n), !.pc = m.pc + 1]

(* Memory: word index -> 32-byte word (absent = zero); msize = active bytes, a multiple of 32. *)
MemByte(mem, a) == LET w == a \div 32 IN IF w \in DOMAIN mem THEN mem[w][(a % 32) + 1] ELSE 0
MemRead(mem, o, n) ==
  IF n = 32 /\ o % 32 = 0
  THEN (IF (o \div 32) \in DOMAIN mem THEN mem[o \div 32] ELSE WZero)
  ELSE TLCEval([i \in 1..n |-> MemByte(mem, o + i - 1)])
\* write the byte sequence data (length n > 0) at offset o
MemWrite(mem, o, data) ==
  LET n == Len(data)
      W == (o \div 32)..((o + n - 1) \div 32)
  IN  TLCEval([w \in (DOMAIN mem) \cup W |->
         IF w \in W
         THEN TLCEval([i \in 1..32 |-> LET a == w * 32 + i - 1 IN
                         IF a >= o /\ a < o + n THEN data[a - o + 1] ELSE MemByte(mem, a)])
         ELSE mem[w]])
Ceil32(n) == ((n + 31) \div 32) * 32

U32Max == <<255, 255, 255, 255>>     \* 2^32 - 1 as a Nat
\* classify the region [off, off+size): "none" (size 0: no access, YP H.1 M()), "ok", "big", "illegal"
Region(off, size) ==
  IF WIsZero(size) THEN [c |-> "none", o |-> 0, n |-> 0]
  ELSE LET end == NAdd(W2N(off), W2N(size)) IN
       IF NCmp(end, U32Max) > 0 THEN [c |-> "illegal", o |-> 0, n |-> 0]
       ELSE IF NCmp(end, NOfInt(MemCap)) > 0 THEN [c |-> "big", o |-> 0, n |-> 0]
       ELSE [c |-> "ok", o |-> Small(off), n |-> Small(size)]
\* the verdict for an instruction that touches the regions rs (a sequence): which failure, if any
RegionsFail(rs) ==
  IF \E i \in 1..Len(rs) : rs[i].c = "big" THEN "memcap"
  ELSE IF \E i \in 1..Len(rs) : rs[i].c = "illegal" THEN "mem"
  ELSE "ok"
\* active memory after touching region r
Grown(msize, r) == IF r.c = "ok" /\ Ceil32(r.o + r.n) > msize THEN Ceil32(r.o + r.n) ELSE msize

\* n bytes of `data` starting at the (word) offset off, zero beyond the end of data  (YP: Id[x] = 0 beyond)
DataSlice(data, off, n) ==
  LET o == Small(off) IN
  TLCEval([i \in 1..n |-> IF o # -1 /\ o < Len(data) /\ o + i <= Len(data) THEN data[o + i] ELSE 0])

\* storage update: zero values are not stored
Put(f, k, v) ==
  IF WIsZero(v) THEN TLCEval([x \in (DOMAIN f) \ {k} |-> f[x]])
  ELSE TLCEval([x \in (DOMAIN f) \cup {k} |-> IF x = k THEN v ELSE f[x]])
Get(f, k) == IF k \in DOMAIN f THEN f[k] ELSE WZero

Arith2(op, a, b) ==
  CASE op = OpADD -> ADD(a, b) [] op = OpMUL -> MUL(a, b) [] op = OpSUB -> SUB(a, b)
    [] op = OpDIV -> DIV(a, b) [] op = OpSDIV -> SDIV(a, b) [] op = OpMOD -> MOD(a, b)
    [] op = OpSMOD -> SMOD(a, b) [] op = OpEXP -> EXP(a, b) [] op = OpSIGNEXTEND -> SIGNEXTEND(a, b)
    [] op = OpLT -> LT(a, b) [] op = OpGT -> GT(a, b) [] op = OpSLT -> SLT(a, b) [] op = OpSGT -> SGT(a, b)
    [] op = OpEQ -> EQ(a, b) [] op = OpAND -> AND(a, b) [] op = OpOR -> OR(a, b) [] op = OpXOR -> XOR(a, b)
    [] op = OpBYTE -> BYTE(a, b) [] op = OpSHL -> SHL(a, b) [] op = OpSHR -> SHR(a, b) [] op = OpSAR -> SAR(a, b)
Arith1(op, a) == CASE op = OpISZERO -> ISZERO(a) [] op = OpNOT -> NOT(a) [] op = OpCLZ -> CLZ(a)
Arith3(op, a, b, c) == IF op = OpADDMOD THEN ADDMOD(a, b, c) ELSE MULMOD(a, b, c)

JumpTo(p, m, dest, n) ==
  LET d == Small(dest) IN
  IF d # -1 /\ d \in p.jd THEN [m EXCEPT !.stack = Popped(m, n), !.pc = d] ELSE Halt(m, "badjump")

\* a copy instruction: memory[mu_s[0] ...] := slice of src starting at mu_s[1], mu_s[2] bytes
CopyIn(m, src) ==
  LET r == Region(S(m, 0), S(m, 2)) f == RegionsFail(<<r>>) IN
  IF f # "ok" THEN Halt(m, f)
  ELSE IF r.c = "none" THEN Ret0(m, 3)
  ELSE [Ret0(m, 3) EXCEPT !.mem = MemWrite(m.mem, r.o, DataSlice(src, S(m, 1), r.n)),
                          !.msize = Grown(m.msize, r)]

\* RETURN / REVERT: the output is memory[mu_s[0] ... mu_s[0] + mu_s[1] - 1]
Finish(m, st) ==
  LET r == Region(S(m, 0), S(m, 1)) f == RegionsFail(<<r>>) IN
  IF f # "ok" THEN Halt(m, f)
  ELSE [m EXCEPT !.status = st, !.stack = Popped(m, 2), !.msize = Grown(m.msize, r),
                 !.output = IF r.c = "none" THEN <<>> ELSE MemRead(m.mem, r.o, r.n)]

(* One instruction.  hint: the digest to use for a KECCAK256 input not seen before in this run     *)
(* (the function is uninterpreted); ignored otherwise.                                            *)
Exec(p, m, hint) ==
  LET op == CodeAt(p.code, m.pc)
      n  == Len(m.stack)
      ar == Arity[op]
  IN
  IF op \in Undefined THEN Halt(m, "undefined")
  ELSE IF op = OpINVALID THEN Halt(m, "invalid")
  ELSE IF op \in OutOfScope /\ ~(p.static /\ op \in StaticForbidden \cup {OpCALL}) THEN Halt(m, "unsupported")
  ELSE IF n < ar[1] THEN Halt(m, "underflow")
  ELSE IF n - ar[1] + ar[2] > StackLimit THEN Halt(m, "overflow")
  ELSE IF op \in StaticForbidden THEN Halt(m, "readonly")                 \* only reached when p.static
  ELSE IF op = OpCALL THEN Halt(m, IF WIsZero(S(m, 2)) THEN "unsupported" ELSE "readonly")
  ELSE
  CASE op = OpSTOP -> [m EXCEPT !.status = "stop", !.output = <<>>]
    [] op \in Ops3 -> Ret1(m, 3, Arith3(op, S(m, 0), S(m, 1), S(m, 2)))
    [] op \in Ops1 -> Ret1(m, 1, Arith1(op, S(m, 0)))
    [] op \in Ops2 -> Ret1(m, 2, Arith2(op, S(m, 0), S(m, 1)))
    [] op = OpKECCAK ->
         LET r == Region(S(m, 0), S(m, 1)) f == RegionsFail(<<r>>) IN
         IF f # "ok" THEN Halt(m, f)
         ELSE LET input == IF r.c = "none" THEN <<>> ELSE MemRead(m.mem, r.o, r.n)
                  known == input \in DOMAIN m.kmap
                  d     == IF known THEN m.kmap[input] ELSE hint
              IN  [Ret1(m, 2, d) EXCEPT !.msize = Grown(m.msize, r),
                                        !.kmap = IF known THEN m.kmap ELSE (input :> d) @@ m.kmap]
    [] op = OpCALLDATALOAD -> Ret1(m, 1, DataSlice(p.calldata, S(m, 0), 32))
    [] op = OpCALLDATASIZE -> Ret1(m, 0, WOfInt(Len(p.calldata)))
    [] op = OpCALLDATACOPY -> CopyIn(m, p.calldata)
    [] op = OpCODESIZE -> Ret1(m, 0, WOfInt(Len(p.code)))
    [] op = OpCODECOPY -> CopyIn(m, p.code)
    [] op = OpRETURNDATASIZE -> Ret1(m, 0, WOfInt(Len(m.retbuf)))
    [] op = OpRETURNDATACOPY ->
         \* EIP-211: reading beyond the end of the return data buffer is an exceptional halt
         IF NCmp(NAdd(W2N(S(m, 1)), W2N(S(m, 2))), NOfInt(Len(m.retbuf))) > 0
         THEN (LET f == RegionsFail(<<Region(S(m, 0), S(m, 2))>>) IN Halt(m, IF f = "memcap" THEN f ELSE "mem"))
         ELSE CopyIn(m, m.retbuf)
    [] op = OpPOP -> Ret0(m, 1)
    [] op = OpMLOAD ->
         LET r == Region(S(m, 0), WOfInt(32)) f == RegionsFail(<<r>>) IN
         IF f # "ok" THEN Halt(m, f)
         ELSE [Ret1(m, 1, MemRead(m.mem, r.o, 32)) EXCEPT !.msize = Grown(m.msize, r)]
    [] op = OpMSTORE ->
         LET r == Region(S(m, 0), WOfInt(32)) f == RegionsFail(<<r>>) IN
         IF f # "ok" THEN Halt(m, f)
         ELSE [Ret0(m, 2) EXCEPT !.mem = MemWrite(m.mem, r.o, S(m, 1)), !.msize = Grown(m.msize, r)]
    [] op = OpMSTORE8 ->
         LET r == Region(S(m, 0), WOne) f == RegionsFail(<<r>>) IN
         IF f # "ok" THEN Halt(m, f)
         ELSE [Ret0(m, 2) EXCEPT !.mem = MemWrite(m.mem, r.o, <<S(m, 1)[32]>>), !.msize = Grown(m.msize, r)]
    [] op = OpMCOPY ->
         \* EIP-5656: as if through an intermediate buffer; both regions count for memory expansion
         LET rd == Region(S(m, 0), S(m, 2)) rs == Region(S(m, 1), S(m, 2)) f == RegionsFail(<<rs, rd>>) IN
         IF f # "ok" THEN Halt(m, f)
         ELSE IF rd.c = "none" THEN Ret0(m, 3)
         ELSE [Ret0(m, 3) EXCEPT !.mem = MemWrite(m.mem, rd.o, MemRead(m.mem, rs.o, rs.n)),
                                 !.msize = Grown(Grown(m.msize, rs), rd)]
    [] op = OpSLOAD -> Ret1(m, 1, Get(m.storage, S(m, 0)))
    [] op = OpSSTORE -> IF p.static THEN Halt(m, "readonly")
                        ELSE [Ret0(m, 2) EXCEPT !.storage = Put(m.storage, S(m, 0), S(m, 1))]
    [] op = OpTLOAD -> Ret1(m, 1, Get(m.tstorage, S(m, 0)))
    [] op = OpTSTORE -> IF p.static THEN Halt(m, "readonly")
                        ELSE [Ret0(m, 2) EXCEPT !.tstorage = Put(m.tstorage, S(m, 0), S(m, 1))]
    [] op = OpJUMP -> JumpTo(p, m, S(m, 0), 1)
    [] op = OpJUMPI -> IF WIsZero(S(m, 1)) THEN Ret0(m, 2) ELSE JumpTo(p, m, S(m, 0), 2)
    [] op = OpPC -> Ret1(m, 0, WOfInt(m.pc))
    [] op = OpMSIZE -> Ret1(m, 0, WOfInt(m.msize))
    [] op = OpJUMPDEST -> Ret0(m, 0)
    [] op = OpPUSH0 -> Ret1(m, 0, WZero)
    [] IsPush(op) ->
         LET k == op - OpPUSH1 + 1 IN
         [m EXCEPT !.stack = Append(m.stack, TLCEval([i \in 1..32 |->
                                IF i <= 32 - k THEN 0 ELSE CodeAt(p.code, m.pc + i - (32 - k))])),
                   !.pc = m.pc + k + 1]
    [] IsDup(op) -> [m EXCEPT !.stack = Append(m.stack, S(m, op - OpDUP1)), !.pc = m.pc + 1]
    [] IsSwap(op) ->
         LET k == op - OpSWAP1 + 1  t == Len(m.stack) IN
         [m EXCEPT !.stack = [m.stack EXCEPT ![t] = m.stack[t - k], ![t - k] = m.stack[t]], !.pc = m.pc + 1]
    [] op = OpRETURN -> Finish(m, "return")
    [] op = OpREVERT -> Finish(m, "revert")

(* Contract creation (YP section 7): the output of successful init code becomes the runtime code      *)
(* unless it is longer than 24576 bytes (EIP-170) or starts with 0xEF (EIP-3541).                     *)
MaxCodeSize == 24576
DeployOK(out) == Len(out) <= MaxCodeSize /\ (Len(out) = 0 \/ out[1] # 239)

-----------------------------------------------------------------------------
(* The same thing as actions over the variables; one action per instruction group so that the     *)
(* model checker's coverage report shows which groups were exercised.                              *)
NoHint == WZero
CurOp == CodeAt(prog.code, mach.pc)
Next1 == Exec(prog, mach, NoHint)
\* the instruction at pc is in `group` and executing it does not halt the machine
Continues(group) == Running(mach) /\ CurOp \in group /\ Running(Next1)

StepArith   == Continues(ArithOps) /\ mach' = Next1 /\ UNCHANGED prog
StepCompare == Continues(CompareOps) /\ mach' = Next1 /\ UNCHANGED prog
StepBitwise == Continues(BitOps) /\ mach' = Next1 /\ UNCHANGED prog
StepStack   == Continues(StackOps) /\ mach' = Next1 /\ UNCHANGED prog
StepMemory  == Continues(MemOps) /\ mach' = Next1 /\ UNCHANGED prog
StepStorage == Continues(StorageOps) /\ mach' = Next1 /\ UNCHANGED prog
StepData    == Continues(DataOps) /\ mach' = Next1 /\ UNCHANGED prog
StepHash    == Continues(HashOps) /\ mach' = Next1 /\ UNCHANGED prog
StepFlow    == Continues(FlowOps) /\ mach' = Next1 /\ UNCHANGED prog
\* normal halting (H of the Yellow Paper): STOP, RETURN, REVERT
StepEnd     == /\ Running(mach) /\ CurOp \in {OpSTOP, OpRETURN, OpREVERT}
               /\ Next1.status \in {"stop", "return", "revert"} /\ mach' = Next1 /\ UNCHANGED prog
\* exceptional halting (Z of the Yellow Paper)
StepFail    == Running(mach) /\ Next1.status \in Failure /\ mach' = Next1 /\ UNCHANGED prog
\* an instruction about which this specification is silent
StepUnsupported == /\ Running(mach) /\ CurOp \in OutOfScope
                   /\ Next1.status = "unsupported" /\ mach' = Next1 /\ UNCHANGED prog

Step == \/ StepArith \/ StepCompare \/ StepBitwise \/ StepStack \/ StepMemory \/ StepStorage
        \/ StepData \/ StepHash \/ StepFlow \/ StepEnd \/ StepFail \/ StepUnsupported

-----------------------------------------------------------------------------
(* Invariants of the machine (checked by TLC over all small programs, MC_EVM) *)
StackBound  == Len(mach.stack) <= StackLimit
\* the program counter is never inside the data of a PUSH
PcOnInstr   == Running(mach) => (mach.pc >= Len(prog.code) \/ mach.pc \in prog.starts)
JumpDestsOK == prog.jd = {i \in prog.starts : prog.code[i + 1] = OpJUMPDEST}
\* the one-pass analysis used for long programs equals the Yellow Paper's recursive definition
ScanAgrees  == prog.jd = JumpDests(prog.code) /\ prog.starts = InstrStarts(prog.code)
MemBound    == mach.msize <= MemCap /\ mach.msize % 32 = 0
               /\ \A w \in DOMAIN mach.mem : (w + 1) * 32 <= mach.msize
OutputOnlyAtEnd == (mach.status \notin {"return", "revert"}) => mach.output = <<>>
StaticNoWrite == prog.static => (mach.storage = <<>> /\ mach.tstorage = <<>>)
\* totality: a running machine always has exactly one next state
Total == Running(mach) => (ENABLED Step)
=============================================================================
