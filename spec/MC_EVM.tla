------------------------------ MODULE MC_EVM ------------------------------
(* Bounded model of EVM.tla for TLC: EVERY byte string up to a small length over reduced alphabets
   is a program (so truncated PUSHes, jumps into push data, undefined opcodes, underflow ... all
   occur), run in both normal and static context with tiny StackLimit / MemCap so that overflow and
   the memory bound are reached.  Checked: the machine's own invariants and totality (no deadlock:
   a running machine always has a next state; halted machines stutter).

   The program is built byte by byte in a "load" phase (status "load"), so that TLC's workers share
   the enumeration of programs; every prefix is itself started as a program. *)
EXTENDS EVM

CONSTANTS Wide, WideLen,       \* all instruction groups, very short programs
          Mid, MidLen,
          Narrow, NarrowLen    \* few opcodes, longer programs (loops, jumps)

CallData == <<1, 2, 3>>
Classes == {"wide", "mid", "narrow"}
Alphabet(c) == CASE c = "wide" -> Wide [] c = "mid" -> Mid [] c = "narrow" -> Narrow
MaxLen(c)   == CASE c = "wide" -> WideLen [] c = "mid" -> MidLen [] c = "narrow" -> NarrowLen

Loading == mach.status = "load"
MCInit == \E c \in Classes :
             /\ prog = [code |-> <<>>, calldata |-> CallData, static |-> FALSE, jd |-> {}, starts |-> {}, cls |-> c]
             /\ mach = [InitMach EXCEPT !.status = "load"]
AddByte == /\ Loading /\ Len(prog.code) < MaxLen(prog.cls)
           /\ \E b \in Alphabet(prog.cls) : prog' = [prog EXCEPT !.code = Append(@, b)]
           /\ UNCHANGED mach
Start   == /\ Loading
           /\ \E st \in BOOLEAN : prog' = MkProg(prog.code, CallData, st) @@ [cls |-> prog.cls]
           /\ mach' = InitMach
Done    == ~Running(mach) /\ ~Loading /\ UNCHANGED vars
MCNext  == AddByte \/ Start \/ Step \/ Done
MCSpec  == MCInit /\ [][MCNext]_vars

\* every halted state carries a defined outcome
Outcomes == {"stop", "return", "revert", "unsupported"} \cup Failure
StatusOK == mach.status \in Outcomes \cup {"run", "load"}
Loaded(P) == Loading \/ P
MCStackBound == Loaded(StackBound)
MCPcOnInstr == Loaded(PcOnInstr)
MCJumpDestsOK == Loaded(JumpDestsOK)
MCMemBound == Loaded(MemBound)
MCOutputOnlyAtEnd == Loaded(OutputOnlyAtEnd)
MCStaticNoWrite == Loaded(StaticNoWrite)
MCScanAgrees == Loaded(ScanAgrees)
=============================================================================
