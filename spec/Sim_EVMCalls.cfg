SPECIFICATION SimSpec
CONSTANTS Keys = {0, 1}
          MaxMsgs = 8
          ExportLen = 8
          Rich = TRUE
INVARIANT Export
PROPERTY StepOK
CHECK_DEADLOCK FALSE
