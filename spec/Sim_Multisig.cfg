SPECIFICATION SimSpec
CONSTANTS MaxSigners = 4
          Accounts = {"a", "b", "c"}
          Outsider = "x"
          MaxVal = 3
          MaxNext = 4
          MaxEpoch = 8
          MaxBal = 6
          ExportLen = 16
          Rich = TRUE
CONSTRAINT Bound
INVARIANT Inv_WellFormed
INVARIANT Export
PROPERTY StepOK
CHECK_DEADLOCK FALSE
