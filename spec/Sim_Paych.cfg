SPECIFICATION SimSpec
CONSTANTS SettleDelay = 2
          MaxLane = 2
          MaxNonce = 3
          MaxAmt = 3
          MaxBal = 6
          MaxEpoch = 12
          ExportLen = 14
          Mshs = {0, 3, 5, 8}
          GoodCallers = {"payer", "payee"}
          MergeNonces = {1, 2, 3}
CONSTRAINT Bound
INVARIANT Solvent
INVARIANT Export
PROPERTY StepOK
CHECK_DEADLOCK FALSE
