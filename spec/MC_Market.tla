----------------------------- MODULE MC_Market -----------------------------
(* Bounded model of Market for TLC.  The constants are the REAL protocol numbers (180-day minimum
   deal duration, 30-day cron interval): the state space stays small because time only jumps
   between "interesting" epochs (deal boundaries, scheduled cron epochs), so every behaviour TLC
   generates can be replayed 1:1 on the real actor. *)
EXTENDS Market, Json, Randomization

CONSTANTS MaxEpochs,     \* bound on the number of Tick steps
          MaxDeals, ExportLen, Rich

VARIABLES hist, ticks
mcvars == <<vars, hist, ticks>>

Clients == {"c1", "c2"}
OwnerOfDef == [m \in {"m1", "m2"} |-> IF m = "m1" THEN "o1" ELSE "o2"]
WorkerOfDef == [m \in {"m1", "m2"} |-> IF m = "m1" THEN "w1" ELSE "w2"]
Start0 == 10
Dur0 == MinDur

Deal(c, p, st, dur, price, pcol, ccol, uid) ==
  [c |-> c, p |-> p, start |-> st, end |-> st + dur, price |-> price, pcol |-> pcol, ccol |-> ccol, uid |-> uid]
GoodDeals == {Deal("c1", "m1", Start0, Dur0, 1, 3, 5, 1), Deal("c1", "m1", Start0, Dur0 + 7, 1, 3, 5, 2)}
             \cup (IF Rich THEN {Deal(c, "m1", st, Dur0 + x, pr, 3, 5, 1) :
                                   c \in Clients, st \in {Start0, Start0 + Interval}, x \in {0, 7}, pr \in {0, 2}}
                   ELSE {})
OddDeals == {Deal("c1", "m1", Start0, Dur0 - 1, 1, 3, 5, 1),      \* too short
             Deal("c1", "m2", Start0, Dur0, 1, 3, 5, 1),          \* another provider
             Deal("c2", "m1", Start0, Dur0, 1, 3, 5, 1),          \* a client without funds
             Deal("c1", "m1", 0, Dur0, 1, 3, 5, 3),               \* start possibly elapsed
             Deal("c1", "m1", Start0, Dur0, 1, -1, 5, 1)}         \* negative collateral
Entries == {[d |-> d, sigOK |-> TRUE] : d \in GoodDeals \cup OddDeals}
           \cup {[d |-> d, sigOK |-> FALSE] : d \in {Deal("c1", "m1", Start0, Dur0, 1, 3, 5, 1)}}
Batches == {<<x>> : x \in Entries}
           \cup {<<x, y>> : x \in {e \in Entries : e.d \in GoodDeals /\ e.sigOK},
                            y \in (IF Rich THEN Entries ELSE {e \in Entries : e.d \in GoodDeals \/ e.d.c = "c2" \/ ~e.sigOK})}

Ids == 0..(MaxDeals - 1)
IdSeqs == {<<i>> : i \in Ids} \cup {<<i, j>> : i, j \in Ids} \cup (IF MaxDeals > 1 THEN {<<0, 1, 0>>} ELSE {})
IncSeqs == {<<i>> : i \in Ids} \cup {<<p[1], p[2]>> : p \in {q \in Ids \X Ids : q[1] < q[2]}}    \* a bitfield on the wire
BigExp == Start0 + 2 * MaxDur
SectorGroups ==
     {<<[sector |-> s, expiry |-> x, ids |-> q]>> : s \in (IF Rich THEN {1, 2} ELSE {1}), x \in {BigExp, Start0 + Dur0 - 1}, q \in IdSeqs}
  \cup {<<[sector |-> 1, expiry |-> BigExp, ids |-> q1], [sector |-> 2, expiry |-> BigExp, ids |-> q2]>> :
          q1, q2 \in {<<0>>, <<1>>}}
PieceGroups ==
     {<<[sector |-> s, commit |-> x, pieces |-> pc]>> : s \in (IF Rich THEN {1, 2} ELSE {2}), x \in {BigExp, Start0 + Dur0 - 1},
          pc \in {<<[id |-> i, dataOK |-> TRUE]>> : i \in Ids}
             \cup {<<[id |-> 0, dataOK |-> FALSE]>>, <<[id |-> 0, dataOK |-> TRUE], [id |-> 0, dataOK |-> TRUE]>>,
                   <<[id |-> 0, dataOK |-> TRUE], [id |-> 1, dataOK |-> TRUE]>>}}

Blank == [ok |-> TRUE]
Calls ==
     {Blank @@ [a |-> "AddBalance", c |-> "x", party |-> pa, amt |-> am] :
          pa \in {"c1", "m1"}, am \in (IF Rich THEN {0, 1, Dur0 + 5} ELSE {0})}
  \cup {Blank @@ [a |-> "Withdraw", c |-> c, party |-> pa, amt |-> am, paid |-> 0, to |-> "none"] :
          c \in {"c1", "o1", "w1", "x"}, pa \in {"c1", "m1"}, am \in (IF Rich THEN {-1, 0, 2, 10 * Dur0} ELSE {10 * Dur0})}
  \cup {Blank @@ [a |-> "Publish", c |-> c, batch |-> b, valid |-> <<>>, ids |-> <<>>] :
          c \in {"w1", "o1", "x"}, b \in Batches}
  \cup {Blank @@ [a |-> "Activate", m |-> m, sectors |-> sg, res |-> <<>>] : m \in {"m1", "m2"}, sg \in SectorGroups}
  \cup {Blank @@ [a |-> "ContentChanged", m |-> m, sectors |-> pg, res |-> <<>>] : m \in {"m1", "m2"}, pg \in PieceGroups}
  \cup {Blank @@ [a |-> "Settle", c |-> "x", ids |-> q, res |-> <<>>] : q \in IncSeqs}
  \cup {Blank @@ [a |-> "Terminate", m |-> m, secs |-> sc] : m \in {"m1", "m2"}, sc \in (IF Rich THEN {<<1>>, <<2>>, <<1, 2>>} ELSE {<<1>>, <<1, 2>>})}

Do(ms, call, e) ==
  CASE call.a = "AddBalance"     -> AddBalance(ms, call.party, call.amt)
    [] call.a = "Withdraw"       -> Withdraw(ms, call.c, call.party, call.amt)
    [] call.a = "Publish"        -> Publish(ms, call.c, call.batch, e)
    [] call.a = "Activate"       -> Activate(ms, call.m, call.sectors, e)
    [] call.a = "ContentChanged" -> ContentChanged(ms, call.m, call.sectors, e)
    [] call.a = "Settle"         -> Settle(ms, call.ids, e)
    [] call.a = "Terminate"      -> Terminate(ms, call.m, call.secs, e)

\* the call record with the results filled in
Filled(call, r) ==
  CASE call.a = "Withdraw" -> [call EXCEPT !.ok = r.ok, !.paid = r.paid, !.to = IF r.ok THEN r.to ELSE "none"]
    [] call.a = "Publish"  -> [call EXCEPT !.ok = r.ok, !.valid = r.valid, !.ids = r.ids]
    [] call.a \in {"Activate", "ContentChanged", "Settle"} -> [call EXCEPT !.ok = r.ok, !.res = r.res]
    [] OTHER -> [call EXCEPT !.ok = r.ok]

CallStep(call) ==
  LET r == Do(MS, call, epoch)
      l == Filled(call, r)
  IN  /\ MS' = r.MS /\ last' = l /\ G' = GhostNext(G, MS, r.MS, l, epoch)
      /\ hist' = Append(hist, l) /\ UNCHANGED <<epoch, ticks>>

Interesting ==
  UNION {IF Rich THEN {MS.prop[i].start - 1, MS.prop[i].start, MS.prop[i].start + 1,
                        MS.prop[i].end - 1, MS.prop[i].end, MS.prop[i].end + 1}
                  ELSE {MS.prop[i].start, MS.prop[i].start + 1, MS.prop[i].end - 1, MS.prop[i].end} : i \in DOMAIN MS.prop}
  \cup UNION {{k, k + 1} : k \in DOMAIN MS.ops}
  \cup (IF Rich THEN {epoch + 1, Start0 - 1, Start0, Start0 + 1} ELSE {Start0})

TickStep ==
  /\ ticks < MaxEpochs
  /\ \E t \in {x \in Interesting : x > epoch} :
       LET n == t - epoch
           ms2 == TickTo(MS, epoch, n)
           l == [a |-> "Tick", ok |-> TRUE, n |-> n]
       IN  /\ MS' = ms2 /\ epoch' = t /\ last' = l /\ G' = GhostNext(G, MS, ms2, l, t)
           /\ hist' = Append(hist, l) /\ ticks' = ticks + 1

MCNext == (\E call \in Calls : CallStep(call)) \/ TickStep
SimNext == \/ \E call \in RandomSubset(25, Calls) : Do(MS, call, epoch).ok /\ CallStep(call)
           \/ \E call \in RandomSubset(25, Calls) : Do(MS, call, epoch).ok /\ CallStep(call)
           \/ \E call \in RandomSubset(2, Calls) : ~Do(MS, call, epoch).ok /\ CallStep(call)
           \/ TickStep

Zero == [x \in Parties |-> 0]
MCInit ==
  /\ MS = [escrow |-> IF Rich THEN Zero ELSE [Zero EXCEPT !["c1"] = 2 * (Dur0 + 5) + 1, !["m1"] = 7],
           locked |-> Zero, tcc |-> 0, tpc |-> 0, tfee |-> 0, next |-> 0,
           prop |-> <<>>, st |-> <<>>, pending |-> {}, ops |-> <<>>, lastCron |-> -1, psec |-> <<>>,
           bal |-> IF Rich THEN 0 ELSE 2 * (Dur0 + 5) + 8, burnt |-> 0]
  /\ epoch = 0
  /\ G = [dep |-> MS.escrow, wd |-> Zero, fin |-> <<>>, act |-> {}]
  /\ last = [a |-> "Init", ok |-> TRUE]
  /\ hist = IF Rich THEN <<>>
            ELSE <<[a |-> "AddBalance", ok |-> TRUE, c |-> "x", party |-> "c1", amt |-> 2 * (Dur0 + 5) + 1],
                   [a |-> "AddBalance", ok |-> TRUE, c |-> "x", party |-> "m1", amt |-> 7]>>
  /\ ticks = 0
  /\ TLCSet(42, {})

MCSpec == MCInit /\ [][MCNext]_mcvars
SimSpec == MCInit /\ [][SimNext]_mcvars

Bound == /\ MS.next <= MaxDeals
         /\ \A x \in Parties : G.dep[x] <= 2 * (Dur0 + 5) + 1
View == <<MS, epoch, G, ticks>>

Inv == StateInv(MS, G)
StepProps == /\ WithdrawExact /\ EscrowOnlyOwnMoves /\ EndLegit /\ IdsFresh /\ PublishRules /\ PublishFunded
             /\ ActivationRules /\ ActivatedOnce /\ ActivatedOnceInCall /\ TerminationEndsDeals /\ RejectedIsNoop
             /\ NoStranding
StepOK == [][StepProps]_mcvars

\* transition tour
DealPhase(ms, i, e) ==
  IF i \notin DOMAIN ms.prop THEN "gone"
  ELSE <<i \in DOMAIN ms.st, IF i \in DOMAIN ms.st THEN ms.st[i].lu # Undef ELSE FALSE, ms.prop[i] \in ms.pending,
         IF e < ms.prop[i].start THEN "pre" ELSE IF e = ms.prop[i].start THEN "at" ELSE IF e < ms.prop[i].end THEN "in"
         ELSE IF e = ms.prop[i].end THEN "end" ELSE "post">>
Alpha(ms, e) == <<[i \in Ids |-> DealPhase(ms, i, e)], ms.escrow["c1"] > ms.locked["c1"], ms.escrow["m1"] > ms.locked["m1"]>>
ArgClass(l) ==
  CASE l.a = "Publish" -> <<l.c, Len(l.batch), l.valid>>
    [] l.a \in {"Activate", "ContentChanged"} -> <<l.m, Len(l.sectors), l.res>>
    [] l.a = "Settle" -> <<l.ids, [k \in 1..Len(l.res) |-> <<l.res[k].ok, l.res[k].pay > 0, l.res[k].completed>>]>>
    [] l.a = "Terminate" -> <<l.m, l.secs>>
    [] l.a = "Withdraw" -> <<l.c, l.party, l.amt > 0, l.paid > 0>>
    [] l.a = "AddBalance" -> <<l.party, l.amt > 0>>
    [] OTHER -> "-"
Tour ==
  IF last'.a = "Init" THEN TRUE
  ELSE LET sig == ToString(<<Alpha(MS, epoch), last'.a, ArgClass(last'), last'.ok>>)
       IN  IF sig \in TLCGet(42) THEN TRUE
           ELSE TLCSet(42, TLCGet(42) \cup {sig}) /\ PrintT(<<"REPLAY", ToJson([sig |-> sig, calls |-> hist'])>>)

Export == Len(hist) # ExportLen \/ PrintT(<<"REPLAY", ToJson(hist)>>)
=============================================================================
