SPECIFICATION SimSpec
CONSTANTS D = 4
          W = 6
          PartSize = 2
          FaultMaxAge = 48
          FaultCutoff = 2
          MinLife = 72
          MaxLife = 480000
          AddrSectorsMax = 4
          AddrPartsMax = 3
          MaxPC = 86400
          ChalDelay = 1
          WithPC = TRUE
          MaxEpoch = 200
          MaxSectors = 5
          ExportLen = 40
          Rich = TRUE
CONSTRAINT Bound
INVARIANT Inv
INVARIANT Export
PROPERTY StepOK
CHECK_DEADLOCK FALSE
