------------------------------- MODULE Market -------------------------------
(***************************************************************************)
(* Storage market actor (actors/market): escrow, deal publication, the two *)
(* activation paths, settlement, sector termination and the epoch cron.    *)
(* Verified (DataCap) deals are out of this module (see VerifReg).         *)
(*                                                                         *)
(* Methods are pure functions on the state record                          *)
(*   MS = [escrow, locked : party -> amount, tcc, tpc, tfee (the 3 totals),*)
(*         next, prop : id -> D, st : id -> [sector, sstart, lu, slash],   *)
(*         pending : SUBSET D, ops : epoch -> SUBSET id, lastCron,         *)
(*         psec : provider -> (sector -> Seq(id)), bal, burnt]             *)
(*   D  = [c, p, start, end, price, pcol, ccol, uid]  (a proposal's content)*)
(* returning [ok, MS, ...results]; ok = FALSE means the message aborts.    *)
(***************************************************************************)
EXTENDS Integers, Sequences, FiniteSets, TLC
LOCAL FSE == INSTANCE FiniteSetsExt

CONSTANTS MinDur, MaxDur,   \* deal duration bounds (hard-coded in the actor)
          Interval,         \* policy.deal_updates_interval
          Parties,          \* everybody that can hold escrow (clients, miners, others)
          Miners,           \* parties that are miner actors
          OwnerOf, WorkerOf \* functions Miners -> account

VARIABLES MS, epoch,
          G,      \* ghosts derived from events: [dep, wd : party -> amount, fin : id -> final record]
          last

vars == <<MS, epoch, G, last>>

Undef == -1
Min(a, b) == IF a < b THEN a ELSE b
Max(a, b) == IF a > b THEN a ELSE b

Get(f, k) == IF k \in DOMAIN f THEN f[k] ELSE 0
Get0(f, k) == IF k \in DOMAIN f THEN f[k] ELSE {}
ControlExtra(p) == {}   \* control addresses beyond owner/worker (none in the fixtures)
RemoveKey(f, k) == [x \in DOMAIN f \ {k} |-> f[x]]
PutKey(f, k, v) == [x \in DOMAIN f \cup {k} |-> IF x = k THEN v ELSE f[x]]
SeqSet(s) == {s[i] : i \in 1..Len(s)}

Fee(d) == d.price * (d.end - d.start)
ClientReq(d) == d.ccol + Fee(d)

Fail(ms) == [ok |-> FALSE, MS |-> ms]

-----------------------------------------------------------------------------
(* escrow *)
Controllers(p) == IF p \in Miners THEN {OwnerOf[p], WorkerOf[p]} ELSE {p}
Recipient(p) == IF p \in Miners THEN OwnerOf[p] ELSE p

AddBalance(ms, party, amt) ==
  IF amt <= 0 \/ party \notin Parties THEN Fail(ms)
  ELSE [ok |-> TRUE, MS |-> [ms EXCEPT !.escrow[party] = @ + amt, !.bal = @ + amt]]

Withdraw(ms, c, party, amt) ==
  IF amt < 0 \/ party \notin Parties \/ c \notin Controllers(party) THEN Fail(ms) @@ [paid |-> 0]
  ELSE LET a == Min(amt, ms.escrow[party] - ms.locked[party]) IN
       IF a < 0 THEN Fail(ms) @@ [paid |-> 0]
       ELSE [ok |-> TRUE, paid |-> a, to |-> Recipient(party),
             MS |-> [ms EXCEPT !.escrow[party] = @ - a, !.bal = @ - a]]

-----------------------------------------------------------------------------
(* publication.  batch = Seq of [d : D, sigOK : BOOLEAN]                     *)
NextUpdate(id, earliest) ==
  LET off == id % Interval
      q == (earliest - off) \div Interval
      r == (earliest - off) % Interval
  IN  IF earliest - off < 0 THEN Interval * 0 + off   \* (Rust's truncating division: quotient 0)
      ELSE IF r = 0 THEN Interval * q + off ELSE Interval * (q + 1) + off

StaticValid(b, e) ==
  /\ b.sigOK
  /\ b.d.end > b.d.start
  /\ e <= b.d.start
  /\ (b.d.end - b.d.start) >= MinDur /\ (b.d.end - b.d.start) <= MaxDur
  /\ b.d.price >= 0 /\ b.d.pcol >= 0 /\ b.d.ccol >= 0

\* sequential filter with cumulative lock-ups; acc = [valid : Seq(BOOLEAN), ok : Seq(D), cl : client -> amt, pl : amt]
RECURSIVE PubFold(_, _, _, _, _, _)
PubFold(ms, batch, i, prov, e, acc) ==
  IF i > Len(batch) THEN acc
  ELSE LET b == batch[i]
           d == b.d
           cl == Get(acc.cl, d.c) + ClientReq(d)
           pl == acc.pl + d.pcol
           good == /\ StaticValid(b, e)
                   /\ d.p = prov
                   /\ d.c \in Parties
                   /\ ms.locked[d.c] + cl <= ms.escrow[d.c]
                   /\ ms.locked[prov] + pl <= ms.escrow[prov]
                   /\ d \notin ms.pending
                   /\ d \notin SeqSet(acc.ok)
       IN  PubFold(ms, batch, i + 1, prov, e,
                   IF good THEN [valid |-> Append(acc.valid, TRUE), ok |-> Append(acc.ok, d),
                                 cl |-> PutKey(acc.cl, d.c, cl), pl |-> pl]
                           ELSE [acc EXCEPT !.valid = Append(@, FALSE)])

RECURSIVE PubApply(_, _, _)
PubApply(ms, ds, i) ==
  IF i > Len(ds) THEN ms
  ELSE LET d == ds[i]
           id == ms.next
           sch == NextUpdate(id, d.start)
       IN  PubApply([ms EXCEPT !.locked[d.c] = @ + ClientReq(d), !.locked[d.p] = @ + d.pcol,
                               !.tcc = @ + d.ccol, !.tfee = @ + Fee(d), !.tpc = @ + d.pcol,
                               !.next = @ + 1, !.prop = PutKey(@, id, d), !.pending = @ \cup {d},
                               !.ops = PutKey(@, sch, Get0(@, sch) \cup {id})], ds, i + 1)

Publish(ms, c, batch, e) ==
  IF Len(batch) = 0 THEN Fail(ms) @@ [valid |-> <<>>, ids |-> <<>>]
  ELSE LET prov == batch[1].d.p IN
       IF prov \notin Miners \/ c \notin (Controllers(prov) \cup ControlExtra(prov))
       THEN Fail(ms) @@ [valid |-> <<>>, ids |-> <<>>]
       ELSE LET acc == PubFold(ms, batch, 1, prov, e, [valid |-> <<>>, ok |-> <<>>, cl |-> <<>>, pl |-> 0])
            IN  IF Len(acc.ok) = 0 THEN Fail(ms) @@ [valid |-> acc.valid, ids |-> <<>>]
                ELSE [ok |-> TRUE, valid |-> acc.valid,
                      ids |-> [k \in 1..Len(acc.ok) |-> ms.next + k - 1],
                      MS |-> PubApply(ms, acc.ok, 1)]

-----------------------------------------------------------------------------
(* activation *)
CanActivateDeal(ms, m, id, commit, e) ==
  /\ id \in DOMAIN ms.prop
  /\ ms.prop[id].p = m
  /\ e <= ms.prop[id].start
  /\ ms.prop[id].end <= commit
  /\ id \notin DOMAIN ms.st
  /\ ms.prop[id] \in ms.pending

NewState(sector, e) == [sector |-> sector, sstart |-> e, lu |-> Undef, slash |-> Undef]
NoDupSeq(s) == \A i, j \in 1..Len(s) : i # j => s[i] # s[j]
\* psec : provider -> sector -> SET of deal ids (the code keeps a sorted, de-duplicated list; empty
\* entries are not part of the abstraction)
AddSectorDeals(psec, m, sector, ids) ==
  IF Len(ids) = 0 THEN psec
  ELSE LET cur == IF m \in DOMAIN psec THEN psec[m] ELSE <<>>
           old == IF sector \in DOMAIN cur THEN cur[sector] ELSE {}
       IN  PutKey(psec, m, PutKey(cur, sector, old \cup SeqSet(ids)))

\* BatchActivateDeals: sectors = Seq of [sector, expiry, ids : Seq(id)]; a sector is all-or-nothing
RECURSIVE ActFold(_, _, _, _, _, _)
ActFold(ms0, ms, m, sectors, i, acc) ==    \* acc = [res : Seq(BOOLEAN), done : SUBSET id]
  IF i > Len(sectors) THEN [MS |-> ms, res |-> acc.res]
  ELSE LET s == sectors[i]
           good == /\ NoDupSeq(s.ids)
                   /\ \A k \in 1..Len(s.ids) :
                        /\ s.ids[k] \notin acc.done
                        /\ CanActivateDeal(ms0, m, s.ids[k], s.expiry, ms0.e)
       IN  IF ~good THEN ActFold(ms0, ms, m, sectors, i + 1, [acc EXCEPT !.res = Append(@, FALSE)])
           ELSE ActFold(ms0,
                        [ms EXCEPT !.st = [x \in DOMAIN @ \cup SeqSet(s.ids) |->
                                             IF x \in SeqSet(s.ids) THEN NewState(s.sector, ms0.e) ELSE @[x]],
                                   !.psec = AddSectorDeals(@, m, s.sector, s.ids)],
                        m, sectors, i + 1,
                        [res |-> Append(acc.res, TRUE), done |-> acc.done \cup SeqSet(s.ids)])

Activate(ms, m, sectors, e) ==
  IF m \notin Miners THEN Fail(ms) @@ [res |-> <<>>]
  ELSE LET r == ActFold(ms @@ [e |-> e], ms, m, sectors, 1, [res |-> <<>>, done |-> {}])
       IN  [ok |-> TRUE, MS |-> r.MS, res |-> r.res]

\* SectorContentChanged: sectors = Seq of [sector, commit, pieces : Seq([id, dataOK])]; pieces are independent
RECURSIVE PieceFold(_, _, _, _, _, _, _)
PieceFold(ms0, ms, m, s, k, acc, e) ==    \* acc = [res, done, ids]
  IF k > Len(s.pieces) THEN [MS |-> [ms EXCEPT !.psec = AddSectorDeals(@, m, s.sector, acc.ids)],
                             res |-> acc.res, done |-> acc.done]
  ELSE LET pc == s.pieces[k]
           good == /\ pc.id \notin acc.done
                   /\ CanActivateDeal(ms0, m, pc.id, s.commit, e)
                   /\ pc.dataOK
       IN  IF ~good THEN PieceFold(ms0, ms, m, s, k + 1, [acc EXCEPT !.res = Append(@, FALSE)], e)
           ELSE PieceFold(ms0, [ms EXCEPT !.st = PutKey(@, pc.id, NewState(s.sector, e))], m, s, k + 1,
                          [res |-> Append(acc.res, TRUE), done |-> acc.done \cup {pc.id},
                           ids |-> Append(acc.ids, pc.id)], e)
RECURSIVE CCFold(_, _, _, _, _, _, _)
CCFold(ms0, ms, m, sectors, i, acc, e) ==   \* acc = [res : Seq(Seq(BOOLEAN)), done]
  IF i > Len(sectors) THEN [MS |-> ms, res |-> acc.res]
  ELSE LET r == PieceFold(ms0, ms, m, sectors[i], 1, [res |-> <<>>, done |-> acc.done, ids |-> <<>>], e)
       IN  CCFold(ms0, r.MS, m, sectors, i + 1, [res |-> Append(acc.res, r.res), done |-> r.done], e)

ContentChanged(ms, m, sectors, e) ==
  IF m \notin Miners THEN Fail(ms) @@ [res |-> <<>>]
  ELSE LET r == CCFold(ms, ms, m, sectors, 1, [res |-> <<>>, done |-> {}], e)
       IN  [ok |-> TRUE, MS |-> r.MS, res |-> r.res]

-----------------------------------------------------------------------------
(* deal processing shared by settlement, cron and termination *)

\* a proposal that was not activated by its start epoch: client fully unlocked, provider collateral burnt
TimeOut(ms, id) ==
  LET d == ms.prop[id] IN
  [ms EXCEPT !.locked[d.c] = @ - ClientReq(d), !.tfee = @ - Fee(d), !.tcc = @ - d.ccol,
             !.locked[d.p] = @ - d.pcol, !.escrow[d.p] = @ - d.pcol, !.tpc = @ - d.pcol,
             !.prop = RemoveKey(@, id), !.pending = @ \ {d},
             !.burnt = @ + d.pcol]

RemoveFromSector(psec, p, sector, id) ==
  IF p \notin DOMAIN psec \/ sector \notin DOMAIN psec[p] THEN psec
  ELSE LET rest == psec[p][sector] \ {id} IN
       IF rest = {} THEN
            LET ps == RemoveKey(psec[p], sector) IN
            IF DOMAIN ps = {} THEN RemoveKey(psec, p) ELSE PutKey(psec, p, ps)
       ELSE PutKey(psec, p, PutKey(psec[p], sector, rest))

\* process_deal_update for a non-slashed, activated deal at epoch e.
\* returns [MS, pay, completed]; the caller writes lu when not completed
Update(ms, id, e) ==
  LET d == ms.prop[id]
      s == ms.st[id]
      \* the proposal stays pending until the first update at or after the start epoch
      ms1 == IF e > d.start /\ (s.lu = Undef \/ s.lu <= d.start) THEN [ms EXCEPT !.pending = @ \ {d}] ELSE ms
  IN  IF d.start > e THEN [MS |-> ms, pay |-> 0, completed |-> FALSE]
      ELSE LET from == IF s.lu # Undef /\ s.lu > d.start THEN s.lu ELSE d.start
               to == Min(d.end, e)
               pay == d.price * (to - from)
               ms2 == IF pay > 0
                      THEN [ms1 EXCEPT !.escrow[d.c] = @ - pay, !.locked[d.c] = @ - pay, !.tfee = @ - pay,
                                       !.escrow[d.p] = @ + pay]
                      ELSE ms1
           IN  IF e >= d.end
               THEN [MS |-> [ms2 EXCEPT !.locked[d.p] = @ - d.pcol, !.tpc = @ - d.pcol,
                                        !.locked[d.c] = @ - d.ccol, !.tcc = @ - d.ccol,
                                        !.prop = RemoveKey(@, id), !.st = RemoveKey(@, id),
                                        !.psec = RemoveFromSector(@, d.p, s.sector, id)],
                     pay |-> pay, completed |-> TRUE]
               ELSE [MS |-> ms2, pay |-> pay, completed |-> FALSE]

\* SettleDealPayments(ids): per-id results [ok, pay, completed]
RECURSIVE SettleFold(_, _, _, _, _)
SettleFold(ms, ids, i, e, res) ==
  IF i > Len(ids) THEN [ok |-> TRUE, MS |-> ms, res |-> res]
  ELSE LET id == ids[i] IN
       IF id \notin DOMAIN ms.prop
       THEN SettleFold(ms, ids, i + 1, e, Append(res, [ok |-> FALSE, pay |-> 0, completed |-> FALSE]))
       ELSE IF id \notin DOMAIN ms.st THEN
              IF e < ms.prop[id].start
              THEN SettleFold(ms, ids, i + 1, e, Append(res, [ok |-> TRUE, pay |-> 0, completed |-> FALSE]))
              ELSE SettleFold(TimeOut(ms, id), ids, i + 1, e,
                              Append(res, [ok |-> FALSE, pay |-> 0, completed |-> FALSE]))
       ELSE IF ms.st[id].slash # Undef THEN [ok |-> FALSE, MS |-> ms, res |-> res]
       ELSE LET u == Update(ms, id, e)
                ms1 == IF u.completed THEN u.MS ELSE [u.MS EXCEPT !.st[id].lu = e]
            IN  SettleFold(ms1, ids, i + 1, e,
                           Append(res, [ok |-> TRUE, pay |-> u.pay, completed |-> u.completed]))

Settle(ms, ids, e) ==
  LET r == SettleFold(ms, ids, 1, e, <<>>) IN
  IF ~r.ok THEN Fail(ms) @@ [res |-> <<>>]
  ELSE [ok |-> TRUE, res |-> r.res, MS |-> [r.MS EXCEPT !.bal = @ - (r.MS.burnt - ms.burnt)]]

\* OnMinerSectorsTerminate(m, sectors) at epoch e (the miner passes the current epoch)
RECURSIVE TermFold(_, _, _, _, _)
TermFold(ms, m, ids, i, e) ==
  IF i > Len(ids) THEN [ok |-> TRUE, MS |-> ms]
  ELSE LET id == ids[i] IN
       IF id \notin DOMAIN ms.prop THEN TermFold(ms, m, ids, i + 1, e)
       ELSE LET d == ms.prop[id] IN
            IF d.p # m THEN [ok |-> FALSE, MS |-> ms]
            ELSE IF d.end <= e THEN TermFold(ms, m, ids, i + 1, e)
            ELSE IF id \notin DOMAIN ms.st THEN [ok |-> FALSE, MS |-> ms]
            ELSE LET s == ms.st[id]
                     from == Max(d.start, s.lu)
                     to == Min(d.end, e)
                     pay == d.price * Max(0, to - from)
                     rem == d.price * (d.end - Max(e, d.start))
                 IN  TermFold([ms EXCEPT !.pending = IF s.lu <= d.start THEN @ \ {d} ELSE @,
                                         !.escrow[d.c] = @ - pay, !.escrow[d.p] = @ + pay - d.pcol,
                                         !.locked[d.c] = @ - pay - rem - d.ccol,
                                         !.tfee = @ - pay - rem, !.tcc = @ - d.ccol,
                                         !.locked[d.p] = @ - d.pcol, !.tpc = @ - d.pcol,
                                         !.burnt = @ + d.pcol,
                                         !.prop = RemoveKey(@, id), !.st = RemoveKey(@, id)],
                              m, ids, i + 1, e)

\* ids of a sector in increasing order (the stored list is sorted)
RECURSIVE SortedSeq(_)
SortedSeq(S) == IF S = {} THEN <<>> ELSE LET x == CHOOSE y \in S : \A z \in S : y <= z IN <<x>> \o SortedSeq(S \ {x})
RECURSIVE ConcatSectors(_, _, _)
ConcatSectors(ps, secs, i) == IF i > Len(secs) THEN <<>>
                              ELSE (IF secs[i] \in DOMAIN ps THEN SortedSeq(ps[secs[i]]) ELSE <<>>) \o ConcatSectors(ps, secs, i + 1)
RECURSIVE DropSectors(_, _, _)
DropSectors(ps, secs, i) == IF i > Len(secs) THEN ps ELSE DropSectors(RemoveKey(ps, secs[i]), secs, i + 1)

\* secs = Seq of sector numbers in increasing order (a bitfield on the wire)
Terminate(ms, m, secs, e) ==
  IF m \notin Miners THEN Fail(ms)
  ELSE LET ps == IF m \in DOMAIN ms.psec THEN ms.psec[m] ELSE <<>>
           ids == ConcatSectors(ps, secs, 1)
           rest == DropSectors(ps, secs, 1)
           ms1 == [ms EXCEPT !.psec = IF DOMAIN rest = {} THEN RemoveKey(@, m) ELSE PutKey(@, m, rest)]
           r == TermFold(ms1, m, ids, 1, e)
       IN  IF ~r.ok THEN Fail(ms)
           ELSE [ok |-> TRUE, MS |-> [r.MS EXCEPT !.bal = @ - (r.MS.burnt - ms.burnt)]]

-----------------------------------------------------------------------------
(* the cron: CronTick at the end of every epoch i.  Only epochs with scheduled deals matter. *)
\* process the deals scheduled at epoch i, in increasing id order (deal ops are a set; order of
\* processing does not affect the result for distinct deals)
RECURSIVE CronDeals(_, _, _)
CronDeals(ms, ids, i) ==   \* ids : set
  IF ids = {} THEN ms
  ELSE LET id == CHOOSE x \in ids : \A y \in ids : x <= y
           rest == ids \ {id}
       IN  IF id \notin DOMAIN ms.prop THEN CronDeals(ms, rest, i)
           ELSE IF id \notin DOMAIN ms.st THEN CronDeals(TimeOut(ms, id), rest, i)  \* (i >= start always)
           ELSE IF ms.st[id].lu = Undef
                THEN CronDeals([ms EXCEPT !.pending = @ \ {ms.prop[id]}], rest, i)
           ELSE LET u == Update(ms, id, i) IN
                IF u.completed THEN CronDeals(u.MS, rest, i)
                ELSE LET nx == NextUpdate(id, i + 1) IN
                     CronDeals([u.MS EXCEPT !.st[id].lu = i, !.ops = PutKey(@, nx, Get0(@, nx) \cup {id})],
                               rest, i)

CronAt(ms, i) ==
  LET ms1 == IF i \in DOMAIN ms.ops THEN CronDeals(ms, ms.ops[i], i) ELSE ms
      ms2 == [ms1 EXCEPT !.ops = RemoveKey(@, i), !.lastCron = i]
  IN  [ms2 EXCEPT !.bal = @ - (ms2.burnt - ms.burnt)]

\* run the cron for every epoch in [from, to]: jump between epochs that have something scheduled
RECURSIVE CronRange(_, _, _)
CronRange(ms, from, to) ==
  LET due == {k \in DOMAIN ms.ops : k >= from /\ k <= to} IN
  IF due = {} THEN (IF to >= from THEN [ms EXCEPT !.lastCron = to] ELSE ms)
  ELSE LET k == CHOOSE x \in due : \A y \in due : x <= y IN CronRange(CronAt(ms, k), k + 1, to)

\* scheduled epochs in the past can only exist if cron was not run (never, since it runs every epoch)
TickTo(ms, e, n) == CronRange(ms, e, e + n - 1)

-----------------------------------------------------------------------------
(* Layer P: C06, C07, C08 as predicates over (state, ghosts) and steps.          *)
LiveIds(ms) == DOMAIN ms.prop
PaidThrough(ms, id) ==
  LET d == ms.prop[id] IN
  IF id \in DOMAIN ms.st /\ ms.st[id].lu # Undef /\ ms.st[id].lu > d.start THEN Min(ms.st[id].lu, d.end) ELSE d.start
Unpaid(ms, id) == ms.prop[id].price * (ms.prop[id].end - PaidThrough(ms, id))

SumSet(S, F(_)) == FSE!FoldSet(LAMBDA x, acc : acc + F(x), 0, S)

\* C06: "the locked balance equals exactly the sum of its outstanding obligations over published,
\* unfinished deals (client: collateral + not-yet-paid fee; provider: collateral), never exceeds
\* escrow, and the market-wide locked totals equal the sums of the per-deal amounts"
Obligation(ms, party) ==
  LET asC(id) == IF ms.prop[id].c = party THEN ms.prop[id].ccol + Unpaid(ms, id) ELSE 0
      asP(id) == IF ms.prop[id].p = party THEN ms.prop[id].pcol ELSE 0
      both(id) == asC(id) + asP(id)
  IN  SumSet(LiveIds(ms), both)
LockedIsObligation(ms) == \A x \in Parties : ms.locked[x] = Obligation(ms, x)
LockedLeqEscrow(ms) == \A x \in Parties : 0 <= ms.locked[x] /\ ms.locked[x] <= ms.escrow[x]
TotalsMatch(ms) ==
  LET cc(id) == ms.prop[id].ccol
      pc(id) == ms.prop[id].pcol
      fee(id) == Unpaid(ms, id)
  IN  /\ ms.tcc = SumSet(LiveIds(ms), cc) /\ ms.tpc = SumSet(LiveIds(ms), pc) /\ ms.tfee = SumSet(LiveIds(ms), fee)
\* C01 (market clause): the actor holds at least the sum of all escrow balances
Solvent(ms) == LET esc(x) == ms.escrow[x] IN ms.bal >= SumSet(Parties, esc)
\* C01 ("no FIL is ... stranded"): what the actor holds beyond the escrow balances never changes through a market
\* operation -- everything that leaves an escrow balance is paid to another escrow balance, withdrawn, or burnt
Surplus(ms) == LET esc(x) == ms.escrow[x] IN ms.bal - SumSet(Parties, esc)
NoStranding == Surplus(MS') = Surplus(MS)

\* C06 withdrawal clause
WithdrawExact ==
  (last'.a = "Withdraw" /\ last'.ok) =>
     /\ last'.c \in Controllers(last'.party)
     /\ last'.paid = Min(last'.amt, MS.escrow[last'.party] - MS.locked[last'.party])
     /\ last'.to = Recipient(last'.party)
     /\ MS'.escrow[last'.party] = MS.escrow[last'.party] - last'.paid
EscrowOnlyOwnMoves ==
  \A x \in Parties : (MS'.escrow[x] < MS.escrow[x]) =>
     \/ (last'.a = "Withdraw" /\ last'.ok /\ last'.party = x)
     \/ last'.a \in {"Settle", "Tick", "Terminate"}     \* payments / slashing, accounted for by C07

\* C07: escrow of every party is explained, at every moment, by deposits, withdrawals and the IDEAL
\* payment formula per deal: running deals have paid price*(paidThrough - start); finished deals
\* have paid what G.fin recorded from the ideal formula when they ended.
FinPaid(g, id) == g.fin[id].paid
EscrowExplained(ms, g) ==
  \A x \in Parties :
    LET inLive(id) == IF ms.prop[id].p = x THEN ms.prop[id].price * (PaidThrough(ms, id) - ms.prop[id].start) ELSE 0
        outLive(id) == IF ms.prop[id].c = x THEN ms.prop[id].price * (PaidThrough(ms, id) - ms.prop[id].start) ELSE 0
        inFin(id) == IF g.fin[id].p = x THEN g.fin[id].paid ELSE 0
        outFin(id) == IF g.fin[id].c = x THEN g.fin[id].paid ELSE 0
        slashFin(id) == IF g.fin[id].p = x THEN g.fin[id].burnt ELSE 0
    IN  ms.escrow[x] = g.dep[x] - g.wd[x]
                       + SumSet(LiveIds(ms), inLive) - SumSet(LiveIds(ms), outLive)
                       + SumSet(DOMAIN g.fin, inFin) - SumSet(DOMAIN g.fin, outFin)
                       - SumSet(DOMAIN g.fin, slashFin)

\* how a deal that disappears in this step must have ended (ideal outcome), from the event alone
IdealEnd(ms, id, ev, e) ==
  LET d == ms.prop[id] IN
  IF id \notin DOMAIN ms.st THEN [c |-> d.c, p |-> d.p, paid |-> 0, burnt |-> d.pcol, how |-> "timeout"]
  ELSE IF ev = "Terminate" /\ e < d.end
       THEN [c |-> d.c, p |-> d.p, paid |-> d.price * Max(0, Min(d.end, e) - d.start), burnt |-> d.pcol, how |-> "terminated"]
  ELSE [c |-> d.c, p |-> d.p, paid |-> d.price * (d.end - d.start), burnt |-> 0, how |-> "completed"]

\* the ghost after a step, computed from the pre-state, the event and WHICH deals disappeared
GhostNext(g, ms, ms2, l, e2) ==
  LET gone == DOMAIN ms.prop \ DOMAIN ms2.prop
      fin2 == [id \in DOMAIN g.fin \cup gone |->
                 IF id \in gone THEN IdealEnd(ms, id, l.a, IF l.a = "Tick" THEN e2 - 1 ELSE e2) ELSE g.fin[id]]
      dep2 == IF l.a = "AddBalance" /\ l.ok THEN [g.dep EXCEPT ![l.party] = @ + l.amt] ELSE g.dep
      wd2 == IF l.a = "Withdraw" /\ l.ok THEN [g.wd EXCEPT ![l.party] = @ + l.paid] ELSE g.wd
  IN  [dep |-> dep2, wd |-> wd2, fin |-> fin2, act |-> g.act \cup (DOMAIN ms2.st \ DOMAIN ms.st)]

\* a deal may end only in a legitimate way: timeout only from start on and never if activated;
\* completion only from its end epoch on; termination only by its provider's Terminate
EndLegit ==
  \A id \in DOMAIN MS.prop \ DOMAIN MS'.prop :
     LET d == MS.prop[id] IN
     \/ (id \notin DOMAIN MS.st /\ epoch' - (IF last'.a = "Tick" THEN 1 ELSE 0) >= d.start /\ last'.a \in {"Settle", "Tick"})
     \/ (id \in DOMAIN MS.st /\ last'.a = "Terminate" /\ last'.ok /\ last'.m = d.p /\ epoch < d.end)
     \/ (id \in DOMAIN MS.st /\ last'.a \in {"Settle", "Tick"} /\ epoch' - (IF last'.a = "Tick" THEN 1 ELSE 0) >= d.end)
\* burnt funds really leave the market, and only the ideal amounts
BurnExact(ms, g) == LET b(id) == g.fin[id].burnt IN ms.burnt = SumSet(DOMAIN g.fin, b)

\* C08
IdsFresh == /\ MS'.next >= MS.next
            /\ \A id \in DOMAIN MS'.prop \ DOMAIN MS.prop : id >= MS.next /\ id < MS'.next
            /\ \A id \in DOMAIN MS'.prop : id < MS'.next
NoTwinDeals(ms) == \A i, j \in DOMAIN ms.prop : i # j => ms.prop[i] # ms.prop[j]
PublishRules ==
  (last'.a = "Publish" /\ last'.ok) =>
     \A id \in DOMAIN MS'.prop \ DOMAIN MS.prop :
        LET d == MS'.prop[id] IN
        /\ \E k \in 1..Len(last'.batch) : last'.batch[k].d = d /\ last'.batch[k].sigOK
        /\ last'.c \in Controllers(d.p)
        /\ epoch <= d.start
        /\ d \notin MS.pending
\* both parties had enough UNLOCKED escrow for everything accepted in the batch
PublishFunded ==
  (last'.a = "Publish" /\ last'.ok) =>
     \A x \in Parties : MS'.locked[x] <= MS.escrow[x]
ActivationRules ==
  \A id \in DOMAIN MS'.st \ DOMAIN MS.st :
     /\ last'.a \in {"Activate", "ContentChanged"} /\ last'.ok
     /\ id \in DOMAIN MS.prop /\ MS.prop[id].p = last'.m
     /\ epoch <= MS.prop[id].start
     /\ MS'.st[id].sstart = epoch
     /\ \E k \in 1..Len(last'.sectors) :
          /\ last'.sectors[k].sector = MS'.st[id].sector
          /\ MS.prop[id].end <= (IF last'.a = "Activate" THEN last'.sectors[k].expiry ELSE last'.sectors[k].commit)
\* "activated at most once": a deal state is never re-created for an id that had one
ActivatedOnce == \A id \in DOMAIN MS'.st \ DOMAIN MS.st : id \notin G.act
\* ... also within one message: a sector whose activation is accepted lists no deal twice, and no deal is accepted
\* for two sectors of the same batch
ActivatedOnceInCall ==
  (last'.a = "Activate" /\ last'.ok /\ "res" \in DOMAIN last') =>
     \A k \in 1..Len(last'.sectors) : (k <= Len(last'.res) /\ last'.res[k]) =>
        LET ids == last'.sectors[k].ids IN
        /\ \A i, j \in 1..Len(ids) : i # j => ids[i] # ids[j]
        /\ \A k2 \in 1..(k - 1) : last'.res[k2] => {ids[i] : i \in 1..Len(ids)} \cap {last'.sectors[k2].ids[i] : i \in 1..Len(last'.sectors[k2].ids)} = {}
\* C07: payments run "between the deal's start and the earlier of its end or its sector's termination": an accepted
\* termination of a sector ends every running deal stored in it (none is left behind to be paid until its end)
TerminationEndsDeals ==
  (last'.a = "Terminate" /\ last'.ok) =>
     \A id \in DOMAIN MS.st :
        (id \in DOMAIN MS.prop /\ MS.prop[id].p = last'.m /\ epoch < MS.prop[id].end
         /\ \E k \in 1..Len(last'.secs) : last'.secs[k] = MS.st[id].sector) => id \notin DOMAIN MS'.st
RejectedIsNoop == (~last'.ok) => MS' = MS

\* every pending entry belongs to a live proposal
PendingIsLive(ms) == \A d \in ms.pending : \E i \in DOMAIN ms.prop : ms.prop[i] = d
StateInv(ms, g) == /\ PendingIsLive(ms) /\ LockedIsObligation(ms) /\ LockedLeqEscrow(ms) /\ TotalsMatch(ms) /\ Solvent(ms)
                   /\ EscrowExplained(ms, g) /\ BurnExact(ms, g) /\ NoTwinDeals(ms)
=============================================================================
