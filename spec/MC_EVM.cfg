SPECIFICATION MCSpec
CONSTANTS MemCap = 64
          StackLimit = 3
          Wide = {0, 1, 4, 8, 11, 16, 21, 25, 29, 32, 53, 54, 55, 57, 61, 62, 80, 81, 82, 83, 84, 85, 86, 87, 88, 89, 91, 92, 93, 94, 95, 96, 97, 127, 128, 129, 144, 243, 253, 254, 12, 48, 160, 241, 255}
          WideLen = 2
          Mid = {1, 32, 53, 82, 85, 87, 88, 91, 95, 96, 243, 48}
          MidLen = 3
          Narrow = {95, 96, 1, 82, 86, 91}
          NarrowLen = 4
INVARIANT MCStackBound
INVARIANT MCPcOnInstr
INVARIANT MCJumpDestsOK
INVARIANT MCMemBound
INVARIANT MCOutputOnlyAtEnd
INVARIANT MCStaticNoWrite
INVARIANT MCScanAgrees
INVARIANT StatusOK
CHECK_DEADLOCK TRUE
