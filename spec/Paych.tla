------------------------------- MODULE Paych -------------------------------
(***************************************************************************)
(* Payment channel actor (actors/paych).  One action per public method,    *)
(* written in the shape of the code: UpdateChannelState = Voucher,         *)
(* Settle, Collect; plus plain value transfers into the channel (Deposit)  *)
(* and epoch advance (Tick).                                               *)
(*                                                                         *)
(* Guards (CanX) transcribe   what the code accepts; the properties at the   *)
(* bottom (Layer P) are written from the English statement of C16 and are  *)
(* checked (a) by TLC on this model and (b) on every recorded step of the  *)
(* real actor by Trace_Paych.                                              *)
(***************************************************************************)
EXTENDS Integers, Sequences, FiniteSets, TLC

CONSTANTS SettleDelay,   \* SETTLE_DELAY of the code (from the trace header on the real side)
          MaxLane        \* MAX_LANE of the code

VARIABLES bal,           \* channel actor balance
          toSend,        \* amount owed to the payee
          settlingAt,    \* 0 = not settling
          minSettle,     \* min_settle_height
          lanes,         \* function: lane id -> [redeemed, nonce], domain = lanes that exist
          alive,         \* FALSE once collected (actor deleted)
          epoch,
          settledAt,     \* history: epoch at which Settle was accepted (-1 = never)
          paid,          \* history: [payee, payer] amounts sent out by Collect
          last           \* history: the most recent call [a, ok, ...args]

vars == <<bal, toSend, settlingAt, minSettle, lanes, alive, epoch, settledAt, paid, last>>
core == <<bal, toSend, settlingAt, minSettle, lanes, alive, epoch, settledAt, paid>>

Parties  == {"payer", "payee"}
Callers  == {"payer", "payee", "other"}
OtherParty(p) == IF p = "payer" THEN "payee" ELSE "payer"

Redeemed(ls, l) == IF l \in DOMAIN ls THEN ls[l].redeemed ELSE 0

(* v = [caller, signer, signed, chanOK, secretOK, secretLenOK, extraOK, lane, nonce, amt,     *)
(*      merges (Seq of [lane, nonce]), tlMin, tlMax, msh]                                    *)

\* The code processes merges in order, writing each merged lane's new nonce back before the next
\* entry is looked at.  Result: [ok, ls, red].
RECURSIVE MergeFoldR(_, _, _, _, _)
MergeFoldR(ls, ms, i, self, seen) ==
  IF i > Len(ms) THEN [ok |-> TRUE, ls |-> ls, red |-> 0]
  ELSE LET m == ms[i] IN
       IF \/ m.lane = self
          \/ m.lane \in seen           \* a lane may be merged at most once per voucher
          \/ m.lane > MaxLane
          \/ m.lane \notin DOMAIN ls
          \/ ls[m.lane].nonce >= m.nonce
       THEN [ok |-> FALSE, ls |-> ls, red |-> 0]
       ELSE LET r == MergeFoldR([ls EXCEPT ![m.lane].nonce = m.nonce], ms, i + 1, self,
                                seen \cup {m.lane})
            IN  [ok |-> r.ok, ls |-> r.ls, red |-> r.red + ls[m.lane].redeemed]
MergeFold(ls, ms, i, self) == MergeFoldR(ls, ms, i, self, {})

Delta(v)   == v.amt - (MergeFold(lanes, v.merges, 1, v.lane).red + Redeemed(lanes, v.lane))

CanVoucher(v) ==
  /\ alive
  /\ v.caller \in Parties
  /\ v.signed
  /\ ~(settlingAt # 0 /\ epoch >= settlingAt)
  /\ v.secretLenOK
  /\ v.signer = OtherParty(v.caller)
  /\ v.chanOK
  /\ epoch >= v.tlMin
  /\ (v.tlMax = 0 \/ epoch <= v.tlMax)
  /\ v.amt >= 0
  /\ v.secretOK
  /\ v.extraOK
  /\ v.lane <= MaxLane
  /\ (v.lane \in DOMAIN lanes => lanes[v.lane].nonce < v.nonce)
  /\ MergeFold(lanes, v.merges, 1, v.lane).ok
  /\ toSend + Delta(v) >= 0
  /\ toSend + Delta(v) <= bal

LanesAfter(v) ==
  LET ls1 == MergeFold(lanes, v.merges, 1, v.lane).ls
      new == [redeemed |-> v.amt, nonce |-> v.nonce]
  IN  [l \in DOMAIN ls1 \cup {v.lane} |-> IF l = v.lane THEN new ELSE ls1[l]]

Voucher(v) ==
  /\ CanVoucher(v)
  /\ toSend' = toSend + Delta(v)
  /\ lanes' = LanesAfter(v)
  /\ settlingAt' = IF v.msh # 0 /\ settlingAt # 0 /\ settlingAt < v.msh THEN v.msh ELSE settlingAt
  /\ minSettle' = IF v.msh # 0 /\ minSettle < v.msh THEN v.msh ELSE minSettle
  /\ UNCHANGED <<bal, alive, epoch, settledAt, paid>>

CanSettle(c) == alive /\ c \in Parties /\ settlingAt = 0
Settle(c) ==
  /\ CanSettle(c)
  /\ settlingAt' = IF epoch + SettleDelay < minSettle THEN minSettle ELSE epoch + SettleDelay
  /\ settledAt' = epoch
  /\ UNCHANGED <<bal, toSend, minSettle, lanes, alive, epoch, paid>>

CanCollect(c) == alive /\ c \in Parties /\ settlingAt # 0 /\ epoch >= settlingAt
Collect(c) ==
  /\ CanCollect(c)
  /\ paid' = [payee |-> toSend, payer |-> bal - toSend]
  /\ bal' = 0
  /\ alive' = FALSE
  \* the actor is deleted: its state is gone
  /\ toSend' = 0 /\ settlingAt' = 0 /\ minSettle' = 0 /\ lanes' = <<>>
  /\ UNCHANGED <<epoch, settledAt>>

\* anybody may send value to the channel address while it exists
CanDeposit(a) == alive /\ a >= 0
Deposit(a) == CanDeposit(a) /\ bal' = bal + a
              /\ UNCHANGED <<toSend, settlingAt, minSettle, lanes, alive, epoch, settledAt, paid>>

Tick(n) == n > 0 /\ epoch' = epoch + n
           /\ UNCHANGED <<bal, toSend, settlingAt, minSettle, lanes, alive, settledAt, paid>>

Init ==
  /\ bal = 0 /\ toSend = 0 /\ settlingAt = 0 /\ minSettle = 0
  /\ lanes = <<>> /\ alive = TRUE /\ epoch = 0 /\ settledAt = -1
  /\ paid = [payee |-> 0, payer |-> 0]
  /\ last = [a |-> "Init", ok |-> TRUE]

-----------------------------------------------------------------------------
(* Layer P: the properties of C16, stated from the English text.  Each is    *)
(* a predicate over (unprimed, primed) state and the call record `last'`.    *)

\* "the amount owed is never negative and never exceeds the channel's balance"
Solvent == alive => (0 <= toSend /\ toSend <= bal)

\* distinct lanes merged by a voucher
MergedLanes(v) == {v.merges[i].lane : i \in 1..Len(v.merges)}
SumRedeemed(ls, S) ==
  LET RECURSIVE Sum(_)
      Sum(T) == IF T = {} THEN 0 ELSE LET x == CHOOSE y \in T : TRUE IN Redeemed(ls, x) + Sum(T \ {x})
  IN Sum(S)
\* the largest nonce a voucher names for lane l (its own, or in its merge list)
NamedNonces(v, l) == {v.merges[i].nonce : i \in {j \in 1..Len(v.merges) : v.merges[j].lane = l}}
                     \cup (IF l = v.lane THEN {v.nonce} ELSE {})

\* "A voucher increases the amount owed only if signed by the other party, names this channel, is
\*  inside its time lock, carries the right secret and has a nonce higher than the last one used on
\*  its lane (and on every lane it merges)"
OwedChangeJustified ==
  (alive' /\ toSend' # toSend) =>
     /\ last'.a = "Voucher" /\ last'.ok
     /\ LET v == last'.v IN
        /\ v.caller \in Parties /\ v.signed /\ v.signer = OtherParty(v.caller)
        /\ v.chanOK /\ v.secretOK
        /\ epoch >= v.tlMin /\ (v.tlMax = 0 \/ epoch <= v.tlMax)
        /\ (v.lane \in DOMAIN lanes => v.nonce > lanes[v.lane].nonce)
        /\ \A l \in MergedLanes(v) : l \in DOMAIN lanes /\ \A n \in NamedNonces(v, l) : n > lanes[l].nonce

\* "each accepted voucher changes the amount owed by exactly its amount minus what was already
\*  redeemed on its lane and on the lanes it merges"
ExactDelta ==
  (last'.a = "Voucher" /\ last'.ok) =>
     LET v == last'.v IN
       toSend' - toSend = v.amt - Redeemed(lanes, v.lane) - SumRedeemed(lanes, MergedLanes(v) \ {v.lane})

\* replay protection: lane nonces never decrease; an accepted voucher strictly raises the nonce of
\* its lane and of every lane it merges (to the nonce it names)
NoncesGrow ==
  /\ alive' => \A l \in DOMAIN lanes : l \in DOMAIN lanes' /\ lanes'[l].nonce >= lanes[l].nonce
  /\ (last'.a = "Voucher" /\ last'.ok) =>
       LET v == last'.v IN
         /\ v.lane \in DOMAIN lanes' /\ lanes'[v.lane].nonce = v.nonce
         /\ (v.lane \in DOMAIN lanes => lanes'[v.lane].nonce > lanes[v.lane].nonce)
         /\ \A l \in MergedLanes(v) : lanes'[l].nonce > lanes[l].nonce

\* a rejected call changes nothing
RejectedIsNoop == (~last'.ok) => UNCHANGED core

\* "Funds can be collected only after the settlement delay, which vouchers' minimum settle heights
\*  can only extend"
SettleRules == alive' =>
  /\ (settlingAt = 0 /\ settlingAt' # 0) =>
        (last'.a = "Settle" /\ last'.ok /\ last'.c \in Parties /\ settlingAt' >= epoch + SettleDelay)
  /\ (settlingAt # 0) => settlingAt' >= settlingAt
  /\ (settlingAt # 0 /\ settlingAt' > settlingAt) =>
        (last'.a = "Voucher" /\ last'.ok /\ settlingAt' = last'.v.msh)
  /\ minSettle' >= minSettle
  /\ (settlingAt' # 0) => (settledAt' >= 0 /\ settlingAt' >= settledAt' + SettleDelay /\ settlingAt' >= minSettle')

\* "collection pays the payee exactly the amount owed and returns the remainder to the payer"
CollectRules ==
  /\ (alive /\ ~alive') =>
        /\ last'.a = "Collect" /\ last'.ok /\ last'.c \in Parties
        /\ settlingAt # 0 /\ epoch >= settlingAt
        /\ paid' = [payee |-> toSend, payer |-> bal - toSend] /\ bal' = 0
  /\ (last'.a = "Collect" /\ last'.ok) => (alive /\ ~alive')
  /\ ~alive => ~alive'
  \* the balance only leaves the channel through Collect
  /\ (alive /\ alive') => bal' >= bal

StepProps == /\ OwedChangeJustified /\ ExactDelta /\ NoncesGrow /\ RejectedIsNoop
             /\ SettleRules /\ CollectRules

-----------------------------------------------------------------------------
(* Availability (Layer R diagnostics only): a call the spec allows is accepted. *)
=============================================================================
