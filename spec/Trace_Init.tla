----------------------------- MODULE Trace_Init -----------------------------
(* Trace validation of the real init / EAM / EVM actors (and the VM's auto-creation) against
   Init.tla.  Layer P (property C20): the formulas of Init.tla evaluated on every recorded
   (pre-state, call + observations, post-state) plus AddrFormula / ReservedBytes, which are decided
   by the harness' independent re-computation of the literal address bytes.  Layer R: the recorded
   step is the one Do() computes (robust f2 addresses compared up to renaming) -> DRIFT only. *)
EXTENDS Init, Json, IOUtils

VARIABLE l
Rec == ndJsonDeserialize(IOEnv.TRACE)

Range(sq) == {sq[i] : i \in 1..Len(sq)}
ToFn(pairs) == [k \in {p[1] : p \in Range(pairs)} |-> (CHOOSE p \in Range(pairs) : p[1] = k)[2]]
ToAct(pairs) == [k \in {p[1] : p \in Range(pairs)} |->
                   LET r == (CHOOSE p \in Range(pairs) : p[1] = k)[2] IN
                   [code |-> r.code, addr |-> r.addr, nonce |-> r.nonce, seq |-> r.seq,
                    tomb |-> r.tomb, hc |-> r.hc]]
ToS(st) == [next |-> st.next, amap |-> ToFn(st.amap), rob |-> ToFn(st.rob), act |-> ToAct(st.act)]

IsCall(e) == e.a \in {"Send", "Exec", "Exec4", "CreateExternal", "Invoke", "Retire"}

RobIds(s) == {s.rob[x] : x \in DOMAIN s.rob}
SameModRob(a, b) ==
  /\ a.next = b.next /\ a.amap = b.amap /\ a.act = b.act
  /\ RobIds(a) = RobIds(b) /\ Cardinality(DOMAIN a.rob) = Cardinality(DOMAIN b.rob)
ResMatch(x, y) ==
  /\ Len(x) = Len(y)
  /\ \A k \in 1..Len(x) :
       /\ x[k].d = y[k].d /\ x[k].kind = y[k].kind /\ x[k].nonce = y[k].nonce /\ x[k].salt = y[k].salt
       /\ x[k].init = y[k].init /\ x[k].f4 = y[k].f4 /\ x[k].ok = y[k].ok /\ x[k].id = y[k].id
       /\ (x[k].how = "resurrect") = (y[k].how = "resurrect") /\ x[k].kept = y[k].kept

Explained(e) ==
  IF ~IsCall(e) THEN FALSE
  ELSE LET r == Do(S, e) IN
       /\ r.ok = e.ok
       /\ SameModRob(r.S, S')
       /\ ResMatch(r.res, e.res)
       /\ ((e.ok /\ e.a \in {"Exec", "Exec4", "CreateExternal", "Retire"}) => r.rid = e.rid)

\* every created address equals the harness' own RLP/Keccak computation from the observed inputs
AddrFormula(e) == \A k \in 1..Len(e.res) : e.res[k].addrOK
\* no contract lives at a reserved (null / precompile / ID-like) Ethereum address -- on the literal bytes
ReservedBytes(e) == e.st.resv = <<>>

Chk(prop, name, holds, e) == holds \/ PrintT(<<"VIOL", prop, name, l, "-", e.a>>)

TStep ==
  /\ l <= Len(Rec)
  /\ l' = l + 1
  /\ LET e == Rec[l] IN
     IF e.ev \in {"Init", "Reset"}
     THEN /\ S' = ToS(e.st) /\ used' = Ids(ToS(e.st))
          /\ last' = [a |-> "Init", ok |-> TRUE, res |-> <<>>, rid |-> 0, robust |-> None,
                      from |-> <<"builtin", "system">>]
     ELSE /\ S' = ToS(e.st)
          /\ used' = used \cup Ids(ToS(e.st))
          /\ last' = e
          /\ Chk("C20", "IdsFresh", IdsFresh, e)
          /\ Chk("C20", "NextCovers", NextCovers, e)
          /\ Chk("C20", "NextExact", NextExact, e)
          /\ Chk("C20", "MapOnlyGrows", MapOnlyGrows, e)
          /\ Chk("C20", "MapFresh", MapFresh, e)
          /\ Chk("C20", "AddrResolves", AddrResolves, e)
          /\ Chk("C20", "ReturnedResolves", ReturnedResolves, e)
          /\ Chk("C20", "ExecMatrix", ExecMatrix, e)
          /\ Chk("C20", "NewActorKinds", NewActorKinds, e)
          /\ Chk("C20", "PermittedSucceeds", PermittedSucceeds, e)
          /\ Chk("C20", "NoOverwrite", NoOverwrite, e)
          /\ Chk("C20", "Incarnation", Incarnation, e)
          /\ Chk("C20", "ReservedFree", ReservedFree, e)
          /\ Chk("C20", "ReservedBytes", ReservedBytes(e), e)
          /\ Chk("C20", "NonceRules", NonceRules, e)
          /\ Chk("C20", "SeqRules", SeqRules, e)
          /\ Chk("C20", "Derivation", Derivation, e)
          /\ Chk("C20", "AddrFormula", AddrFormula(e), e)
          /\ Chk("C20", "RejectedIsNoop", RejectedIsNoop, e)
          /\ (IF Explained(e) THEN TRUE ELSE PrintT(<<"DRIFT", "C20", l, e.a, e.ok>>))

TInit == /\ S = [next |-> 0, amap |-> <<>>, rob |-> <<>>, act |-> <<>>]
         /\ used = {}
         /\ last = [a |-> "Init", ok |-> TRUE, res |-> <<>>, rid |-> 0, robust |-> None,
                    from |-> <<"builtin", "system">>]
         /\ l = 1
TSpec == TInit /\ [][TStep]_<<vars, l>>
Accepted == TLCGet("stats").diameter = Len(Rec) + 1
=============================================================================
