-------------------------- MODULE MC_MinerControl --------------------------
EXTENDS MinerControl, Json, Randomization

CONSTANTS Principals, Workers, Bens, MaxEpoch, ExportLen, Quotas, Exps

VARIABLE hist
mcvars == <<vars, hist>>

Blank == [ok |-> TRUE, paid |-> 0, payee |-> None]
Calls ==
     {Blank @@ [a |-> "ChangeOwner", c |-> c, new |-> n] : c \in Principals, n \in {"o1", "o2"}}
  \cup {Blank @@ [a |-> "ChangeWorker", c |-> c, nw |-> w, ctl |-> ctl] :
          c \in Principals, w \in Workers \cup {"s"}, ctl \in {{}, {"c1"}}}
  \cup {Blank @@ [a |-> "ConfirmWorker", c |-> c] : c \in Principals}
  \cup {Blank @@ [a |-> "ChangeBen", c |-> c, nb |-> b, q |-> q, x |-> x] :
          c \in Principals, b \in Bens, q \in Quotas, x \in Exps}
  \cup {Blank @@ [a |-> "Withdraw", c |-> c, req |-> r, avail |-> av, canPay |-> cp] :
          c \in Principals, r \in {0, 1, 2}, av \in {0, 1, 3}, cp \in BOOLEAN}
  \cup {Blank @@ [a |-> "CronDeadline", c |-> "power"]}

Rec(r) == hist' = Append(hist, r)
CallStep == \E call \in Calls : Step(call) /\ Rec([call EXCEPT !.ok = Do(M, call, epoch).ok])
SimCallOK  == \E call \in RandomSubset(30, Calls) : Do(M, call, epoch).ok /\ Step(call) /\ Rec(call)
SimCallRej == \E call \in RandomSubset(3, Calls) : ~Do(M, call, epoch).ok /\ Step(call)
                                                    /\ Rec([call EXCEPT !.ok = FALSE])
TickStep == \E n \in 1..2 : Tick(n) /\ last' = [Blank EXCEPT !.ok = TRUE] @@ [a |-> "Tick", n |-> n, c |-> None]
                            /\ Rec([a |-> "Tick", n |-> n])

MCNext == CallStep \/ TickStep
SimNext == SimCallOK \/ SimCallOK \/ SimCallRej \/ TickStep

MCInit ==
  /\ M = [owner |-> "o1", pOwner |-> None, worker |-> "w1", pWorker |-> NoWorker, control |-> {},
          ben |-> "o1", term |-> [quota |-> 0, used |-> 0, exp |-> 0], pBen |-> NoBen]
  /\ epoch = 0
  /\ G = [reqAt |-> 0, pOwnerBy |-> None, prop |-> NoProp]
  /\ last = Blank @@ [a |-> "Init", c |-> None]
  /\ hist = <<>>
  /\ TLCSet(42, {})

\* ---- transition tour: one exported behaviour per abstract transition (first = shortest under BFS)
Alpha(m, e) == <<m.pOwner # None, m.pWorker.addr # None, m.pWorker.addr # None /\ e >= m.pWorker.at,
                 m.ben # m.owner, m.pBen.addr # None, m.pBen.aBen, m.pBen.aNom,
                 TermAvail(m.term, e) > 0>>
Role(m, c) == IF c = m.owner THEN "owner" ELSE IF c = m.pOwner THEN "pOwner"
              ELSE IF c = m.ben THEN "ben" ELSE IF c = m.pBen.addr THEN "nominee" ELSE "other"
ArgClass(m, r) ==
  CASE r.a = "ChangeOwner" -> IF r.new = m.owner THEN "self" ELSE IF r.new = m.pOwner THEN "pending" ELSE "other"
    [] r.a = "ChangeBen" -> <<IF r.nb = m.owner THEN "owner" ELSE IF r.nb = m.ben THEN "ben"
                              ELSE IF r.nb = m.pBen.addr THEN "nominee" ELSE "other",
                              r.q = m.pBen.quota /\ r.x = m.pBen.exp>>
    [] r.a = "ChangeWorker" -> r.nw = m.worker
    [] r.a = "Withdraw" -> <<r.req > 0, r.avail > 0, r.canPay>>
    [] OTHER -> "-"
Tour ==
  IF last'.a \in {"Init", "Tick"} THEN TRUE
  ELSE LET sig == <<Alpha(M, epoch), last'.a, Role(M, last'.c), ArgClass(M, last'), last'.ok>>
       IN  IF sig \in TLCGet(42) THEN TRUE
           ELSE TLCSet(42, TLCGet(42) \cup {sig}) /\ PrintT(<<"REPLAY", ToJson([sig |-> ToString(sig), calls |-> hist'])>>)

MCSpec == MCInit /\ [][MCNext]_mcvars
SimSpec == MCInit /\ [][SimNext]_mcvars
Bound == epoch <= MaxEpoch
View == <<M, epoch, G>>
StepOK == [][StepProps]_mcvars
Export == Len(hist) # ExportLen \/ PrintT(<<"REPLAY", ToJson(hist)>>)
=============================================================================
