SPECIFICATION MCSpec
CONSTANTS MaxSigners = 3
          Accounts = {"a", "b"}
          Outsider = "x"
          MaxVal = 1
          MaxNext = 2
          MaxEpoch = 2
          MaxBal = 2
          ExportLen = 0
          Rich = FALSE
CONSTRAINT Bound
VIEW View
INVARIANT Inv_WellFormed
PROPERTY StepOK
CHECK_DEADLOCK FALSE
