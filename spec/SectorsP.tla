------------------------------ MODULE SectorsP ------------------------------
(***************************************************************************)
(* Layer-P formulas for the miner x power x cron subsystem (C02, C03, C04,  *)
(* C05, C14): state predicates over the projected world W that the harness  *)
(* logs after every message and tick (harness/drivers/src/sectors.rs).       *)
(* Written from the protocol, independently of the actors' own state        *)
(* checker.                                                                  *)
(*                                                                           *)
(* W = [epoch, power : [claims, raw, qa, rawCommitted, qaCommitted, aboveMin,*)
(*      minerCount, pledge, firstCron, cronq], miners : Seq(M), rewardBal,   *)
(*      burnt, total]                                                        *)
(* M = [m, bal, pcd, locked, ip, debt, vest, pps, curDl, cronActive,         *)
(*      earlyDls, alloc, pre, sectors, dls, ...]                             *)
(* Amounts are BigAmt values; power numbers and epochs are plain integers.   *)
(***************************************************************************)
EXTENDS Integers, Sequences, FiniteSets, TLC, BigAmt

CONSTANTS D, W_, P, PartSize, FaultMaxAge, FaultCutoff, MinLife, MaxLife, MinPower, MinMiners, AddrSectorsMax, AddrPartsMax

SeqSet(s) == {s[i] : i \in 1..Len(s)}
Idx(s) == 1..Len(s)

RECURSIVE SumInt(_, _)
SumInt(S, f) == IF S = {} THEN 0 ELSE LET x == CHOOSE y \in S : TRUE IN f[x] + SumInt(S \ {x}, f)
RECURSIVE SumBig(_, _)
SumBig(S, f) == IF S = {} THEN BZero ELSE LET x == CHOOSE y \in S : TRUE IN BAdd(f[x], SumBig(S \ {x}, f))

\* ---- sector table
SecNos(M) == {M.sectors[i].n : i \in Idx(M.sectors)}
Info(M, n) == M.sectors[CHOOSE i \in Idx(M.sectors) : M.sectors[i].n = n]
RawOf(M) == [n \in SecNos(M) |-> Info(M, n).raw]
QaOf(M) == [n \in SecNos(M) |-> Info(M, n).qa]
PledgeOf(M) == [n \in SecNos(M) |-> Info(M, n).pledge]
FeeOf(M) == [n \in SecNos(M) |-> Info(M, n).fee]
\* the sector table as functions, built once per miner per event (TLCEval forces concrete values)
Tb(M) == LET nos == SecNos(M)
             idx == [n \in nos |-> CHOOSE i \in Idx(M.sectors) : M.sectors[i].n = n]
         IN  TLCEval([nos |-> nos,
                      raw |-> [n \in nos |-> M.sectors[idx[n]].raw],
                      qa |-> [n \in nos |-> M.sectors[idx[n]].qa],
                      pledge |-> [n \in nos |-> M.sectors[idx[n]].pledge],
                      fee |-> [n \in nos |-> M.sectors[idx[n]].fee],
                      exp |-> [n \in nos |-> M.sectors[idx[n]].exp]])
\* power of a set of sector numbers as <<raw, qa>>; numbers missing from the table count as -1 (never equal)
PowT(tb, S) == IF S \subseteq tb.nos THEN <<SumInt(S, tb.raw), SumInt(S, tb.qa)>> ELSE <<-1, -1>>
Pow(M, S) == PowT(Tb(M), S)

\* ---- partitions
Parts(M) == UNION {{<<d, p>> : p \in Idx(M.dls[d].parts)} : d \in Idx(M.dls)}
PartAt(M, dp) == M.dls[dp[1]].parts[dp[2]]
S_(pt) == SeqSet(pt.S)
U_(pt) == SeqSet(pt.U)
F_(pt) == SeqSet(pt.F)
R_(pt) == SeqSet(pt.R)
T_(pt) == SeqSet(pt.T)
Live(pt) == S_(pt) \ T_(pt)
Active(pt) == ((S_(pt) \ T_(pt)) \ F_(pt)) \ U_(pt)
AllParts(M) == {PartAt(M, dp) : dp \in Parts(M)}

\* ---- C04: "every on-chain sector belongs to exactly one partition of exactly one deadline; within a
\* partition the live, faulty, recovering, unproven and terminated sets nest and exclude each other"
SetsNest(M) ==
  \A dp \in Parts(M) : LET pt == PartAt(M, dp) IN
    /\ U_(pt) \subseteq S_(pt) /\ F_(pt) \subseteq S_(pt) /\ T_(pt) \subseteq S_(pt)
    /\ R_(pt) \subseteq F_(pt)
    /\ T_(pt) \cap F_(pt) = {} /\ T_(pt) \cap U_(pt) = {} /\ F_(pt) \cap U_(pt) = {}
    /\ Live(pt) \subseteq SecNos(M)
    /\ Len(pt.S) <= PartSize
OnePartition(M) ==
  /\ \A dp1, dp2 \in Parts(M) : dp1 # dp2 => S_(PartAt(M, dp1)) \cap S_(PartAt(M, dp2)) = {}
  /\ \A n \in SecNos(M) : \E dp \in Parts(M) : n \in S_(PartAt(M, dp))
\* "the per-partition and per-deadline power, sector-count ... summaries equal what is recomputed"
PartMemos(M) == LET tb == Tb(M) IN
  \A dp \in Parts(M) : LET pt == PartAt(M, dp) IN
    /\ pt.live = PowT(tb, Live(pt)) /\ pt.unp = PowT(tb, U_(pt))
    /\ pt.flt = PowT(tb, F_(pt)) /\ pt.rec = PowT(tb, R_(pt))
DlLive(M, d) == UNION {Live(M.dls[d].parts[p]) : p \in Idx(M.dls[d].parts)}
DlAll(M, d) == UNION {S_(M.dls[d].parts[p]) : p \in Idx(M.dls[d].parts)}
DlFaults(M, d) == UNION {F_(M.dls[d].parts[p]) : p \in Idx(M.dls[d].parts)}
DlMemos(M) == LET tb == Tb(M) IN
  \A d \in Idx(M.dls) : LET dl == M.dls[d] IN
    /\ dl.live = Cardinality(DlLive(M, d))
    /\ dl.total = Cardinality(DlAll(M, d))
    /\ dl.flt = PowT(tb, DlFaults(M, d))
    /\ dl.livep = PowT(tb, DlLive(M, d))
    /\ BEq(dl.fee, SumBig(DlLive(M, d) \cap tb.nos, tb.fee))
    /\ SeqSet(dl.posted) \subseteq {p - 1 : p \in Idx(dl.parts)}
    \* partitions with unprocessed early terminations are exactly the ones flagged
    /\ SeqSet(dl.early) = {p - 1 : p \in {q \in Idx(dl.parts) : Len(dl.parts[q].etq) > 0}}
\* the deadline-level expiration queue names, at every epoch at which some partition's own queue has an entry, that
\* partition (it may name more: entries are not withdrawn when sectors are rescheduled) -- the proving-deadline
\* callback visits only the partitions it names
DlQueueCovers(M) ==
  \A d \in Idx(M.dls) : \A p \in Idx(M.dls[d].parts) :
     \A i \in Idx(M.dls[d].parts[p].q) :
        \E k \in Idx(M.dls[d].dq) : M.dls[d].dq[k].e = M.dls[d].parts[p].q[i].e /\ (p - 1) \in SeqSet(M.dls[d].dq[k].p)
EarlyDls(M) == SeqSet(M.earlyDls) = {d - 1 : d \in {x \in Idx(M.dls) : Len(M.dls[x].early) > 0}}

\* ---- expiration queues
QuantUp(e, unit, off) == LET r == (e - off) % unit IN IF r = 0 THEN e ELSE e + (unit - r)
QueueOK(M) == LET tb == Tb(M) IN
  \A d \in Idx(M.dls) : \A p \in Idx(M.dls[d].parts) :
    LET pt == M.dls[d].parts[p]
        q == pt.q
        unit == M.dls[d].quantUnit
        off == M.dls[d].quantOff
        inQ(i) == SeqSet(q[i].on) \cup SeqSet(q[i].early)
    IN  /\ \A i, j \in Idx(q) : i # j => inQ(i) \cap inQ(j) = {}
        /\ \A i \in Idx(q) : SeqSet(q[i].on) \cap SeqSet(q[i].early) = {}
        /\ UNION {inQ(i) : i \in Idx(q)} = Live(pt)            \* each live sector in exactly one entry
        /\ \A i \in Idx(q) :
             /\ QuantUp(q[i].e, unit, off) = q[i].e
             /\ \A n \in SeqSet(q[i].on) : n \in tb.nos => q[i].e = QuantUp(tb.exp[n], unit, off)
             /\ \A n \in SeqSet(q[i].early) :
                   /\ n \in F_(pt)
                   /\ n \in tb.nos => q[i].e < QuantUp(tb.exp[n], unit, off)
             /\ q[i].act = PowT(tb, inQ(i) \ F_(pt))
             /\ q[i].flt = PowT(tb, inQ(i) \cap F_(pt))
             /\ BEq(q[i].pledge, SumBig(SeqSet(q[i].on) \cap tb.nos, tb.pledge))
             /\ BEq(q[i].fee, SumBig(inQ(i) \cap tb.nos, tb.fee))
        \* early-termination queue entries are terminated sectors, each once
        /\ \A i \in Idx(pt.etq) : SeqSet(pt.etq[i].s) \subseteq T_(pt)
        /\ \A i, j \in Idx(pt.etq) : i # j => SeqSet(pt.etq[i].s) \cap SeqSet(pt.etq[j].s) = {}

\* ---- C02: "the power the network credits to a miner equals the sum over that miner's sectors that have
\* been proven at least once and are currently neither faulty, terminated nor expired"
ClaimOf(Wd, m) ==
  LET c == {i \in Idx(Wd.power.claims) : Wd.power.claims[i].m = m} IN
  IF c = {} THEN <<-1, -1>> ELSE LET i == CHOOSE x \in c : TRUE IN <<Wd.power.claims[i].raw, Wd.power.claims[i].qa>>
ActiveSet(M) == UNION {Active(pt) : pt \in AllParts(M)}
PowerIsActiveExcept(Wd, lost) == \A i \in Idx(Wd.miners) : Wd.miners[i].m \in lost \/ ClaimOf(Wd, Wd.miners[i].m) = Pow(Wd.miners[i], ActiveSet(Wd.miners[i]))
PowerIsActive(Wd) == \A i \in Idx(Wd.miners) : ClaimOf(Wd, Wd.miners[i].m) = Pow(Wd.miners[i], ActiveSet(Wd.miners[i]))
\* "the network totals equal the sum of per-miner claims under the consensus-minimum rule"
TotalsOK(Wd) ==
  LET cl == Wd.power.claims
      raws == [i \in Idx(cl) |-> cl[i].raw]
      qas == [i \in Idx(cl) |-> cl[i].qa]
      big == {i \in Idx(cl) : cl[i].raw >= MinPower}
  IN  /\ Wd.power.rawCommitted = SumInt(Idx(cl), raws) /\ Wd.power.qaCommitted = SumInt(Idx(cl), qas)
      /\ Wd.power.aboveMin = Cardinality(big)
      \* the stored consensus totals count exactly the miners at or above the minimum; the rule "with fewer
      \* than MinMiners such miners everybody counts" is applied when the totals are read (Effective*)
      /\ Wd.power.raw = SumInt(big, raws) /\ Wd.power.qa = SumInt(big, qas)
      /\ Wd.power.minerCount >= Len(cl)

\* ---- C03: collateral ledgers
EtqSectors(M) == UNION {UNION {SeqSet(pt.etq[i].s) : i \in Idx(pt.etq)} : pt \in AllParts(M)}
LiveAll(M) == UNION {Live(pt) : pt \in AllParts(M)}
PledgeExact(M) == LET tb == Tb(M) IN BEq(M.ip, SumBig((LiveAll(M) \cup EtqSectors(M)) \cap tb.nos, tb.pledge))
                  /\ (LiveAll(M) \cup EtqSectors(M)) \subseteq SecNos(M)
DepositsExact(M) == BEq(M.pcd, BSumSeq([i \in Idx(M.pre) |-> M.pre[i].dep]))
VestExact(M) == BEq(M.locked, BSumSeq([i \in Idx(M.vest) |-> M.vest[i][2]]))
\* network pledge total = sum over miners of (initial pledge + vesting funds), adjusted by the ghost
\* cdep (known finding F1: the creation deposit is locked but never added to the network total)
RECURSIVE SumMinersPledge(_, _)
SumMinersPledge(Wd, i) == IF i > Len(Wd.miners) THEN BZero
                          ELSE BAdd(BAdd(Wd.miners[i].ip, Wd.miners[i].locked), SumMinersPledge(Wd, i + 1))
NetPledgeLiteral(Wd) == BEq(Wd.power.pledge, SumMinersPledge(Wd, 1))
NetPledgeAdjusted(Wd, cdepSum) == BEq(BAdd(Wd.power.pledge, cdepSum), SumMinersPledge(Wd, 1))
NetPledgeNonNeg(Wd) == ~BIsNeg(Wd.power.pledgeReal)
\* C01 (miner clause): "each miner holds at least its pre-commit deposits plus vesting funds plus
\* initial pledge" -- after every successful message
MinerSolvent(M) == BLeq(BAdd(BAdd(M.pcd, M.locked), M.ip), M.bal)
\* the same inequality over what the ledgers stand for (the deposits of the outstanding pre-commitments, the vesting
\* table, the pledge of the sectors that are live or await early-termination processing) rather than over the miner's
\* own totals: a total that under-counts must not let collateral leave the actor
MinerSolventRecomputed(M) ==
  LET tb == Tb(M) IN
  BLeq(BAdd(BAdd(BSumSeq([i \in Idx(M.pre) |-> M.pre[i].dep]), BSumSeq([i \in Idx(M.vest) |-> M.vest[i][2]])),
            SumBig((LiveAll(M) \cup EtqSectors(M)) \cap tb.nos, tb.pledge)), M.bal)
NonNegLedgers(M) == ~BIsNeg(M.pcd) /\ ~BIsNeg(M.locked) /\ ~BIsNeg(M.ip) /\ ~BIsNeg(M.debt)

\* ---- C04: sector numbers are allocated at most once
AllocCovers(M) == SecNos(M) \cup {M.pre[i].n : i \in Idx(M.pre)} \subseteq SeqSet(M.alloc)

\* ---- C05: scheduling
ProvingEvents(Wd, m) ==
  LET q == Wd.power.cronq
      cnt(i) == Cardinality({j \in Idx(q[i].evs) : q[i].evs[j][1] = m /\ q[i].evs[j][2] = 1})
      f == [i \in Idx(q) |-> cnt(i)]
  IN  SumInt(Idx(q), f)
CronScheduledExcept(Wd, lost) ==
  \A i \in Idx(Wd.miners) : LET M == Wd.miners[i] IN
     M.m \in lost \/ ((M.cronActive <=> ProvingEvents(Wd, M.m) = 1) /\ ProvingEvents(Wd, M.m) <= 1)
CronScheduled(Wd) ==
  \A i \in Idx(Wd.miners) : LET M == Wd.miners[i] IN
     (M.cronActive <=> ProvingEvents(Wd, M.m) = 1) /\ ProvingEvents(Wd, M.m) <= 1
\* literal form of "while a miner has sectors, deposits or vesting funds it has exactly one pending
\* proving-deadline callback"
HasFunds(M) == BIsPos(BAdd(BAdd(M.pcd, M.locked), M.ip))
CronWhileFundedLiteral(M) == HasFunds(M) => M.cronActive
\* adjusted for known finding F2 (a freshly created miner holds only its creation deposit and has no
\* cron until its first pre-commit): cdep = the still-unvested part of the creation deposit
CronWhileFundedAdjusted(M, dep0) == (HasFunds(M) /\ ~M.cronActive) => (BIsZero(M.pcd) /\ BIsZero(M.ip))
\* "after each tick its recorded deadline is the one containing the next epoch"
DeadlineCurrentFor(Wd, M) ==
     M.cronActive => (/\ M.pps <= Wd.epoch => (Wd.epoch < M.pps + P /\ M.curDl = (Wd.epoch - M.pps) \div W_)
                      /\ M.pps > Wd.epoch => M.curDl = 0)
DeadlineCurrent(Wd) == \A i \in Idx(Wd.miners) : DeadlineCurrentFor(Wd, Wd.miners[i])
\* queued events are never in the past once the tick for that epoch has run, and firstCron bounds them
QueueNotStale(Wd) ==
  \A i \in Idx(Wd.power.cronq) : Len(Wd.power.cronq[i].evs) > 0 => Wd.power.cronq[i].e >= Wd.epoch
\* bounded-lag forms of "expirations, fault time-outs and early terminations are all eventually processed"
NoOverdueExpiryExcept(Wd, lost) ==
  \A i \in Idx(Wd.miners) : LET M == Wd.miners[i] IN
    M.m \in lost \/ \A d \in Idx(M.dls) : \A p \in Idx(M.dls[d].parts) : \A k \in Idx(M.dls[d].parts[p].q) :
        M.dls[d].parts[p].q[k].e + P >= Wd.epoch
NoOverdueExpiry(Wd) ==
  \A i \in Idx(Wd.miners) : LET M == Wd.miners[i] IN
    \A d \in Idx(M.dls) : \A p \in Idx(M.dls[d].parts) : \A k \in Idx(M.dls[d].parts[p].q) :
        M.dls[d].parts[p].q[k].e + P >= Wd.epoch
EarlyTermsScheduled(Wd) ==
  \A i \in Idx(Wd.miners) : LET M == Wd.miners[i] IN
     Len(M.earlyDls) > 0 =>
        \E k \in Idx(Wd.power.cronq) : \E j \in Idx(Wd.power.cronq[k].evs) :
            Wd.power.cronq[k].evs[j][1] = M.m

\* ---- C01: conservation.  bals : Seq(<<name, amount>>), tr : Seq(<<from, to, amount>>) = the value
\* transfers that took effect during the event (sub-calls that failed contribute nothing)
BalNames(b) == {b[i][1] : i \in Idx(b)}
BalOf(b, a) == IF a \in BalNames(b) THEN b[CHOOSE i \in Idx(b) : b[i][1] = a][2] ELSE BZero
RECURSIVE NetFlow(_, _, _)
NetFlow(tr, a, i) == IF i > Len(tr) THEN BZero
                     ELSE BAdd(IF tr[i][2] = a THEN tr[i][3] ELSE BZero,
                               BAdd(IF tr[i][1] = a THEN BNeg(tr[i][3]) ELSE BZero, NetFlow(tr, a, i + 1)))
LedgerDelta(pre, post, tr) ==
  \A a \in BalNames(pre) \cup BalNames(post) : BEq(BSub(BalOf(post, a), BalOf(pre, a)), NetFlow(tr, a, 1))
LedgerUnchanged(pre, post) == \A a \in BalNames(pre) \cup BalNames(post) : BEq(BalOf(post, a), BalOf(pre, a))
NoNegativeBalance(b) == \A i \in Idx(b) : ~BIsNeg(b[i][2])

\* ---- C15: faults and terminations are paid for (step formulas; pre = world before, e = the event)
SentFrom(tr, a, b) ==   \* total value of the effective transfers from a to b
  LET RECURSIVE F(_)
      F(i) == IF i > Len(tr) THEN BZero
              ELSE BAdd(IF tr[i][1] = a /\ tr[i][2] = b THEN tr[i][3] ELSE BZero, F(i + 1))
  IN  F(1)
MinerByName(w, m) == w.miners[CHOOSE i \in Idx(w.miners) : w.miners[i].m = m]
\* "fee debt blocks withdrawals, new pre-commits and recovery declarations until repaid":
\* such a call succeeds only if the debt is gone when it returns
DebtBlocks(e) == (e.ok /\ e.ev \in {"Withdraw", "PreCommit", "DeclareRecovered"}) => BIsZero(MinerByName(e.st, e.m).debt)
\* "penalties are never negative and never flow to the miner"
BurnMonotone(pre, e) == BLeq(pre.burnt, e.st.burnt)
NoFlowFromBurn(e) == \A i \in Idx(e.tr) : e.tr[i][1] # "f099"
\* consensus fault: the whole penalty is accounted for -- burnt, paid to the reporter, or left as fee debt
ConsensusFaultPaid(pre, e) ==
  (e.ev = "ReportFault" /\ e.ok) =>
     LET M1 == MinerByName(pre, e.m) M2 == MinerByName(e.st, e.m)
         burnt == SentFrom(e.tr, e.m, "f099")
         paid == SentFrom(e.tr, e.m, "rep")
     IN  /\ BEq(BAdd(BAdd(burnt, paid), BSub(M2.debt, M1.debt)), e.cfPenalty)
         /\ BLeq(paid, BAdd(burnt, paid))          \* the reporter gets no more than was taken
         /\ M2.cfElapsed > e.st.epoch
\* "each deadline through which a sector stays faulty charges the miner a continued-fault fee for its power":
\* the driver prices, with the protocol's own fee function and the estimates the callback reads, the faulty power of
\* every deadline at the moment it closes (e.ffee, per miner, summed over the epochs of the tick); at least that much
\* must have left the miner -- burnt at once or recorded as new fee debt -- in this tick.  (Other charges of the same
\* callbacks -- daily fees, expired pre-commit deposits, termination fees -- only add to what is taken.)
ContinuedFaultCharged(pre, e, lost) ==
  (e.ev = "Tick" /\ e.cronOK /\ Len(e.fails) = 0) =>
    \A i \in Idx(e.ffee) :
      LET m == e.ffee[i][1] M1 == MinerByName(pre, m) M2 == MinerByName(e.st, m) IN
      m \in lost \/ BLeq(e.ffee[i][2], BAdd(SentFrom(e.tr, m, "f099"), BSub(M2.debt, M1.debt)))
\* "a successfully disputed proof removes the power and penalises the miner": the disputed partitions' sectors
\* that were credited are faulty afterwards, and the miner paid (burnt + disputer's reward + new debt > 0);
\* the disputer receives no more than was taken
DisputePenalised(pre, e) ==
  (e.ev = "Dispute" /\ e.ok) =>
     LET M1 == MinerByName(pre, e.m) M2 == MinerByName(e.st, e.m)
         burnt == SentFrom(e.tr, e.m, "f099")
         paid == SentFrom(e.tr, e.m, "rep")
     IN  /\ BIsPos(BAdd(BAdd(burnt, paid), BSub(M2.debt, M1.debt)))
         \* with the transfer to the disputer failing, the charge is what the same dispute charges when it succeeds
         \* (twin execution on a checkpoint): the undeliverable share is burnt, not kept
         /\ ("twinCharged" \in DOMAIN e) => BEq(BAdd(BAdd(burnt, paid), BSub(M2.debt, M1.debt)), e.twinCharged)
         /\ \A a \in {e.tr[j][2] : j \in {k \in Idx(e.tr) : e.tr[k][1] = e.m}} : a \in {"f099", "rep"}
         \* (the sectors of the disputed proof may have lost their power already -- declared faulty or terminated since
         \* the proof -- so only "no power is gained" can be demanded of the sets; that the claim follows the sets is C02)
         /\ ActiveSet(M2) \cap DlAll(M2, e.dl + 1) \subseteq ActiveSet(M1) \cap DlAll(M1, e.dl + 1)
\* early termination: each sector whose termination was processed in this step paid at least 2% of its pledge
TerminatedNow(pre, e) ==
  LET M1 == MinerByName(pre, e.m) M2 == MinerByName(e.st, e.m)
  IN  (LiveAll(M1) \ LiveAll(M2)) \ EtqSectors(M2)
TerminationFeeFloor(pre, e) ==
  (e.ev = "Terminate" /\ e.ok) =>
     LET M1 == MinerByName(pre, e.m) M2 == MinerByName(e.st, e.m)
         tb == Tb(M1)
         gone == TerminatedNow(pre, e) \cap tb.nos
         floor == SumBig(gone, [n \in gone |-> BDivSmall(BMulSmall(tb.pledge[n], 2), 100)])
         charged == BAdd(SentFrom(e.tr, e.m, "f099"), BSub(M2.debt, M1.debt))
     IN  BLeq(floor, charged)

\* ---- C14: vesting.  Reward vesting spec: 180 days, daily steps, quantised to 12 h aligned with the
\* miner's proving period offset; 75% of a block reward is locked.
VestPeriod == 518400
VestStep == 2880
VestQuant == 1440
\* floor(x * k / VestPeriod) for 0 <= k <= 2^31 using small-factor limb arithmetic
MulDivPeriod(x, k) ==
  LET hi == k \div 1000  lo == k % 1000
      prod == BAdd(BMulSmall(BMulSmall(x, hi), 1000), BMulSmall(x, lo))
  IN  BDivSmall(BDivSmall(prod, 2880), 180)
\* the schedule add_locked_funds creates for locking L at epoch t with quantisation offset off:
\* a sequence of <<epoch, amount>>
RECURSIVE SchedR(_, _, _, _, _)
SchedR(L, t, off, k, done) ==
  IF BLeq(L, done) THEN <<>>
  ELSE LET ve == QuantUp(t + k * VestStep, VestQuant, off)
           el == ve - t
           target == IF el < VestPeriod THEN MulDivPeriod(L, el) ELSE L
       IN  <<<<ve, BSub(target, done)>>>> \o SchedR(L, t, off, k + 1, target)
Sched(L, t, off) == SchedR(L, t, off, 1, BZero)
VestAt(v, ep) == LET c == {i \in Idx(v) : v[i][1] = ep} IN IF c = {} THEN BZero ELSE v[CHOOSE i \in c : TRUE][2]
SchedAt(sc, ep) == LET c == {i \in Idx(sc) : sc[i][1] = ep} IN
                   IF c = {} THEN BZero ELSE BSumSeq([j \in 1..Cardinality(c) |-> sc[CHOOSE i \in c : Cardinality({x \in c : x < i}) = j - 1][2]])
\* "locked block rewards ... vest linearly over 180 days in daily steps": a block reward locks 75% on
\* exactly that schedule (checked when no penalty or debt interferes with the table in the same call)
RewardVestsOnSchedule(pre, e) ==
  (e.ev = "Reward" /\ e.ok /\ e.penalty = 0) =>
     LET M1 == MinerByName(pre, e.m) M2 == MinerByName(e.st, e.m)
         got == SentFrom(e.tr, "f02", e.m)
         L == BDivSmall(BMulSmall(got, 75), 100)
         sc == Sched(L, pre.epoch, M1.pps)
         eps == {M1.vest[i][1] : i \in Idx(M1.vest)} \cup {M2.vest[i][1] : i \in Idx(M2.vest)} \cup {sc[i][1] : i \in Idx(sc)}
     IN  (BIsZero(M1.debt) /\ BIsZero(M2.debt) /\ BIsPos(got)) =>
            \A ep \in {x \in eps : x >= pre.epoch} :
                BEq(BSub(VestAt(M2.vest, ep), VestAt(M1.vest, ep)), SchedAt(sc, ep))
\* "... and the creation deposit vest linearly over 180 days in daily steps": a miner that has done nothing yet holds
\* exactly the schedule of its deposit, counted from the epoch it was created at
DepositVestsOnSchedule(M) ==
  LET sc == Sched(M.locked, M.createdAt, M.pps)
      eps == {M.vest[i][1] : i \in Idx(M.vest)} \cup {sc[i][1] : i \in Idx(sc)}
  IN  \A ep \in eps : BEq(VestAt(M.vest, ep), SchedAt(sc, ep))
\* "no part becomes withdrawable before its vesting epoch except to pay the miner's own penalties":
\* the not-yet-vested part of the table never shrinks unless funds were burnt or debt changed in the step
Unvested(v, t) == BSumSeq([i \in Idx(v) |-> IF v[i][1] >= t THEN v[i][2] ELSE BZero])
NoEarlyUnlock(pre, e) ==
  \A i \in Idx(e.st.miners) :
     LET M2 == e.st.miners[i] M1 == MinerByName(pre, M2.m) IN
     \/ (M1.vest = M2.vest /\ pre.epoch = e.st.epoch)
     \/ BLeq(Unvested(M1.vest, e.st.epoch), Unvested(M2.vest, e.st.epoch))
     \/ BIsPos(SentFrom(e.tr, M2.m, "f099")) \/ ~BEq(M1.debt, M2.debt)
\* a withdrawal pays only from what is neither vesting, pledged, deposited nor owed
WithdrawBounded(pre, e) ==
  (e.ev = "Withdraw" /\ e.ok) =>
     LET M2 == MinerByName(e.st, e.m) IN
     /\ BIsZero(M2.debt)
     /\ BLeq(BAdd(BAdd(M2.pcd, M2.locked), M2.ip), M2.bal)
     /\ Len(M2.earlyDls) = 0
     /\ \A i \in Idx(e.tr) : (e.tr[i][1] = e.m) => e.tr[i][2] \in {M2.ben, "f099", "f04"}

\* "any fee debt is repaid in full as part of the same call": what was owed before a successful withdrawal
\* went to the burnt-funds actor in that call; and the payout never exceeds the request
WithdrawRepaysDebt(pre, e) ==
  (e.ev = "Withdraw" /\ e.ok) =>
     LET M1 == MinerByName(pre, e.m) M2 == MinerByName(e.st, e.m) IN
     /\ BLeq(M1.debt, SentFrom(e.tr, e.m, "f099"))
     /\ BLeq(SentFrom(e.tr, e.m, M2.ben),
             IF "req" \in DOMAIN e THEN e.req     \* the requested amount in attoFIL as logged by the driver
             ELSE BMulSmall(BMulSmall(BMulSmall(BOfInt(e.nano), 10000), 10000), 10))   \* nanoFIL -> attoFIL
\* ---- C02, transition clauses: "a sector contributes no power before a Window PoSt submission has covered it nor
\* while it is skipped, faulty or not yet proven recovered, and a deadline that closes without a proof removes the
\* power of its unproven partitions at that deadline's end"
AllS(M) == UNION {S_(pt) : pt \in AllParts(M)}
AllU(M) == UNION {U_(pt) : pt \in AllParts(M)}
AllF(M) == UNION {F_(pt) : pt \in AllParts(M)}
AllR(M) == UNION {R_(pt) : pt \in AllParts(M)}
AllT(M) == UNION {T_(pt) : pt \in AllParts(M)}
\* the sectors of the partitions named by an accepted Window PoSt (in the state after it)
PoStCovered(M2, e) == UNION {S_(PartAt(M2, <<e.dl + 1, e.parts[k].i + 1>>)) : k \in {j \in Idx(e.parts) : e.parts[j].i + 1 \in Idx(M2.dls[e.dl + 1].parts)}}
\* a sector leaves the unproven set for the active set only through an accepted Window PoSt that names its partition
ProvenOnlyByPoSt(pre, e) ==
  \A i \in Idx(e.st.miners) :
     LET M2 == e.st.miners[i] M1 == MinerByName(pre, M2.m)
         left == (AllU(M1) \cap AllS(M2)) \ (AllU(M2) \cup AllF(M2) \cup AllT(M2))
     IN  left # {} => (e.ev = "PoSt" /\ e.ok /\ e.m = M2.m /\ left \subseteq PoStCovered(M2, e))
\* a faulty sector becomes active again only if it was declared recovering and an accepted Window PoSt names its partition
RecoveredOnlyByPoSt(pre, e) ==
  \A i \in Idx(e.st.miners) :
     LET M2 == e.st.miners[i] M1 == MinerByName(pre, M2.m)
         back == (AllF(M1) \cap AllS(M2)) \ (AllF(M2) \cup AllT(M2))
     IN  back # {} => (e.ev = "PoSt" /\ e.ok /\ e.m = M2.m /\ back \subseteq PoStCovered(M2, e) /\ back \subseteq AllR(M1))
\* after an accepted Window PoSt every skipped sector that is still live is faulty
SkippedFaulted(e) ==
  (e.ev = "PoSt" /\ e.ok) =>
     LET M2 == MinerByName(e.st, e.m) IN
     \A k \in Idx(e.parts) : (e.parts[k].i + 1 \in Idx(M2.dls[e.dl + 1].parts)) =>
        LET pt == PartAt(M2, <<e.dl + 1, e.parts[k].i + 1>>) IN (SeqSet(e.parts[k].skipped) \cap Live(pt)) \subseteq F_(pt)
\* the deadline callbacks that fall into a tick of n epochs starting at epoch e0 (the callback of deadline d runs at the
\* last epoch of d; nothing can be proven during a tick): every live sector of a partition that was not proven when the
\* tick began is faulty or terminated afterwards
ClosesIn(M1, d, e0, n) == \E x \in e0..(e0 + n - 1) : x >= M1.pps /\ (x - M1.pps) % P = (d + 1) * W_ - 1
MissedPoStFaulted(pre, e, lost) ==
  (e.ev = "Tick" /\ e.cronOK) =>
     \A i \in Idx(pre.miners) :
        LET M1 == pre.miners[i] M2 == MinerByName(e.st, M1.m) IN
        (M1.m \notin lost /\ M1.cronActive) =>
           \A d \in Idx(M1.dls) : ClosesIn(M1, d - 1, pre.epoch, e.n) =>
              \A p \in Idx(M1.dls[d].parts) : ((p - 1) \notin SeqSet(M1.dls[d].posted)) =>
                 LET pt1 == M1.dls[d].parts[p] IN
                 p \in Idx(M2.dls[d].parts) /\ Live(pt1) \subseteq (F_(M2.dls[d].parts[p]) \cup T_(M2.dls[d].parts[p]))

\* C15 "every early-terminated sector is charged a termination fee of at least 2% of its pledge", for terminations that
\* the cron processes: the sectors that leave the early-termination queues during a tick, and the sectors that a
\* callback of this tick terminated before their (quantised) expiration and processed at once.  A sector whose
\* on-time expiry also falls into the tick is left out (it may have expired normally, which costs nothing).
QExpOf(M, d, x) == QuantUp(x, M.dls[d].quantUnit, M.dls[d].quantOff)
DlOfSector(M, n) == CHOOSE d \in Idx(M.dls) : \E p \in Idx(M.dls[d].parts) : n \in S_(M.dls[d].parts[p])
CronTerminationFee(pre, e, lost) ==
  (e.ev = "Tick" /\ e.cronOK) =>
     \A i \in Idx(pre.miners) :
        LET M1 == pre.miners[i] M2 == MinerByName(e.st, M1.m)
            tb == Tb(M1)
            earlyNew == {n \in ((AllT(M2) \ AllT(M1)) \cap tb.nos) \cap AllS(M1) : QExpOf(M1, DlOfSector(M1, n), tb.exp[n]) > e.st.epoch - 1}
            done == ((EtqSectors(M1) \cup earlyNew) \ EtqSectors(M2)) \cap tb.nos
            floor == SumBig(done, [n \in done |-> BDivSmall(BMulSmall(tb.pledge[n], 2), 100)])
            charged == BAdd(SentFrom(e.tr, M1.m, "f099"), BSub(M2.debt, M1.debt))
        IN  (M1.m \notin lost) => BLeq(floor, charged)

\* ---- C04 "every sector number is allocated at most once in a miner's lifetime": the allocated set only grows, and
\* a number that appears among the pre-commitments or sectors was not allocated before
PreNos(M) == {M.pre[i].n : i \in Idx(M.pre)}
NumbersFresh(pre, e) ==
  \A i \in Idx(e.st.miners) :
     LET M2 == e.st.miners[i] M1 == MinerByName(pre, M2.m) IN
     /\ SeqSet(M1.alloc) \subseteq SeqSet(M2.alloc)
     /\ ((SecNos(M2) \cup PreNos(M2)) \ (SecNos(M1) \cup PreNos(M1))) \cap SeqSet(M1.alloc) = {}

\* C15: "every charged amount is either burnt at once or recorded as fee debt": fee debt never just disappears --
\* whenever a miner's debt goes down, at least that much went to the burnt-funds actor in the same step
DebtOnlyRepaidByBurn(pre, e) ==
  \A i \in Idx(e.st.miners) :
     LET M2 == e.st.miners[i] M1 == MinerByName(pre, M2.m) IN
     BLeq(M2.debt, M1.debt) => BLeq(BSub(M1.debt, M2.debt), SentFrom(e.tr, M2.m, "f099"))

\* "over time exactly the locked amount unlocks, no more and no less": for a miner whose proving-deadline cron runs,
\* an entry whose epoch has passed is released by the next deadline's callback -- none stays locked for more than two
\* challenge windows (the total is tied to the table by VestExact, early release is excluded by NoEarlyUnlock)
VestNotOverdue(Wd, M) == M.cronActive => \A k \in Idx(M.vest) : M.vest[k][1] + 2 * W_ >= Wd.epoch

\* ---- C14: the vesting table
VestShape(Wd) ==
  \A i \in Idx(Wd.miners) : LET M == Wd.miners[i] IN
     /\ \A k \in Idx(M.vest) : ~BIsNeg(M.vest[k][2])
     /\ \A k \in 1..(Len(M.vest) - 1) : M.vest[k][1] < M.vest[k + 1][1]
=============================================================================
