------------------------------ MODULE SectorsP ------------------------------
(***************************************************************************)
(* Layer-P formulas for the miner x power x cron subsystem (C02, C03, C04,  *)
(* C05, C14): state predicates over the projected world W that the harness  *)
(* logs after every message and tick (harness/drivers/src/sectors.rs).       *)
(* Written from the protocol, independently of the actors' own state        *)
(* checker.                                                                  *)
(*                                                                           *)
(* W = [epoch, power : [claims, raw, qa, rawCommitted, qaCommitted, aboveMin,*)
(*      minerCount, pledge, firstCron, cronq], miners : Seq(M), rewardBal,   *)
(*      burnt, total]                                                        *)
(* M = [m, bal, pcd, locked, ip, debt, vest, pps, curDl, cronActive,         *)
(*      earlyDls, alloc, pre, sectors, dls, ...]                             *)
(* Amounts are BigAmt values; power numbers and epochs are plain integers.   *)
(***************************************************************************)
EXTENDS Integers, Sequences, FiniteSets, TLC, BigAmt

CONSTANTS D, W_, P, PartSize, FaultMaxAge, MinPower, MinMiners

SeqSet(s) == {s[i] : i \in 1..Len(s)}
Idx(s) == 1..Len(s)

RECURSIVE SumInt(_, _)
SumInt(S, f) == IF S = {} THEN 0 ELSE LET x == CHOOSE y \in S : TRUE IN f[x] + SumInt(S \ {x}, f)
RECURSIVE SumBig(_, _)
SumBig(S, f) == IF S = {} THEN BZero ELSE LET x == CHOOSE y \in S : TRUE IN BAdd(f[x], SumBig(S \ {x}, f))

\* ---- sector table
SecNos(M) == {M.sectors[i].n : i \in Idx(M.sectors)}
Info(M, n) == M.sectors[CHOOSE i \in Idx(M.sectors) : M.sectors[i].n = n]
RawOf(M) == [n \in SecNos(M) |-> Info(M, n).raw]
QaOf(M) == [n \in SecNos(M) |-> Info(M, n).qa]
PledgeOf(M) == [n \in SecNos(M) |-> Info(M, n).pledge]
FeeOf(M) == [n \in SecNos(M) |-> Info(M, n).fee]
\* the sector table as functions, built once per miner per event (TLCEval forces concrete values)
Tb(M) == LET nos == SecNos(M)
             idx == [n \in nos |-> CHOOSE i \in Idx(M.sectors) : M.sectors[i].n = n]
         IN  TLCEval([nos |-> nos,
                      raw |-> [n \in nos |-> M.sectors[idx[n]].raw],
                      qa |-> [n \in nos |-> M.sectors[idx[n]].qa],
                      pledge |-> [n \in nos |-> M.sectors[idx[n]].pledge],
                      fee |-> [n \in nos |-> M.sectors[idx[n]].fee],
                      exp |-> [n \in nos |-> M.sectors[idx[n]].exp]])
\* power of a set of sector numbers as <<raw, qa>>; numbers missing from the table count as -1 (never equal)
PowT(tb, S) == IF S \subseteq tb.nos THEN <<SumInt(S, tb.raw), SumInt(S, tb.qa)>> ELSE <<-1, -1>>
Pow(M, S) == PowT(Tb(M), S)

\* ---- partitions
Parts(M) == UNION {{<<d, p>> : p \in Idx(M.dls[d].parts)} : d \in Idx(M.dls)}
PartAt(M, dp) == M.dls[dp[1]].parts[dp[2]]
S_(pt) == SeqSet(pt.S)
U_(pt) == SeqSet(pt.U)
F_(pt) == SeqSet(pt.F)
R_(pt) == SeqSet(pt.R)
T_(pt) == SeqSet(pt.T)
Live(pt) == S_(pt) \ T_(pt)
Active(pt) == ((S_(pt) \ T_(pt)) \ F_(pt)) \ U_(pt)
AllParts(M) == {PartAt(M, dp) : dp \in Parts(M)}

\* ---- C04: "every on-chain sector belongs to exactly one partition of exactly one deadline; within a
\* partition the live, faulty, recovering, unproven and terminated sets nest and exclude each other"
SetsNest(M) ==
  \A dp \in Parts(M) : LET pt == PartAt(M, dp) IN
    /\ U_(pt) \subseteq S_(pt) /\ F_(pt) \subseteq S_(pt) /\ T_(pt) \subseteq S_(pt)
    /\ R_(pt) \subseteq F_(pt)
    /\ T_(pt) \cap F_(pt) = {} /\ T_(pt) \cap U_(pt) = {} /\ F_(pt) \cap U_(pt) = {}
    /\ Live(pt) \subseteq SecNos(M)
    /\ Len(pt.S) <= PartSize
OnePartition(M) ==
  /\ \A dp1, dp2 \in Parts(M) : dp1 # dp2 => S_(PartAt(M, dp1)) \cap S_(PartAt(M, dp2)) = {}
  /\ \A n \in SecNos(M) : \E dp \in Parts(M) : n \in S_(PartAt(M, dp))
\* "the per-partition and per-deadline power, sector-count ... summaries equal what is recomputed"
PartMemos(M) == LET tb == Tb(M) IN
  \A dp \in Parts(M) : LET pt == PartAt(M, dp) IN
    /\ pt.live = PowT(tb, Live(pt)) /\ pt.unp = PowT(tb, U_(pt))
    /\ pt.flt = PowT(tb, F_(pt)) /\ pt.rec = PowT(tb, R_(pt))
DlLive(M, d) == UNION {Live(M.dls[d].parts[p]) : p \in Idx(M.dls[d].parts)}
DlAll(M, d) == UNION {S_(M.dls[d].parts[p]) : p \in Idx(M.dls[d].parts)}
DlFaults(M, d) == UNION {F_(M.dls[d].parts[p]) : p \in Idx(M.dls[d].parts)}
DlMemos(M) == LET tb == Tb(M) IN
  \A d \in Idx(M.dls) : LET dl == M.dls[d] IN
    /\ dl.live = Cardinality(DlLive(M, d))
    /\ dl.total = Cardinality(DlAll(M, d))
    /\ dl.flt = PowT(tb, DlFaults(M, d))
    /\ dl.livep = PowT(tb, DlLive(M, d))
    /\ BEq(dl.fee, SumBig(DlLive(M, d) \cap tb.nos, tb.fee))
    /\ SeqSet(dl.posted) \subseteq {p - 1 : p \in Idx(dl.parts)}
    \* partitions with unprocessed early terminations are exactly the ones flagged
    /\ SeqSet(dl.early) = {p - 1 : p \in {q \in Idx(dl.parts) : Len(dl.parts[q].etq) > 0}}
EarlyDls(M) == SeqSet(M.earlyDls) = {d - 1 : d \in {x \in Idx(M.dls) : Len(M.dls[x].early) > 0}}

\* ---- expiration queues
QuantUp(e, unit, off) == LET r == (e - off) % unit IN IF r = 0 THEN e ELSE e + (unit - r)
QueueOK(M) == LET tb == Tb(M) IN
  \A d \in Idx(M.dls) : \A p \in Idx(M.dls[d].parts) :
    LET pt == M.dls[d].parts[p]
        q == pt.q
        unit == M.dls[d].quantUnit
        off == M.dls[d].quantOff
        inQ(i) == SeqSet(q[i].on) \cup SeqSet(q[i].early)
    IN  /\ \A i, j \in Idx(q) : i # j => inQ(i) \cap inQ(j) = {}
        /\ \A i \in Idx(q) : SeqSet(q[i].on) \cap SeqSet(q[i].early) = {}
        /\ UNION {inQ(i) : i \in Idx(q)} = Live(pt)            \* each live sector in exactly one entry
        /\ \A i \in Idx(q) :
             /\ QuantUp(q[i].e, unit, off) = q[i].e
             /\ \A n \in SeqSet(q[i].on) : n \in tb.nos => q[i].e = QuantUp(tb.exp[n], unit, off)
             /\ \A n \in SeqSet(q[i].early) :
                   /\ n \in F_(pt)
                   /\ n \in tb.nos => q[i].e < QuantUp(tb.exp[n], unit, off)
             /\ q[i].act = PowT(tb, inQ(i) \ F_(pt))
             /\ q[i].flt = PowT(tb, inQ(i) \cap F_(pt))
             /\ BEq(q[i].pledge, SumBig(SeqSet(q[i].on) \cap tb.nos, tb.pledge))
             /\ BEq(q[i].fee, SumBig(inQ(i) \cap tb.nos, tb.fee))
        \* early-termination queue entries are terminated sectors, each once
        /\ \A i \in Idx(pt.etq) : SeqSet(pt.etq[i].s) \subseteq T_(pt)
        /\ \A i, j \in Idx(pt.etq) : i # j => SeqSet(pt.etq[i].s) \cap SeqSet(pt.etq[j].s) = {}

\* ---- C02: "the power the network credits to a miner equals the sum over that miner's sectors that have
\* been proven at least once and are currently neither faulty, terminated nor expired"
ClaimOf(Wd, m) ==
  LET c == {i \in Idx(Wd.power.claims) : Wd.power.claims[i].m = m} IN
  IF c = {} THEN <<-1, -1>> ELSE LET i == CHOOSE x \in c : TRUE IN <<Wd.power.claims[i].raw, Wd.power.claims[i].qa>>
ActiveSet(M) == UNION {Active(pt) : pt \in AllParts(M)}
PowerIsActive(Wd) == \A i \in Idx(Wd.miners) : ClaimOf(Wd, Wd.miners[i].m) = Pow(Wd.miners[i], ActiveSet(Wd.miners[i]))
\* "the network totals equal the sum of per-miner claims under the consensus-minimum rule"
TotalsOK(Wd) ==
  LET cl == Wd.power.claims
      raws == [i \in Idx(cl) |-> cl[i].raw]
      qas == [i \in Idx(cl) |-> cl[i].qa]
      big == {i \in Idx(cl) : cl[i].raw >= MinPower}
  IN  /\ Wd.power.rawCommitted = SumInt(Idx(cl), raws) /\ Wd.power.qaCommitted = SumInt(Idx(cl), qas)
      /\ Wd.power.aboveMin = Cardinality(big)
      \* the stored consensus totals count exactly the miners at or above the minimum; the rule "with fewer
      \* than MinMiners such miners everybody counts" is applied when the totals are read (Effective*)
      /\ Wd.power.raw = SumInt(big, raws) /\ Wd.power.qa = SumInt(big, qas)
      /\ Wd.power.minerCount >= Len(cl)

\* ---- C03: collateral ledgers
EtqSectors(M) == UNION {UNION {SeqSet(pt.etq[i].s) : i \in Idx(pt.etq)} : pt \in AllParts(M)}
LiveAll(M) == UNION {Live(pt) : pt \in AllParts(M)}
PledgeExact(M) == LET tb == Tb(M) IN BEq(M.ip, SumBig((LiveAll(M) \cup EtqSectors(M)) \cap tb.nos, tb.pledge))
                  /\ (LiveAll(M) \cup EtqSectors(M)) \subseteq SecNos(M)
DepositsExact(M) == BEq(M.pcd, BSumSeq([i \in Idx(M.pre) |-> M.pre[i].dep]))
VestExact(M) == BEq(M.locked, BSumSeq([i \in Idx(M.vest) |-> M.vest[i][2]]))
\* network pledge total = sum over miners of (initial pledge + vesting funds), adjusted by the ghost
\* cdep (known finding F1: the creation deposit is locked but never added to the network total)
RECURSIVE SumMinersPledge(_, _)
SumMinersPledge(Wd, i) == IF i > Len(Wd.miners) THEN BZero
                          ELSE BAdd(BAdd(Wd.miners[i].ip, Wd.miners[i].locked), SumMinersPledge(Wd, i + 1))
NetPledgeLiteral(Wd) == BEq(Wd.power.pledge, SumMinersPledge(Wd, 1))
NetPledgeAdjusted(Wd, cdepSum) == BEq(BAdd(Wd.power.pledge, cdepSum), SumMinersPledge(Wd, 1))
NetPledgeNonNeg(Wd) == ~BIsNeg(Wd.power.pledge)
\* C01 (miner clause): "each miner holds at least its pre-commit deposits plus vesting funds plus
\* initial pledge" -- after every successful message
MinerSolvent(M) == BLeq(BAdd(BAdd(M.pcd, M.locked), M.ip), M.bal)
NonNegLedgers(M) == ~BIsNeg(M.pcd) /\ ~BIsNeg(M.locked) /\ ~BIsNeg(M.ip) /\ ~BIsNeg(M.debt)

\* ---- C04: sector numbers are allocated at most once
AllocCovers(M) == SecNos(M) \cup {M.pre[i].n : i \in Idx(M.pre)} \subseteq SeqSet(M.alloc)

\* ---- C05: scheduling
ProvingEvents(Wd, m) ==
  LET q == Wd.power.cronq
      cnt(i) == Cardinality({j \in Idx(q[i].evs) : q[i].evs[j][1] = m /\ q[i].evs[j][2] = 1})
      f == [i \in Idx(q) |-> cnt(i)]
  IN  SumInt(Idx(q), f)
CronScheduled(Wd) ==
  \A i \in Idx(Wd.miners) : LET M == Wd.miners[i] IN
     (M.cronActive <=> ProvingEvents(Wd, M.m) = 1) /\ ProvingEvents(Wd, M.m) <= 1
\* literal form of "while a miner has sectors, deposits or vesting funds it has exactly one pending
\* proving-deadline callback"
HasFunds(M) == BIsPos(BAdd(BAdd(M.pcd, M.locked), M.ip))
CronWhileFundedLiteral(M) == HasFunds(M) => M.cronActive
\* adjusted for known finding F2 (a freshly created miner holds only its creation deposit and has no
\* cron until its first pre-commit): cdep = the still-unvested part of the creation deposit
CronWhileFundedAdjusted(M, dep0) == (HasFunds(M) /\ ~M.cronActive) => (BIsZero(M.pcd) /\ BIsZero(M.ip))
\* "after each tick its recorded deadline is the one containing the next epoch"
DeadlineCurrentFor(Wd, M) ==
     M.cronActive => (/\ M.pps <= Wd.epoch => (Wd.epoch < M.pps + P /\ M.curDl = (Wd.epoch - M.pps) \div W_)
                      /\ M.pps > Wd.epoch => M.curDl = 0)
DeadlineCurrent(Wd) == \A i \in Idx(Wd.miners) : DeadlineCurrentFor(Wd, Wd.miners[i])
\* queued events are never in the past once the tick for that epoch has run, and firstCron bounds them
QueueNotStale(Wd) ==
  \A i \in Idx(Wd.power.cronq) : Len(Wd.power.cronq[i].evs) > 0 => Wd.power.cronq[i].e >= Wd.epoch
\* bounded-lag forms of "expirations, fault time-outs and early terminations are all eventually processed"
NoOverdueExpiry(Wd) ==
  \A i \in Idx(Wd.miners) : LET M == Wd.miners[i] IN
    \A d \in Idx(M.dls) : \A p \in Idx(M.dls[d].parts) : \A k \in Idx(M.dls[d].parts[p].q) :
        M.dls[d].parts[p].q[k].e + P >= Wd.epoch
EarlyTermsScheduled(Wd) ==
  \A i \in Idx(Wd.miners) : LET M == Wd.miners[i] IN
     Len(M.earlyDls) > 0 =>
        \E k \in Idx(Wd.power.cronq) : \E j \in Idx(Wd.power.cronq[k].evs) :
            Wd.power.cronq[k].evs[j][1] = M.m

\* ---- C01: conservation.  bals : Seq(<<name, amount>>), tr : Seq(<<from, to, amount>>) = the value
\* transfers that took effect during the event (sub-calls that failed contribute nothing)
BalNames(b) == {b[i][1] : i \in Idx(b)}
BalOf(b, a) == IF a \in BalNames(b) THEN b[CHOOSE i \in Idx(b) : b[i][1] = a][2] ELSE BZero
RECURSIVE NetFlow(_, _, _)
NetFlow(tr, a, i) == IF i > Len(tr) THEN BZero
                     ELSE BAdd(IF tr[i][2] = a THEN tr[i][3] ELSE BZero,
                               BAdd(IF tr[i][1] = a THEN BNeg(tr[i][3]) ELSE BZero, NetFlow(tr, a, i + 1)))
LedgerDelta(pre, post, tr) ==
  \A a \in BalNames(pre) \cup BalNames(post) : BEq(BSub(BalOf(post, a), BalOf(pre, a)), NetFlow(tr, a, 1))
LedgerUnchanged(pre, post) == \A a \in BalNames(pre) \cup BalNames(post) : BEq(BalOf(post, a), BalOf(pre, a))
NoNegativeBalance(b) == \A i \in Idx(b) : ~BIsNeg(b[i][2])

\* ---- C14: the vesting table
VestShape(Wd) ==
  \A i \in Idx(Wd.miners) : LET M == Wd.miners[i] IN
     /\ \A k \in Idx(M.vest) : ~BIsNeg(M.vest[k][2])
     /\ \A k \in 1..(Len(M.vest) - 1) : M.vest[k][1] < M.vest[k + 1][1]
=============================================================================
