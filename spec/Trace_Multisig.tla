--------------------------- MODULE Trace_Multisig ---------------------------
(* Trace validation of the real multisig actor against Multisig.tla (see Trace_Paych for the
   Layer P / Layer R scheme). *)
EXTENDS Multisig, Json, IOUtils

VARIABLE l
Rec == ndJsonDeserialize(IOEnv.TRACE)

ToPend(arr) ==
  LET ids == {arr[i].id : i \in 1..Len(arr)}
  IN  [x \in ids |-> LET i == CHOOSE j \in 1..Len(arr) : arr[j].id = x
                     IN  [val |-> arr[i].val, p |-> arr[i].p, appr |-> arr[i].appr]]
ToSet(arr) == {arr[i] : i \in 1..Len(arr)}
ToS(st) == [signers |-> ToSet(st.signers), th |-> st.th, next |-> st.next, pend |-> ToPend(st.pend),
            lock |-> st.lock, bal |-> st.bal]

LastOf(e) ==
  IF e.ev = "Msg" THEN [a |-> "Msg", ok |-> e.ok, c |-> e.c, p |-> e.p, ex |-> e.ex]
  ELSE [a |-> e.ev, ok |-> e.ok, ex |-> e.ex]

Explained(e) ==
  CASE e.ev = "Msg" -> IF e.ok THEN Msg(e.c, e.p) /\ Call(S, e.c, e.p, epoch).ex = e.ex
                               ELSE ~CanMsg(e.c, e.p) /\ UNCHANGED <<S, epoch, sentIds>>
    [] e.ev = "Deposit" -> e.ok /\ Deposit(e.amt)
    [] e.ev = "Tick" -> Tick(e.n)
    [] OTHER -> FALSE

Chk(prop, name, holds, e) == IF holds THEN TRUE ELSE PrintT(<<"VIOL", prop, name, l, "-", e.ev>>)

TStep ==
  /\ l <= Len(Rec)
  /\ l' = l + 1
  /\ LET e == Rec[l] IN
     IF e.ev \in {"Init", "Reset"}
     THEN /\ S' = ToS(e.st) /\ epoch' = e.st.epoch /\ sentIds' = {}
          /\ last' = [a |-> "Init", ok |-> TRUE, ex |-> <<>>]
     ELSE /\ S' = ToS(e.st) /\ epoch' = e.st.epoch
          /\ last' = LastOf(e)
          /\ sentIds' = sentIds \cup ToSet(e.ex)
          /\ Chk("C12", "WellFormed", WellFormed(S'), e)
          /\ Chk("C12", "SentOnce", SentOnce, e)
          /\ Chk("C12", "TopJustified", TopJustified, e)
          /\ Chk("C12", "ExecutedWerePending", ExecutedWerePending, e)
          /\ Chk("C12", "ExecutedAsSpecified", ExecutedAsSpecified, e)
          /\ Chk("C12", "LockRespected", LockRespected, e)
          /\ Chk("C12", "SpendOnlyByExec", SpendOnlyByExec, e)
          /\ Chk("C12", "OnlySignersAct", OnlySignersAct, e)
          /\ Chk("C12", "AdminOnlyBySelf", AdminOnlyBySelf, e)
          /\ Chk("C12", "RemovalJustified", RemovalJustified, e)
          /\ Chk("C12", "RejectedIsNoop", RejectedIsNoop, e)
          /\ Chk("C12", "IdsIncrease", IdsIncrease, e)
          /\ (IF Explained(e) THEN TRUE ELSE PrintT(<<"DRIFT", "C12", l, e.ev, e.ok>>))

TInit == /\ S = [signers |-> {}, th |-> 0, next |-> 0, pend |-> <<>>,
                 lock |-> [init |-> 0, start |-> 0, dur |-> 0], bal |-> 0]
         /\ epoch = 0 /\ sentIds = {} /\ last = [a |-> "Init", ok |-> TRUE, ex |-> <<>>] /\ l = 1
TSpec == TInit /\ [][TStep]_<<vars, l>>
Accepted == TLCGet("stats").diameter = Len(Rec) + 1
=============================================================================
