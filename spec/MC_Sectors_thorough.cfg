SPECIFICATION MCSpec
CONSTANTS D = 4
          W = 6
          PartSize = 2
          FaultMaxAge = 48
          FaultCutoff = 2
          MinLife = 72
          MaxLife = 480000
          AddrSectorsMax = 4
          AddrPartsMax = 3
          MaxPC = 86400
          ChalDelay = 1
          WithPC = TRUE
          MaxEpoch = 30
          MaxSectors = 3
          ExportLen = 0
          Rich = FALSE
CONSTRAINT Bound
VIEW View
INVARIANT Inv
PROPERTY StepOK
ACTION_CONSTRAINT Tour
CHECK_DEADLOCK FALSE
