SPECIFICATION MCSpec
CONSTANTS Holders = {"c1", "c2", "v1", "v2", "vr", "x"}
          Root = "root"
          MinerSet = {"m1", "m2"}
          Prov = "m1"
          MinSize = 256
          MinTerm = 24
          MaxTerm = 4000
          MaxExp = 60
          D = 4
          W = 6
          PartSize = 2
          MinLife = 72
          MaxLife = 480000
          PCDelay = 1
          PCWindow = 2881
          DropPeriod = 48
          SectorSize = 2048
          DupIdsAllowed = FALSE
          MultiDeclAllowed = FALSE
          Grant = 16384
          PieceSize = 512
          MaxEpoch = 3060
          MaxNext = 1
          MaxSectors = 1
          ExpCap = 2954
          TermCap = 2954
          ExportLen = 0
          Rich = FALSE
          Path = "pc"
CONSTRAINT Bound
VIEW View
INVARIANT Inv
PROPERTY StepOK
ACTION_CONSTRAINT Tour
CHECK_DEADLOCK FALSE
