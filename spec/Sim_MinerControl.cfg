SPECIFICATION SimSpec
CONSTANTS WorkerDelay = 2
          WorkerOK = {"w1", "w2"}
          Principals = {"o1", "o2", "b1", "s", "c1"}
          Workers = {"w1", "w2"}
          Bens = {"o1", "o2", "b1"}
          MaxEpoch = 10
          ExportLen = 18
          Quotas = {0, 2, 5}
          Exps = {0, 2, 4, 9}
CONSTRAINT Bound
INVARIANT Export
PROPERTY StepOK
CHECK_DEADLOCK FALSE
