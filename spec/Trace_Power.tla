---------------------------- MODULE Trace_Power ----------------------------
(* Trace validation: every recorded step of the REAL storage power actor (harness/drivers/src/power.rs) is
   checked against Power.tla.
     Layer P  the formulas at the bottom of Power.tla (written from the statements of C02, C03, C05, C11) are
              evaluated on the recorded (pre-state, call + verdict + observed callbacks, post-state); a false
              one prints a VIOL line tagged with its property id (-> VIOLATION, exit 1).
     Layer R  the recorded verdict and post-state are those the model computes from the recorded pre-state
              (the tick: with the callbacks' observed outcomes and nested calls); otherwise a DRIFT line.
   Every event carries the full projected state, so the search is linear.  The callbacks of a tick are part of
   the event: [m, p, ok, cause, calls] in dispatch order, read off the real invocation tree. *)
EXTENDS Power, Json, IOUtils

VARIABLE l

Rec == ndJsonDeserialize(IOEnv.TRACE)

ToClaims(arr) ==
  LET ids == {arr[i][1] : i \in 1..Len(arr)}
  IN  [x \in ids |-> LET i == CHOOSE j \in 1..Len(arr) : arr[j][1] = x
                     IN  [raw |-> arr[i][2], qa |-> arr[i][3]]]

ToState(s) ==
  [created |-> s.created, claims |-> ToClaims(s.claims),
   totRaw |-> s.totRaw, totQa |-> s.totQa, comRaw |-> s.comRaw, comQa |-> s.comQa,
   minerCount |-> s.minerCount, aboveCount |-> s.aboveCount, pledge |-> s.pledge,
   queue |-> [i \in 1..Len(s.queue) |-> [e |-> s.queue[i][1], m |-> s.queue[i][2], p |-> s.queue[i][3]]],
   firstCron |-> s.firstCron, snapRaw |-> s.snapRaw, snapQa |-> s.snapQa, snapPledge |-> s.snapPledge,
   epoch |-> s.epoch]

ToRet(r) == [raw |-> r.raw, qa |-> r.qa, pledge |-> r.pledge]

\* the call record, in the shape of the model's `last`
ToNested(c) ==
  CASE c.a = "EnrollCronEvent"    -> [a |-> c.a, c |-> c.c, ok |-> c.ok, e |-> c.e, p |-> c.p]
    [] c.a = "UpdateClaimedPower" -> [a |-> c.a, c |-> c.c, ok |-> c.ok, dr |-> c.dr, dq |-> c.dq]
    [] c.a = "UpdatePledgeTotal"  -> [a |-> c.a, c |-> c.c, ok |-> c.ok, d |-> c.d]
    [] OTHER                      -> [a |-> c.a, c |-> c.c, ok |-> c.ok]
ToCb(cb) == [m |-> cb.m, p |-> cb.p, ok |-> cb.ok,
             calls |-> [j \in 1..Len(cb.calls) |-> ToNested(cb.calls[j])]]
CallOf(e) ==
  CASE e.ev = "CreateMiner"        -> [a |-> e.ev, c |-> e.c, ok |-> e.ok, funded |-> e.funded]
    [] e.ev = "UpdateClaimedPower" -> [a |-> e.ev, c |-> e.c, ok |-> e.ok, dr |-> e.dr, dq |-> e.dq]
    [] e.ev = "EnrollCronEvent"    -> [a |-> e.ev, c |-> e.c, ok |-> e.ok, e |-> e.e, p |-> e.p]
    [] e.ev = "UpdatePledgeTotal"  -> [a |-> e.ev, c |-> e.c, ok |-> e.ok, d |-> e.d]
    [] e.ev = "Tick"               -> [a |-> e.ev, ok |-> e.ok, cbs |-> [i \in 1..Len(e.cbs) |-> ToCb(e.cbs[i])]]
    [] OTHER                       -> [a |-> e.ev, c |-> e.c, ok |-> e.ok]
LastOf(e) == CallOf(e) @@ [ret |-> ToRet(e.ret)]

\* Layer R: the model's own transition function on the recorded pre-state.  For the tick both readings of the
\* claim-deletion loop are accepted here (as coded / as intended: they differ only in miner_count when one miner
\* fails twice in a tick); the difference is reported as a NOTE (no listed property speaks of miner_count).
Explained(e) ==
  IF e.ev = "Tick"
  THEN LET cbs == CallOf(e).cbs
           r0 == TickWith(P, cbs, FALSE)
           r1 == TickWith(P, cbs, TRUE)
       IN  e.ok /\ r0.agree /\ (P' = r0.st \/ P' = r1.st)
  ELSE LET r == Do(P, CallOf(e)) IN r.ok = e.ok /\ P' = r.st

\* tags let the checker match a violation against /verif/known_findings.json
DoubleFail(e) == e.ev = "Tick" /\ \E i, j \in 1..Len(e.cbs) : i < j /\ ~e.cbs[i].ok /\ ~e.cbs[j].ok
                                                             /\ e.cbs[i].m = e.cbs[j].m
PledgeFail(e) == e.ev = "Tick" /\ \E i \in 1..Len(e.cbs) : ~e.cbs[i].ok /\ e.cbs[i].cause = "pledge"
CronTag(e)  == IF PledgeFail(e) THEN "F1-creation-deposit" ELSE "-"

Chk(prop, name, holds, tag, e) == IF holds THEN TRUE ELSE PrintT(<<"VIOL", prop, name, l, tag, e.ev>>)

\* C05 "every callback it dispatches succeeds": the only callbacks that fail are those this harness made fail
\* (fault plan) and those whose payload no miner would enrol (undecodable bytes)
CallbacksSucceed(e) ==
  e.ev = "Tick" => \A i \in 1..Len(e.cbs) : e.cbs[i].ok \/ e.cbs[i].cause \in {"injected", "bad-payload"}

StateChecks(e) ==
  /\ Chk("C02", "TotalsRule", TotalsRule(P'), "-", e)
  /\ Chk("C02", "StoredTotals", StoredTotals(P'), "-", e)
  /\ Chk("C02", "ClaimsNonNeg", ClaimsNonNeg(P'), "-", e)
  /\ Chk("C03", "PledgeTotalNonNeg", PledgeTotalNonNeg(P'), "-", e)
  /\ Chk("C05", "QueueOnlyFutureOrDue", QueueOnlyFutureOrDue(P'), "-", e)

TStep ==
  /\ l <= Len(Rec)
  /\ l' = l + 1
  /\ LET e == Rec[l] IN
     IF e.ev \in {"Init", "Reset"}
     THEN /\ P' = ToState(e.st)
          /\ last' = [a |-> "Init", c |-> "-", ok |-> TRUE, ret |-> ToRet(e.ret)]
          /\ StateChecks(e)
          /\ (IF MinerCountExact(P') THEN TRUE ELSE PrintT(<<"NOTE", "C02", "miner-count-mismatch", l, e.ev>>))
          /\ Chk("C02", "ReportRule", ToRet(e.ret) = CurrentTotalPowerRet(P'), "-", e)
     ELSE /\ P' = ToState(e.st)
          /\ last' = LastOf(e)
          /\ StateChecks(e)
          \* miner_count is named by no listed property: a mismatch is reported as a NOTE, at the step that causes it
          /\ (IF MinerCountStep(P, P') THEN TRUE
              ELSE PrintT(<<"NOTE", "C02", IF DoubleFail(e) THEN "miner-count-double-decrement" ELSE "miner-count-mismatch",
                            l, e.ev>>))
          /\ Chk("C02", "ReportRule", ReportRule(P, last', P'), "-", e)
          /\ Chk("C02", "ClaimsChangeOnlyByOwner", FailedCallbackDeletesOnlyThatClaim(P, last', P'), "-", e)
          /\ Chk("C03", "PledgeFrame", FrameRules(P, last', P'), "-", e)
          /\ Chk("C05", "CronEventsOnlyByMiners", CronEventsOnlyByMiners(P, last', P'), "-", e)
          /\ Chk("C05", "QueueKeeps", QueueKeeps(P, last', P'), "-", e)
          /\ Chk("C05", "TickDrainsDue", TickDrainsDue(P, last', P'), "-", e)
          /\ Chk("C05", "TickDispatchesDue", TickDispatchesDue(P, last'), "-", e)
          /\ Chk("C05", "FailedCallbackDeletesOnlyThatClaim", FailedCallbackDeletesOnlyThatClaim(P, last', P'), "-", e)
          /\ Chk("C05", "TickNeverFails", TickNeverFails(P, last', P'), "-", e)
          /\ Chk("C05", "CronNeverFails", CallbacksSucceed(e), CronTag(e), e)
          /\ Chk("C11", "CallerRules", CallerRules(P, last', P'), "-", e)
          /\ Chk("C11", "DesignatedAccepted", DesignatedAccepted(P, last'), "-", e)
          /\ Chk("C11", "RejectedIsNoop", RejectedIsNoop(P, last', P'), "-", e)
          /\ Chk("C11", "CreateForwardsValue", e.ev = "CreateMiner" => e.fwd, "-", e)
          /\ (IF Explained(e) THEN TRUE
              ELSE PrintT(<<"DRIFT", IF e.ev = "Tick" THEN "C05" ELSE IF e.ev = "UpdatePledgeTotal" THEN "C03"
                                     ELSE IF e.ev = "UpdateClaimedPower" THEN "C02" ELSE "C11", l, e.ev, e.ok>>))

TInit == Init /\ l = 1
TSpec == TInit /\ [][TStep]_<<vars, l>>

Accepted ==
  \/ TLCGet("stats").diameter = Len(Rec) + 1
  \/ PrintT(<<"UNMATCHED", TLCGet("stats").diameter, Len(Rec)>>) /\ FALSE
=============================================================================
