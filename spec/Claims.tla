------------------------------- MODULE Claims -------------------------------
(***************************************************************************)
(* Verified onboarding: the verified registry (VerifReg.tla: allocations,   *)
(* claims, DataCap) composed with one storage miner's sectors               *)
(* (actors/miner: ProveCommitSectors3 / ProveReplicaUpdates3 with piece     *)
(* manifests, ExtendSectorExpiration2 with maintain / drop claim lists,     *)
(* TerminateSectors, on-time expiry) at the granularity needed for C10.     *)
(*                                                                          *)
(* VR : as in VerifReg.tla.                                                 *)
(* SM = [sec : n -> S, alloc : SUBSET Nat, off]   (the miner Prov)          *)
(*   S = [st \in {"pre","live","term"},                                     *)
(*        exp, act, base,      expiration, activation, power-base epoch     *)
(*        vs, dw,              verified space; unverified deal weight       *)
(*        d, pat,              proving deadline; epoch of the first PoSt    *)
(*        at, pieces]          pre-commit epoch and the pieces it commits to*)
(*   piece = [id (0 = not verified), client, data, size]                    *)
(* verified_deal_weight = vs * (exp - base).  A sector's QA power is        *)
(* SectorSize + 9 * vs.  Window PoSts always arrive (the driver submits     *)
(* them): a sector is proven from the first opening of its deadline on and  *)
(* never faulty.  Money is not modelled.                                    *)
(***************************************************************************)
EXTENDS VerifReg

CONSTANTS D, W,                 \* proving deadlines per period, epochs per deadline
          PartSize,             \* sectors per partition
          MinLife, MaxLife,     \* min_sector_expiration, max_sector_expiration_extension
          PCDelay, PCWindow,    \* pre_commit_challenge_delay, max_prove_commit_duration
          DropPeriod,           \* end_of_life_claim_drop_period
          SectorSize,
          Prov,                 \* the miner whose sectors are modelled
          DupIdsAllowed,        \* TRUE = the extension rules as first written: finding 5 (repeated claim ids),
          MultiDeclAllowed      \*   finding 7 (a sector with claims in several declarations of a message)

VARIABLE SM
cvars == <<VR, SM, epoch, G, last>>

P == D * W
CFail(vr, sm) == [ok |-> FALSE, VR |-> vr, SM |-> sm]
COk(vr, sm) == [ok |-> TRUE, VR |-> vr, SM |-> sm]
Max(a, b) == IF a > b THEN a ELSE b
\* floor(a * b / c) without leaving TLC's 32-bit integers (a, b, c >= 0, c > 0)
MulDiv(a, b, c) == (a \div c) * b + ((a % c) * b) \div c

\* ---- proving-period arithmetic (as in Sectors.tla; off = the miner's period offset)
QuantUp(e, off) == LET r == (e - off) % P IN IF r = 0 THEN e ELSE e + (P - r)
PeriodStart(sm, e) == e - ((e - sm.off) % P)
CurDl(sm, e) == (e - PeriodStart(sm, e)) \div W
\* the next not-elapsed opening of deadline d
Open(sm, d, e) == LET o == PeriodStart(sm, e) + d * W IN IF e >= o + W THEN o + P ELSE o
Mutable(sm, d, e) == e < Open(sm, d, e) - W
\* the cron removes an expiring sector at the end of the first last-epoch-of-its-deadline >= exp
QExp(sm, d, x) == QuantUp(x, (sm.off + (d + 1) * W - 1) % P)

InAmt(sm) == {n \in DOMAIN sm.sec : sm.sec[n].st \in {"live", "term"}}
Pre(sm) == {n \in DOMAIN sm.sec : sm.sec[n].st = "pre"}
\* still in its partition (not terminated, not yet removed by the expiry cron)
Present(sm, n, e) == sm.sec[n].st = "live" /\ e <= QExp(sm, sm.sec[n].d, sm.sec[n].exp)
Proven(sm, n, e) == e >= sm.sec[n].pat
Active(sm, n, e) == Present(sm, n, e) /\ Proven(sm, n, e)
\* "live" in the sense of C10: not terminated and before its expiration epoch
LiveAt(sm, n, e) == sm.sec[n].st = "live" /\ e < sm.sec[n].exp
QA(s) == SectorSize + 9 * s.vs
PowQA(sm, e) == SumSet({n \in InAmt(sm) : Active(sm, n, e)}, [n \in InAmt(sm) |-> QA(sm.sec[n])])

PutSec(sm, n, s) == [sm EXCEPT !.sec = [x \in DOMAIN @ \cup {n} |-> IF x = n THEN s ELSE @[x]]]
NoSec == [st |-> "pre", exp |-> 0, act |-> 0, base |-> 0, vs |-> 0, dw |-> 0, d |-> 0, pat |-> 0, at |-> 0, pieces |-> <<>>]

-----------------------------------------------------------------------------
\* deadline assignment of newly proven sectors (actors/miner/src/deadline_assignment.rs), one sector
CeilDiv(a, b) == (a + b - 1) \div b
RECURSIVE LexLess(_, _)
LexLess(a, b) == IF Len(a) = 0 THEN FALSE ELSE IF a[1] # b[1] THEN a[1] < b[1] ELSE LexLess(Tail(a), Tail(b))
AssignDl(sm, e) ==
  LET total(x) == Cardinality({n \in InAmt(sm) : sm.sec[n].d = x})
      liveN(x) == Cardinality({n \in InAmt(sm) : sm.sec[n].d = x /\ Present(sm, n, e)})
      full(x) == total(x) % PartSize = 0
      key(x) == <<CeilDiv(liveN(x) + 1, PartSize), CeilDiv(total(x) + 1, PartSize), IF full(x) THEN 1 ELSE 0,
                  IF full(x) THEN 0 ELSE 0 - total(x), liveN(x), x>>
      cands == {x \in 0..(D - 1) : Mutable(sm, x, e)}
  IN  CHOOSE x \in cands : \A y \in cands \ {x} : LexLess(key(x), key(y))

-----------------------------------------------------------------------------
\* ProveCommitSectorsNI of one committed-capacity sector into deadline d
CommitNI(vr, sm, n, exp, d, e) ==
  IF d \notin 0..(D - 1) \/ ~Mutable(sm, d, e) \/ n \in sm.alloc \/ exp - e < MinLife \/ exp - e > MaxLife
  THEN CFail(vr, sm)
  ELSE COk(vr, [PutSec(sm, n, [NoSec EXCEPT !.st = "live", !.exp = exp, !.act = e, !.base = e, !.d = d,
                                            !.pat = Open(sm, d, e)])
                EXCEPT !.alloc = @ \cup {n}])

\* PreCommitSectorBatch2: secs = Seq of [n, exp, pieces]; the unsealed CID commits to the pieces
PreCommit(vr, sm, secs, e) ==
  IF \/ Len(secs) = 0
     \/ \E i, j \in 1..Len(secs) : i # j /\ secs[i].n = secs[j].n
     \/ \E i \in 1..Len(secs) : \/ secs[i].n \in sm.alloc
                                \/ secs[i].exp - (e + PCWindow) < MinLife \/ secs[i].exp > e + MaxLife
  THEN CFail(vr, sm)
  ELSE LET RECURSIVE Put(_, _)
           Put(s, i) == IF i > Len(secs) THEN s
                        ELSE Put(PutSec(s, secs[i].n, [NoSec EXCEPT !.exp = secs[i].exp, !.at = e, !.pieces = secs[i].pieces]), i + 1)
       IN  COk(vr, [Put(sm, 1) EXCEPT !.alloc = @ \cup {secs[i].n : i \in 1..Len(secs)}])

\* the registry request the miner builds from piece manifests (only the verified pieces)
RECURSIVE VerifiedOf(_)
VerifiedOf(ps) == IF Len(ps) = 0 THEN <<>>
                  ELSE (IF Head(ps).id # 0 THEN <<[client |-> Head(ps).client, id |-> Head(ps).id, data |-> Head(ps).data, size |-> Head(ps).size]>>
                        ELSE <<>>) \o VerifiedOf(Tail(ps))
RECURSIVE UnverifiedSpace(_)
UnverifiedSpace(ps) == IF Len(ps) = 0 THEN 0 ELSE (IF Head(ps).id = 0 THEN Head(ps).size ELSE 0) + UnverifiedSpace(Tail(ps))
RECURSIVE SizeOf(_)
SizeOf(ks) == IF Len(ks) = 0 THEN 0 ELSE Head(ks).size + SizeOf(Tail(ks))
SelectIdx(s, I) == LET RECURSIVE F(_)
                       F(i) == IF i > Len(s) THEN <<>> ELSE (IF i \in I THEN <<s[i]>> ELSE <<>>) \o F(i + 1)
                   IN  F(1)

\* activate_sectors_pieces: groups = Seq of [sector, expiry, pieces]; result [ok, VR, good : SUBSET index]
ActivatePieces(vr, groups, aon, e) ==
  LET reqs == [i \in 1..Len(groups) |-> [sector |-> groups[i].sector, expiry |-> groups[i].expiry, claims |-> VerifiedOf(groups[i].pieces)]]
  IN  IF \A i \in 1..Len(groups) : Len(reqs[i].claims) = 0 THEN [ok |-> TRUE, VR |-> vr, good |-> 1..Len(groups)]
      ELSE LET r == Claim(vr, Prov, reqs, aon, e) IN
           IF ~r.ok THEN [ok |-> FALSE, VR |-> vr, good |-> {}]
           ELSE [ok |-> TRUE, VR |-> r.VR, good |-> {i \in 1..Len(groups) : r.res[i]}]

\* ProveCommitSectors3: secs = Seq of [n, pieces]
ProveCommit(vr, sm, secs, requireAll, e) ==
  LET ns == [i \in 1..Len(secs) |-> secs[i].n] IN
  IF Len(secs) = 0 \/ ~NoDup(ns) \/ \E i \in 1..Len(secs) : ns[i] \notin Pre(sm) THEN CFail(vr, sm)
  ELSE IF \E i \in 1..Len(secs) : e <= sm.sec[ns[i]].at + PCDelay THEN CFail(vr, sm)        \* too early
  ELSE LET valid == {i \in 1..Len(secs) : e <= sm.sec[ns[i]].at + PCWindow}
       IN  IF valid = {} \/ (requireAll /\ valid # 1..Len(secs)) THEN CFail(vr, sm)
           \* the declared pieces must hash to the pre-committed unsealed CID
           ELSE IF \E i \in valid : secs[i].pieces # sm.sec[ns[i]].pieces THEN CFail(vr, sm)
           ELSE LET vidx == SelectIdx([i \in 1..Len(secs) |-> i], valid)
                    groups == [k \in 1..Len(vidx) |-> [sector |-> ns[vidx[k]], expiry |-> sm.sec[ns[vidx[k]]].exp, pieces |-> secs[vidx[k]].pieces]]
                    a == ActivatePieces(vr, groups, requireAll, e)
                IN  IF ~a.ok \/ a.good = {} THEN CFail(vr, sm)
                    ELSE IF \E k \in a.good : groups[k].expiry - e < MinLife THEN CFail(vr, sm)
                    ELSE LET done == SelectIdx([k \in 1..Len(vidx) |-> vidx[k]], a.good)   \* indices into secs, in order
                             \* sectors are assigned to deadlines one by one in sector-number order
                             RECURSIVE Place(_, _)
                             Place(s, todo) ==
                               IF todo = {} THEN s
                               ELSE LET i == CHOOSE x \in todo : \A y \in todo : ns[x] <= ns[y]
                                        n == ns[i]
                                        dd == AssignDl(s, e)
                                        old == s.sec[n]
                                    IN  Place(PutSec(s, n, [old EXCEPT !.st = "live", !.act = e, !.base = e, !.d = dd, !.pat = Open(s, dd, e),
                                                                        !.vs = SizeOf(VerifiedOf(old.pieces)),
                                                                        !.dw = UnverifiedSpace(old.pieces) * (old.exp - e)]), todo \ {i})
                         IN  [ok |-> TRUE, VR |-> a.VR, SM |-> Place(sm, {done[k] : k \in 1..Len(done)}),
                              res |-> [i \in 1..Len(secs) |-> i \in {done[k] : k \in 1..Len(done)}]]

\* ProveReplicaUpdates3: ups = Seq of [n, pieces] (the driver fills in deadline and partition)
ReplicaUpdate(vr, sm, ups, requireAll, e) ==
  LET ns == [i \in 1..Len(ups) |-> ups[i].n] IN
  IF Len(ups) = 0 \/ \E i \in 1..Len(ups) : ns[i] \notin InAmt(sm) THEN CFail(vr, sm)
  ELSE LET valid == {i \in 1..Len(ups) :
                       /\ \A j \in 1..(i - 1) : ns[j] # ns[i]
                       /\ Mutable(sm, sm.sec[ns[i]].d, e) /\ Active(sm, ns[i], e)
                       /\ sm.sec[ns[i]].vs = 0 /\ sm.sec[ns[i]].dw = 0}
       IN  IF valid = {} \/ (requireAll /\ valid # 1..Len(ups)) THEN CFail(vr, sm)
           ELSE LET vidx == SelectIdx([i \in 1..Len(ups) |-> i], valid)
                    groups == [k \in 1..Len(vidx) |-> [sector |-> ns[vidx[k]], expiry |-> sm.sec[ns[vidx[k]]].exp, pieces |-> ups[vidx[k]].pieces]]
                    a == ActivatePieces(vr, groups, requireAll, e)
                IN  IF ~a.ok \/ a.good = {} THEN CFail(vr, sm)
                    ELSE LET done == {vidx[k] : k \in a.good}
                             sm2 == [sm EXCEPT !.sec = [n \in DOMAIN @ |->
                                       IF \E i \in done : ns[i] = n
                                       THEN LET i == CHOOSE i \in done : ns[i] = n IN
                                            [@[n] EXCEPT !.base = e, !.vs = SizeOf(VerifiedOf(ups[i].pieces)),
                                                         !.dw = UnverifiedSpace(ups[i].pieces) * (sm.sec[n].exp - e)]
                                       ELSE @[n]]]
                         IN  [ok |-> TRUE, VR |-> a.VR, SM |-> sm2, res |-> [i \in 1..Len(ups) |-> i \in done]]

\* ExtendSectorExpiration2: decls = Seq of [n, exp, maintain, drop] -- one declaration per entry, naming one
\* sector; maintain / drop = Seq of claim ids; both empty = the sector is listed without claims.
\* The registry is only read.  claim_space_by_sector is accumulated over the WHOLE message, the sectors are
\* then extended declaration by declaration (a later declaration sees the sector as the earlier one left it).
\* As first written the code (a) did not require the declared ids to be distinct (finding 5) and
\* (b) let a sector declared with claims appear in further declarations of the message (finding 7): the two
\* constants select the as-written behaviour; both FALSE = what C10 needs.
\* The miner does not record WHICH claims back a sector: a claim dropped earlier stays in the registry and may
\* be declared again later in place of another claim of the same size ("substitution"; the sector is then
\* backed by that claim -- C10 reads "backed by registry claims" existentially).
DeclIds(dc) == dc.maintain \o dc.drop
RECURSIVE AllIds(_)
AllIds(decls) == IF Len(decls) = 0 THEN <<>> ELSE DeclIds(Head(decls)) \o AllIds(Tail(decls))
ExtendOne(vr, sm, dc, space, e) ==
  IF dc.n \notin InAmt(sm) THEN [ok |-> FALSE, SM |-> sm]
  ELSE LET s == sm.sec[dc.n]
           sp == space[dc.n]
       IN  IF \/ ~Active(sm, dc.n, e) \/ s.exp < e \/ dc.exp < s.exp
              \/ dc.exp - s.act < MinLife \/ dc.exp > e + MaxLife
              \* (the new power-base epoch is e: an "extension" to e itself leaves a duration of 0, and the
              \*  actor aborts in the QA-power division -- observed as a panic, recorded as a NOTE)
              \/ dc.exp <= e
           THEN [ok |-> FALSE, SM |-> sm]
           ELSE IF s.vs > 0 /\ (~sp.has \/ sp.check # s.vs \/ (sp.check # sp.keep /\ s.exp - e > DropPeriod))
           THEN [ok |-> FALSE, SM |-> sm]
           ELSE [ok |-> TRUE,
                 SM |-> PutSec(sm, dc.n, [s EXCEPT !.exp = dc.exp, !.base = e,
                                                   !.vs = IF s.vs > 0 THEN sp.keep ELSE 0,
                                                   !.dw = IF s.dw > 0 THEN MulDiv(s.dw, s.exp - e, s.exp - s.base) ELSE 0])]
RECURSIVE ExtendFoldC(_, _, _, _, _, _)
ExtendFoldC(vr, sm, decls, i, space, e) ==
  IF i > Len(decls) THEN [ok |-> TRUE, SM |-> sm]
  ELSE LET r == ExtendOne(vr, sm, decls[i], space, e) IN
       IF ~r.ok THEN r ELSE ExtendFoldC(vr, r.SM, decls, i + 1, space, e)
Extend(vr, sm, decls, e) ==
  LET ids == AllIds(decls)
      ns == {decls[i].n : i \in 1..Len(decls)}
      known == \A k \in 1..Len(ids) : ids[k] \in DOMAIN vr.claims /\ vr.claims[ids[k]].provider = Prov
      sizeOf(q) == SumInts([k \in 1..Len(q) |-> vr.claims[q[k]].size])
      mine(n) == {i \in 1..Len(decls) : decls[i].n = n}
      space == [n \in ns |-> [has |-> \E i \in mine(n) : Len(DeclIds(decls[i])) > 0,
                              check |-> SumSet(mine(n), [i \in mine(n) |-> sizeOf(DeclIds(decls[i]))]),
                              keep |-> SumSet(mine(n), [i \in mine(n) |-> sizeOf(decls[i].maintain)])]]
  IN
  IF ~known THEN CFail(vr, sm)                                            \* GetClaims does not find them all
  ELSE IF \E i \in 1..Len(decls) : \E k \in 1..Len(DeclIds(decls[i])) : vr.claims[DeclIds(decls[i])[k]].sector # decls[i].n THEN CFail(vr, sm)
  ELSE IF \E i \in 1..Len(decls) : \E k \in 1..Len(decls[i].maintain) :
             decls[i].exp > vr.claims[decls[i].maintain[k]].tstart + vr.claims[decls[i].maintain[k]].tmax THEN CFail(vr, sm)
  ELSE IF ~DupIdsAllowed /\ ~NoDup(ids) THEN CFail(vr, sm)                \* every id at most once
  ELSE IF ~MultiDeclAllowed /\ \E i, j \in 1..Len(decls) : i # j /\ decls[i].n = decls[j].n /\ Len(DeclIds(decls[i])) > 0
       THEN CFail(vr, sm)                                                 \* a sector with claims is declared once
  ELSE LET r == ExtendFoldC(vr, sm, decls, 1, space, e) IN
       IF r.ok THEN COk(vr, r.SM) ELSE CFail(vr, sm)

\* TerminateSectors for one sector
Terminate(vr, sm, n, e) ==
  IF n \notin InAmt(sm) THEN CFail(vr, sm)
  ELSE IF ~Present(sm, n, e) \/ ~Mutable(sm, sm.sec[n].d, e) THEN CFail(vr, sm)
  ELSE COk(vr, PutSec(sm, n, [sm.sec[n] EXCEPT !.st = "term"]))

\* registry calls leave the miner alone
OnVR(r, sm) == r @@ [SM |-> sm]

\* a call record -> [ok, VR, SM, (results)]
CDo(vr, sm, call, e) ==
  CASE call.a = "Transfer" -> OnVR(Transfer(vr, call.c, call.to, call.amt, call.allocs, call.exts, e), sm)
    [] call.a = "ExtendClaimTerms" -> OnVR(ExtendClaimTerms(vr, call.c, call.terms), sm)
    [] call.a = "RemoveExpiredClaims" -> OnVR(RemoveExpiredClaims(vr, call.p, call.ids, e), sm)
    [] call.a = "RemoveExpiredAllocs" -> OnVR(RemoveExpiredAllocs(vr, call.cl, call.ids, e), sm)
    [] call.a = "CommitNI" -> CommitNI(vr, sm, call.n, call.exp, call.d, e)
    [] call.a = "PreCommit" -> PreCommit(vr, sm, call.secs, e)
    [] call.a = "ProveCommit" -> ProveCommit(vr, sm, call.secs, call.requireAll, e)
    [] call.a = "ReplicaUpdate" -> ReplicaUpdate(vr, sm, call.ups, call.requireAll, e)
    [] call.a = "Extend" -> Extend(vr, sm, call.decls, e)
    [] call.a = "Terminate" -> Terminate(vr, sm, call.n, e)

\* what can be observed of SM in the real state at epoch e
AbsSM(sm, e) ==
  [sec |-> [n \in InAmt(sm) |->
              LET s == sm.sec[n] out == s.st = "term" \/ e > QExp(sm, s.d, s.exp) IN
              [out |-> out, exp |-> s.exp, act |-> s.act, base |-> s.base, vs |-> s.vs, dw |-> s.dw, d |-> s.d,
               proven |-> out \/ Proven(sm, n, e)]],
   pre |-> [n \in {k \in Pre(sm) : e <= sm.sec[k].at + PCWindow} |-> <<sm.sec[n].exp, sm.sec[n].at>>],
   alloc |-> sm.alloc,
   qa |-> PowQA(sm, e),
   raw |-> SectorSize * Cardinality({n \in InAmt(sm) : Active(sm, n, e)})]

-----------------------------------------------------------------------------
(* Layer P: C10, from the English statement.  All formulas take the states explicitly: (vr, sm, e)       *)
(* before and (vr2, sm2) after the step recorded in l.                                                *)
ClaimsOf(vr, n) == {i \in DOMAIN vr.claims : vr.claims[i].provider = Prov /\ vr.claims[i].sector = n}
Sizes(vr, S) == SumSet(S, [i \in S |-> vr.claims[i].size])
TermEnd(vr, i) == vr.claims[i].tstart + vr.claims[i].tmax
Covers(vr, i, act, exp) == /\ vr.claims[i].tstart >= act
                           /\ vr.claims[i].tstart + vr.claims[i].tmin <= exp /\ exp <= TermEnd(vr, i)

\* "every verified-data weight credited to a live sector is backed by registry claims for that provider and
\*  sector whose sizes add up to the sector's verified space, each such claim started no earlier than the
\*  sector was activated, and the sector's expiration lies between the claim's minimum and maximum term"
\* (the miner records no identity of the backing claims: there IS such a set of claims)
Backed(vr, sm, e) ==
  \A n \in InAmt(sm) : LiveAt(sm, n, e) =>
     \E B \in SUBSET ClaimsOf(vr, n) :
        /\ Sizes(vr, B) = sm.sec[n].vs
        /\ \A i \in B : Covers(vr, i, sm.sec[n].act, sm.sec[n].exp)
\* the three clauses separately, for diagnosis (which one has no witness)
WeightBacked(vr, sm, e) ==
  \A n \in InAmt(sm) : LiveAt(sm, n, e) => \E B \in SUBSET ClaimsOf(vr, n) : Sizes(vr, B) = sm.sec[n].vs
ClaimStartsAfterActivation(vr, sm, e) ==
  \A n \in InAmt(sm) : LiveAt(sm, n, e) =>
     \E B \in SUBSET ClaimsOf(vr, n) : Sizes(vr, B) = sm.sec[n].vs /\ \A i \in B : vr.claims[i].tstart >= sm.sec[n].act
ExpirationWithinTerms(vr, sm, e) ==
  \A n \in InAmt(sm) : LiveAt(sm, n, e) =>
     \E B \in SUBSET ClaimsOf(vr, n) :
        /\ Sizes(vr, B) = sm.sec[n].vs
        /\ \A i \in B : vr.claims[i].tstart + vr.claims[i].tmin <= sm.sec[n].exp /\ sm.sec[n].exp <= TermEnd(vr, i)

\* "a sector may be extended past a claim's maximum term only by dropping that claim (and its extra power)
\*  within the final [drop period] of the sector's life": an accepted extension of a sector with verified
\*  weight accounts for that weight claim by claim -- the declared ids are distinct claims of that sector,
\*  maintained + dropped = the old verified space, every maintained claim's term covers the new expiration,
\*  the new verified space is exactly the maintained one (QA power falls by 9 x the dropped space), and
\*  something is dropped only inside the drop period
RECURSIVE CatMaintain(_, _)
CatMaintain(decls, n) == IF Len(decls) = 0 THEN <<>>
                         ELSE (IF Head(decls).n = n THEN Head(decls).maintain ELSE <<>>) \o CatMaintain(Tail(decls), n)
RECURSIVE CatDrop(_, _)
CatDrop(decls, n) == IF Len(decls) = 0 THEN <<>>
                     ELSE (IF Head(decls).n = n THEN Head(decls).drop ELSE <<>>) \o CatDrop(Tail(decls), n)
SeqSizes(vr, q) == SumInts([k \in 1..Len(q) |-> vr.claims[q[k]].size])
ExtendPastMaxOnlyByDrop(vr, sm, e, sm2, l) ==
  (l.a = "Extend" /\ l.ok) =>
     \A n \in {l.decls[i].n : i \in 1..Len(l.decls)} \cap InAmt(sm) \cap InAmt(sm2) :
        LET mt == CatMaintain(l.decls, n)
            dr == CatDrop(l.decls, n)
        IN  IF sm.sec[n].vs = 0 THEN sm2.sec[n].vs = 0
            ELSE /\ NoDup(mt \o dr) /\ SeqSet(mt \o dr) \subseteq ClaimsOf(vr, n)
                 /\ \A k \in 1..Len(mt) : sm2.sec[n].exp <= TermEnd(vr, mt[k])
                 /\ SeqSizes(vr, mt \o dr) = sm.sec[n].vs
                 /\ Len(dr) > 0 => sm.sec[n].exp - e <= DropPeriod
DroppedWeightGone(vr, sm, sm2, l) ==
  (l.a = "Extend" /\ l.ok) =>
     \A n \in {l.decls[i].n : i \in 1..Len(l.decls)} \cap InAmt(sm) \cap InAmt(sm2) :
        sm.sec[n].vs > 0 =>
           LET mt == CatMaintain(l.decls, n)
               dr == CatDrop(l.decls, n)
           IN  (SeqSet(mt \o dr) \subseteq ClaimsOf(vr, n)) =>
                  /\ sm2.sec[n].vs = SeqSizes(vr, mt)
                  /\ NoDup(mt \o dr) => QA(sm2.sec[n]) = QA(sm.sec[n]) - 9 * SeqSizes(vr, dr)
\* expirations move and verified weight shrinks in no other way; weight grows only by new claims of that size
WeightChangesOnlyByDecl(vr, sm, vr2, sm2, l) ==
  \A n \in InAmt(sm) \cap InAmt(sm2) :
     /\ (sm2.sec[n].exp # sm.sec[n].exp \/ sm2.sec[n].vs < sm.sec[n].vs) =>
           (l.a = "Extend" /\ l.ok /\ \E i \in 1..Len(l.decls) : l.decls[i].n = n)
     /\ sm2.sec[n].vs > sm.sec[n].vs =>
           sm2.sec[n].vs - sm.sec[n].vs = Sizes(vr2, ClaimsOf(vr2, n) \ ClaimsOf(vr, n))
\* "claims or allocations can be removed only after they have expired"
AllocRemovalOnlyExpired ==
  \A i \in DOMAIN VR.allocs \ DOMAIN VR'.allocs :
     \/ i \in DOMAIN VR'.claims
     \/ last'.a = "RemoveExpiredAllocs" /\ last'.ok /\ epoch >= VR.allocs[i].exp
\* ("a claim's maximum term never decreases": ClaimTermsMonotone; claims: ClaimRemovalOnlyExpired -- VerifReg.tla)

\* ghost, for statistics only: the claim ids given up in accepted extensions
CGhostNext(g, l) == [g EXCEPT !.dropped = @ \cup (IF l.a = "Extend" /\ l.ok
                                                    THEN UNION {SeqSet(l.decls[i].drop) : i \in 1..Len(l.decls)} ELSE {})]

CStateInv(vr, sm, e) == Backed(vr, sm, e)
CStepProps == /\ ExtendPastMaxOnlyByDrop(VR, SM, epoch, SM', last')
              /\ DroppedWeightGone(VR, SM, SM', last')
              /\ WeightChangesOnlyByDecl(VR, SM, VR', SM', last')
              /\ ClaimTermsMonotone /\ ClaimRemovalOnlyExpired /\ AllocRemovalOnlyExpired
              /\ ((~last'.ok) => (VR' = VR /\ SM' = SM))
=============================================================================
