---------------------------- MODULE MC_Multisig ----------------------------
(* Bounded model of Multisig for TLC (exhaustive: MC_Multisig.cfg; simulation/export:
   Sim_Multisig.cfg).  Rejected calls are steps too (recorded in last/hist). *)
EXTENDS Multisig, Json, Randomization

CONSTANTS Accounts,      \* candidate signers / callers (besides the wallet itself)
          Outsider,      \* recipient / stranger
          MaxVal, MaxNext, MaxEpoch, MaxBal, ExportLen, Rich

VARIABLE hist
mcvars == <<vars, hist>>

Addrs == Accounts \cup {W}
Ids == 0..(MaxNext - 1)

SimplePayloads ==
     {[k |-> "pay", to |-> Outsider], [k |-> "failcall", to |-> Outsider]}
  \cup {[k |-> "add", s |-> a, inc |-> i] : a \in Addrs, i \in (IF Rich THEN BOOLEAN ELSE {FALSE})}
  \cup {[k |-> "remove", s |-> a, dec |-> d] : a \in Addrs, d \in BOOLEAN}
  \cup {[k |-> "swap", from |-> a, to |-> b] : a \in Accounts, b \in (IF Rich THEN Addrs ELSE {W})}
  \cup {[k |-> "th", n |-> n] : n \in (IF Rich THEN 0..3 ELSE 1..2)}
  \cup {[k |-> "lock", start |-> st, dur |-> d, amt |-> 2] : st \in {0, 2}, d \in (IF Rich THEN {0, 4} ELSE {4})}

ReentrantPayloads ==
     {[k |-> "approve", id |-> i, hashOK |-> TRUE] : i \in Ids}
  \cup {[k |-> "cancel", id |-> i, hashOK |-> TRUE] : i \in Ids}
  \cup {[k |-> "propose", tx |-> [val |-> 1, p |-> [k |-> "pay", to |-> Outsider]]],
        [k |-> "propose", tx |-> [val |-> 0, p |-> [k |-> "th", n |-> 1]]]}

TxSpace == {[val |-> v, p |-> p] : v \in 0..MaxVal, p \in {q \in SimplePayloads : q.k \in {"pay", "failcall"}}}
      \cup {[val |-> 0, p |-> p] : p \in {q \in SimplePayloads : q.k \notin {"pay", "failcall"}} \cup ReentrantPayloads}
      \cup (IF Rich THEN {[val |-> -1, p |-> [k |-> "pay", to |-> Outsider]],
                          [val |-> 1, p |-> [k |-> "th", n |-> 1]]} ELSE {})

\* calls a user can make to the wallet
CallSpace ==
     {[k |-> "propose", tx |-> t] : t \in TxSpace}
  \cup {[k |-> "approve", id |-> i, hashOK |-> h] : i \in Ids, h \in BOOLEAN}
  \cup {[k |-> "cancel", id |-> i, hashOK |-> h] : i \in Ids, h \in BOOLEAN}
  \cup {p \in SimplePayloads : p.k \in {"add", "th", "lock"}}        \* direct admin calls: must be refused

Users == Accounts \cup {Outsider}

Rec(r) == /\ last' = r /\ hist' = Append(hist, r)

MsgOK  == \E c \in Users, p \in CallSpace :
            /\ Msg(c, p)
            /\ Rec([a |-> "Msg", ok |-> TRUE, c |-> c, p |-> p, ex |-> Call(S, c, p, epoch).ex])
MsgRej == \E c \in Users, p \in CallSpace :
            /\ ~CanMsg(c, p) /\ UNCHANGED <<S, epoch, sentIds>>
            /\ Rec([a |-> "Msg", ok |-> FALSE, c |-> c, p |-> p, ex |-> <<>>])
DepositOK == \E a \in 1..2 : Deposit(a) /\ Rec([a |-> "Deposit", ok |-> TRUE, amt |-> a, ex |-> <<>>])
TickOK == \E n \in 1..2 : Tick(n) /\ Rec([a |-> "Tick", ok |-> TRUE, n |-> n, ex |-> <<>>])

MCNext == MsgOK \/ MsgRej \/ DepositOK \/ TickOK

SimMsgOK  == \E c \in Users : \E p \in RandomSubset(40, CallSpace) :
            /\ Msg(c, p)
            /\ Rec([a |-> "Msg", ok |-> TRUE, c |-> c, p |-> p, ex |-> Call(S, c, p, epoch).ex])
SimMsgRej == \E c \in Users : \E p \in RandomSubset(3, CallSpace) :
            /\ ~CanMsg(c, p) /\ UNCHANGED <<S, epoch, sentIds>>
            /\ Rec([a |-> "Msg", ok |-> FALSE, c |-> c, p |-> p, ex |-> <<>>])
SimNext == SimMsgOK \/ SimMsgOK \/ SimMsgOK \/ SimMsgRej \/ DepositOK \/ TickOK

\* the wallet as created by the init actor: any signer set / threshold, optionally a vesting lock
\* over the constructor value
MCInit ==
  /\ \E sg \in (SUBSET Accounts) \ {{}} : \E th \in 1..Cardinality(sg) : \E lk \in {0, 1} :
       S = [signers |-> sg, th |-> th, next |-> 0, pend |-> <<>>,
            lock |-> IF lk = 0 THEN [init |-> 0, start |-> 0, dur |-> 0]
                               ELSE [init |-> 2, start |-> 0, dur |-> 4],
            bal |-> IF lk = 0 THEN 0 ELSE 2]
  /\ epoch = 0 /\ sentIds = {}
  /\ hist = <<[a |-> "Create", signers |-> S.signers, th |-> S.th, lock |-> S.lock, bal |-> S.bal]>>
  /\ last = [a |-> "Init", ok |-> TRUE, ex |-> <<>>]

MCSpec == MCInit /\ [][MCNext]_mcvars
SimSpec == MCInit /\ [][SimNext]_mcvars

Bound == epoch <= MaxEpoch /\ S.bal <= MaxBal /\ S.next <= MaxNext
View == <<S, epoch, sentIds>>
StepOK == [][StepProps]_mcvars
Export == Len(hist) # ExportLen \/ PrintT(<<"REPLAY", ToJson(hist)>>)
=============================================================================
