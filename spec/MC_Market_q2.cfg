SPECIFICATION MCSpec
CONSTANTS MinDur = 518400
          MaxDur = 3680640
          Interval = 86400
          Parties = {"c1", "c2", "m1", "m2", "x"}
          Miners = {"m1", "m2"}
          OwnerOf <- OwnerOfDef
          WorkerOf <- WorkerOfDef
          MaxEpochs = 0
          MaxDeals = 2
          ExportLen = 0
          Rich = FALSE
CONSTRAINT Bound
VIEW View
INVARIANT Inv
PROPERTY StepOK
ACTION_CONSTRAINT Tour
CHECK_DEADLOCK FALSE
