---------------------------- MODULE Trace_Paych ----------------------------
(* Trace validation: every recorded step of the REAL paych actor (harness/src/paych.rs)
   is checked against Paych.tla.
     Layer P  (properties): Solvent and the conjuncts of StepProps are evaluated on the recorded
              (pre, call, post); a false one prints a VIOL line (-> VIOLATION, exit 1).
     Layer R  (refinement): is the recorded step a step of the spec action / is the rejection
              justified by the spec guard?  If not a DRIFT line is printed (exit 0, diagnostic).
   Every event carries the full projected state, so the search is linear. *)
EXTENDS Paych, Json, IOUtils

VARIABLE l

Rec == ndJsonDeserialize(IOEnv.TRACE)

ToLanes(arr) ==
  LET ids == {arr[i][1] : i \in 1..Len(arr)}
  IN  [x \in ids |-> LET i == CHOOSE j \in 1..Len(arr) : arr[j][1] = x
                     IN  [redeemed |-> arr[i][2], nonce |-> arr[i][3]]]

BindSt(s) ==
  /\ bal' = s.bal /\ toSend' = s.toSend /\ settlingAt' = s.settlingAt /\ minSettle' = s.minSettle
  /\ lanes' = ToLanes(s.lanes) /\ alive' = s.alive /\ epoch' = s.epoch

LastOf(e) ==
  CASE e.ev = "Voucher" -> [a |-> "Voucher", ok |-> e.ok, v |-> e.v]
    [] e.ev = "Settle"  -> [a |-> "Settle", ok |-> e.ok, c |-> e.c]
    [] e.ev = "Collect" -> [a |-> "Collect", ok |-> e.ok, c |-> e.c]
    [] e.ev = "Deposit" -> [a |-> "Deposit", ok |-> e.ok, amt |-> e.amt]
    [] OTHER            -> [a |-> e.ev, ok |-> e.ok]

\* Layer R: the spec's own transition relation, evaluated as a predicate on the bound step
Explained(e) ==
  CASE e.ev = "Voucher" -> IF e.ok THEN Voucher(e.v) ELSE ~CanVoucher(e.v) /\ UNCHANGED core
    [] e.ev = "Settle"  -> IF e.ok THEN Settle(e.c) ELSE ~CanSettle(e.c) /\ UNCHANGED core
    [] e.ev = "Collect" -> IF e.ok THEN Collect(e.c) ELSE ~CanCollect(e.c) /\ UNCHANGED core
    [] e.ev = "Deposit" -> IF e.ok THEN Deposit(e.amt) ELSE ~CanDeposit(e.amt) /\ UNCHANGED core
    [] e.ev = "Tick"    -> Tick(e.n)
    [] OTHER            -> FALSE

\* tags let the checker match a violation against /verif/known_findings.json
DupMerge(e) == e.ev = "Voucher" /\ Cardinality(MergedLanes(e.v)) < Len(e.v.merges)
Tag(e) == IF DupMerge(e) THEN "dup-merge-lane" ELSE "-"

Chk(prop, name, holds, e) == IF holds THEN TRUE ELSE PrintT(<<"VIOL", prop, name, l, Tag(e), e.ev>>)

TStep ==
  /\ l <= Len(Rec)
  /\ l' = l + 1
  /\ LET e == Rec[l] IN
     IF e.ev \in {"Init", "Reset"}
     THEN /\ BindSt(e.st) /\ settledAt' = -1 /\ paid' = [payee |-> 0, payer |-> 0]
          /\ last' = [a |-> "Init", ok |-> TRUE]
     ELSE /\ BindSt(e.st)
          /\ last' = LastOf(e)
          /\ settledAt' = IF e.ev = "Settle" /\ e.ok THEN epoch ELSE settledAt
          /\ paid' = IF e.ev = "Collect" /\ e.ok THEN e.paid ELSE paid
          /\ Chk("C16", "Solvent", Solvent', e)
          \* C01: "a payment channel holds at least what it owes the payee" after every successful message, and a
          \* collection pays out the whole balance (nothing is stranded in the deleted actor)
          /\ Chk("C01", "PaychSolvent", Solvent', e)
          /\ Chk("C01", "PaychCollectPaysAll", CollectRules, e)
          /\ Chk("C16", "OwedChangeJustified", OwedChangeJustified, e)
          /\ Chk("C16", "ExactDelta", ExactDelta, e)
          /\ Chk("C16", "NoncesGrow", NoncesGrow, e)
          /\ Chk("C16", "RejectedIsNoop", RejectedIsNoop, e)
          /\ Chk("C16", "SettleRules", SettleRules, e)
          /\ Chk("C16", "CollectRules", CollectRules, e)
          /\ (IF Explained(e) THEN TRUE ELSE PrintT(<<"DRIFT", "C16", l, e.ev, e.ok>>))

TInit == Init /\ l = 1
TSpec == TInit /\ [][TStep]_<<vars, l>>

Accepted ==
  \/ TLCGet("stats").diameter = Len(Rec) + 1
  \/ PrintT(<<"UNMATCHED", TLCGet("stats").diameter, Len(Rec)>>) /\ FALSE
=============================================================================
