---------------------------- MODULE MinerControl ----------------------------
(***************************************************************************)
(* Who controls a miner actor (actors/miner: ChangeOwnerAddress,           *)
(* ChangeWorkerAddress, ConfirmChangeWorkerAddress, ChangeBeneficiary,     *)
(* WithdrawBalance's caller/quota rules, and the pending-worker step of    *)
(* the proving-deadline cron callback).                                    *)
(*                                                                         *)
(* M = [owner, pOwner, worker, pWorker, control, ben, term, pBen]          *)
(*   pOwner  : address or "none"                                           *)
(*   pWorker : [addr, at] or [addr |-> "none", at |-> 0]                   *)
(*   term    : [quota, used, exp]                                          *)
(*   pBen    : [addr, quota, exp, aBen, aNom]  (addr = "none": no proposal)*)
(* Methods are pure functions returning [ok, M, paid].                     *)
(***************************************************************************)
EXTENDS Integers, Sequences, FiniteSets, TLC

CONSTANTS WorkerDelay,     \* policy.worker_key_change_delay
          WorkerOK         \* set of addresses that are BLS account actors (valid workers)

VARIABLES M, epoch,
          G,       \* ghost, derived from the CALLS seen (never from the actor's own flags):
                   \* [reqAt, pOwnerBy, prop: [addr, quota, exp, by, benOK, nomOK]]
          last     \* [a, ok, c, ...args, paid, avail]

vars == <<M, epoch, G, last>>

None == "none"
NoWorker == [addr |-> None, at |-> 0]
NoBen == [addr |-> None, quota |-> 0, exp |-> 0, aBen |-> FALSE, aNom |-> FALSE]
NoProp == [addr |-> None, quota |-> 0, exp |-> 0, by |-> None, benOK |-> FALSE, nomOK |-> FALSE]

Max0(x) == IF x < 0 THEN 0 ELSE x
TermAvail(t, e) == IF t.exp > e THEN Max0(t.quota - t.used) ELSE 0
Min(a, b) == IF a < b THEN a ELSE b

Fail(m) == [ok |-> FALSE, M |-> m, paid |-> 0]
Ok(m) == [ok |-> TRUE, M |-> m, paid |-> 0]

ClearNoop(m) == IF m.pOwner = m.owner THEN [m EXCEPT !.pOwner = None] ELSE m

ChangeOwner(m, c, new) ==
  IF c = m.owner \/ m.pOwner = None THEN
       IF c # m.owner THEN Fail(m) ELSE Ok(ClearNoop([m EXCEPT !.pOwner = new]))
  ELSE IF c # m.pOwner \/ new # m.pOwner THEN Fail(m)
  ELSE Ok(ClearNoop([m EXCEPT !.owner = m.pOwner,
                              !.ben = IF m.ben = m.owner THEN m.pOwner ELSE m.ben,
                              !.pBen = NoBen]))

ChangeWorker(m, c, nw, ctl, e) ==
  IF nw \notin WorkerOK \/ c # m.owner THEN Fail(m)
  ELSE Ok([m EXCEPT !.control = ctl,
                    !.pWorker = IF nw # m.worker /\ m.pWorker.addr = None
                                THEN [addr |-> nw, at |-> e + WorkerDelay] ELSE @])

ProcessPendingWorker(m, e) ==
  IF m.pWorker.addr # None /\ e >= m.pWorker.at
  THEN [m EXCEPT !.worker = m.pWorker.addr, !.pWorker = NoWorker] ELSE m

ConfirmWorker(m, c, e) == IF c # m.owner THEN Fail(m) ELSE Ok(ProcessPendingWorker(m, e))

ApplyBen(m, c, nb) ==
  LET p1 == [m.pBen EXCEPT !.aBen = @ \/ c = m.ben, !.aNom = @ \/ c = nb] IN
  IF p1.aBen /\ p1.aNom
  THEN [m EXCEPT !.ben = nb,
                 !.term = [quota |-> p1.quota, exp |-> p1.exp,
                           used |-> IF nb # m.ben THEN 0 ELSE m.term.used],
                 !.pBen = NoBen]
  ELSE [m EXCEPT !.pBen = p1]

ChangeBen(m, c, nb, q, x, e) ==
  IF c = m.owner THEN
     IF (nb # m.owner /\ q <= 0) \/ (nb = m.owner /\ (q # 0 \/ x # 0)) THEN Fail(m)
     ELSE Ok(ApplyBen([m EXCEPT !.pBen = [addr |-> nb, quota |-> q, exp |-> x,
                                          aBen |-> TermAvail(m.term, e) = 0, aNom |-> FALSE]], c, nb))
  ELSE IF m.pBen.addr = None THEN Fail(m)
  ELSE IF (c # m.ben /\ c # m.pBen.addr) \/ nb # m.pBen.addr \/ q # m.pBen.quota \/ x # m.pBen.exp
       THEN Fail(m)
  ELSE Ok(ApplyBen(m, c, nb))

\* caller/quota side of WithdrawBalance; `avail` = the miner's available balance (decided by the
\* Vesting module; logged on the real side), canPay = no early terminations pending, debt repayable
Withdraw(m, c, req, avail, canPay, e) ==
  IF req < 0 \/ (c # m.owner /\ c # m.ben) \/ ~canPay \/ avail < 0 THEN Fail(m)
  ELSE LET a0 == Min(avail, req) IN
       IF m.ben # m.owner THEN
            IF TermAvail(m.term, e) = 0 THEN Fail(m)
            ELSE LET a == Min(a0, TermAvail(m.term, e)) IN
                 [ok |-> TRUE, paid |-> a, M |-> [m EXCEPT !.term.used = @ + a]]
       ELSE [ok |-> TRUE, paid |-> a0, M |-> m]

\* the pending-worker part of the proving-deadline cron callback
CronDeadline(m, e) == Ok(ProcessPendingWorker(m, e))

Do(m, call, e) ==
  CASE call.a = "ChangeOwner"   -> ChangeOwner(m, call.c, call.new)
    [] call.a = "ChangeWorker"  -> ChangeWorker(m, call.c, call.nw, call.ctl, e)
    [] call.a = "ConfirmWorker" -> ConfirmWorker(m, call.c, e)
    [] call.a = "ChangeBen"     -> ChangeBen(m, call.c, call.nb, call.q, call.x, e)
    [] call.a = "Withdraw"      -> Withdraw(m, call.c, call.req, call.avail, call.canPay, e)
    [] call.a = "CronDeadline"  -> CronDeadline(m, e)

-----------------------------------------------------------------------------
(* the ghost: approvals and request times re-derived from the calls that were ACCEPTED *)
\* the proposal as it stands after an accepted ChangeBen call
PropAfter(g, m, call, e) ==
  LET p0 == IF call.c = m.owner
            THEN [addr |-> call.nb, quota |-> call.q, exp |-> call.x, by |-> m.owner,
                  benOK |-> TermAvail(m.term, e) = 0, nomOK |-> FALSE]
            ELSE g.prop
  IN  [p0 EXCEPT !.benOK = @ \/ call.c = m.ben, !.nomOK = @ \/ call.c = p0.addr]

\* m2 = the state after the call: a proposal that took effect is spent
GhostNext(g, m, m2, call, ok, e) ==
  IF ~ok THEN g
  ELSE CASE call.a = "ChangeOwner" ->
              IF call.c = m.owner THEN [g EXCEPT !.pOwnerBy = m.owner]
              ELSE [g EXCEPT !.prop = NoProp]          \* an owner change cancels the proposal
         [] call.a = "ChangeWorker" ->
              IF m.pWorker.addr = None /\ call.nw # m.worker THEN [g EXCEPT !.reqAt = e] ELSE g
         [] call.a = "ChangeBen" ->
              IF m2.ben # m.ben \/ m2.term.quota # m.term.quota \/ m2.term.exp # m.term.exp
              THEN [g EXCEPT !.prop = NoProp]
              ELSE [g EXCEPT !.prop = PropAfter(g, m, call, e)]
         [] OTHER -> g

Step(call) ==
  LET r == Do(M, call, epoch) IN
  /\ M' = r.M
  /\ G' = GhostNext(G, M, r.M, call, r.ok, epoch)
  /\ last' = [call EXCEPT !.ok = r.ok, !.paid = r.paid, !.payee = M.ben]
  /\ UNCHANGED epoch

Tick(n) == n > 0 /\ epoch' = epoch + n /\ UNCHANGED <<M, G>>

-----------------------------------------------------------------------------
(* Layer P: C13 (and the caller/quota clauses of C14) from the English statement *)

\* "A miner's owner changes only after the current owner proposes a successor and that successor
\*  itself confirms the same address"
OwnerHandover ==
  (M'.owner # M.owner) =>
     /\ last'.a = "ChangeOwner" /\ last'.ok
     /\ last'.c = M'.owner /\ last'.new = M'.owner
     /\ M.pOwner = M'.owner /\ G.pOwnerBy = M.owner

\* proposals are made / withdrawn only by the owner
PendingOwnerByOwner ==
  (M'.pOwner # M.pOwner) =>
     /\ last'.a = "ChangeOwner" /\ last'.ok
     /\ (last'.c = M.owner \/ (M'.owner # M.owner /\ M'.pOwner = None))

\* "a worker-key change takes effect no earlier than the security delay after the owner requested it"
WorkerHandover ==
  (M'.worker # M.worker) =>
     /\ M.pWorker.addr = M'.worker
     /\ epoch >= G.reqAt + WorkerDelay
     /\ last'.ok /\ ((last'.a = "ConfirmWorker" /\ last'.c = M.owner) \/ last'.a = "CronDeadline")
PendingWorkerByOwner ==
  (M'.pWorker # M.pWorker) =>
     \/ (M'.worker # M.worker /\ M'.pWorker = NoWorker)
     \/ (last'.a = "ChangeWorker" /\ last'.ok /\ last'.c = M.owner /\ M.pWorker = NoWorker
         /\ M'.pWorker = [addr |-> last'.nw, at |-> epoch + WorkerDelay])
ControlByOwner ==
  (M'.control # M.control) => (last'.a = "ChangeWorker" /\ last'.ok /\ last'.c = M.owner)

\* "a beneficiary change takes effect only after approval by both the nominee and the current
\*  beneficiary while the latter's term is still active"
BenHandover ==
  (M'.ben # M.ben \/ M'.term.quota # M.term.quota \/ M'.term.exp # M.term.exp) =>
     \/ (M'.owner # M.owner /\ M.ben = M.owner /\ M'.ben = M'.owner /\ M'.term = M.term)
     \/ /\ last'.a = "ChangeBen" /\ last'.ok
        /\ LET pr == PropAfter(G, M, last', epoch) IN
           /\ pr.addr = M'.ben /\ pr.by = M.owner
           /\ pr.benOK /\ pr.nomOK
           /\ M'.term.quota = pr.quota /\ M'.term.exp = pr.exp
UsedQuota ==
  /\ (M'.ben # M.ben /\ M'.owner = M.owner) => M'.term.used = 0
  /\ (M'.ben = M.ben /\ M'.term.used # M.term.used) =>
        (last'.a = "Withdraw" /\ last'.ok /\ M'.term.used = M.term.used + last'.paid)
\* a pending beneficiary proposal disappears only by taking effect or by an owner change;
\* it is (re)written only by the owner, approvals are recorded only for beneficiary/nominee
PendingBenRules ==
  (M'.pBen # M.pBen) =>
     \/ (M'.owner # M.owner /\ M'.pBen = NoBen)
     \/ (last'.a = "ChangeBen" /\ last'.ok /\
           (\/ last'.c = M.owner
            \/ (last'.c \in {M.ben, M.pBen.addr} /\ M.pBen.addr # None
                /\ (M'.pBen = NoBen \/ (M'.pBen.addr = M.pBen.addr /\ M'.pBen.quota = M.pBen.quota
                                        /\ M'.pBen.exp = M.pBen.exp)))))

\* a pending beneficiary proposal is always one made by the CURRENT owner (it does not survive an
\* owner change), naming the address the owner named
PendingBenByCurrentOwner ==
  (M'.pBen.addr # None) => (G'.prop.by = M'.owner /\ G'.prop.addr = M'.pBen.addr
                            /\ G'.prop.quota = M'.pBen.quota /\ G'.prop.exp = M'.pBen.exp)

\* C14 (caller side): "only to the beneficiary, only at the request of owner or beneficiary,
\* within the beneficiary's quota and expiry"
WithdrawRules ==
  (last'.a = "Withdraw" /\ last'.ok) =>
     /\ last'.c \in {M.owner, M.ben}
     /\ last'.paid >= 0 /\ last'.paid <= last'.req /\ last'.paid <= last'.avail
     /\ last'.payee = M.ben
     /\ (M.ben # M.owner => (last'.paid <= TermAvail(M.term, epoch) /\ TermAvail(M.term, epoch) > 0))

RejectedIsNoop == (~last'.ok) => M' = M

StepProps == /\ OwnerHandover /\ PendingOwnerByOwner /\ WorkerHandover /\ PendingWorkerByOwner
             /\ ControlByOwner /\ BenHandover /\ UsedQuota /\ PendingBenRules /\ PendingBenByCurrentOwner
             /\ WithdrawRules
             /\ RejectedIsNoop
=============================================================================
