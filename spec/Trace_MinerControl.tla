------------------------- MODULE Trace_MinerControl -------------------------
(* Trace validation of the real miner actor's control hand-over against MinerControl.tla. *)
EXTENDS MinerControl, Json, IOUtils

VARIABLE l
Rec == ndJsonDeserialize(IOEnv.TRACE)

ToSet(arr) == {arr[i] : i \in 1..Len(arr)}
ToM(st) == [owner |-> st.owner, pOwner |-> st.pOwner, worker |-> st.worker, pWorker |-> st.pWorker,
            control |-> ToSet(st.control), ben |-> st.ben, term |-> st.term, pBen |-> st.pBen]

IsCall(e) == e.a \in {"ChangeOwner", "ChangeWorker", "ConfirmWorker", "ChangeBen", "Withdraw", "CronDeadline"}
\* the call record in the spec's vocabulary (control set instead of array)
CallOf(e) == IF e.a = "ChangeWorker" THEN [e EXCEPT !.ctl = ToSet(e.ctl)] ELSE e

Explained(e) ==
  IF IsCall(e) THEN
       LET r == Do(M, CallOf(e), epoch) IN
       /\ r.ok = e.ok /\ M' = r.M /\ (e.ok => r.paid = e.paid) /\ epoch' = epoch
  ELSE IF e.a = "Tick" THEN M' = M /\ epoch' = epoch + e.n
  ELSE IF e.a = "Deposit" THEN M' = M /\ epoch' = epoch
  ELSE FALSE

Chk(prop, name, holds, e) == IF holds THEN TRUE ELSE PrintT(<<"VIOL", prop, name, l, "-", e.a>>)

TStep ==
  /\ l <= Len(Rec)
  /\ l' = l + 1
  /\ LET e == Rec[l] IN
     IF e.ev \in {"Init", "Reset"}
     THEN /\ M' = ToM(e.st) /\ epoch' = e.st.epoch
          /\ G' = [reqAt |-> 0, pOwnerBy |-> None, prop |-> NoProp]
          /\ last' = [a |-> "Init", ok |-> TRUE, c |-> None, paid |-> 0, payee |-> None]
     ELSE /\ M' = ToM(e.st) /\ epoch' = e.st.epoch
          /\ last' = CallOf(e)
          /\ G' = IF IsCall(e) THEN GhostNext(G, M, ToM(e.st), CallOf(e), e.ok, epoch) ELSE G
          /\ Chk("C13", "OwnerHandover", OwnerHandover, e)
          /\ Chk("C13", "PendingOwnerByOwner", PendingOwnerByOwner, e)
          /\ Chk("C13", "WorkerHandover", WorkerHandover, e)
          /\ Chk("C13", "PendingWorkerByOwner", PendingWorkerByOwner, e)
          /\ Chk("C13", "ControlByOwner", ControlByOwner, e)
          /\ Chk("C13", "BenHandover", BenHandover, e)
          /\ Chk("C13", "UsedQuota", UsedQuota, e)
          /\ Chk("C13", "PendingBenRules", PendingBenRules, e)
          /\ Chk("C13", "PendingBenByCurrentOwner", PendingBenByCurrentOwner, e)
          /\ Chk("C14", "WithdrawRules", WithdrawRules, e)
          /\ Chk("C13", "RejectedIsNoop", RejectedIsNoop, e)
          /\ (IF Explained(e) THEN TRUE ELSE PrintT(<<"DRIFT", "C13", l, e.a, e.ok>>))

TInit == /\ M = [owner |-> None, pOwner |-> None, worker |-> None, pWorker |-> NoWorker, control |-> {},
                 ben |-> None, term |-> [quota |-> 0, used |-> 0, exp |-> 0], pBen |-> NoBen]
         /\ epoch = 0 /\ G = [reqAt |-> 0, pOwnerBy |-> None, prop |-> NoProp]
         /\ last = [a |-> "Init", ok |-> TRUE, c |-> None, paid |-> 0, payee |-> None] /\ l = 1
TSpec == TInit /\ [][TStep]_<<vars, l>>
Accepted == TLCGet("stats").diameter = Len(Rec) + 1
=============================================================================
