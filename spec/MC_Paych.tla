----------------------------- MODULE MC_Paych -----------------------------
(* Bounded model of Paych for TLC: exhaustive (MC_Paych.cfg) and simulation/export
   (Sim_Paych.cfg).  Every call -- accepted or rejected -- is a step; rejected calls
   stutter on the core state and are recorded in `last`/`hist` so that exported
   behaviours contain invalid calls too. *)
EXTENDS Paych, Json, Randomization

CONSTANTS MaxNonce, MaxAmt, MaxBal, MaxEpoch, ExportLen, Mshs, GoodCallers, MergeNonces

VARIABLE hist          \* the sequence of calls made so far (export only; hidden by VIEW)

mcvars == <<vars, hist>>

Lanes == 0..2
MergeChoices ==
  {<<>>} \cup {<<[lane |-> l, nonce |-> n]>> : l \in Lanes, n \in MergeNonces}
         \cup {<<[lane |-> l1, nonce |-> MaxNonce], [lane |-> l2, nonce |-> MaxNonce]>> :
                  l1 \in {0, 1}, l2 \in {1, 2}}

Base(c, l, n, a, ms, msh) ==
  [caller |-> c, signer |-> OtherParty(c), signed |-> TRUE, chanOK |-> TRUE, secretOK |-> TRUE,
   secretLenOK |-> TRUE, extraOK |-> TRUE, lane |-> l, nonce |-> n, amt |-> a, merges |-> ms,
   tlMin |-> 0, tlMax |-> 0, msh |-> msh]

GoodSpace == {Base(c, l, n, a, ms, msh) :
                c \in GoodCallers, l \in Lanes, n \in 0..MaxNonce, a \in 0..MaxAmt,
                ms \in MergeChoices, msh \in Mshs}

\* one defect at a time on top of an otherwise plausible voucher
Defects(b) ==
  { [b EXCEPT !.caller = "other"],
    [b EXCEPT !.signer = b.caller],
    [b EXCEPT !.signer = "other"],
    [b EXCEPT !.signed = FALSE],
    [b EXCEPT !.chanOK = FALSE],
    [b EXCEPT !.secretOK = FALSE],
    [b EXCEPT !.secretLenOK = FALSE],
    [b EXCEPT !.extraOK = FALSE],
    [b EXCEPT !.tlMin = epoch + 1],
    [b EXCEPT !.tlMax = epoch - 1],
    [b EXCEPT !.tlMin = epoch, !.tlMax = epoch],
    [b EXCEPT !.lane = MaxLane + 1],
    [b EXCEPT !.amt = -1] }

BadSpace == UNION {Defects(Base(c, l, n, a, <<>>, 0)) :
                     c \in Parties, l \in {0, 1}, n \in {1, MaxNonce}, a \in {1, MaxAmt}}

Rec(r) == /\ last' = r /\ hist' = Append(hist, r)

VoucherOK  == \E v \in GoodSpace \cup BadSpace :
                 Voucher(v) /\ Rec([a |-> "Voucher", ok |-> TRUE, v |-> v])
VoucherRej == \E v \in GoodSpace \cup BadSpace :
                 ~CanVoucher(v) /\ UNCHANGED core /\ Rec([a |-> "Voucher", ok |-> FALSE, v |-> v])
SettleOK   == \E c \in Callers : Settle(c) /\ Rec([a |-> "Settle", ok |-> TRUE, c |-> c])
SettleRej  == \E c \in Callers : ~CanSettle(c) /\ UNCHANGED core /\ Rec([a |-> "Settle", ok |-> FALSE, c |-> c])
CollectOK  == \E c \in Callers : Collect(c) /\ Rec([a |-> "Collect", ok |-> TRUE, c |-> c])
CollectRej == \E c \in Callers : ~CanCollect(c) /\ UNCHANGED core /\ Rec([a |-> "Collect", ok |-> FALSE, c |-> c])
DepositOK  == \E a \in 1..2 : Deposit(a) /\ Rec([a |-> "Deposit", ok |-> TRUE, amt |-> a])
TickOK     == \E n \in 1..2 : Tick(n) /\ Rec([a |-> "Tick", ok |-> TRUE, n |-> n])

MCNext == VoucherOK \/ VoucherRej \/ SettleOK \/ SettleRej \/ CollectOK \/ CollectRej
          \/ DepositOK \/ TickOK

\* simulation: sample the (large) voucher space instead of enumerating it at every step
SimVoucherOK  == \E v \in RandomSubset(60, GoodSpace \cup BadSpace) :
                    Voucher(v) /\ Rec([a |-> "Voucher", ok |-> TRUE, v |-> v])
SimVoucherRej == \E v \in RandomSubset(4, GoodSpace \cup BadSpace) :
                    ~CanVoucher(v) /\ UNCHANGED core /\ Rec([a |-> "Voucher", ok |-> FALSE, v |-> v])
SimNext == SimVoucherOK \/ SimVoucherOK \/ SimVoucherRej \/ SettleOK \/ SettleRej \/ CollectOK \/ CollectRej
           \/ DepositOK \/ TickOK
MCInit == Init /\ hist = <<>>
SimSpec == MCInit /\ [][SimNext]_mcvars
MCSpec == MCInit /\ [][MCNext]_mcvars

Bound == epoch <= MaxEpoch /\ bal <= MaxBal
View  == core

StepOK == [][StepProps]_mcvars

\* vacuity witnesses: these must be *violated* (reachable) -- checked by MC_Paych_reach.cfg
NeverCollected   == alive
NeverMergedPaid  == ~(last.a = "Voucher" /\ last.ok /\ Len(last.v.merges) > 0 /\ toSend > 0)
NeverExtended    == ~(settledAt >= 0 /\ settlingAt > settledAt + SettleDelay)

\* simulation export: one line per behaviour
Export == Len(hist) # ExportLen \/ PrintT(<<"REPLAY", ToJson(hist)>>)
=============================================================================
