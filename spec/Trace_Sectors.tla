---------------------------- MODULE Trace_Sectors ----------------------------
(* Validation of recorded executions of the real miner / power / reward / cron actors
   (harness/drivers/src/sectors.rs, tiny policy) against the Layer-P formulas of SectorsP.tla.
   The refinement layer (Sectors lifecycle model) is checked by Trace_SectorsR. *)
EXTENDS SectorsP, Json, IOUtils

VARIABLES Wd,     \* the current projected world
          G,      \* ghosts: dep0 : miner name -> creation deposit (F1/F2 bookkeeping)
          l
Rec == ndJsonDeserialize(IOEnv.TRACE)

\* Layer R: the sector lifecycle model (Sectors.tla), instantiated with the same policy numbers
CONSTANTS MaxPC, ChalDelay
LC == INSTANCE Sectors WITH D <- D, W <- W_, PartSize <- PartSize, FaultMaxAge <- FaultMaxAge,
                           FaultCutoff <- FaultCutoff, MinLife <- MinLife, MaxLife <- MaxLife, AddrSectorsMax <- AddrSectorsMax, AddrPartsMax <- AddrPartsMax,
                           MaxPC <- MaxPC, ChalDelay <- ChalDelay,
                           SM <- Wd, epoch <- l, last <- G


MinerNames(w) == {w.miners[i].m : i \in Idx(w.miners)}
MinerOf(w, m) == w.miners[CHOOSE i \in Idx(w.miners) : w.miners[i].m = m]
Dep0Sum(w, g) == BSumSeq([i \in Idx(w.miners) |-> g.dep0[w.miners[i].m]])

\* ---- projection of a real miner state onto the lifecycle model's state
StOf(pt, n) == IF n \in T_(pt) THEN "term" ELSE IF n \in U_(pt) THEN "unproven" ELSE IF n \in R_(pt) THEN "recovering"
               ELSE IF n \in F_(pt) THEN "faulty" ELSE "active"
DueOf(pt, n) == LET c == {i \in Idx(pt.q) : n \in SeqSet(pt.q[i].on) \cup SeqSet(pt.q[i].early)} IN
                IF c = {} THEN 0 ELSE pt.q[CHOOSE i \in c : TRUE].e
ProjSM(M) ==
  LET tb == Tb(M)
      place == [n \in UNION {S_(PartAt(M, dp)) : dp \in Parts(M)} |-> CHOOSE dp \in Parts(M) : n \in S_(PartAt(M, dp))]
      rec(n) == LET dp == place[n] pt == PartAt(M, dp) st == StOf(pt, n) IN
                [st |-> st, d |-> dp[1] - 1, p |-> dp[2] - 1,
                 exp |-> IF st = "term" \/ n \notin tb.nos THEN 0 ELSE tb.exp[n],
                 \* a faulty sector's own fault expiry is not recorded; its queue epoch stands for it
                 fexp |-> IF st \in {"faulty", "recovering"} THEN DueOf(pt, n) ELSE 0]
  IN  [sec |-> [n \in DOMAIN place |-> rec(n)],
       posted |-> [d \in 0..(D - 1) |-> SeqSet(M.dls[d + 1].posted)],
       alloc |-> SeqSet(M.alloc), off |-> M.pps, cron |-> M.cronActive,
       pre |-> [n \in {M.pre[i].n : i \in Idx(M.pre)} |->
                  LET i == CHOOSE j \in Idx(M.pre) : M.pre[j].n = n IN [exp |-> M.pre[i].exp, at |-> M.pre[i].at]]]
AbsReal(M) == LET sm == ProjSM(M) tb == Tb(M) IN
  [sec |-> [n \in DOMAIN sm.sec |-> [st |-> sm.sec[n].st, d |-> sm.sec[n].d, p |-> sm.sec[n].p, exp |-> sm.sec[n].exp,
                                      due |-> IF sm.sec[n].st = "term" THEN 0
                                              ELSE DueOf(PartAt(M, <<sm.sec[n].d + 1, sm.sec[n].p + 1>>), n)]],
   posted |-> sm.posted, alloc |-> sm.alloc, pre |-> sm.pre]

\* a failed UpdatePledgeTotal whose requested delta would have kept the ADJUSTED total non-negative
\* is the known consequence of finding F1
PledgeFails(e) == {i \in Idx(e.fails) : e.ev # "Tick" /\ e.fails[i].to = "f04" /\ e.fails[i].method = 6}
Role(M, c) == IF c = "owner" \/ c = "worker" THEN c ELSE "other"
ToSets(decls) == [i \in Idx(decls) |-> [d |-> decls[i].dl, p |-> decls[i].p, s |-> SeqSet(decls[i].s)]]
ToSetsX(decls) == [i \in Idx(decls) |-> [d |-> decls[i].dl, p |-> decls[i].p, s |-> SeqSet(decls[i].s), exp |-> decls[i].exp]]
\* the lifecycle model's verdict for a user call on miner M at epoch ep
ModelCall(M, e, ep) ==
  LET sm == ProjSM(M) c == Role(M, e.c) IN
  CASE e.ev = "CommitNI" -> LC!CommitNI(sm, c, [i \in Idx(e.sectors) |-> e.sectors[i].n], e.dl,
                                        [i \in Idx(e.sectors) |-> e.sectors[i].exp], e.requireAll, ep)
    [] e.ev = "PoSt" -> LC!PoSt(sm, c, e.dl, [i \in Idx(e.parts) |-> [i |-> e.parts[i].i, skipped |-> SeqSet(e.parts[i].skipped)]],
                                ~e.badProof, ep)
    [] e.ev = "DeclareFaults" -> LC!DeclareFaults(sm, c, ToSets(e.decls), ep)
    [] e.ev = "DeclareRecovered" -> LC!DeclareRecovered(sm, c, ToSets(e.decls), ep)
    [] e.ev = "Terminate" -> LC!Terminate(sm, c, ToSets(e.decls), ep)
    [] e.ev = "Extend" -> LC!Extend(sm, c, ToSetsX(e.decls), ep)
    [] e.ev = "PreCommit" -> LC!PreCommit(sm, c, [i \in Idx(e.sectors) |-> e.sectors[i].n], [i \in Idx(e.sectors) |-> e.sectors[i].exp], ep)
    [] e.ev = "ProveCommit" -> LC!ProveCommit(sm, c, e.ns, e.requireAll, ep)
Modelled == {"CommitNI", "PoSt", "DeclareFaults", "DeclareRecovered", "Terminate", "Extend", "PreCommit", "ProveCommit"}
\* Layer R for one event: the modelled calls must be explained by the lifecycle model; ticks must be explained
\* for every miner; everything else is outside the lifecycle model (money, control, pre-commit path)
ExplainedR(pre, e) ==
  IF e.ev \in Modelled /\ e.m \in G.lost THEN TRUE    \* a miner without a power claim cannot do anything (see F1)
  \* a call that aborted because UpdatePledgeTotal refused the (short) network total is finding F1, reported
  \* under C03 PledgeTotalNeverBlocks; the lifecycle model has no money
  ELSE IF e.ev \in Modelled /\ ~e.ok /\ PledgeFails(e) # {} THEN TRUE
  \* (exit code 19 = insufficient funds: the miner cannot afford the pledge or a fee; no money in the lifecycle model)
  ELSE IF e.ev \in Modelled /\ ~e.ok /\ e.code = 19 THEN AbsReal(MinerByName(e.st, e.m)) = AbsReal(MinerByName(pre, e.m))
  \* while a consensus fault is active the miner may neither commit sectors nor declare recoveries
  ELSE IF e.ev \in {"CommitNI", "DeclareRecovered", "PreCommit"} /\ pre.epoch <= MinerByName(pre, e.m).cfElapsed THEN
       ~e.ok /\ AbsReal(MinerByName(e.st, e.m)) = AbsReal(MinerByName(pre, e.m))
  \* an extension that declares claims to maintain or drop is decided by the registry as well (Claims.tla, C10)
  ELSE IF e.ev = "Extend" /\ \E i \in Idx(e.decls) : "claims" \in DOMAIN e.decls[i] /\ Len(e.decls[i].claims) > 0 THEN TRUE
  \* ... and so is the plain extension of a sector that carries verified data (refused: its claims must be declared)
  ELSE IF e.ev = "Extend" /\ LET M == MinerByName(pre, e.m) IN
          \E i \in Idx(e.decls) : \E j \in Idx(M.sectors) : M.sectors[j].n \in SeqSet(e.decls[i].s) /\ M.sectors[j].vw > 0 THEN TRUE
  ELSE IF e.ev \in Modelled THEN
       LET r == ModelCall(MinerByName(pre, e.m), e, pre.epoch) IN
       r.ok = e.ok /\ LC!Abs(r.SM) = AbsReal(MinerByName(e.st, e.m))
  ELSE IF e.ev = "Tick" THEN
       \A i \in Idx(e.st.miners) : e.st.miners[i].m \in G'.lost \/
          LC!Abs(LC!TickN(ProjSM(MinerByName(pre, e.st.miners[i].m)), pre.epoch, e.n)) = AbsReal(e.st.miners[i])
  ELSE TRUE

Chk(prop, name, holds, tag, e) == IF holds THEN TRUE ELSE PrintT(<<"VIOL", prop, name, l, tag, e.ev>>)

F1Explains(w, g, delta) == ~BIsNeg(BAdd(BAdd(w.power.pledge, Dep0Sum(w, g)), delta))
CronFailTag(w, g, e) ==
  IF \A i \in Idx(e.fails) : \E j \in Idx(e.fails[i].f) :
        e.fails[i].f[j].method = 6 /\ F1Explains(w, g, e.fails[i].f[j].delta)
  THEN "F1-creation-deposit" ELSE "-"

\* every failure in the tick is an injected one (fault plan) or the caller-side echo of one
OnlyInjected(e) == \A i \in Idx(e.fails) : \E j \in Idx(e.fails[i].f) : e.fails[i].f[j].injected

MinerChecks(M, g, e) ==
  /\ Chk("C04", "SetsNest", SetsNest(M), "-", e)
  /\ Chk("C04", "OnePartition", OnePartition(M), "-", e)
  /\ Chk("C04", "PartMemos", PartMemos(M), "-", e)
  /\ Chk("C04", "DlMemos", DlMemos(M), "-", e)
  /\ Chk("C04", "EarlyDls", EarlyDls(M), "-", e)
  /\ Chk("C04", "QueueOK", QueueOK(M), "-", e)
  /\ Chk("C04", "DlQueueCovers", DlQueueCovers(M), "-", e)
  /\ Chk("C04", "AllocCovers", AllocCovers(M), "-", e)
  /\ Chk("C03", "PledgeExact", PledgeExact(M), "-", e)
  /\ Chk("C03", "DepositsExact", DepositsExact(M), "-", e)
  /\ Chk("C03", "VestExact", VestExact(M), "-", e)
  /\ Chk("C03", "NonNegLedgers", NonNegLedgers(M), "-", e)
  /\ Chk("C01", "MinerSolvent", (e.ok = FALSE) \/ MinerSolvent(M), "-", e)
  /\ Chk("C01", "MinerSolventRecomputed", (e.ok = FALSE) \/ MinerSolventRecomputed(M), "-", e)
  /\ Chk("C05", "CronWhileFunded", CronWhileFundedLiteral(M),
         IF CronWhileFundedAdjusted(M, g.dep0[M.m]) THEN "F2-no-cron-before-first-precommit" ELSE "-", e)

TStep ==
  /\ l <= Len(Rec)
  /\ l' = l + 1
  /\ LET e == Rec[l] IN
     IF e.ev \in {"Init", "Reset"}
     THEN /\ Wd' = e.st
          /\ \A i \in Idx(e.st.miners) :
                /\ MinerChecks(e.st.miners[i], [dep0 |-> [m \in MinerNames(e.st) |-> MinerOf(e.st, m).locked]], [ev |-> e.ev, ok |-> TRUE])
                /\ Chk("C14", "DepositVestsOnSchedule", DepositVestsOnSchedule(e.st.miners[i]), "-", [ev |-> e.ev])
          /\ G' = [dep0 |-> [m \in MinerNames(e.st) |-> MinerOf(e.st, m).locked],
                   fresh |-> [m \in MinerNames(e.st) |-> FALSE], lost |-> {},
                   et |-> [m \in MinerNames(e.st) |-> [at |-> e.st.epoch, s |-> {}]]]
     ELSE /\ Wd' = e.st
          \* fresh[m]: the recorded deadline has been refreshed by a proving-deadline callback since the
          \* miner's cron became active (it goes stale while the cron is inactive: finding F2)
          /\ G' = [G EXCEPT !.fresh = [m \in DOMAIN G.fresh |->
                      LET M1 == MinerOf(Wd, m) M2 == MinerOf(e.st, m) IN
                      M2.cronActive /\ (G.fresh[m] \/ M2.pps # M1.pps)],
                           \* miners whose claim the power actor deleted after a failed callback (consequence of F1,
                           \* reported once by CronNeverFails): their schedule/power formulas are moot afterwards
                           !.lost = @ \cup (IF e.ev = "Tick" THEN UNION {{e.fails[i].f[j].to : j \in {k \in Idx(e.fails[i].f) : e.fails[i].f[k].method = 12}} : i \in Idx(e.fails)} ELSE {}),
                           \* et[m] = a set of sectors awaiting early-termination processing and the epoch since which ALL of
                           \* them have been waiting (re-based whenever one of them is processed, see EarlyTermsProgress)
                           !.et = [m \in DOMAIN G.et |->
                                     LET now == EtqSectors(MinerOf(e.st, m)) IN
                                     IF G.et[m].s = {} \/ ~(G.et[m].s \subseteq now) \/ e.st.epoch - G.et[m].at >= 2 * W_
                                     THEN [at |-> e.st.epoch, s |-> now] ELSE G.et[m]]]
          \* structural formulas are re-evaluated only for miners whose projected state changed
          /\ \A i \in Idx(e.st.miners) : (i <= Len(Wd.miners) /\ Wd.miners[i] = e.st.miners[i]) \/ MinerChecks(e.st.miners[i], G, e)
          /\ Chk("C02", "PowerIsActive", PowerIsActiveExcept(e.st, G'.lost), "-", e)
          /\ Chk("C02", "TotalsOK", TotalsOK(e.st), "-", e)
          /\ Chk("C02", "ProvenOnlyByPoSt", ProvenOnlyByPoSt(Wd, e), "-", e)
          /\ Chk("C02", "RecoveredOnlyByPoSt", RecoveredOnlyByPoSt(Wd, e), "-", e)
          /\ Chk("C02", "SkippedFaulted", SkippedFaulted(e), "-", e)
          /\ Chk("C02", "MissedPoStFaulted", MissedPoStFaulted(Wd, e, G'.lost), "-", e)
          /\ Chk("C04", "NumbersFresh", NumbersFresh(Wd, e), "-", e)
          /\ Chk("C03", "NetPledgeTotal", NetPledgeLiteral(e.st),
                 IF NetPledgeAdjusted(e.st, Dep0Sum(e.st, G)) THEN "F1-creation-deposit" ELSE "-", e)
          /\ Chk("C03", "NetPledgeNonNeg", NetPledgeNonNeg(e.st), "-", e)
          /\ Chk("C03", "PledgeTotalNeverBlocks", PledgeFails(e) = {},
                 IF \A i \in PledgeFails(e) : F1Explains(Wd, G, e.fails[i].delta) THEN "F1-creation-deposit" ELSE "-", e)
          /\ Chk("C05", "CronScheduled", CronScheduledExcept(e.st, G'.lost), "-", e)
          /\ Chk("C05", "DeadlineCurrent", e.ev # "Tick" \/ DeadlineCurrent(e.st),
                 IF \A i \in Idx(e.st.miners) : (DeadlineCurrentFor(e.st, e.st.miners[i]) \/ ~G'.fresh[e.st.miners[i].m] \/ e.st.miners[i].m \in G'.lost)
                 THEN "F2-no-cron-before-first-precommit" ELSE "-", e)
          /\ Chk("C05", "QueueNotStale", e.ev # "Tick" \/ QueueNotStale(e.st), "-", e)
          /\ Chk("C05", "NoOverdueExpiry", e.ev # "Tick" \/ NoOverdueExpiryExcept(e.st, G'.lost), "-", e)
          /\ Chk("C05", "EarlyTermsScheduled", EarlyTermsScheduled(e.st), "-", e)
          \* "early terminations are all eventually processed", bounded: of a set of sectors awaiting processing at least
          \* one has been processed two challenge windows later (while the cron runs and the miner keeps its claim)
          /\ Chk("C05", "EarlyTermsProgress",
                 \A m \in DOMAIN G.et : (G.et[m].s # {} /\ e.st.epoch - G.et[m].at >= 2 * W_ /\ m \notin G'.lost /\ (e.ev # "Tick" \/ e.cronOK))
                                            => ~(G.et[m].s \subseteq EtqSectors(MinerOf(e.st, m))), "-", e)
          \* (C15 reads the same bound as "is charged": a sector cannot wait for its termination fee indefinitely)
          /\ Chk("C15", "EarlyTerminationCharged",
                 \A m \in DOMAIN G.et : (G.et[m].s # {} /\ e.st.epoch - G.et[m].at >= 2 * W_ /\ m \notin G'.lost /\ (e.ev # "Tick" \/ e.cronOK))
                                            => ~(G.et[m].s \subseteq EtqSectors(MinerOf(e.st, m))), "-", e)
          /\ Chk("C15", "CronTerminationFee", CronTerminationFee(Wd, e, G'.lost), "-", e)
          /\ Chk("C05", "CronNeverFails", e.ev # "Tick" \/ e.cronOK \/ OnlyInjected(e), IF e.ev = "Tick" THEN CronFailTag(Wd, G, e) ELSE "-", e)
          /\ Chk("C05", "NoBalanceInvariantBroken", e.ev = "Tick" \/ e.code # 1000, "-", e)
          \* "nothing panics" is stated for the tick and its callbacks; a panic in a user message (it aborts the message
          \* and changes nothing) is outside C05 and only noted
          /\ Chk("C05", "NoPanic", e.ev # "Tick" \/ \A i \in Idx(e.fails) : ~e.fails[i].panic, "-", e)
          /\ (IF e.ev # "Tick" /\ e.class = "panic" THEN PrintT(<<"NOTE", "C05", "user-call-panic", l, e.ev>>) ELSE TRUE)
          /\ Chk("C14", "VestShape", VestShape(e.st), "-", e)
          /\ Chk("C14", "VestNotOverdue", \A i \in Idx(e.st.miners) : e.st.miners[i].m \in G'.lost \/ ~G'.fresh[e.st.miners[i].m]
                                                \/ VestNotOverdue(e.st, e.st.miners[i]), "-", e)
          /\ Chk("C14", "RewardVestsOnSchedule", RewardVestsOnSchedule(Wd, e), "-", e)
          /\ Chk("C14", "NoEarlyUnlock", NoEarlyUnlock(Wd, e), "-", e)
          /\ Chk("C14", "WithdrawBounded", WithdrawBounded(Wd, e), "-", e)
          /\ Chk("C14", "WithdrawRepaysDebt", WithdrawRepaysDebt(Wd, e), "-", e)
          /\ Chk("C15", "DebtOnlyRepaidByBurn", DebtOnlyRepaidByBurn(Wd, e), "-", e)
          /\ Chk("C15", "DebtBlocks", DebtBlocks(e), "-", e)
          /\ Chk("C15", "BurnMonotone", BurnMonotone(Wd, e), "-", e)
          /\ Chk("C15", "NoFlowFromBurn", NoFlowFromBurn(e), "-", e)
          /\ Chk("C15", "ConsensusFaultPaid", ConsensusFaultPaid(Wd, e), "-", e)
          /\ Chk("C15", "TerminationFeeFloor", TerminationFeeFloor(Wd, e), "-", e)
          /\ Chk("C15", "ContinuedFaultCharged", ContinuedFaultCharged(Wd, e, G.lost), "-", e)
          /\ Chk("C15", "DisputePenalised", DisputePenalised(Wd, e), "-", e)
          /\ (IF ExplainedR(Wd, e) THEN TRUE ELSE PrintT(<<"DRIFT", "C02", l, e.ev, e.ok>>))
          /\ Chk("C01", "TotalFilConstant", BEq(e.st.total, Wd.total), "-", e)
          /\ Chk("C01", "LedgerDelta", IF e.ok THEN LedgerDelta(Wd.bals, e.st.bals, e.tr)
                                             ELSE LedgerUnchanged(Wd.bals, e.st.bals), "-", e)
          /\ Chk("C01", "NoNegativeBalance", NoNegativeBalance(e.st.bals), "-", e)
          /\ Chk("C01", "RewardNeverFails", e.ev # "Reward" \/ e.ok, "-", e)

TInit == Wd = [epoch |-> 0] /\ G = [dep0 |-> <<>>, fresh |-> <<>>, lost |-> {}, et |-> <<>>] /\ l = 1
TSpec == TInit /\ [][TStep]_<<Wd, G, l>>
Accepted == TLCGet("stats").diameter = Len(Rec) + 1
=============================================================================
