---------------------------- MODULE Trace_Sectors ----------------------------
(* Validation of recorded executions of the real miner / power / reward / cron actors
   (harness/drivers/src/sectors.rs, tiny policy) against the Layer-P formulas of SectorsP.tla.
   The refinement layer (Sectors lifecycle model) is checked by Trace_SectorsR. *)
EXTENDS SectorsP, Json, IOUtils

VARIABLES Wd,     \* the current projected world
          G,      \* ghosts: dep0 : miner name -> creation deposit (F1/F2 bookkeeping)
          l
Rec == ndJsonDeserialize(IOEnv.TRACE)

MinerNames(w) == {w.miners[i].m : i \in Idx(w.miners)}
MinerOf(w, m) == w.miners[CHOOSE i \in Idx(w.miners) : w.miners[i].m = m]
Dep0Sum(w, g) == BSumSeq([i \in Idx(w.miners) |-> g.dep0[w.miners[i].m]])

Chk(prop, name, holds, tag, e) == IF holds THEN TRUE ELSE PrintT(<<"VIOL", prop, name, l, tag, e.ev>>)

\* a failed UpdatePledgeTotal whose requested delta would have kept the ADJUSTED total non-negative
\* is the known consequence of finding F1
PledgeFails(e) == {i \in Idx(e.fails) : e.ev # "Tick" /\ e.fails[i].to = "power" /\ e.fails[i].method = 6}
F1Explains(w, g, delta) == ~BIsNeg(BAdd(BAdd(w.power.pledge, Dep0Sum(w, g)), delta))
CronFailTag(w, g, e) ==
  IF \A i \in Idx(e.fails) : \E j \in Idx(e.fails[i].f) :
        e.fails[i].f[j].method = 6 /\ F1Explains(w, g, e.fails[i].f[j].delta)
  THEN "F1-creation-deposit" ELSE "-"

\* every failure in the tick is an injected one (fault plan) or the caller-side echo of one
OnlyInjected(e) == \A i \in Idx(e.fails) : \E j \in Idx(e.fails[i].f) : e.fails[i].f[j].injected

MinerChecks(M, g, e) ==
  /\ Chk("C04", "SetsNest", SetsNest(M), "-", e)
  /\ Chk("C04", "OnePartition", OnePartition(M), "-", e)
  /\ Chk("C04", "PartMemos", PartMemos(M), "-", e)
  /\ Chk("C04", "DlMemos", DlMemos(M), "-", e)
  /\ Chk("C04", "EarlyDls", EarlyDls(M), "-", e)
  /\ Chk("C04", "QueueOK", QueueOK(M), "-", e)
  /\ Chk("C04", "AllocCovers", AllocCovers(M), "-", e)
  /\ Chk("C03", "PledgeExact", PledgeExact(M), "-", e)
  /\ Chk("C03", "DepositsExact", DepositsExact(M), "-", e)
  /\ Chk("C03", "VestExact", VestExact(M), "-", e)
  /\ Chk("C03", "NonNegLedgers", NonNegLedgers(M), "-", e)
  /\ Chk("C01", "MinerSolvent", (e.ok = FALSE) \/ MinerSolvent(M), "-", e)
  /\ Chk("C05", "CronWhileFunded", CronWhileFundedLiteral(M),
         IF CronWhileFundedAdjusted(M, g.dep0[M.m]) THEN "F2-no-cron-before-first-precommit" ELSE "-", e)

TStep ==
  /\ l <= Len(Rec)
  /\ l' = l + 1
  /\ LET e == Rec[l] IN
     IF e.ev \in {"Init", "Reset"}
     THEN /\ Wd' = e.st
          /\ G' = [dep0 |-> [m \in MinerNames(e.st) |-> MinerOf(e.st, m).locked],
                   fresh |-> [m \in MinerNames(e.st) |-> FALSE]]
     ELSE /\ Wd' = e.st
          \* fresh[m]: the recorded deadline has been refreshed by a proving-deadline callback since the
          \* miner's cron became active (it goes stale while the cron is inactive: finding F2)
          /\ G' = [G EXCEPT !.fresh = [m \in DOMAIN G.fresh |->
                      LET M1 == MinerOf(Wd, m) M2 == MinerOf(e.st, m) IN
                      M2.cronActive /\ (G.fresh[m] \/ M2.pps # M1.pps)]]
          /\ \A i \in Idx(e.st.miners) : MinerChecks(e.st.miners[i], G, e)
          /\ Chk("C02", "PowerIsActive", PowerIsActive(e.st), "-", e)
          /\ Chk("C02", "TotalsOK", TotalsOK(e.st), "-", e)
          /\ Chk("C03", "NetPledgeTotal", NetPledgeLiteral(e.st),
                 IF NetPledgeAdjusted(e.st, Dep0Sum(e.st, G)) THEN "F1-creation-deposit" ELSE "-", e)
          /\ Chk("C03", "NetPledgeNonNeg", NetPledgeNonNeg(e.st), "-", e)
          /\ Chk("C03", "PledgeTotalNeverBlocks", PledgeFails(e) = {},
                 IF \A i \in PledgeFails(e) : F1Explains(Wd, G, e.fails[i].delta) THEN "F1-creation-deposit" ELSE "-", e)
          /\ Chk("C05", "CronScheduled", CronScheduled(e.st), "-", e)
          /\ Chk("C05", "DeadlineCurrent", e.ev # "Tick" \/ DeadlineCurrent(e.st),
                 IF \A i \in Idx(e.st.miners) : (DeadlineCurrentFor(e.st, e.st.miners[i]) \/ ~G'.fresh[e.st.miners[i].m])
                 THEN "F2-no-cron-before-first-precommit" ELSE "-", e)
          /\ Chk("C05", "QueueNotStale", e.ev # "Tick" \/ QueueNotStale(e.st), "-", e)
          /\ Chk("C05", "NoOverdueExpiry", e.ev # "Tick" \/ NoOverdueExpiry(e.st), "-", e)
          /\ Chk("C05", "EarlyTermsScheduled", EarlyTermsScheduled(e.st), "-", e)
          /\ Chk("C05", "CronNeverFails", e.ev # "Tick" \/ e.cronOK \/ OnlyInjected(e), IF e.ev = "Tick" THEN CronFailTag(Wd, G, e) ELSE "-", e)
          /\ Chk("C05", "NoBalanceInvariantBroken", e.ev = "Tick" \/ e.code # 1000, "-", e)
          /\ Chk("C05", "NoPanic", e.ev = "Tick" \/ e.class # "panic", "-", e)
          /\ Chk("C14", "VestShape", VestShape(e.st), "-", e)
          /\ Chk("C01", "TotalFilConstant", BEq(e.st.total, Wd.total), "-", e)
          /\ Chk("C01", "LedgerDelta", IF e.ok THEN LedgerDelta(Wd.bals, e.st.bals, e.tr)
                                             ELSE LedgerUnchanged(Wd.bals, e.st.bals), "-", e)
          /\ Chk("C01", "NoNegativeBalance", NoNegativeBalance(e.st.bals), "-", e)
          /\ Chk("C01", "RewardNeverFails", e.ev # "Reward" \/ e.ok, "-", e)

TInit == Wd = [epoch |-> 0] /\ G = [dep0 |-> <<>>, fresh |-> <<>>] /\ l = 1
TSpec == TInit /\ [][TStep]_<<Wd, G, l>>
Accepted == TLCGet("stats").diameter = Len(Rec) + 1
=============================================================================
