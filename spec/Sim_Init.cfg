SPECIFICATION SimSpec
CONSTANTS FirstId = 100
          MaxNew = 12
          MaxMsgs = 14
          ExportLen = 12
          Wide = TRUE
CONSTRAINT Bound
INVARIANT Export
PROPERTY StepOK
CHECK_DEADLOCK FALSE
