----------------------------- MODULE MC_Claims -----------------------------
(* Bounded model of verified onboarding with the driver's REAL policy numbers (harness/drivers/src/
   claims.rs: 4 deadlines x 6 epochs, sector lifetimes / claim terms / drop period of a few proving
   periods), epochs counted from a proving-period start of the miner, so that every behaviour replays
   1:1 on the real actors.  Every call, accepted or rejected, is a step.
   Path = "ni": committed-capacity sectors (non-interactive commit, 72-epoch life) + replica updates.
   Path = "pc": pre-commit + ProveCommitSectors3 (the shortest pre-committable life is 2953 epochs). *)
EXTENDS Claims, Json, Randomization
CONSTANTS MaxEpoch, MaxNext, MaxSectors, ExpCap, TermCap, ExportLen, Rich, Path, Grant, PieceSize
VARIABLE hist
mcvars == <<cvars, hist>>

Call0 == [ok |-> TRUE]
Ids == 1..MaxNext
Cur == CurDl(SM, epoch)
Fresh == IF SM.alloc = {} THEN 1 ELSE 1 + CHOOSE x \in SM.alloc : \A y \in SM.alloc : y <= x
LifeNI == MinLife
LifePC == PCWindow + MinLife
\* term maxima of new allocations: just the remaining life of a sector made now / a bit more / a lot more
TMaxes == IF Path = "ni" THEN {LifeNI - 12, LifeNI + 24} \cup (IF Rich THEN {LifeNI, LifeNI + 200} ELSE {})
          ELSE {LifePC, LifePC + 30} \cup (IF Rich THEN {LifePC - 10} ELSE {})
Sizes0 == IF Rich THEN {PieceSize, 2 * PieceSize} ELSE {PieceSize}
AllocReqs == {[provider |-> p, data |-> "dA", size |-> z, tmin |-> MinTerm, tmax |-> t, exp |-> epoch + x] :
                p \in {Prov} \cup (IF Rich THEN {"m2"} ELSE {}), z \in Sizes0, t \in TMaxes,
                x \in {MaxExp} \cup (IF Rich THEN {4, MaxExp + 1} ELSE {})}
\* piece lists: open (or stale) allocation ids, distinct, repeated, with an unverified piece
PieceOf(i) == IF i \in DOMAIN VR.allocs
              THEN [id |-> i, client |-> VR.allocs[i].client, data |-> VR.allocs[i].data, size |-> VR.allocs[i].size]
              ELSE [id |-> i, client |-> "c1", data |-> "dA", size |-> PieceSize]
Plain == [id |-> 0, client |-> "c1", data |-> "dB", size |-> PieceSize]
PieceLists == {<<PieceOf(i)>> : i \in Ids} \cup {<<PieceOf(i), PieceOf(j)>> : i, j \in Ids}
              \cup (IF Rich THEN {<<>>, <<Plain>>} \cup {<<PieceOf(i), Plain>> : i \in Ids} ELSE {})
LiveNs == {n \in InAmt(SM) : SM.sec[n].st = "live"}
\* maintain / drop lists: any ids, repeated ones included (the order inside a list is immaterial)
KeepSeqs == {<<>>} \cup {<<i>> : i \in Ids} \cup {<<q[1], q[2]>> : q \in {z \in Ids \X Ids : z[1] <= z[2]}}
            \cup (IF Rich /\ MaxNext >= 3 THEN {<<1, 2, 3>>, <<1, 1, 2>>} ELSE {})
DropSeqs == {<<>>} \cup {<<i>> : i \in Ids} \cup {<<q[1], q[2]>> : q \in {z \in Ids \X Ids : z[1] < z[2]}}
ExtSteps == {P, 3 * P} \cup (IF Rich THEN {0, 1, -1} ELSE {})
Decls1 == {[n |-> n, exp |-> SM.sec[n].exp + x, maintain |-> mt, drop |-> dr] :
             n \in {k \in LiveNs : SM.sec[k].exp < ExpCap}, x \in ExtSteps, mt \in KeepSeqs, dr \in DropSeqs}
\* two declarations in one message: the same sector again (without claims, or with other claims), or another one
Decls2 == {<<[n |-> n, exp |-> SM.sec[n].exp + P, maintain |-> mt, drop |-> <<>>],
             [n |-> n2, exp |-> SM.sec[n2].exp + 3 * P, maintain |-> mt2, drop |-> <<>>]>> :
             n \in {k \in LiveNs : SM.sec[k].exp < ExpCap}, n2 \in {k \in LiveNs : SM.sec[k].exp < ExpCap},
             mt \in {<<i>> : i \in Ids} \cup {<<1, 2>>}, mt2 \in {<<>>} \cup {<<i>> : i \in Ids}}
\* (the small exhaustive model allocates and commits capacity only in the first epoch)
Early == Rich \/ epoch = 0
Calls ==
     {Call0 @@ [a |-> "Transfer", c |-> c, to |-> Reg, amt |-> SizeOf(al), allocs |-> al, exts |-> <<>>, ids |-> <<>>] :
          c \in {"c1"} \cup (IF Rich THEN {"c2"} ELSE {}),
          al \in IF Early THEN {<<r>> : r \in AllocReqs} \cup {<<q[1], q[2]>> : q \in {z \in AllocReqs \X AllocReqs : z[1].tmax <= z[2].tmax}} ELSE {}}
  \cup (IF Rich THEN {Call0 @@ [a |-> "Transfer", c |-> "c1", to |-> Reg, amt |-> VR.claims[i].size, allocs |-> <<>>,
                                 exts |-> <<[provider |-> Prov, claim |-> i, tmax |-> VR.claims[i].tmax + x]>>, ids |-> <<>>] :
                           i \in DOMAIN VR.claims, x \in {24, 0, -1}} ELSE {})
  \cup (IF Path = "ni" \/ Rich
        THEN {Call0 @@ [a |-> "CommitNI", m |-> Prov, n |-> Fresh, exp |-> epoch + LifeNI + x, d |-> (Cur + k) % D] :
                 x \in IF Early THEN {0} \cup (IF Rich THEN {12, -1} ELSE {}) ELSE {}, k \in {2} \cup (IF Rich THEN {3, 1} ELSE {})}
             \cup {Call0 @@ [a |-> "ReplicaUpdate", m |-> Prov, ups |-> <<[n |-> n, pieces |-> ps]>>, requireAll |-> ra, res |-> <<>>] :
                 n \in InAmt(SM), ps \in PieceLists, ra \in (IF Rich THEN BOOLEAN ELSE {TRUE})}
             \cup (IF Rich THEN {Call0 @@ [a |-> "ReplicaUpdate", m |-> Prov, ups |-> <<[n |-> n1, pieces |-> <<PieceOf(i)>>], [n |-> n2, pieces |-> <<PieceOf(j)>>]>>,
                                             requireAll |-> ra, res |-> <<>>] : n1, n2 \in InAmt(SM), i, j \in Ids, ra \in BOOLEAN} ELSE {})
        ELSE {})
  \cup (IF Path = "pc" \/ Rich
        THEN {Call0 @@ [a |-> "PreCommit", m |-> Prov, secs |-> <<[n |-> Fresh, exp |-> epoch + LifePC + x, pieces |-> ps]>>] :
                 x \in {0} \cup (IF Rich THEN {20, -1} ELSE {}), ps \in PieceLists}
             \cup {Call0 @@ [a |-> "ProveCommit", m |-> Prov, secs |-> <<[n |-> n, pieces |-> SM.sec[n].pieces]>>, requireAll |-> ra, res |-> <<>>] :
                 n \in Pre(SM), ra \in (IF Rich THEN BOOLEAN ELSE {TRUE})}
             \cup {Call0 @@ [a |-> "ProveCommit", m |-> Prov, secs |-> <<[n |-> q[1], pieces |-> SM.sec[q[1]].pieces], [n |-> q[2], pieces |-> SM.sec[q[2]].pieces]>>,
                              requireAll |-> ra, res |-> <<>>] : q \in {z \in Pre(SM) \X Pre(SM) : z[1] < z[2]}, ra \in BOOLEAN}
        ELSE {})
  \cup {Call0 @@ [a |-> "Extend", m |-> Prov, decls |-> <<dc>>] : dc \in Decls1}
  \cup {Call0 @@ [a |-> "Extend", m |-> Prov, decls |-> <<q[1], q[2]>>] : q \in Decls2}
  \cup {Call0 @@ [a |-> "ExtendClaimTerms", c |-> c, terms |-> <<[provider |-> Prov, claim |-> i, tmax |-> VR.claims[i].tmax + x]>>, res |-> <<>>] :
          c \in {"c1"} \cup (IF Rich THEN {"c2"} ELSE {}), i \in {k \in DOMAIN VR.claims : VR.claims[k].tmax < TermCap},
          x \in {P, -1} \cup (IF Rich THEN {0, MaxTerm} ELSE {})}
  \cup {Call0 @@ [a |-> "RemoveExpiredClaims", c |-> "x", p |-> Prov, ids |-> q, removed |-> {}] : q \in {<<>>} \cup {<<i>> : i \in Ids}}
  \cup {Call0 @@ [a |-> "RemoveExpiredAllocs", c |-> "x", cl |-> "c1", ids |-> q, removed |-> {}] : q \in {<<>>} \cup {<<i>> : i \in Ids}}
  \cup {Call0 @@ [a |-> "Terminate", m |-> Prov, n |-> n] : n \in InAmt(SM)}

Do(vr, sm, call, e) == CDo(vr, sm, call, e)
Filled(call, r) ==
  CASE call.a = "Transfer" -> [call EXCEPT !.ok = r.ok, !.ids = r.ids]
    [] call.a \in {"ExtendClaimTerms"} -> [call EXCEPT !.ok = r.ok, !.res = r.res]
    [] call.a \in {"ProveCommit", "ReplicaUpdate"} -> [call EXCEPT !.ok = r.ok, !.res = IF r.ok THEN r.res ELSE <<>>]
    [] call.a \in {"RemoveExpiredAllocs", "RemoveExpiredClaims"} -> [call EXCEPT !.ok = r.ok, !.removed = r.removed]
    [] OTHER -> [call EXCEPT !.ok = r.ok]
Bounded(r) == r.VR.next <= MaxNext + 1 /\ Cardinality(DOMAIN r.SM.sec) <= MaxSectors
CallStep(call) ==
  LET r == Do(VR, SM, call, epoch) l == Filled(call, r) IN
  /\ Bounded(r)
  /\ VR' = r.VR /\ SM' = r.SM /\ last' = l /\ G' = CGhostNext(G, l) /\ hist' = Append(hist, l) /\ UNCHANGED epoch

\* time jumps to the next epochs at which something changes: a deadline opens or closes while a sector waits
\* for its first proof or for its deadline to become mutable; a sector enters its drop period / expires / is
\* removed; a claim's term ends; an allocation expires; a pre-commit becomes provable
Marks ==
  UNION {{SM.sec[n].pat, SM.sec[n].exp - DropPeriod - 1, SM.sec[n].exp - DropPeriod, SM.sec[n].exp - 1, SM.sec[n].exp, SM.sec[n].exp + 1,
          QExp(SM, SM.sec[n].d, SM.sec[n].exp) + 1} : n \in LiveNs}
  \cup UNION {{Open(SM, SM.sec[n].d, epoch) + W, Open(SM, SM.sec[n].d, epoch) - W} :
               n \in {k \in LiveNs : Rich \/ (SM.sec[k].vs = 0 /\ epoch <= SM.sec[k].pat + W)}}
  \cup UNION {{VR.claims[i].tstart + VR.claims[i].tmax - 1, VR.claims[i].tstart + VR.claims[i].tmax} : i \in DOMAIN VR.claims}
  \cup {VR.allocs[i].exp - 1 : i \in DOMAIN VR.allocs} \cup {VR.allocs[i].exp : i \in DOMAIN VR.allocs}
  \cup {SM.sec[n].at + PCDelay + 1 : n \in Pre(SM)}
Ahead == {m \in Marks : m > epoch}
NextMarks == {m \in Ahead : Cardinality({x \in Ahead : x < m}) < (IF Rich THEN 4 ELSE 2)}
TickSizes == {m - epoch : m \in NextMarks} \cup (IF Rich THEN {1, W} ELSE {})
TickStep == \E n \in TickSizes :
              /\ epoch + n <= MaxEpoch
              /\ epoch' = epoch + n /\ UNCHANGED <<VR, SM, G>>
              /\ last' = [a |-> "Tick", ok |-> TRUE, n |-> n] /\ hist' = Append(hist, last')
MCNext == (\E call \in Calls : CallStep(call)) \/ TickStep
SimNext == \/ \E call \in RandomSubset(25, Calls) : Do(VR, SM, call, epoch).ok /\ CallStep(call)
           \/ \E call \in RandomSubset(25, Calls) : Do(VR, SM, call, epoch).ok /\ CallStep(call)
           \/ \E call \in RandomSubset(2, Calls) : ~Do(VR, SM, call, epoch).ok /\ CallStep(call)
           \/ TickStep
MCInit ==
  /\ VR = [verifiers |-> [v \in {"v1"} |-> 6 * Grant],
           tok |-> [h \in Holders |-> IF h \in {"c1", "c2"} THEN Grant ELSE 0], supply |-> 2 * Grant,
           allocs |-> <<>>, claims |-> <<>>, next |-> 1]
  /\ SM = [sec |-> <<>>, alloc |-> {}, off |-> 0]
  /\ epoch = 0 /\ G = [dropped |-> {}]
  /\ last = [a |-> "Init", ok |-> TRUE] /\ hist = <<>> /\ TLCSet(42, {})
MCSpec == MCInit /\ [][MCNext]_mcvars
SimSpec == MCInit /\ [][SimNext]_mcvars
Bound == epoch <= MaxEpoch
\* (the power-base epoch only scales the recorded weight; the ghost is statistics)
View == <<VR, [SM EXCEPT !.sec = [n \in DOMAIN @ |-> [@[n] EXCEPT !.base = 0]]], epoch>>
Inv == CStateInv(VR, SM, epoch)
StepOK == [][CStepProps]_mcvars
\* the same invariants one by one, for the configuration that demonstrates finding 5
InvWeightBacked == WeightBacked(VR, SM, epoch)
InvExpirationWithinTerms == ExpirationWithinTerms(VR, SM, epoch)

\* abstract signature of a transition (one exported behaviour per signature: the transition tour)
Cmp(a, b) == IF a < b THEN "lt" ELSE IF a = b THEN "eq" ELSE "gt"
Alpha(vr, sm, g, e) ==
  <<{IF sm.sec[n].st = "pre" THEN <<"pre", Cmp(e, sm.sec[n].at + PCDelay)>>
     ELSE <<sm.sec[n].st, Proven(sm, n, e), Mutable(sm, sm.sec[n].d, e), e >= sm.sec[n].exp - DropPeriod,
            Cmp(e, sm.sec[n].exp), e <= QExp(sm, sm.sec[n].d, sm.sec[n].exp), sm.sec[n].vs > 0>> : n \in DOMAIN sm.sec},
    {<<i \in g.dropped, Cmp(e, TermEnd(vr, i)),
       IF vr.claims[i].sector \in DOMAIN sm.sec THEN Cmp(sm.sec[vr.claims[i].sector].exp, TermEnd(vr, i)) ELSE "-">> : i \in DOMAIN vr.claims},
    {Cmp(e, vr.allocs[i].exp) : i \in DOMAIN vr.allocs}>>
PieceIds(ps) == [k \in 1..Len(ps) |-> ps[k].id]
PieceClass(ps) == <<Len(ps), NoDup(PieceIds(ps)), {IF ps[k].id = 0 THEN "plain" ELSE IF ps[k].id \in DOMAIN VR.allocs THEN "open" ELSE "stale" : k \in 1..Len(ps)}>>
\* a declared claim id relative to the sector and the expiration asked for
IdClass(i, n, x) == IF i \notin DOMAIN VR.claims THEN "none"
                    ELSE IF VR.claims[i].sector # n \/ VR.claims[i].provider # Prov THEN "foreign"
                    ELSE IF i \in G.dropped THEN (IF TermEnd(VR, i) < x THEN "dropped-short" ELSE "dropped")
                    ELSE IF TermEnd(VR, i) < x THEN "short" ELSE "ok"
DeclClass(dc) == <<dc.exp - SM.sec[dc.n].exp, Len(dc.maintain), Len(dc.drop), NoDup(dc.maintain \o dc.drop),
                   Active(SM, dc.n, epoch), Cmp(SM.sec[dc.n].exp - epoch, DropPeriod), SM.sec[dc.n].vs > 0,
                   {IdClass(dc.maintain[k], dc.n, dc.exp) : k \in 1..Len(dc.maintain)},
                   {IdClass(dc.drop[k], dc.n, dc.exp) : k \in 1..Len(dc.drop)}>>
\* why the model turns an extension down (every check that fails, evaluated on the state before the message)
ExtReasons(decls) ==
  LET ids(dc) == dc.maintain \o dc.drop
      kn(i) == i \in DOMAIN VR.claims /\ VR.claims[i].provider = Prov
      all == AllIds(decls)
      sz(q) == SumInts([k \in 1..Len(q) |-> IF kn(q[k]) THEN VR.claims[q[k]].size ELSE 0])
      of(n) == {i \in 1..Len(decls) : decls[i].n = n}
      chk(n) == SumSet(of(n), [i \in of(n) |-> sz(ids(decls[i]))])
      kp(n) == SumSet(of(n), [i \in of(n) |-> sz(decls[i].maintain)])
      per(dc) ==
        IF dc.n \notin InAmt(SM) THEN {"nosector"}
        ELSE LET sc == SM.sec[dc.n] IN
             (IF ~Active(SM, dc.n, epoch) THEN {"inactive"} ELSE {})
             \cup (IF sc.exp < epoch THEN {"expired"} ELSE {})
             \cup (IF dc.exp < sc.exp THEN {"shrink"} ELSE {})
             \cup (IF dc.exp - sc.act < MinLife \/ dc.exp > epoch + MaxLife THEN {"life"} ELSE {})
             \cup (IF dc.exp <= epoch THEN {"zero"} ELSE {})
             \cup (IF sc.vs > 0 /\ ((\A i \in of(dc.n) : Len(ids(decls[i])) = 0) \/ chk(dc.n) # sc.vs) THEN {"space"} ELSE {})
             \cup (IF sc.vs > 0 /\ chk(dc.n) # kp(dc.n) /\ sc.exp - epoch > DropPeriod THEN {"window"} ELSE {})
  IN  (IF \E k \in 1..Len(all) : ~kn(all[k]) THEN {"unknown"} ELSE {})
      \cup (IF \E i \in 1..Len(decls) : \E k \in 1..Len(ids(decls[i])) : kn(ids(decls[i])[k]) /\ VR.claims[ids(decls[i])[k]].sector # decls[i].n THEN {"foreign"} ELSE {})
      \cup (IF \E i \in 1..Len(decls) : \E k \in 1..Len(decls[i].maintain) : kn(decls[i].maintain[k]) /\ decls[i].exp > TermEnd(VR, decls[i].maintain[k]) THEN {"term"} ELSE {})
      \cup (IF ~NoDup(all) THEN {"dup"} ELSE {})
      \cup (IF \E i, j \in 1..Len(decls) : i # j /\ decls[i].n = decls[j].n /\ Len(ids(decls[i])) > 0 THEN {"twice"} ELSE {})
      \cup UNION {per(decls[i]) : i \in 1..Len(decls)}
ArgClass(l) ==
  CASE l.a = "Transfer" -> <<Len(l.allocs), Len(l.exts)>>
    [] l.a = "CommitNI" -> <<l.exp - epoch, (l.d - Cur + D) % D>>
    [] l.a = "PreCommit" -> <<l.secs[1].exp - epoch, PieceClass(l.secs[1].pieces)>>
    [] l.a = "ProveCommit" -> <<Len(l.secs), l.requireAll, l.res>>
    [] l.a = "ReplicaUpdate" -> <<[k \in 1..Len(l.ups) |-> PieceClass(l.ups[k].pieces)], l.requireAll, l.res>>
    [] l.a = "Extend" -> IF l.ok THEN <<[k \in 1..Len(l.decls) |-> DeclClass(l.decls[k])],
                                        Len(l.decls) = 2 /\ l.decls[1].n = l.decls[Len(l.decls)].n>>
                         ELSE <<Len(l.decls), ExtReasons(l.decls)>>
    [] l.a = "ExtendClaimTerms" -> <<l.c, l.terms[1].tmax - VR.claims[l.terms[1].claim].tmax, l.res>>
    [] l.a = "RemoveExpiredClaims" -> <<Len(l.ids), Cardinality(l.removed),
                                        {IF l.ids[k] \notin DOMAIN VR.claims THEN "none"
                                         ELSE IF epoch = TermEnd(VR, l.ids[k]) - 1 THEN "eve" ELSE Cmp(epoch, TermEnd(VR, l.ids[k])) : k \in 1..Len(l.ids)}>>
    [] l.a = "RemoveExpiredAllocs" -> <<Len(l.ids), Cardinality(l.removed),
                                        {IF l.ids[k] \notin DOMAIN VR.allocs THEN "none"
                                         ELSE IF epoch = VR.allocs[l.ids[k]].exp - 1 THEN "eve" ELSE Cmp(epoch, VR.allocs[l.ids[k]].exp) : k \in 1..Len(l.ids)}>>
    [] l.a = "Terminate" -> "-"
    [] OTHER -> "-"
Tour ==
  IF last'.a \in {"Init", "Tick"} THEN TRUE
  ELSE LET sig == IF (VR' = VR /\ SM' = SM)    \* rejected or without effect, or a registry-only call:
                     \/ last'.a \in {"Transfer", "ExtendClaimTerms", "RemoveExpiredClaims", "RemoveExpiredAllocs"}   \* the pre-state does not refine the signature
                  THEN ToString(<<"-", last'.a, ArgClass(last'), last'.ok>>)
                  ELSE ToString(<<Alpha(VR, SM, G, epoch), last'.a, ArgClass(last'), last'.ok>>)
       IN  IF sig \in TLCGet(42) THEN TRUE
           ELSE TLCSet(42, TLCGet(42) \cup {sig}) /\ PrintT(<<"REPLAY", ToJson([sig |-> sig, calls |-> hist'])>>)
Export == Len(hist) # ExportLen \/ PrintT(<<"REPLAY", ToJson(hist)>>)
=============================================================================
