----------------------------- MODULE MC_Sectors -----------------------------
(* Bounded lifecycle model of one miner with the REAL tiny-policy numbers, so that the behaviours TLC
   generates replay 1:1 on the real actors (the driver aligns epoch 0 with a proving-period start). *)
EXTENDS Sectors, Json, Randomization
CONSTANTS MaxEpoch, MaxSectors, ExportLen, Rich, WithPC
VARIABLE hist
mcvars == <<vars, hist>>

Ns == 0..(MaxSectors - 1)
\* every commitment asks for the same absolute expiration (>= MinLife away for the whole run), so that the
\* expiration is not a state multiplier; Extend moves it by whole proving periods, at most twice
BaseExp == MaxEpoch + MinLife
Callers == IF Rich THEN {"worker", "owner", "x"} ELSE {"worker"}
LiveNs == {n \in Nos(SM) : St(SM, n) \in Live}
Cur == CurDl(SM, epoch)
SubsetsOf(S) == IF Rich THEN SUBSET S ELSE {{}} \cup {{n} : n \in S} \cup {S}
PoStParts == LET ps == 0..(NParts(SM, Cur) - 1) IN
             UNION {{<<[i |-> p, skipped |-> sk]>> : sk \in SubsetsOf(InPart(SM, Cur, p))} : p \in ps}
             \cup (IF NParts(SM, Cur) >= 2 THEN {<<[i |-> 0, skipped |-> {}], [i |-> 1, skipped |-> {}]>>} ELSE {})
Decl(n) == <<[d |-> SM.sec[n].d, p |-> SM.sec[n].p, s |-> {n}]>>
DeclX(n, x) == <<[d |-> SM.sec[n].d, p |-> SM.sec[n].p, s |-> {n}, exp |-> x]>>
Blank == [ok |-> TRUE]
Calls ==
     {Blank @@ [a |-> "CommitNI", c |-> c, ns |-> ns, d |-> d, exps |-> [i \in 1..Len(ns) |-> BaseExp + x], requireAll |-> FALSE] :
          c \in Callers, ns \in {<<n>> : n \in Ns} \cup (IF MaxSectors >= 2 THEN {<<0, 1>>} ELSE {}) \cup (IF MaxSectors >= 3 THEN {<<0, 1, 2>>} ELSE {}),
          d \in 0..(D - 1), x \in (IF Rich THEN {0, 7, -MaxEpoch - 1} ELSE {0})}
  \cup {Blank @@ [a |-> "PoSt", c |-> c, d |-> dd, parts |-> pp, proofOK |-> ok] :
          c \in Callers, dd \in {Cur} \cup (IF Rich THEN {(Cur + 1) % D} ELSE {}), pp \in PoStParts, ok \in (IF Rich THEN BOOLEAN ELSE {TRUE})}
  \cup {Blank @@ [a |-> "DeclareFaults", c |-> c, decls |-> Decl(n)] : c \in Callers, n \in Nos(SM)}
  \cup {Blank @@ [a |-> "DeclareRecovered", c |-> c, decls |-> Decl(n)] : c \in Callers, n \in Nos(SM)}
  \cup {Blank @@ [a |-> "Terminate", c |-> c, decls |-> Decl(n)] : c \in Callers, n \in Nos(SM)}
  \* the pre-commit path: one sector at a time, proven after the challenge delay (MaxPC epochs are far beyond MaxEpoch,
  \* so an overdue proof cannot be reached within the bound; the trace binding meets it on real schedules only)
  \cup (IF WithPC THEN {Blank @@ [a |-> "PreCommit", c |-> c, ns |-> <<n>>, exps |-> <<BaseExp + MaxPC + x>>] :
                         c \in Callers, n \in Ns, x \in (IF Rich THEN {0, -MaxEpoch - 1} ELSE {0})}
                    \cup {Blank @@ [a |-> "ProveCommit", c |-> c, ns |-> <<n>>, requireAll |-> FALSE] : c \in Callers, n \in Ns}
        ELSE {})
  \cup UNION {{Blank @@ [a |-> "Extend", c |-> c, decls |-> DeclX(n, SM.sec[n].exp + x)] : c \in Callers, x \in (IF SM.sec[n].exp < BaseExp + 2 * P THEN {P, -1} ELSE {-1})} : n \in Nos(SM)}

Do(sm, call, e) ==
  CASE call.a = "CommitNI" -> CommitNI(sm, call.c, call.ns, call.d, call.exps, call.requireAll, e)
    [] call.a = "PoSt" -> PoSt(sm, call.c, call.d, call.parts, call.proofOK, e)
    [] call.a = "DeclareFaults" -> DeclareFaults(sm, call.c, call.decls, e)
    [] call.a = "DeclareRecovered" -> DeclareRecovered(sm, call.c, call.decls, e)
    [] call.a = "Terminate" -> Terminate(sm, call.c, call.decls, e)
    [] call.a = "Extend" -> Extend(sm, call.c, call.decls, e)
    [] call.a = "PreCommit" -> PreCommit(sm, call.c, call.ns, call.exps, e)
    [] call.a = "ProveCommit" -> ProveCommit(sm, call.c, call.ns, call.requireAll, e)
CallStep(call) ==
  LET r == Do(SM, call, epoch) l == [call EXCEPT !.ok = r.ok] IN
  /\ SM' = r.SM /\ last' = l /\ hist' = Append(hist, l) /\ UNCHANGED epoch
\* time jumps to just before / at the end of the current deadline, or one epoch
Off == (epoch - PeriodStart(SM, epoch)) % W
TickSizes == IF Rich THEN {1, W - Off} ELSE IF Off < W - FaultCutoff - 1 THEN {W - FaultCutoff - 1 - Off, W - Off} ELSE {1, W - Off}
TickStep == \E n \in TickSizes :
              /\ SM' = TickN(SM, epoch, n) /\ epoch' = epoch + n
              /\ last' = [a |-> "Tick", ok |-> TRUE, n |-> n] /\ hist' = Append(hist, last')
MCNext == (\E call \in Calls : CallStep(call)) \/ TickStep
SimNext == \/ \E call \in RandomSubset(20, Calls) : Do(SM, call, epoch).ok /\ CallStep(call)
           \/ \E call \in RandomSubset(2, Calls) : ~Do(SM, call, epoch).ok /\ CallStep(call)
           \/ TickStep \/ TickStep
MCInit == /\ SM = [sec |-> <<>>, posted |-> [d \in 0..(D - 1) |-> {}], alloc |-> {}, off |-> 0, cron |-> FALSE, pre |-> <<>>]
          /\ epoch = 0 /\ last = [a |-> "Init", ok |-> TRUE] /\ hist = <<>> /\ TLCSet(42, {})
MCSpec == MCInit /\ [][MCNext]_mcvars
SimSpec == MCInit /\ [][SimNext]_mcvars
Bound == epoch <= MaxEpoch
View == <<SM, epoch>>
Inv == TypeOK /\ PowerOnlyAfterPoSt /\ PartitionsBounded /\ FaultsHaveExpiry /\ NothingOverdue
\* action properties of the design: power (the set of active sectors) grows only by a PoSt, and a deadline
\* that closes without a proof leaves none of its sectors active
PowerGrowsOnlyByPoSt == (ActiveSet(SM') \ ActiveSet(SM) # {}) => (last'.a = "PoSt" /\ last'.ok)
StepOK == [][PowerGrowsOnlyByPoSt]_mcvars
\* abstract signature of a transition: the sectors by status and by where their deadline stands relative to the
\* open one, the phase inside the window (open / middle / inside the fault-declaration cutoff), the call with its
\* argument class and the verdict.  One behaviour is exported per signature (the transition tour).
RelDl(d) == LET r == (d - Cur + D) % D IN IF r = 0 THEN "cur" ELSE IF r = 1 THEN "next" ELSE "far"
OffClass == IF Off >= W - FaultCutoff THEN "cut" ELSE IF Off = 0 THEN "open" ELSE "mid"
StAll == {"unproven", "active", "faulty", "recovering", "term"}
Alpha(sm, e) == <<[s \in StAll |-> {RelDl(sm.sec[n].d) : n \in {m \in Nos(sm) : St(sm, m) = s}}], OffClass,
                  {RelDl(d) : d \in {x \in 0..(D - 1) : sm.posted[x] # {}}}>>
ArgClass(l) ==
  CASE l.a = "CommitNI" -> <<l.c, Len(l.ns), RelDl(l.d), \E i \in 1..Len(l.ns) : l.ns[i] \in SM.alloc>>
    [] l.a = "PoSt" -> <<l.c, [i \in 1..Len(l.parts) |-> <<l.parts[i].i, Cardinality(l.parts[i].skipped)>>], l.proofOK,
                         \E i \in 1..Len(l.parts) : l.parts[i].i \in SM.posted[l.d]>>
    [] l.a = "PreCommit" -> <<l.c, l.ns[1] \in SM.alloc>>
    [] l.a = "ProveCommit" -> <<l.c, l.ns[1] \in PreNos(SM), IF l.ns[1] \in PreNos(SM) /\ epoch - SM.pre[l.ns[1]].at <= ChalDelay THEN "early" ELSE "due">>
    [] l.a \in {"DeclareFaults", "DeclareRecovered", "Terminate", "Extend"} ->
           LET n == CHOOSE n \in l.decls[1].s : TRUE IN <<l.c, St(SM, n), RelDl(SM.sec[n].d), SM.sec[n].p \in SM.posted[SM.sec[n].d]>>
    [] OTHER -> "-"
Tour ==
  IF last'.a \in {"Init", "Tick"} THEN TRUE
  ELSE LET sig == ToString(<<Alpha(SM, epoch), last'.a, ArgClass(last'), last'.ok>>)
       IN  IF sig \in TLCGet(42) THEN TRUE
           ELSE TLCSet(42, TLCGet(42) \cup {sig}) /\ PrintT(<<"REPLAY", ToJson([sig |-> sig, calls |-> hist'])>>)
Export == Len(hist) # ExportLen \/ PrintT(<<"REPLAY", ToJson(hist)>>)
=============================================================================
