----------------------------- MODULE MC_Access -----------------------------
(***************************************************************************)
(* Model checking of the permission table: TLC enumerates the whole        *)
(* (actor type x method number/variant x caller class) matrix -- every     *)
(* "behaviour" is one call --, checks the table-level invariants, and      *)
(* exports every cell (a REPLAY line per cell) for the harness to execute  *)
(* on the real actors.                                                     *)
(***************************************************************************)
EXTENDS Access, Json

VARIABLES last      \* the last call made: a cell + the spec's verdict, or the idle record

Idle == [t |-> "-", name |-> "-", hi |-> 0, lo |-> 0, var |-> "", kind |-> "-", cls |-> "-",
         designated |-> FALSE]

MCInit == last = Idle

\* the one-step machine: any caller class may attempt any method of any actor at any time
\* (calls are independent -- every cell is executed on a fresh copy of the fixture state -- so the
\* machine returns to idle after each call instead of chaining calls)
Call(t, r, c) == last' = Cell(t, r, c)
Return == last # Idle /\ last' = Idle

CallStep == last = Idle /\ \E t \in ActorType : \E r \in Table[t] : \E c \in ClassesFor(t) : Call(t, r, c)
MCNext == CallStep \/ Return

MCSpec == MCInit /\ [][MCNext]_last

\* ---- invariants -------------------------------------------------------------------------
\* (constant-level; evaluated once, in the idle state)
TableInv == last = Idle => TableOK

\* the verdict of every reachable call is the table's, and the class-level consequences hold
\* cell by cell (these are what the trace spec evaluates on the REAL cells)
CellInv ==
  last # Idle =>
    /\ last.cls \in ClassesFor(last.t)
    /\ (last.kind = "undefined" => ~last.designated)
    /\ (last.hi < FirstExportedHi /\ last.cls \in {"evm", "unknown"} /\ last.t \notin Unrestricted)
          => ~last.designated
    /\ (last.name = "Constructor" /\ last.designated) => last.cls \in {"init", "system"}

\* ---- export: one REPLAY line per cell ---------------------------------------------------
Sig(c) == c.t \o "/" \o c.name \o "/" \o ToString(c.hi) \o ":" \o ToString(c.lo) \o "/" \o c.var \o "/" \o c.cls
Tour ==
  LET c == last' IN
  \* every cell is reached by exactly one transition (from the single idle state)
  IF c = Idle THEN TRUE
  ELSE PrintT(<<"REPLAY", ToJson([sig |-> Sig(c), calls |-> <<c>>])>>)
=============================================================================
