--------------------------- MODULE Trace_VerifReg ---------------------------
(* Trace validation of the real verified registry + DataCap token actors against VerifReg.tla. *)
EXTENDS VerifReg, Json, IOUtils
VARIABLE l
Rec == ndJsonDeserialize(IOEnv.TRACE)
ToSet(arr) == {arr[i] : i \in 1..Len(arr)}
ToMap(arr, K(_), V(_)) ==
  LET ks == {K(arr[i]) : i \in 1..Len(arr)}
  IN  [k \in ks |-> LET i == CHOOSE j \in 1..Len(arr) : K(arr[j]) = k IN V(arr[i])]
ToVR(s) == [verifiers |-> ToMap(s.verifiers, LAMBDA x : x[1], LAMBDA x : x[2]), tok |-> s.tok, supply |-> s.supply,
            allocs |-> ToMap(s.allocs, LAMBDA x : x.id, LAMBDA x : x.a),
            claims |-> ToMap(s.claims, LAMBDA x : x.id, LAMBDA x : x.c), next |-> s.next]
Do(vr, call, e) ==
  CASE call.a = "AddVerifier" -> AddVerifier(vr, call.c, call.v, call.amt)
    [] call.a = "RemoveVerifier" -> RemoveVerifier(vr, call.c, call.v)
    [] call.a = "AddClient" -> AddClient(vr, call.c, call.cl, call.amt)
    [] call.a = "RemoveDataCap" -> RemoveDataCap(vr, call.c, call.cl, call.amt, call.v1, call.v2, call.sig1OK, call.sig2OK)
    [] call.a = "Transfer" -> Transfer(vr, call.c, call.to, call.amt, call.allocs, call.exts, e)
    [] call.a = "Claim" -> Claim(vr, call.m, call.sectors, call.aon, e)
    [] call.a = "RemoveExpiredAllocs" -> RemoveExpiredAllocs(vr, call.cl, call.ids, e)
    [] call.a = "ExtendClaimTerms" -> ExtendClaimTerms(vr, call.c, call.terms)
    [] call.a = "RemoveExpiredClaims" -> RemoveExpiredClaims(vr, call.p, call.ids, e)
ResultsMatch(e, r) ==
  CASE e.a = "RemoveDataCap" -> (e.ok => r.removed = e.removed)
    [] e.a = "Transfer" -> (e.ok => r.ids = e.ids)
    [] e.a \in {"Claim", "ExtendClaimTerms"} -> (e.ok => r.res = e.res)
    [] e.a \in {"RemoveExpiredAllocs", "RemoveExpiredClaims"} -> (e.ok => r.removed = ToSet(e.removed))
    [] OTHER -> TRUE
Explained(e) ==
  IF e.a = "Tick" THEN VR' = VR /\ epoch' = epoch + e.n
  ELSE LET r == Do(VR, e, epoch) IN r.ok = e.ok /\ VR' = r.VR /\ ResultsMatch(e, r) /\ epoch' = epoch
Chk(prop, name, holds, e) == IF holds THEN TRUE ELSE PrintT(<<"VIOL", prop, name, l, "-", e.a>>)
TStep ==
  /\ l <= Len(Rec)
  /\ l' = l + 1
  /\ LET e == Rec[l] IN
     IF e.ev \in {"Init", "Reset"}
     THEN /\ VR' = ToVR(e.st) /\ epoch' = e.st.epoch /\ G' = [minted |-> 0, burnt |-> 0, spent |-> {}]
          /\ last' = [a |-> "Init", ok |-> TRUE]
     ELSE /\ VR' = ToVR(e.st) /\ epoch' = e.st.epoch /\ last' = e
          /\ G' = GhostNext(G, VR, ToVR(e.st), e)
          /\ Chk("C09", "SupplyIsSum", SupplyIsSum(VR'), e)
          /\ Chk("C09", "SupplyIsMintedMinusBurnt", SupplyIsMintedMinusBurnt(VR', G'), e)
          /\ Chk("C09", "RegistryHoldsAllocs", RegistryHoldsAllocs(VR'), e)
          /\ Chk("C09", "AllowanceExact", AllowanceExact, e)
          /\ Chk("C09", "MintOnlyByGrant", MintOnlyByGrant, e)
          /\ Chk("C09", "AllocFate", AllocFate, e)
          /\ Chk("C09", "ClaimsFromAllocs", ClaimsFromAllocs, e)
          /\ Chk("C09", "IdsFresh", IdsFresh, e)
          /\ Chk("C10", "ClaimTermsMonotone", ClaimTermsMonotone, e)
          /\ Chk("C10", "ClaimRemovalOnlyExpired", ClaimRemovalOnlyExpired, e)
          /\ Chk("C10", "ClaimWithinTerms", ClaimWithinTerms, e)
          /\ Chk("C09", "RejectedIsNoop", RejectedIsNoop, e)
          /\ (IF Explained(e) THEN TRUE ELSE PrintT(<<"DRIFT", "C09", l, e.a, e.ok>>))
TInit == /\ VR = [verifiers |-> <<>>, tok |-> [h \in Holders |-> 0], supply |-> 0, allocs |-> <<>>, claims |-> <<>>, next |-> 1]
         /\ epoch = 0 /\ G = [minted |-> 0, burnt |-> 0, spent |-> {}] /\ last = [a |-> "Init", ok |-> TRUE] /\ l = 1
TSpec == TInit /\ [][TStep]_<<vars, l>>
Accepted == TLCGet("stats").diameter = Len(Rec) + 1
=============================================================================
