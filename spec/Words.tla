------------------------------- MODULE Words -------------------------------
(***************************************************************************)
(* 256-bit EVM words and the arithmetic / comparison / bitwise functions   *)
(* of the Ethereum Yellow Paper (appendix H.2, groups 0s, 10s) plus        *)
(* EIP-145 (SHL, SHR, SAR) and EIP-7939 (CLZ).                             *)
(*                                                                         *)
(* Representation (TLC integers are 32 bit):                               *)
(*   Word  = tuple of 32 bytes, BIG-endian (w[1] is the most significant   *)
(*           byte) -- the layout of PUSH data, memory and the traces.      *)
(*   Nat   = natural number of any size: little-endian base-256 digit      *)
(*           sequence without high zero digits; zero is <<>>.              *)
(* Every function is defined through the mathematical value (W2N / N2W),   *)
(* the way the Yellow Paper states it ("all arithmetic is modulo 2^256"),  *)
(* NOT after the Rust code.  Constructed functions are forced with TLCEval *)
(* (TLC's function values are lazy and un-memoised).                       *)
(***************************************************************************)
EXTENDS Integers, Sequences, TLC
LOCAL INSTANCE Bitwise          \* CommunityModules: x & y, x | y, x ^^ y on naturals
LOCAL INSTANCE FiniteSetsExt    \* CommunityModules: FoldSet

-----------------------------------------------------------------------------
(* Naturals *)

RECURSIVE TopIdx(_, _)
TopIdx(s, i) == IF i = 0 THEN 0 ELSE IF s[i] # 0 THEN i ELSE TopIdx(s, i - 1)
NNorm(s) == LET t == TopIdx(s, Len(s)) IN IF t = Len(s) THEN s ELSE SubSeq(s, 1, t)

Dg(x, i) == IF i <= Len(x) THEN x[i] ELSE 0
NIsZero(x) == Len(x) = 0
NOfInt(n) == NNorm(<<n % 256, (n \div 256) % 256, (n \div 65536) % 256, n \div 16777216>>)  \* 0 <= n < 2^31

RECURSIVE NCmpR(_, _, _)
NCmpR(x, y, i) == IF i = 0 THEN 0 ELSE IF x[i] < y[i] THEN -1 ELSE IF x[i] > y[i] THEN 1 ELSE NCmpR(x, y, i - 1)
\* -1, 0, 1
NCmp(x, y) == IF Len(x) < Len(y) THEN -1 ELSE IF Len(x) > Len(y) THEN 1 ELSE NCmpR(x, y, Len(x))

RECURSIVE NAddR(_, _, _, _, _)
NAddR(x, y, i, n, c) ==
  IF i > n THEN (IF c = 0 THEN <<>> ELSE <<c>>)
  ELSE LET s == Dg(x, i) + Dg(y, i) + c IN <<s % 256>> \o NAddR(x, y, i + 1, n, s \div 256)
NAdd(x, y) == NAddR(x, y, 1, IF Len(x) > Len(y) THEN Len(x) ELSE Len(y), 0)

\* x - y for x >= y
RECURSIVE NSubR(_, _, _, _)
NSubR(x, y, i, b) ==
  IF i > Len(x) THEN <<>>
  ELSE LET d == x[i] - Dg(y, i) - b IN
       IF d < 0 THEN <<d + 256>> \o NSubR(x, y, i + 1, 1) ELSE <<d>> \o NSubR(x, y, i + 1, 0)
NSub(x, y) == NNorm(NSubR(x, y, 1, 0))

\* x * k for a machine integer 0 <= k <= 65536
RECURSIVE NMulSmallR(_, _, _, _)
NMulSmallR(x, k, i, c) ==
  IF i > Len(x) THEN (IF c = 0 THEN <<>> ELSE IF c < 256 THEN <<c>> ELSE <<c % 256, c \div 256>>)
  ELSE LET t == x[i] * k + c IN <<t % 256>> \o NMulSmallR(x, k, i + 1, t \div 256)
NMulSmall(x, k) == IF k = 0 THEN <<>> ELSE NNorm(NMulSmallR(x, k, 1, 0))

\* floor(x / k) for a machine integer 1 <= k <= 65536
RECURSIVE NDivSmallR(_, _, _, _)
NDivSmallR(x, k, i, r) ==
  IF i = 0 THEN <<>>
  ELSE LET t == r * 256 + x[i] IN NDivSmallR(x, k, i - 1, t % k) \o <<t \div k>>
NDivSmall(x, k) == NNorm(NDivSmallR(x, k, Len(x), 0))
RECURSIVE NModSmallR(_, _, _, _)
NModSmallR(x, k, i, r) == IF i = 0 THEN r ELSE NModSmallR(x, k, i - 1, (r * 256 + x[i]) % k)
NModSmall(x, k) == NModSmallR(x, k, Len(x), 0)

\* schoolbook product: column sums first (a column sum is < 64 * 255^2 < 2^23), then one carry pass.
\* FoldSet (CommunityModules FiniteSetsExt) is the set fold; TLC evaluates it natively.
MaxI(a, b) == IF a > b THEN a ELSE b
MinI(a, b) == IF a < b THEN a ELSE b
Cols(x, y) == TLCEval([k \in 1..(Len(x) + Len(y)) |->
                FoldSet(LAMBDA i, acc : acc + x[i] * y[k + 1 - i], 0,
                        MaxI(1, k + 1 - Len(y))..MinI(k, Len(x)))])
RECURSIVE CarryR(_, _, _)
CarryR(cs, k, c) ==
  IF k > Len(cs) THEN (IF c = 0 THEN <<>> ELSE <<c>>)
  ELSE LET t == cs[k] + c IN <<t % 256>> \o CarryR(cs, k + 1, t \div 256)
NMul(x, y) == IF Len(x) = 0 \/ Len(y) = 0 THEN <<>> ELSE NNorm(CarryR(Cols(x, y), 1, 0))

\* x * 256^q  and  floor(x / 256^q)
NShlDigits(x, q) == IF Len(x) = 0 THEN <<>> ELSE [i \in 1..q |-> 0] \o x
NShrDigits(x, q) == IF q >= Len(x) THEN <<>> ELSE SubSeq(x, q + 1, Len(x))
Pow2Small(r) == CASE r = 0 -> 1 [] r = 1 -> 2 [] r = 2 -> 4 [] r = 3 -> 8 [] r = 4 -> 16
                  [] r = 5 -> 32 [] r = 6 -> 64 [] r = 7 -> 128
\* x * 2^s and floor(x / 2^s) for a machine integer s >= 0
NShl(x, s) == NMulSmall(NShlDigits(x, s \div 8), Pow2Small(s % 8))
NShr(x, s) == NDivSmall(NShrDigits(x, s \div 8), Pow2Small(s % 8))

(* Long division, one base-256 quotient digit at a time.  The digit is THE largest d in 0..255  *)
(* with d*y <= r, found by bisection (r < 256*y is an invariant of the loop).                   *)
RECURSIVE QDigit(_, _, _, _)
QDigit(r, y, lo, hi) ==      \* invariant: lo*y <= r < (hi+1)*y
  IF lo = hi THEN lo
  ELSE LET mid == (lo + hi + 1) \div 2 IN
       IF NCmp(NMulSmall(y, mid), r) <= 0 THEN QDigit(r, y, mid, hi) ELSE QDigit(r, y, lo, mid - 1)
RECURSIVE NDivModR(_, _, _, _)
\* returns <<quotient digits (little-endian, for positions 1..i), remainder>>
NDivModR(x, y, i, r) ==
  IF i = 0 THEN <<(<<>>), r>>
  ELSE LET r1 == NNorm(<<x[i]>> \o r)              \* r*256 + x[i]
           d  == IF NCmp(r1, y) < 0 THEN 0 ELSE QDigit(r1, y, 1, 255)
           r2 == IF d = 0 THEN r1 ELSE NSub(r1, NMulSmall(y, d))
           rest == NDivModR(x, y, i - 1, r2)
       IN  <<rest[1] \o <<d>>, rest[2]>>
\* y # 0.  <<floor(x / y), x mod y>>
NDivMod(x, y) ==
  IF NCmp(x, y) < 0 THEN <<(<<>>), x>>
  ELSE LET qr == NDivModR(x, y, Len(x), <<>>) IN <<NNorm(qr[1]), qr[2]>>
NDiv(x, y) == NDivMod(x, y)[1]
NMod(x, y) == NDivMod(x, y)[2]

-----------------------------------------------------------------------------
(* Words *)

WZero == TLCEval([i \in 1..32 |-> 0])
WOne  == TLCEval([i \in 1..32 |-> IF i = 32 THEN 1 ELSE 0])
WMax  == TLCEval([i \in 1..32 |-> 255])
IsWord(w) == Len(w) = 32 /\ \A i \in 1..32 : w[i] \in 0..255

RECURSIVE FirstNZ(_, _)
FirstNZ(w, i) == IF i > 32 THEN 33 ELSE IF w[i] # 0 THEN i ELSE FirstNZ(w, i + 1)
\* value of a word
W2N(w) == LET f == FirstNZ(w, 1) IN TLCEval([i \in 1..(33 - f) |-> w[33 - i]])
\* n mod 2^256 as a word
N2W(n) == TLCEval([i \in 1..32 |-> Dg(n, 33 - i)])
P256 == TLCEval([i \in 1..33 |-> IF i = 33 THEN 1 ELSE 0])     \* 2^256
P255 == TLCEval([i \in 1..32 |-> IF i = 32 THEN 128 ELSE 0])   \* 2^255
WOfInt(n) == N2W(NOfInt(n))                                     \* 0 <= n < 2^31
\* the value as a machine integer if it is < 2^31, else -1
Small(w) == IF (\A i \in 1..28 : w[i] = 0) /\ w[29] < 128
            THEN ((w[29] * 256 + w[30]) * 256 + w[31]) * 256 + w[32] ELSE -1
WIsZero(w) == \A i \in 1..32 : w[i] = 0
Bool(b) == IF b THEN WOne ELSE WZero

\* two's complement interpretation (Yellow Paper: "treated as two's complement signed 256-bit integers")
IsNeg(w) == w[1] >= 128
\* |w| as a natural (2^255 for the minimum value)
AbsN(w) == IF IsNeg(w) THEN NSub(P256, W2N(w)) ELSE W2N(w)
\* the word representing  sign * n   (n <= 2^255)
Signed(neg, n) == IF neg /\ ~NIsZero(n) THEN N2W(NSub(P256, n)) ELSE N2W(n)

(* 0s: stop and arithmetic *)
ADD(a, b) == N2W(NAdd(W2N(a), W2N(b)))
MUL(a, b) == N2W(NMul(W2N(a), W2N(b)))
SUB(a, b) == N2W(NSub(NAdd(W2N(a), P256), W2N(b)))
DIV(a, b) == IF WIsZero(b) THEN WZero ELSE N2W(NDiv(W2N(a), W2N(b)))
\* sgn(a/b) * floor(|a| / |b|); -2^255 / -1 = -2^255 falls out of the reduction modulo 2^256
SDIV(a, b) == IF WIsZero(b) THEN WZero
              ELSE Signed(IsNeg(a) # IsNeg(b), NDiv(AbsN(a), AbsN(b)))
MOD(a, b) == IF WIsZero(b) THEN WZero ELSE N2W(NMod(W2N(a), W2N(b)))
\* sgn(a) * (|a| mod |b|)
SMOD(a, b) == IF WIsZero(b) THEN WZero ELSE Signed(IsNeg(a), NMod(AbsN(a), AbsN(b)))
\* intermediate results are not subject to the 2^256 modulo
ADDMOD(a, b, n) == IF WIsZero(n) THEN WZero ELSE N2W(NMod(NAdd(W2N(a), W2N(b)), W2N(n)))
MULMOD(a, b, n) == IF WIsZero(n) THEN WZero ELSE N2W(NMod(NMul(W2N(a), W2N(b)), W2N(n)))

\* a^e mod 2^256 by the recursion a^(2k) = (a^k)^2, a^(2k+1) = (a^k)^2 * a on the exponent's value
RECURSIVE ExpN(_, _)
ExpN(a, e) ==    \* a: Nat < 2^256, e: Nat; result Nat < 2^256
  IF NIsZero(e) THEN <<1>>
  ELSE LET h  == ExpN(a, NDivSmall(e, 2))
           sq == W2N(N2W(NMul(h, h)))
       IN  IF e[1] % 2 = 1 THEN W2N(N2W(NMul(sq, a))) ELSE sq
EXP(a, e) == N2W(ExpN(W2N(a), W2N(e)))

\* b = index (from the least significant end) of the byte holding the sign bit
SIGNEXTEND(b, x) ==
  LET k == Small(b) IN
  IF k = -1 \/ k >= 31 THEN x
  ELSE LET s == 32 - k            \* big-endian position of that byte
           fill == IF x[s] >= 128 THEN 255 ELSE 0
       IN  TLCEval([i \in 1..32 |-> IF i < s THEN fill ELSE x[i]])

(* 10s: comparison and bitwise logic *)
RECURSIVE WCmpR(_, _, _)
WCmpR(a, b, i) == IF i > 32 THEN 0 ELSE IF a[i] < b[i] THEN -1 ELSE IF a[i] > b[i] THEN 1 ELSE WCmpR(a, b, i + 1)
WCmp(a, b) == WCmpR(a, b, 1)
LT(a, b) == Bool(WCmp(a, b) < 0)
GT(a, b) == Bool(WCmp(a, b) > 0)
\* signed order: negatives below non-negatives; within a sign class the unsigned order agrees
SLess(a, b) == IF IsNeg(a) # IsNeg(b) THEN IsNeg(a) ELSE WCmp(a, b) < 0
SLT(a, b) == Bool(SLess(a, b))
SGT(a, b) == Bool(SLess(b, a))
EQ(a, b) == Bool(a = b)
ISZERO(a) == Bool(WIsZero(a))
AND(a, b) == TLCEval([i \in 1..32 |-> a[i] & b[i]])
OR(a, b)  == TLCEval([i \in 1..32 |-> a[i] | b[i]])
XOR(a, b) == TLCEval([i \in 1..32 |-> a[i] ^^ b[i]])
NOT(a)    == TLCEval([i \in 1..32 |-> 255 - a[i]])
\* i-th byte counting from the most significant one
BYTE(i, x) == LET k == Small(i) IN IF k = -1 \/ k >= 32 THEN WZero ELSE WOfInt(x[k + 1])
\* EIP-145
SHL(sh, v) == LET s == Small(sh) IN IF s = -1 \/ s >= 256 THEN WZero ELSE N2W(NShl(W2N(v), s))
SHR(sh, v) == LET s == Small(sh) IN IF s = -1 \/ s >= 256 THEN WZero ELSE N2W(NShr(W2N(v), s))
\* floor(signed(v) / 2^s): for v < 0,  floor(v / 2^s) = -floor((-v-1) / 2^s) - 1  and  -x-1 = NOT x
SAR(sh, v) ==
  LET s == Small(sh) IN
  IF ~IsNeg(v) THEN SHR(sh, v)
  ELSE IF s = -1 \/ s >= 256 THEN WMax
  ELSE NOT(N2W(NShr(W2N(NOT(v)), s)))
\* EIP-7939: number of leading zero bits, 256 for zero
Clz8(b) == IF b >= 128 THEN 0 ELSE IF b >= 64 THEN 1 ELSE IF b >= 32 THEN 2 ELSE IF b >= 16 THEN 3
           ELSE IF b >= 8 THEN 4 ELSE IF b >= 4 THEN 5 ELSE IF b >= 2 THEN 6 ELSE 7
CLZ(x) == LET f == FirstNZ(x, 1) IN IF f = 33 THEN WOfInt(256) ELSE WOfInt(8 * (f - 1) + Clz8(x[f]))
=============================================================================
