------------------------------- MODULE Access -------------------------------
(***************************************************************************)
(* C11 -- privileged methods: the INTENDED caller-permission table of the  *)
(* built-in actors, written from the method documentation, the FIPs        *)
(* (FIP-0050 exported FRC-42 API, FIP-0054/0055 EVM + EAM, FIP-0045        *)
(* DataCap/allocations, FIP-0029 beneficiary, FIP-0077 deposit) and        *)
(* DESIGN.md Appendix B -- NOT from the code's caller checks.              *)
(*                                                                         *)
(* A row = one method NUMBER of one actor type (an exported FRC-42 alias   *)
(* is its own row), optionally split into parameter VARIANTS when the set  *)
(* of designated callers depends on what the parameters name (whose escrow *)
(* balance, which code to Exec, ...).  `who` = the caller classes that may *)
(* successfully invoke it in the fixture world; every other class must be  *)
(* rejected with the state tree unchanged.                                 *)
(*                                                                         *)
(* Method numbers do not fit TLC's 32-bit integers: num = hi * 65536 + lo. *)
(* Exported numbers are the FRC-42 hash of the method name                 *)
(* (spec/Access_frc42.py recomputes and checks every one of them).         *)
(***************************************************************************)
EXTENDS Integers, Sequences, FiniteSets, TLC

-----------------------------------------------------------------------------
(* caller classes *)

Singletons == {"system", "init", "reward", "cron", "power", "market", "verifreg", "datacap", "eam"}

\* account actors that play a role in some actor's state (all are plain secp/BLS accounts)
RoleAccounts == {"owner", "worker", "control", "beneficiary", "nominee", "pendingOwner",
                 "signer", "proposer", "payer", "payee", "verifier", "client", "operator"}

\* account-like outsiders: `account` = a secp account with no role anywhere,
\* `ethaccount` = an Ethereum-style account (f410 address, EthAccount actor)
Accounts == RoleAccounts \cup {"account", "ethaccount"}

\* `miner`   = a miner actor (when the target is a miner: ANOTHER miner actor)
\* `evm`     = an EVM smart contract (when the target is a contract: another contract)
\* `unknown` = an actor whose code is not a built-in actor (user-deployed native actor)
\* `root`    = the verified registry's root key holder (a multisig actor)
\* `self`    = the target actor itself (only for non-singleton targets)
CallerClass == Singletons \cup Accounts \cup {"miner", "evm", "unknown", "root", "self"}

\* callers that are built-in actors other than contracts: the only ones the internal
\* (non-exported) method numbers are meant for
Builtin == CallerClass \ {"evm", "unknown"}
Anyone == CallerClass

ActorType == {"system", "init", "reward", "cron", "power", "market", "verifreg", "datacap", "eam",
              "account", "ethaccount", "placeholder", "miner", "multisig", "paych", "evm"}

SingletonType == Singletons

\* the classes a cell of the matrix is executed for: for a singleton target `self` is the
\* singleton's own class
\* (a placeholder never sends: the moment it does it has become an EthAccount)
ClassesFor(t) == IF t \in SingletonType \cup {"placeholder"} THEN CallerClass \ {"self"} ELSE CallerClass

\* actor types that deliberately do NOT restrict their internal method numbers to built-in
\* callers: the EAM (CREATE/CREATE2 are called BY contracts) and EVM contracts themselves
\* (contracts call each other; FIP-0054 "native" methods > 1023 are dispatched to the bytecode)
Unrestricted == {"eam", "evm"}

FirstExportedHi == 256          \* 2^24 = 256 * 65536

-----------------------------------------------------------------------------
(* row constructors *)

I(nm, n, who)      == [name |-> nm, hi |-> 0, lo |-> n, var |-> "", kind |-> "method", who |-> who]
E(nm, hi, lo, who) == [name |-> nm, hi |-> hi, lo |-> lo, var |-> "", kind |-> "method", who |-> who]
V(r, var, who)     == [r EXCEPT !.var = var, !.who = who]
\* a method number the actor does not define (deprecated or never assigned): nobody may call it
U(n)               == [name |-> "undefined", hi |-> 0, lo |-> n, var |-> "", kind |-> "undefined", who |-> {}]
\* the FRC-42 number an INTERNAL-ONLY method would get if somebody exported it: must stay undefined
UX(nm, hi, lo)     == [name |-> "frc42:" \o nm, hi |-> hi, lo |-> lo, var |-> "", kind |-> "undefined", who |-> {}]
\* a number handled by a documented catch-all (account / ethaccount / multisig: no-op for any
\* number >= 2^24 so that they can receive "value + method" calls; EVM: dispatched to bytecode)
F(nm, hi, lo, who) == [name |-> nm, hi |-> hi, lo |-> lo, var |-> "", kind |-> "fallback", who |-> who]

IsInternal(r) == r.hi < FirstExportedHi

\* controlling addresses of a miner
Ctl == {"owner", "worker", "control"}
\* who holds DataCap tokens in the fixture world: the verified client, and the registry itself
\* (it holds the tokens backing pending allocations)
Holders == {"client", "verifreg"}
\* who may move a client's DataCap on its behalf: an operator the client approved, and the
\* storage market (approved with an unlimited allowance when the client is minted its DataCap)
Operators == {"operator", "market"}

-----------------------------------------------------------------------------
(* the table *)

TSystem == {
  I("Constructor", 1, {"system"}),
  U(2), U(99), UX("Undefined", 44766, 766) }

TInit == {
  I("Constructor", 1, {"system"}),
  \* Exec is open to every built-in caller, but WHAT may be instantiated is restricted:
  \* multisig and payment channel by anyone, a miner only by the power actor, nothing else
  V(I("Exec", 2, {}), "multisig", Builtin),
  V(I("Exec", 2, {}), "paych", Builtin),
  V(I("Exec", 2, {}), "miner", {"power"}),
  V(I("Exec", 2, {}), "account", {}),
  V(I("Exec", 2, {}), "evm", {}),
  I("Exec4", 3, {"eam"}),
  U(4), U(99), UX("Exec", 1239, 26064), UX("Exec4", 52751, 54418), UX("Undefined", 44766, 766) }

TReward == {
  I("Constructor", 1, {"system"}),
  I("AwardBlockReward", 2, {"system"}),
  I("ThisEpochReward", 3, Builtin),
  I("UpdateNetworkKPI", 4, {"power"}),
  U(5), U(99), UX("AwardBlockReward", 65407, 29443), UX("ThisEpochReward", 53906, 27259),
  UX("UpdateNetworkKPI", 7577, 43722) }

TCron == {
  I("Constructor", 1, {"system"}),
  I("EpochTick", 2, {"system"}),
  U(3), U(99), UX("EpochTick", 49007, 31463) }

TPower == {
  I("Constructor", 1, {"system"}),
  I("CreateMiner", 2, Builtin),
  E("CreateMinerExported", 17904, 23621, Anyone),
  I("UpdateClaimedPower", 3, {"miner"}),
  I("EnrollCronEvent", 4, {"miner"}),
  I("OnEpochTickEnd", 5, {"cron"}),
  I("UpdatePledgeTotal", 6, {"miner"}),
  I("CurrentTotalPower", 9, Builtin),
  E("NetworkRawPowerExported", 14216, 62758, Anyone),
  E("MinerRawPowerExported", 57272, 24102, Anyone),
  E("MinerCountExported", 30329, 4914, Anyone),
  E("MinerConsensusCountExported", 3002, 803, Anyone),
  E("MinerPowerExported", 553, 43038, Anyone),
  U(7), U(8), U(10), UX("UpdateClaimedPower", 53031, 60222), UX("EnrollCronEvent", 63554, 29150),
  UX("OnEpochTickEnd", 29835, 63340), UX("UpdatePledgeTotal", 51422, 44473),
  UX("CurrentTotalPower", 63545, 29163) }

TMarket == {
  I("Constructor", 1, {"system"}),
  I("AddBalance", 2, Builtin),
  E("AddBalanceExported", 12549, 61862, Anyone),
  \* escrow of a client: only the client; escrow of a provider: the miner's owner or worker
  V(I("WithdrawBalance", 3, {}), "client", {"client"}),
  V(I("WithdrawBalance", 3, {}), "provider", {"owner", "worker"}),
  V(E("WithdrawBalanceExported", 34797, 2660, {}), "client", {"client"}),
  V(E("WithdrawBalanceExported", 34797, 2660, {}), "provider", {"owner", "worker"}),
  \* the caller must be a controlling address of the deals' provider
  I("PublishStorageDeals", 4, Ctl),
  E("PublishStorageDealsExported", 34132, 54598, Ctl),
  I("VerifyDealsForActivation", 5, {"miner"}),
  I("BatchActivateDeals", 6, {"miner"}),
  I("OnMinerSectorsTerminate", 7, {"miner"}),
  I("CronTick", 9, {"cron"}),
  E("GetBalanceExported", 11079, 35117, Anyone),
  E("GetDealDataCommitmentExported", 17669, 30218, Anyone),
  E("GetDealClientExported", 1953, 61521, Anyone),
  E("GetDealProviderExported", 14268, 14042, Anyone),
  E("GetDealLabelExported", 707, 29574, Anyone),
  E("GetDealTermExported", 2499, 2848, Anyone),
  E("GetDealTotalPriceExported", 65416, 59452, Anyone),
  E("GetDealClientCollateralExported", 3060, 27735, Anyone),
  E("GetDealProviderCollateralExported", 45573, 40009, Anyone),
  E("GetDealVerifiedExported", 40090, 51225, Anyone),
  E("GetDealActivationExported", 39172, 62207, Anyone),
  E("GetDealSectorExported", 39843, 62496, Anyone),
  E("SettleDealPaymentsExported", 28993, 6346, Anyone),
  \* the miner -> market notification of FIP-0076 (direct data onboarding); number chosen by the
  \* miner actor's notification protocol, in the exported range, but only miners may call it
  E("SectorContentChangedExported", 31042, 17923, {"miner"}),
  U(8), U(10), U(99), UX("VerifyDealsForActivation", 23393, 11620), UX("BatchActivateDeals", 50784, 37442),
  UX("OnMinerSectorsTerminate", 52045, 18180), UX("CronTick", 1102, 33396) }

TVerifreg == {
  I("Constructor", 1, {"system"}),
  I("AddVerifier", 2, {"root"}),
  I("RemoveVerifier", 3, {"root"}),
  I("AddVerifiedClient", 4, {"verifier"}),
  E("AddVerifiedClientExported", 59756, 50928, {"verifier"}),
  I("RemoveVerifiedClientDataCap", 7, {"root"}),
  I("RemoveExpiredAllocations", 8, Builtin),
  E("RemoveExpiredAllocationsExported", 36942, 37356, Anyone),
  I("ClaimAllocations", 9, {"miner"}),
  I("GetClaims", 10, Builtin),
  E("GetClaimsExported", 33567, 24275, Anyone),
  I("ExtendClaimTerms", 11, {"client"}),
  E("ExtendClaimTermsExported", 26737, 37482, {"client"}),
  I("RemoveExpiredClaims", 12, Builtin),
  E("RemoveExpiredClaimsExported", 43844, 13515, Anyone),
  \* FRC-46 receiver hook: only the DataCap token actor delivers tokens
  E("UniversalReceiverHook", 56856, 3555, {"datacap"}),
  U(5), U(6), U(13), UX("AddVerifier", 34856, 20394), UX("RemoveVerifier", 25393, 51341),
  UX("RemoveVerifiedClientDataCap", 3585, 13874), UX("ClaimAllocations", 14261, 1924) }

TDatacap == {
  I("Constructor", 1, {"system"}),
  \* only the governor (the verified registry) creates or destroys DataCap
  E("MintExported", 1784, 19122, {"verifreg"}),
  E("DestroyExported", 40052, 48629, {"verifreg"}),
  E("NameExported", 746, 348, Anyone),
  E("SymbolExported", 31450, 46654, Anyone),
  E("GranularityExported", 60070, 19877, Anyone),
  E("TotalSupplyExported", 1754, 31285, Anyone),
  E("BalanceExported", 49773, 56277, Anyone),
  E("AllowanceExported", 64164, 21046, Anyone),
  \* a holder moves ITS OWN tokens, and only to (or from) the governor
  V(E("TransferExported", 1227, 63282, {}), "toGovernor", Holders),
  V(E("TransferExported", 1227, 63282, {}), "toOther", {"verifreg"}),
  \* an approved operator moves a holder's tokens, only to the governor
  V(E("TransferFromExported", 55252, 57069, {}), "toGovernor", Operators),
  V(E("TransferFromExported", 55252, 57069, {}), "toOther", {}),
  \* allowances are set by a (prospective) holder on its own account: nothing to protect from others
  E("IncreaseAllowanceExported", 27116, 47384, Anyone),
  E("DecreaseAllowanceExported", 23336, 28449, Anyone),
  E("RevokeAllowanceExported", 42200, 16561, Anyone),
  E("BurnExported", 21892, 5530, Holders),
  E("BurnFromExported", 45466, 14242, Operators),
  \* the pre-FRC-42 numbers were removed in v10
  U(2), U(3), U(10), U(14), U(15), U(19), U(21), U(99), UX("Undefined", 44766, 766) }

TEam == {
  I("Constructor", 1, {"system"}),
  I("Create", 2, {"evm"}),
  I("Create2", 3, {"evm"}),
  \* only a top-level message from an account (native or Ethereum)
  I("CreateExternal", 4, Accounts),
  U(5), U(99), UX("CreateExternal", 18528, 11194), UX("Undefined", 44766, 766) }

TAccount == {
  I("Constructor", 1, {"system"}),
  I("PubkeyAddress", 2, Builtin),
  E("AuthenticateMessageExported", 40331, 1656, Anyone),
  F("fallback", 44766, 766, Anyone),
  U(3), U(99) }

TEthAccount == {
  I("Constructor", 1, {"system"}),
  F("fallback", 44766, 766, Anyone),
  U(2), U(99) }

\* a placeholder has no code: only a plain value transfer (method 0) reaches it
TPlaceholder == { U(1), U(2), UX("Undefined", 44766, 766) }

TMiner == {
  I("Constructor", 1, {"init"}),
  I("ControlAddresses", 2, Builtin),
  I("ChangeWorkerAddress", 3, {"owner"}),
  E("ChangeWorkerAddressExported", 50389, 15620, {"owner"}),
  I("ChangePeerID", 4, Ctl),
  E("ChangePeerIDExported", 18868, 14756, Ctl),
  I("SubmitWindowedPoSt", 5, Ctl),
  I("TerminateSectors", 9, Ctl),
  I("DeclareFaults", 10, Ctl),
  I("DeclareFaultsRecovered", 11, Ctl),
  I("OnDeferredCronEvent", 12, {"power"}),
  I("CheckSectorProven", 13, Builtin),
  I("ApplyRewards", 14, {"reward"}),
  I("ReportConsensusFault", 15, Builtin),
  I("WithdrawBalance", 16, {"owner", "beneficiary"}),
  E("WithdrawBalanceExported", 34797, 2660, {"owner", "beneficiary"}),
  I("InternalSectorSetupForPreseal", 17, {"system"}),
  I("ChangeMultiaddrs", 18, Ctl),
  E("ChangeMultiaddrsExported", 16227, 27904, Ctl),
  I("CompactPartitions", 19, Ctl),
  I("CompactSectorNumbers", 20, Ctl),
  I("ConfirmChangeWorkerAddress", 21, {"owner"}),
  E("ConfirmChangeWorkerAddressExported", 35933, 65365, {"owner"}),
  I("RepayDebt", 22, Ctl),
  E("RepayDebtExported", 55928, 55289, Ctl),
  I("ChangeOwnerAddress", 23, {"owner", "pendingOwner"}),
  E("ChangeOwnerAddressExported", 15420, 24219, {"owner", "pendingOwner"}),
  I("DisputeWindowedPoSt", 24, Builtin),
  I("PreCommitSectorBatch2", 28, Ctl),
  I("ChangeBeneficiary", 30, {"owner", "beneficiary", "nominee"}),
  E("ChangeBeneficiaryExported", 23965, 64556, {"owner", "beneficiary", "nominee"}),
  I("GetBeneficiary", 31, Builtin),
  E("GetBeneficiaryExported", 63460, 58009, Anyone),
  I("ExtendSectorExpiration2", 32, Ctl),
  I("ProveCommitSectors3", 34, Ctl),
  I("ProveReplicaUpdates3", 35, Ctl),
  I("ProveCommitSectorsNI", 36, Ctl),
  E("GetOwnerExported", 49978, 7366, Anyone),
  E("IsControllingAddressExported", 5313, 52119, Anyone),
  E("GetSectorSizeExported", 58872, 56904, Anyone),
  E("GetAvailableBalanceExported", 61433, 33786, Anyone),
  E("GetVestingFundsExported", 26350, 2704, Anyone),
  E("GetPeerIDExported", 42921, 4673, Anyone),
  E("GetMultiaddrsExported", 20338, 38239, Anyone),
  E("MaxTerminationFeeExported", 62978, 55988, Anyone),
  E("InitialPledgeExported", 48530, 61687, Anyone),
  E("GenerateSectorLocationExported", 20166, 5689, Anyone),
  E("ValidateSectorStatusExported", 47187, 11332, Anyone),
  E("GetNominalSectorExpirationExported", 45929, 53047, Anyone),
  \* deprecated numbers
  U(6), U(7), U(8), U(25), U(26), U(27), U(29), U(33), U(37), U(99),
  UX("SubmitWindowedPoSt", 64972, 45684), UX("TerminateSectors", 19070, 6561),
  UX("DeclareFaults", 26632, 37917), UX("DeclareFaultsRecovered", 52770, 57909),
  UX("OnDeferredCronEvent", 40078, 27154), UX("ApplyRewards", 29521, 15295),
  UX("ReportConsensusFault", 52241, 37107), UX("InternalSectorSetupForPreseal", 17419, 41780),
  UX("CompactPartitions", 41752, 54924), UX("CompactSectorNumbers", 22547, 18806),
  UX("DisputeWindowedPoSt", 35402, 55096), UX("PreCommitSectorBatch2", 29176, 35500),
  UX("ExtendSectorExpiration2", 29261, 56446), UX("ProveCommitSectors3", 40056, 13309),
  UX("ProveReplicaUpdates3", 54345, 39571), UX("ProveCommitSectorsNI", 18736, 31879),
  UX("ControlAddresses", 44586, 22057), UX("CheckSectorProven", 30828, 4527) }

TMultisig == {
  I("Constructor", 1, {"init"}),
  I("Propose", 2, {"signer", "proposer"}),
  \* a signer who has not approved the pending transaction yet
  I("Approve", 3, {"signer"}),
  \* only the proposer (the earliest remaining approver) withdraws a pending transaction
  I("Cancel", 4, {"proposer"}),
  \* wallet administration goes through the wallet's own propose/approve process
  I("AddSigner", 5, {"self"}),
  I("RemoveSigner", 6, {"self"}),
  I("SwapSigner", 7, {"self"}),
  I("ChangeNumApprovalsThreshold", 8, {"self"}),
  I("LockBalance", 9, {"self"}),
  E("UniversalReceiverHook", 56856, 3555, Anyone),
  F("fallback", 44766, 766, Anyone),
  U(10), U(99) }

TPaych == {
  I("Constructor", 1, {"init"}),
  I("UpdateChannelState", 2, {"payer", "payee"}),
  I("Settle", 3, {"payer", "payee"}),
  I("Collect", 4, {"payer", "payee"}),
  U(5), U(99), UX("Settle", 43392, 57801), UX("Collect", 48062, 59752),
  UX("UpdateChannelState", 59329, 11529) }

TEvm == {
  I("Constructor", 1, {"init"}),
  I("Resurrect", 2, {"eam"}),
  I("GetBytecode", 3, Anyone),
  I("GetBytecodeHash", 4, Anyone),
  \* off-chain inspection only (eth_getStorageAt): the system actor f00 never sends messages on chain
  I("GetStorageAt", 5, {"system"}),
  \* DELEGATECALL plumbing: a contract calls itself with foreign bytecode
  I("InvokeContractDelegate", 6, {"self"}),
  E("InvokeContract", 58661, 43541, Anyone),
  \* FIP-0054 native methods: numbers above 1023 are handed to the contract's bytecode
  F("native", 0, 1024, Anyone),
  F("native", 44766, 766, Anyone),
  \* 0..1023 is reserved
  U(7), U(99), U(1023) }

Table == [t \in ActorType |->
  CASE t = "system" -> TSystem [] t = "init" -> TInit [] t = "reward" -> TReward [] t = "cron" -> TCron
    [] t = "power" -> TPower [] t = "market" -> TMarket [] t = "verifreg" -> TVerifreg
    [] t = "datacap" -> TDatacap [] t = "eam" -> TEam [] t = "account" -> TAccount
    [] t = "ethaccount" -> TEthAccount [] t = "placeholder" -> TPlaceholder [] t = "miner" -> TMiner
    [] t = "multisig" -> TMultisig [] t = "paych" -> TPaych [] t = "evm" -> TEvm]

RowId(r) == <<r.name, r.hi, r.lo, r.var>>

\* Designated[actorType][rowId] \subseteq CallerClass
Designated == [t \in ActorType |-> [id \in {RowId(r) : r \in Table[t]} |->
                 (CHOOSE r \in Table[t] : RowId(r) = id).who]]

\* methods a singleton offers to exactly one other singleton / actor type (protocol plumbing)
SingletonInternal == {
  <<"cron", "EpochTick">>, <<"init", "Exec4">>, <<"reward", "AwardBlockReward">>,
  <<"reward", "UpdateNetworkKPI">>, <<"power", "UpdateClaimedPower">>, <<"power", "EnrollCronEvent">>,
  <<"power", "OnEpochTickEnd">>, <<"power", "UpdatePledgeTotal">>, <<"market", "CronTick">>,
  <<"market", "VerifyDealsForActivation">>, <<"market", "BatchActivateDeals">>,
  <<"market", "OnMinerSectorsTerminate">>, <<"market", "SectorContentChangedExported">>,
  <<"verifreg", "ClaimAllocations">>, <<"verifreg", "UniversalReceiverHook">>,
  <<"datacap", "MintExported">>, <<"datacap", "DestroyExported">>,
  <<"eam", "Create">>, <<"eam", "Create2">>,
  <<"miner", "OnDeferredCronEvent">>, <<"miner", "ApplyRewards">>,
  <<"miner", "InternalSectorSetupForPreseal">>,
  <<"evm", "Resurrect">>, <<"evm", "GetStorageAt">>, <<"evm", "InvokeContractDelegate">> }

-----------------------------------------------------------------------------
(* the one-step machine: a single call *)

Accepts(t, r, c) == c \in r.who

\* a cell of the matrix, as exported to the harness and as found in a trace
Cell(t, r, c) == [t |-> t, name |-> r.name, hi |-> r.hi, lo |-> r.lo, var |-> r.var, kind |-> r.kind,
                  cls |-> c, designated |-> Accepts(t, r, c)]

-----------------------------------------------------------------------------
(* invariants of the table itself *)

\* "methods numbered below the public-export range cannot be invoked by EVM contracts or other
\*  non-built-in code at all"
InternalNotForContracts ==
  \A t \in ActorType \ Unrestricted : \A r \in Table[t] :
     IsInternal(r) => r.who \cap {"evm", "unknown"} = {}

\* even the unrestricted actors never admit unknown code on their reserved numbers, except the
\* read-only bytecode getters contracts need for EXTCODE*
UnrestrictedStillGuarded ==
  \A t \in Unrestricted : \A r \in Table[t] :
     (IsInternal(r) /\ r.kind = "method" /\ r.name \notin {"GetBytecode", "GetBytecodeHash"})
        => "unknown" \notin r.who

ConstructorsOnlyInitOrSystem ==
  \A t \in ActorType : \A r \in Table[t] :
     r.name = "Constructor" => (r.who # {} /\ r.who \subseteq {"init", "system"} /\ Cardinality(r.who) = 1)

SingletonInternalExactlyOne ==
  \A p \in SingletonInternal :
     /\ \E r \in Table[p[1]] : r.name = p[2]
     /\ \A r \in Table[p[1]] : r.name = p[2] => Cardinality(r.who) = 1

UndefinedAdmitNobody ==
  \A t \in ActorType : \A r \in Table[t] : r.kind = "undefined" => r.who = {}

\* an exported alias admits what the internal number admits, plus possibly contracts
AliasesAgree ==
  \A t \in ActorType : \A r, x \in Table[t] :
     (x.name = r.name \o "Exported" /\ x.var = r.var /\ IsInternal(r)) => r.who = x.who \ {"evm", "unknown"}

WellFormed ==
  /\ \A t \in ActorType : \A r \in Table[t] :
        /\ r.who \subseteq CallerClass
        /\ r.hi \in 0..65535 /\ r.lo \in 0..65535
        /\ (r.kind = "fallback" /\ t # "evm") => ~IsInternal(r)
        /\ ~(r.hi = 0 /\ r.lo = 0)
  \* one row per (number, variant)
  /\ \A t \in ActorType : \A r, x \in Table[t] :
        (r.hi = x.hi /\ r.lo = x.lo /\ r.var = x.var) => r = x

TableOK == /\ InternalNotForContracts /\ UnrestrictedStillGuarded /\ ConstructorsOnlyInitOrSystem
           /\ SingletonInternalExactlyOne /\ UndefinedAdmitNobody /\ AliasesAgree /\ WellFormed
=============================================================================
