SPECIFICATION MCSpec
CONSTANTS FirstId = 100
          MaxNew = 2
          MaxMsgs = 3
          ExportLen = 0
          Wide = FALSE
CONSTRAINT Bound
VIEW View
ACTION_CONSTRAINT Tour
PROPERTY StepOK
CHECK_DEADLOCK FALSE
