------------------------------ MODULE VerifReg ------------------------------
(***************************************************************************)
(* Verified registry + DataCap token ledger (actors/verifreg,               *)
(* actors/datacap).  DataCap is counted in whole bytes.                     *)
(*                                                                          *)
(* VR = [verifiers : addr -> allowance (partial), tok : holder -> balance,  *)
(*       supply, allocs : id -> A, claims : id -> C, next]                  *)
(*   A = [client, provider, data, size, tmin, tmax, exp]                    *)
(*   C = [client, provider, data, size, tmin, tmax, tstart, sector]         *)
(* "vr" is the registry's own token account.                                *)
(***************************************************************************)
EXTENDS Integers, Sequences, FiniteSets, TLC

CONSTANTS Holders,        \* every address that can hold DataCap (clients, verifiers, "vr", ...)
          Root,           \* the root key (multisig)
          MinerSet,       \* addresses that are miner actors
          MinSize, MinTerm, MaxTerm, MaxExp

VARIABLES VR, epoch, G, last
vars == <<VR, epoch, G, last>>
Reg == "vr"

RemoveKey(f, k) == [x \in DOMAIN f \ {k} |-> f[x]]
PutKey(f, k, v) == [x \in DOMAIN f \cup {k} |-> IF x = k THEN v ELSE f[x]]
SeqSet(s) == {s[i] : i \in 1..Len(s)}
NoDup(s) == \A i, j \in 1..Len(s) : i # j => s[i] # s[j]
Fail(vr) == [ok |-> FALSE, VR |-> vr]
Min(a, b) == IF a < b THEN a ELSE b
RECURSIVE SumSet(_, _)
SumSet(S, f) == IF S = {} THEN 0 ELSE LET x == CHOOSE y \in S : TRUE IN f[x] + SumSet(S \ {x}, f)

AddVerifier(vr, c, v, amt) ==
  IF c # Root \/ amt < MinSize \/ v = Root \/ v \notin Holders \/ vr.tok[v] > 0 THEN Fail(vr)
  ELSE [ok |-> TRUE, VR |-> [vr EXCEPT !.verifiers = PutKey(@, v, amt)]]

RemoveVerifier(vr, c, v) ==
  IF c # Root \/ v \notin DOMAIN vr.verifiers THEN Fail(vr)
  ELSE [ok |-> TRUE, VR |-> [vr EXCEPT !.verifiers = RemoveKey(@, v)]]

AddClient(vr, c, cl, amt) ==
  IF \/ amt < MinSize \/ cl = Root \/ cl \notin Holders
     \/ c \notin DOMAIN vr.verifiers \/ cl \in DOMAIN vr.verifiers
  THEN Fail(vr)
  ELSE IF vr.verifiers[c] < amt THEN Fail(vr)
  ELSE [ok |-> TRUE, VR |-> [vr EXCEPT !.verifiers[c] = @ - amt, !.tok[cl] = @ + amt, !.supply = @ + amt]]

\* RemoveVerifiedClientDataCap: root, two distinct verifiers with valid signatures
RemoveDataCap(vr, c, cl, amt, v1, v2, sig1OK, sig2OK) ==
  IF \/ c # Root \/ v1 = v2 \/ cl = Reg \/ cl \notin Holders
     \/ v1 \notin DOMAIN vr.verifiers \/ v2 \notin DOMAIN vr.verifiers \/ ~sig1OK \/ ~sig2OK \/ amt < 0
  THEN Fail(vr) @@ [removed |-> 0]
  ELSE LET b == Min(vr.tok[cl], amt) IN
       [ok |-> TRUE, removed |-> b, VR |-> [vr EXCEPT !.tok[cl] = @ - b, !.supply = @ - b]]

\* DataCap Transfer(to = registry) with allocation / extension requests
AllocOK(r, e) ==
  /\ r.size >= MinSize /\ r.tmin >= MinTerm /\ r.tmax <= MaxTerm /\ r.tmin <= r.tmax
  /\ r.exp >= e /\ r.exp <= e + MaxExp /\ r.provider \in MinerSet
ExtOK(vr, x, e) ==
  /\ x.claim \in DOMAIN vr.claims /\ vr.claims[x.claim].provider = x.provider
  /\ x.tmax <= e + MaxTerm - vr.claims[x.claim].tstart
  /\ x.tmax > vr.claims[x.claim].tmax
  /\ e <= vr.claims[x.claim].tstart + vr.claims[x.claim].tmax
RECURSIVE SumInts(_)
SumInts(s) == IF Len(s) = 0 THEN 0 ELSE Head(s) + SumInts(Tail(s))
RECURSIVE ApplyExt(_, _, _)
ApplyExt(cl, xs, i) == IF i > Len(xs) THEN cl ELSE ApplyExt([cl EXCEPT ![xs[i].claim].tmax = xs[i].tmax], xs, i + 1)

Transfer(vr, c, to, amt, allocs, exts, e) ==
  IF to # Reg \/ c \notin Holders \/ amt < 0 \/ vr.tok[c] < amt THEN Fail(vr) @@ [ids |-> <<>>]
  ELSE IF ~(\A i \in 1..Len(allocs) : AllocOK(allocs[i], e)) \/ ~(\A i \in 1..Len(exts) : ExtOK(vr, exts[i], e))
       THEN Fail(vr) @@ [ids |-> <<>>]
  ELSE LET extTotal == SumInts([i \in 1..Len(exts) |-> vr.claims[exts[i].claim].size])
           total == SumInts([i \in 1..Len(allocs) |-> allocs[i].size]) + extTotal
           ids == [k \in 1..Len(allocs) |-> vr.next + k - 1]
       IN  IF total # amt THEN Fail(vr) @@ [ids |-> <<>>]
           ELSE [ok |-> TRUE, ids |-> ids,
                 VR |-> [vr EXCEPT !.tok[c] = @ - amt, !.tok[Reg] = @ + amt - extTotal,
                                   !.supply = @ - extTotal,
                                   !.next = @ + Len(allocs),
                                   !.allocs = [x \in DOMAIN @ \cup SeqSet(ids) |->
                                                 IF x \in DOMAIN @ THEN @[x]
                                                 ELSE LET a == allocs[x - vr.next + 1] IN
                                                      [client |-> c, provider |-> a.provider, data |-> a.data,
                                                       size |-> a.size, tmin |-> a.tmin, tmax |-> a.tmax, exp |-> a.exp]],
                                   !.claims = ApplyExt(@, exts, 1)]]

\* ClaimAllocations by a miner: sectors = Seq of [sector, expiry, claims : Seq([client, id, data, size])]
CanClaim(vr, m, k, expiry, e) ==
  /\ k.id \in DOMAIN vr.allocs
  /\ LET a == vr.allocs[k.id] IN
     /\ a.client = k.client       \* (allocations are looked up per client)
     /\ a.provider = m /\ a.data = k.data /\ a.size = k.size
     /\ e <= a.exp /\ expiry - e >= a.tmin /\ expiry - e <= a.tmax
RECURSIVE ClaimFold(_, _, _, _, _, _)
ClaimFold(vr, m, sectors, i, e, acc) ==     \* acc = [res : Seq(BOOLEAN), space : Seq(Int), abort]
  IF i > Len(sectors) THEN [VR |-> vr, res |-> acc.res, space |-> acc.space, abort |-> FALSE]
  ELSE LET s == sectors[i]
           good == \A j \in 1..Len(s.claims) : CanClaim(vr, m, s.claims[j], s.expiry, e)
           ids == [j \in 1..Len(s.claims) |-> s.claims[j].id]
       IN  IF ~good THEN ClaimFold(vr, m, sectors, i + 1, e, [acc EXCEPT !.res = Append(@, FALSE)])
           ELSE IF ~NoDup(ids) THEN [VR |-> vr, res |-> acc.res, space |-> acc.space, abort |-> TRUE]
           ELSE LET sp == SumInts([j \in 1..Len(s.claims) |-> s.claims[j].size])
                    vr2 == [vr EXCEPT
                       !.claims = [x \in DOMAIN @ \cup SeqSet(ids) |->
                                     IF x \in DOMAIN @ THEN @[x]
                                     ELSE LET a == vr.allocs[x] IN
                                          [client |-> a.client, provider |-> m, data |-> a.data, size |-> a.size,
                                           tmin |-> a.tmin, tmax |-> a.tmax, tstart |-> e, sector |-> s.sector]],
                       !.allocs = [x \in DOMAIN @ \ SeqSet(ids) |-> @[x]]]
                IN  ClaimFold(vr2, m, sectors, i + 1, e,
                              [res |-> Append(acc.res, TRUE), space |-> Append(acc.space, sp)])
Claim(vr, m, sectors, allOrNothing, e) ==
  IF m \notin MinerSet \/ Len(sectors) = 0 THEN Fail(vr) @@ [res |-> <<>>]
  ELSE LET r == ClaimFold(vr, m, sectors, 1, e, [res |-> <<>>, space |-> <<>>]) IN
       IF r.abort \/ (allOrNothing /\ \E i \in 1..Len(r.res) : ~r.res[i]) THEN Fail(vr) @@ [res |-> <<>>]
       ELSE LET burn == SumInts(r.space)
            IN  [ok |-> TRUE, res |-> r.res,
                 VR |-> [r.VR EXCEPT !.tok[Reg] = @ - burn, !.supply = @ - burn]]

\* RemoveExpiredAllocations(client, ids) -- ids = <<>> means "all expired ones of that client"
ExpiredAllocs(vr, cl, e) == {i \in DOMAIN vr.allocs : vr.allocs[i].client = cl /\ e >= vr.allocs[i].exp}
RemoveExpiredAllocs(vr, cl, ids, e) ==
  IF ~NoDup(ids) \/ cl \notin Holders THEN Fail(vr) @@ [removed |-> {}]
  ELSE LET rm == IF Len(ids) = 0 THEN ExpiredAllocs(vr, cl, e) ELSE SeqSet(ids) \cap ExpiredAllocs(vr, cl, e)
           back == SumSet(rm, [i \in rm |-> vr.allocs[i].size])
       IN  [ok |-> TRUE, removed |-> rm,
            VR |-> [vr EXCEPT !.allocs = [x \in DOMAIN @ \ rm |-> @[x]],
                              !.tok[Reg] = @ - back, !.tok[cl] = @ + back]]

\* ExtendClaimTerms(terms) by the claims' client: per-item results
RECURSIVE ExtendFold(_, _, _, _, _)
ExtendFold(vr, c, terms, i, res) ==
  IF i > Len(terms) THEN [ok |-> TRUE, VR |-> vr, res |-> res]
  ELSE LET t == terms[i]
           good == /\ t.tmax <= MaxTerm
                   /\ t.claim \in DOMAIN vr.claims /\ vr.claims[t.claim].provider = t.provider
                   /\ vr.claims[t.claim].client = c
                   /\ t.tmax >= vr.claims[t.claim].tmax
       IN  IF good THEN ExtendFold([vr EXCEPT !.claims[t.claim].tmax = t.tmax], c, terms, i + 1, Append(res, TRUE))
           ELSE ExtendFold(vr, c, terms, i + 1, Append(res, FALSE))
ExtendClaimTerms(vr, c, terms) == ExtendFold(vr, c, terms, 1, <<>>)

ExpiredClaims(vr, p, e) == {i \in DOMAIN vr.claims : vr.claims[i].provider = p /\ e >= vr.claims[i].tstart + vr.claims[i].tmax}
RemoveExpiredClaims(vr, p, ids, e) ==
  IF ~NoDup(ids) THEN Fail(vr) @@ [removed |-> {}]
  ELSE LET rm == IF Len(ids) = 0 THEN ExpiredClaims(vr, p, e) ELSE SeqSet(ids) \cap ExpiredClaims(vr, p, e)
       IN  [ok |-> TRUE, removed |-> rm, VR |-> [vr EXCEPT !.claims = [x \in DOMAIN @ \ rm |-> @[x]]]]

-----------------------------------------------------------------------------
(* Layer P: C09 (and the registry clauses of C10) *)
\* "the DataCap token supply always equals the sum of holder balances and equals total minted minus
\*  total burnt"  (G.minted / G.burnt are accumulated from the token events seen in the trace)
SupplyIsSum(vr) == vr.supply = SumSet(DOMAIN vr.tok, vr.tok) /\ \A h \in DOMAIN vr.tok : vr.tok[h] >= 0
SupplyIsMintedMinusBurnt(vr, g) == vr.supply = g.minted - g.burnt
\* "the registry's own token balance equals the total size of unclaimed allocations"
RegistryHoldsAllocs(vr) == vr.tok[Reg] = SumSet(DOMAIN vr.allocs, [i \in DOMAIN vr.allocs |-> vr.allocs[i].size])
\* "a verifier's remaining allowance decreases by exactly what it grants to clients"
AllowanceExact ==
  \A v \in DOMAIN VR.verifiers \cap DOMAIN VR'.verifiers :
     VR'.verifiers[v] # VR.verifiers[v] =>
        \* (the grant must have arrived: a client that cannot receive tokens -- an actor that refuses the token
        \* receiver hook, such as a miner -- cannot be granted anything, and the allowance must then stay)
        \/ (last'.a = "AddClient" /\ last'.ok /\ last'.c = v /\ VR'.verifiers[v] = VR.verifiers[v] - last'.amt
            /\ last'.cl \in DOMAIN VR.tok /\ VR'.tok[last'.cl] = VR.tok[last'.cl] + last'.amt)
        \/ (last'.a = "AddVerifier" /\ last'.ok /\ last'.v = v /\ last'.c = Root)
MintOnlyByGrant ==
  (VR'.supply > VR.supply) => (last'.a = "AddClient" /\ last'.ok /\ last'.c \in DOMAIN VR.verifiers
                               /\ VR'.supply - VR.supply = last'.amt /\ VR.verifiers[last'.c] >= last'.amt)
\* "each allocation ends in exactly one of two ways - claimed once by the named provider for the matching
\*  data within its terms (its tokens burnt), or expired and refunded to its client - never both, never twice"
AllocFate ==
  \A i \in DOMAIN VR.allocs \ DOMAIN VR'.allocs :
     LET a == VR.allocs[i] IN
     \/ /\ last'.a = "Claim" /\ last'.ok /\ last'.m = a.provider
        /\ i \in DOMAIN VR'.claims /\ i \notin DOMAIN VR.claims
        /\ LET c == VR'.claims[i] IN
           /\ c.client = a.client /\ c.provider = a.provider /\ c.data = a.data /\ c.size = a.size
           /\ c.tmin = a.tmin /\ c.tmax = a.tmax /\ c.tstart = epoch
        /\ epoch <= a.exp
        /\ \E k \in 1..Len(last'.sectors) : \E j \in 1..Len(last'.sectors[k].claims) :
              /\ last'.sectors[k].claims[j].id = i
              /\ last'.sectors[k].claims[j].data = a.data /\ last'.sectors[k].claims[j].size = a.size
              /\ last'.sectors[k].expiry - epoch >= a.tmin /\ last'.sectors[k].expiry - epoch <= a.tmax
        /\ i \notin G.spent
     \/ /\ last'.a = "RemoveExpiredAllocs" /\ last'.ok /\ epoch >= a.exp
        /\ i \notin DOMAIN VR'.claims
        /\ i \notin G.spent
\* claims are created only from open allocations, ids are fresh
ClaimsFromAllocs == \A i \in DOMAIN VR'.claims \ DOMAIN VR.claims : i \in DOMAIN VR.allocs
IdsFresh == /\ VR'.next >= VR.next
            /\ \A i \in DOMAIN VR'.allocs \ DOMAIN VR.allocs : i >= VR.next /\ i < VR'.next /\ i \notin G.spent
\* C10: "a claim's maximum term never decreases and claims or allocations can be removed only after
\*  they have expired"
ClaimTermsMonotone ==
  \A i \in DOMAIN VR.claims \cap DOMAIN VR'.claims :
     /\ VR'.claims[i].tmax >= VR.claims[i].tmax
     /\ [VR'.claims[i] EXCEPT !.tmax = 0] = [VR.claims[i] EXCEPT !.tmax = 0]
ClaimRemovalOnlyExpired ==
  \A i \in DOMAIN VR.claims \ DOMAIN VR'.claims :
     last'.a = "RemoveExpiredClaims" /\ last'.ok /\ epoch >= VR.claims[i].tstart + VR.claims[i].tmax
\* C10: "the sector's expiration lies between the claim's minimum and maximum term": a claim is created only for a sector
\* whose remaining life, at the epoch of the claim, is within the allocation's term bounds, and it starts at that epoch
ClaimWithinTerms ==
  \A i \in DOMAIN VR'.claims \ DOMAIN VR.claims :
     /\ last'.a = "Claim" /\ last'.ok
     /\ VR'.claims[i].tstart = epoch
     /\ i \in DOMAIN VR.allocs =>
          \E k \in 1..Len(last'.sectors) :
             /\ \E j \in 1..Len(last'.sectors[k].claims) : last'.sectors[k].claims[j].id = i
             /\ last'.sectors[k].expiry - epoch >= VR.allocs[i].tmin
             /\ last'.sectors[k].expiry - epoch <= VR.allocs[i].tmax
             /\ VR'.claims[i].sector = last'.sectors[k].sector
RejectedIsNoop == (~last'.ok) => VR' = VR

\* ghost: token flow totals and the ids whose allocation has been spent (claimed or refunded)
GhostNext(g, vr, vr2, l) ==
  [minted |-> g.minted + (IF vr2.supply > vr.supply THEN vr2.supply - vr.supply ELSE 0),
   burnt |-> g.burnt + (IF vr2.supply < vr.supply THEN vr.supply - vr2.supply ELSE 0),
   spent |-> g.spent \cup (DOMAIN vr.allocs \ DOMAIN vr2.allocs)]

StateInv(vr, g) == SupplyIsSum(vr) /\ SupplyIsMintedMinusBurnt(vr, g) /\ RegistryHoldsAllocs(vr)
StepProps == /\ AllowanceExact /\ MintOnlyByGrant /\ AllocFate /\ ClaimsFromAllocs /\ IdsFresh
             /\ ClaimTermsMonotone /\ ClaimRemovalOnlyExpired /\ ClaimWithinTerms /\ RejectedIsNoop
=============================================================================
