------------------------------ MODULE EVMCalls ------------------------------
(***************************************************************************)
(* Ideal semantics of a system of EVM contracts that run SCRIPTS (C19):    *)
(* per-contract storage, transient storage per top-level message,          *)
(* balances, tombstones (a self-destructed contract keeps working until    *)
(* the message ends and is empty afterwards), journalled revert (a         *)
(* reverting or aborting call leaves no trace of its writes, logs and      *)
(* transfers while its caller continues), DELEGATECALL (callee code on the *)
(* caller's storage, value and sender), STATICCALL (read-only, sticky),     *)
(* CREATE / CREATE2 (fresh or resurrected contract with empty storage),    *)
(* SELFDESTRUCT(beneficiary).                                              *)
(*                                                                         *)
(* Names are tuples: <<"A">> ... base contracts, <<"u">> the user,          *)
(* <<"x1">> ... plain receivers, <<"c2", deployer, salt>> and                *)
(* <<"c1", deployer, nonce>> created contracts (Keccak uninterpreted).      *)
(*                                                                         *)
(* W = [con, bal, logs]                                                    *)
(*   con[c] = [st, ts, nonce, tomb, hc, cid]   st, ts : Keys -> value       *)
(*            tomb 0 | 1 destroyed by the current message | 2 dead          *)
(*            cid = the constant embedded in the contract's code            *)
(*   bal[a] = balance of every tracked address (the user is an untracked    *)
(*            source/sink)          logs = <<emitter, topic>> of this message*)
(*                                                                         *)
(* A script is a sequence of ops                                           *)
(*   [op |-> "sstore", k, v]  [op |-> "sload", k]  [op |-> "tstore", k, v]   *)
(*   [op |-> "tload", k]  [op |-> "log", t]  [op |-> "env"]  [op |-> "bal", a]*)
(*   [op |-> "call", kind, to, value, prog]    kind: "call"|"static"|"delegate"*)
(*   [op |-> "create", value, init]  [op |-> "create2", salt, value, init]   *)
(*                       init: "plain" | "store" (constructor writes)      *)
(*   [op |-> "destroy", ben]  [op |-> "revert"]  [op |-> "return"]           *)
(*   [op |-> "invalid"]                                                    *)
(* evaluated by plain recursion: Exec returns [r, W, obs] with              *)
(*   r = "ok" | "halt" (self-destructed: effects kept, no data)             *)
(*     | "revert" (effects dropped, data kept) | "abort" (dropped, no data) *)
(*   obs = what the frame hands back: the flattened list of observations    *)
(*   <<"s",v>> <<"t",v>> <<"b",v>> <<"env",self,caller,value,cid,bal>>         *)
(*   <<"new",name|None>> <<"call",success>> ...callee's obs... <<"end">>       *)
(***************************************************************************)
EXTENDS Integers, Sequences, FiniteSets, TLC

CONSTANTS Keys            \* storage keys in use (small naturals)

VARIABLES W, last
vars == <<W, last>>

None == <<"none">>
User == <<"u">>
Zeros == [k \in Keys |-> 0]
Fresh(cid) == [st |-> Zeros, ts |-> Zeros, nonce |-> 1, tomb |-> 0, hc |-> TRUE, cid |-> cid]
\* a child whose constructor (init kind "store") wrote storage slot 0 := 3 and transient slot 1 := 2
\* before returning the code
Born(init) == IF init = "store"
              THEN [Fresh(9) EXCEPT !.st = [Zeros EXCEPT ![0] = 3], !.ts = [Zeros EXCEPT ![1] = 2]]
              ELSE Fresh(9)
ChildCid == 9

Put(f, k, v) == [x \in DOMAIN f \cup {k} |-> IF x = k THEN v ELSE f[x]]
Bal(w, a) == IF a \in DOMAIN w.bal THEN w.bal[a] ELSE 0
IsCon(w, a) == a \in DOMAIN w.con
Dead(w, a) == w.con[a].tomb = 2
Live(w, a) == IsCon(w, a) /\ ~Dead(w, a) /\ w.con[a].hc

\* move v from a to b; the user is untracked
Transfer(w, a, b, v) ==
  IF v = 0 \/ a = b THEN w
  ELSE LET w1 == IF a = User THEN w ELSE [w EXCEPT !.bal[a] = @ - v]
       IN  IF b = User THEN w1 ELSE [w1 EXCEPT !.bal = Put(@, b, Bal(w1, b) + v)]

Abort(w) == [r |-> "abort", W |-> w, obs |-> <<>>]

\* x = [self, code, caller, value, static]
RECURSIVE Exec(_, _, _, _)
Exec(w, x, p, i) ==
  IF i > Len(p) THEN [r |-> "ok", W |-> w, obs |-> <<>>]
  ELSE
  LET o == p[i]
      \* continue with world w2 after handing `items` to the output buffer
      Go(w2, items) == LET rest == Exec(w2, x, p, i + 1) IN
                       IF rest.r \in {"ok", "revert"} THEN [rest EXCEPT !.obs = items \o @] ELSE rest
  IN
  CASE o.op = "sstore" -> IF x.static THEN Abort(w)
                          ELSE Go([w EXCEPT !.con[x.self].st[o.k] = o.v], <<>>)
    [] o.op = "sload"  -> Go(w, << <<"s", w.con[x.self].st[o.k]>> >>)
    [] o.op = "tstore" -> IF x.static THEN Abort(w)
                          ELSE Go([w EXCEPT !.con[x.self].ts[o.k] = o.v], <<>>)
    [] o.op = "tload"  -> Go(w, << <<"t", w.con[x.self].ts[o.k]>> >>)
    [] o.op = "log"    -> IF x.static THEN Abort(w)
                          ELSE Go([w EXCEPT !.logs = Append(@, <<x.self, o.t>>)], <<>>)
    [] o.op = "env"    -> Go(w, << <<"env", x.self, x.caller, x.value, w.con[x.code].cid, Bal(w, x.self)>> >>)
    [] o.op = "bal"    -> Go(w, << <<"b", Bal(w, o.a)>> >>)
    [] o.op = "revert" -> [r |-> "revert", W |-> w, obs |-> <<>>]
    [] o.op = "return" -> [r |-> "ok", W |-> w, obs |-> <<>>]
    [] o.op = "invalid" -> Abort(w)
    [] o.op = "destroy" ->
         IF x.static THEN Abort(w)
         ELSE LET b  == IF o.ben = <<"caller">> THEN x.caller ELSE o.ben
                  w1 == Transfer(w, x.self, b, Bal(w, x.self))
              IN  [r |-> "halt", W |-> [w1 EXCEPT !.con[x.self].tomb = 1], obs |-> <<>>]
    [] o.op \in {"create", "create2"} ->
         IF x.static THEN Abort(w)
         ELSE IF Bal(w, x.self) < o.value THEN Go(w, << <<"new", None>> >>)       \* nonce not consumed
         ELSE LET n  == w.con[x.self].nonce
                  nm == IF o.op = "create" THEN <<"c1", x.self, n>> ELSE <<"c2", x.self, o.salt>>
                  w1 == [w EXCEPT !.con[x.self].nonce = n + 1]
              IN  IF IsCon(w1, nm) /\ ~Dead(w1, nm) THEN Go(w1, << <<"new", None>> >>)
                  ELSE Go(Transfer([w1 EXCEPT !.con = Put(@, nm, Born(o.init))], x.self, nm, o.value),
                          << <<"new", nm>> >>)
    [] o.op = "call" ->
         IF o.kind = "delegate" THEN
              LET rc == IF Live(w, o.to)
                        THEN Exec(w, [x EXCEPT !.code = o.to], o.prog, 1)
                        ELSE [r |-> "ok", W |-> w, obs |-> <<>>]
                  good == rc.r \in {"ok", "halt"}
              IN  Go(IF good THEN rc.W ELSE w, << <<"call", good>> >> \o rc.obs \o << <<"end">> >>)
         ELSE
              LET v  == IF o.kind = "static" THEN 0 ELSE o.value
              IN
              IF x.static /\ v > 0 THEN Abort(w)
              ELSE IF Bal(w, x.self) < v THEN Go(w, << <<"call", FALSE>>, <<"end">> >>)
              ELSE LET w1 == Transfer(w, x.self, o.to, v)
                       rc == IF Live(w1, o.to)
                             THEN Exec(w1, [self |-> o.to, code |-> o.to, caller |-> x.self, value |-> v,
                                            static |-> x.static \/ o.kind = "static"], o.prog, 1)
                             ELSE [r |-> "ok", W |-> w1, obs |-> <<>>]
                       good == rc.r \in {"ok", "halt"}
                   IN  Go(IF good THEN rc.W ELSE w, << <<"call", good>> >> \o rc.obs \o << <<"end">> >>)

\* every top-level message: contracts destroyed by the previous one are dead now (and empty);
\* transient storage and the log start empty
Begin(w) ==
  [w EXCEPT !.logs = <<>>,
            !.con = [c \in DOMAIN @ |->
                       [@[c] EXCEPT !.ts = Zeros,
                                    !.tomb = IF @ = 1 THEN 2 ELSE @,
                                    !.st = IF w.con[c].tomb # 0 THEN Zeros ELSE @,
                                    !.hc = IF w.con[c].tomb # 0 THEN FALSE ELSE @]]]

\* a user message [to, value, prog]
Do(w, m) ==
  LET b  == Begin(w)
      w1 == Transfer(b, User, m.to, m.value)
      rc == IF Live(w1, m.to)
            THEN Exec(w1, [self |-> m.to, code |-> m.to, caller |-> User, value |-> m.value, static |-> FALSE],
                      m.prog, 1)
            ELSE [r |-> "ok", W |-> w1, obs |-> <<>>]
      good == rc.r \in {"ok", "halt"}
  IN  [ok |-> good, W |-> IF good THEN rc.W ELSE b, obs |-> rc.obs]

\* what the outside world sees of a contract: a destroyed contract is empty
SeenSt(w, c) == IF w.con[c].tomb # 0 THEN Zeros ELSE w.con[c].st
SeenCode(w, c) == w.con[c].hc /\ w.con[c].tomb = 0

Step(m) ==
  LET r == Do(W, m) IN
  /\ W' = r.W
  /\ last' = [m EXCEPT !.ok = r.ok, !.obs = r.obs]

-----------------------------------------------------------------------------
(* Model-level checks of the semantics itself (MC_EVMCalls): meta-properties that must hold in
   every reachable world for every script of the bounded alphabet. *)

TotalBal(w) == LET RECURSIVE Sum(_)
                   Sum(D) == IF D = {} THEN 0 ELSE LET a == CHOOSE z \in D : TRUE IN w.bal[a] + Sum(D \ {a})
               IN Sum(DOMAIN w.bal)
\* tracked value enters only with the message value (and leaves only towards the user)
Conserved == \/ last'.a # "Msg"
             \/ (~last'.ok /\ TotalBal(W') = TotalBal(W))
             \/ (last'.ok /\ TotalBal(W') <= TotalBal(W) + last'.value)
NoNegative == \A a \in DOMAIN W.bal : W.bal[a] >= 0
\* a failed message changes nothing the outside can see
FailedIsNoop == (last'.a = "Msg" /\ ~last'.ok) =>
   /\ W'.bal = W.bal /\ DOMAIN W'.con = DOMAIN W.con
   /\ \A c \in DOMAIN W.con : SeenSt(W', c) = SeenSt(W, c) /\ W'.con[c].nonce = W.con[c].nonce
                              /\ SeenCode(W', c) = SeenCode(W, c)
\* dead stays dead unless re-created; a contract alive before and not destroyed now keeps its code
TombMonotone == \A c \in DOMAIN W.con :
   /\ c \in DOMAIN W'.con
   /\ (W.con[c].tomb # 0 /\ W'.con[c].tomb # 0) => W'.con[c].tomb = 2
   /\ (W.con[c].tomb = 0) => W'.con[c].tomb \in {0, 1}
\* the canonical form of a world between two messages: what the next message can depend on
Norm(w) == [bal |-> w.bal,
            con |-> [c \in DOMAIN w.con |->
                      [w.con[c] EXCEPT !.ts = Zeros,
                                       !.st = IF w.con[c].tomb # 0 THEN Zeros ELSE @,
                                       !.hc = IF w.con[c].tomb # 0 THEN FALSE ELSE @]]]
StepProps == Conserved /\ FailedIsNoop /\ TombMonotone
=============================================================================
