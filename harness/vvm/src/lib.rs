//! verif_vm: a recording VM that runs the *real* builtin actors natively.
//!
//! Derived from /repo/test_vm (same `Runtime` plumbing) with the additions DESIGN.md §3.1 lists:
//! selectable `Policy`, fault plans on nested sends, `delete_actor`, a settable consensus-fault
//! oracle, a signer-sensitive signature scheme, recording of caller validation, panics caught as
//! outcomes, and a richer invocation tree.
use anyhow::anyhow;
use cid::Cid;
use fil_actor_account::{Actor as AccountActor, State as AccountState};
use fil_actor_cron::{Actor as CronActor, Entry as CronEntry, State as CronState};
use fil_actor_datacap::{Actor as DataCapActor, State as DataCapState};
use fil_actor_eam::EamActor;
use fil_actor_ethaccount::EthAccountActor;
use fil_actor_evm::EvmContractActor;
use fil_actor_init::{Actor as InitActor, ExecReturn, State as InitState};
use fil_actor_market::{Actor as MarketActor, Method as MarketMethod, State as MarketState};
use fil_actor_miner::Actor as MinerActor;
use fil_actor_multisig::Actor as MultisigActor;
use fil_actor_paych::Actor as PaychActor;
use fil_actor_power::{Actor as PowerActor, Method as MethodPower, State as PowerState};
use fil_actor_reward::{Actor as RewardActor, State as RewardState};
use fil_actor_system::{Actor as SystemActor, State as SystemState};
use fil_actor_verifreg::{Actor as VerifregActor, State as VerifRegState};
use fil_actors_runtime::cbor::serialize;
use fil_actors_runtime::runtime::builtins::Type;
use fil_actors_runtime::runtime::{
    ActorCode, DomainSeparationTag, EMPTY_ARR_CID, MessageInfo, Policy, Primitives, Runtime,
    RuntimePolicy,
};
use fil_actors_runtime::test_blockstores::MemoryBlockstore;
use fil_actors_runtime::test_utils::*;
use fil_actors_runtime::{
    ActorError, BURNT_FUNDS_ACTOR_ADDR, CRON_ACTOR_ADDR, DATACAP_TOKEN_ACTOR_ADDR,
    DEFAULT_HAMT_CONFIG, EAM_ACTOR_ADDR, INIT_ACTOR_ADDR, Map2, REWARD_ACTOR_ADDR, SYSTEM_ACTOR_ID,
    STORAGE_MARKET_ACTOR_ADDR, STORAGE_POWER_ACTOR_ADDR, SYSTEM_ACTOR_ADDR, SendError,
    VERIFIED_REGISTRY_ACTOR_ADDR, actor_error,
};
use fvm_ipld_blockstore::Blockstore;
use fvm_ipld_encoding::CborStore;
use fvm_ipld_encoding::ipld_block::IpldBlock;
use fvm_ipld_hamt::{BytesKey, Hamt, Sha256};
use fvm_shared::address::{Address, Payload};
use fvm_shared::bigint::Zero;
use fvm_shared::chainid::ChainID;
use fvm_shared::clock::ChainEpoch;
use fvm_shared::consensus::ConsensusFault;
use fvm_shared::crypto::hash::SupportedHashes;
use fvm_shared::crypto::signature::{
    SECP_PUB_LEN, SECP_SIG_LEN, SECP_SIG_MESSAGE_HASH_SIZE, Signature,
};
use fvm_shared::econ::TokenAmount;
use fvm_shared::error::ExitCode;
use fvm_shared::event::ActorEvent;
use fvm_shared::piece::PieceInfo;
use fvm_shared::randomness::RANDOMNESS_LENGTH;
use fvm_shared::sector::{
    AggregateSealVerifyProofAndInfos, RegisteredSealProof, ReplicaUpdateInfo, SealVerifyInfo,
    StoragePower, WindowPoStVerifyInfo,
};
use fvm_shared::sys::SendFlags;
use fvm_shared::version::NetworkVersion;
use fvm_shared::{ActorID, IPLD_RAW, METHOD_CONSTRUCTOR, METHOD_SEND, MethodNum, Response};
use multihash_codetable::Code;
use serde::Serialize;
use serde::de::DeserializeOwned;
use std::cell::{Cell, RefCell};
use std::collections::{BTreeMap, HashMap};
use std::rc::Rc;
use vm_api::trace::{EmittedEvent, InvocationTrace};
use vm_api::util::{get_state, serialize_ok};
use vm_api::{ActorState, MessageResult, MockPrimitives, VM, VMError, new_actor};

pub const VERIFREG_ROOT_KEY: &[u8] = &[200; fvm_shared::address::BLS_PUB_LEN];
pub const FAUCET_ROOT_KEY: &[u8] = &[153; fvm_shared::address::BLS_PUB_LEN];
pub const TEST_VERIFREG_ROOT_SIGNER_ADDR: Address = Address::new_id(100);
pub const TEST_VERIFREG_ROOT_ADDR: Address = Address::new_id(101);
pub const TEST_FAUCET_ADDR: Address = Address::new_id(102);
pub const FIRST_TEST_USER_ADDR: ActorID = 103;
pub const INVALID_POST: &str = "i_am_invalid_post";
pub const RAND_ARRAY: [u8; 32] = [
    1, 2, 3, 4, 5, 6, 7, 8, 9, 10, 11, 12, 13, 14, 15, 16, 17, 18, 19, 20, 21, 22, 23, 24, 25, 26,
    27, 28, 29, 30, 31, 32,
];

/// Exit code returned by an injected (fault-plan) failure of a nested send.
pub const INJECTED_EXIT: ExitCode = ExitCode::USR_ILLEGAL_STATE;

/// One recorded `validate_immediate_caller_*` call.
#[derive(Clone, Debug)]
pub struct Validation {
    pub kind: &'static str, // any | is | type | namespace
    pub ok: bool,
    pub after_write: bool, // a state write of this invocation preceded the validation
    pub after_send: bool,  // a send of this invocation preceded the validation
}

/// The invocation tree of one message, richer than vm_api's.
#[derive(Clone, Debug)]
pub struct Inv {
    pub from: ActorID,
    pub to: Address,
    pub to_type: Option<Type>,
    pub value: TokenAmount,
    pub method: MethodNum,
    pub params: Option<IpldBlock>,
    pub ret: Option<IpldBlock>,
    pub exit: ExitCode,
    pub msg: String,
    pub injected: bool,
    pub read_only: bool,
    pub validations: Vec<Validation>,
    pub wrote: bool,
    pub subs: Vec<Inv>,
    pub events: Vec<EmittedEvent>,
}

impl Inv {
    pub fn to_trace(&self) -> InvocationTrace {
        InvocationTrace {
            from: self.from,
            to: self.to,
            value: self.value.clone(),
            method: self.method,
            params: self.params.clone(),
            error_number: None,
            exit_code: self.exit,
            return_value: self.ret.clone(),
            subinvocations: self.subs.iter().map(|s| s.to_trace()).collect(),
            events: self.events.clone(),
        }
    }
    /// Pre-order walk.
    pub fn walk<'a>(&'a self, f: &mut dyn FnMut(&'a Inv, usize), depth: usize) {
        f(self, depth);
        for s in &self.subs {
            s.walk(f, depth + 1);
        }
    }
    /// All *effective* value transfers (from, to, amount): a transfer is effective iff the
    /// invocation and all its ancestors succeeded.
    pub fn effective_transfers(&self, out: &mut Vec<(ActorID, ActorID, TokenAmount)>) {
        if !self.exit.is_success() {
            return;
        }
        if !self.value.is_zero() {
            out.push((self.from, self.to.id().unwrap_or(u64::MAX), self.value.clone()));
        }
        for s in &self.subs {
            s.effective_transfers(out);
        }
    }
}

/// A rule that makes one nested send fail without running the callee.
#[derive(Clone, Debug, Default)]
pub struct FaultRule {
    pub from_type: Option<Type>,
    pub to: Option<ActorID>,
    pub to_type: Option<Type>,
    pub method: Option<MethodNum>,
    /// number of matching sends to let through first
    pub skip: u32,
    /// fire at most this many times (0 = unlimited)
    pub times: u32,
}

#[derive(Clone, Debug)]
pub struct Outcome {
    pub code: ExitCode,
    pub message: String,
    pub ret: Option<IpldBlock>,
    pub panicked: bool,
    pub inv: Inv,
}

impl Outcome {
    pub fn ok(&self) -> bool {
        self.code.is_success() && !self.panicked
    }
    /// ok | rejected | panic
    pub fn class(&self) -> &'static str {
        if self.panicked {
            "panic"
        } else if self.code.is_success() {
            "ok"
        } else {
            "rejected"
        }
    }
    pub fn de<T: DeserializeOwned>(&self) -> T {
        self.ret.as_ref().expect("no return value").deserialize().expect("bad return value")
    }
}

pub struct VVM {
    pub primitives: FakePrimitives,
    pub store: Rc<MemoryBlockstore>,
    pub state_root: RefCell<Cid>,
    actors_dirty: RefCell<bool>,
    // None = deleted in this (uncommitted) layer
    actors_cache: RefCell<HashMap<Address, Option<ActorState>>>,
    invocations: RefCell<Vec<InvocationTrace>>,
    pub last_inv: RefCell<Option<Inv>>,
    network_version: NetworkVersion,
    curr_epoch: RefCell<ChainEpoch>,
    circulating_supply: RefCell<TokenAmount>,
    base_fee: RefCell<TokenAmount>,
    timestamp: RefCell<u64>,
    pub policy: Policy,
    pub faults: RefCell<Vec<(FaultRule, Cell<u32>, Cell<u32>)>>, // rule, seen, fired
    pub consensus_fault: RefCell<Option<ConsensusFault>>,
    /// when true signatures must be `signer.to_bytes() ++ plaintext`
    pub strict_sigs: Cell<bool>,
    pub keep_vm_api_trace: Cell<bool>,
    pub panics: RefCell<Vec<String>>,
}

pub fn sign(signer: &Address, plaintext: &[u8]) -> Vec<u8> {
    let mut b = signer.to_bytes();
    b.extend_from_slice(plaintext);
    b
}

impl VVM {
    pub fn new(policy: Policy) -> VVM {
        let store = Rc::new(MemoryBlockstore::new());
        let mut actors =
            Hamt::<Rc<MemoryBlockstore>, ActorState, BytesKey, Sha256>::new_with_config(
                Rc::clone(&store),
                DEFAULT_HAMT_CONFIG,
            );
        VVM {
            primitives: FakePrimitives::default(),
            store,
            state_root: RefCell::new(actors.flush().unwrap()),
            circulating_supply: RefCell::new(TokenAmount::zero()),
            actors_dirty: RefCell::new(false),
            actors_cache: RefCell::new(HashMap::new()),
            network_version: NetworkVersion::V16,
            curr_epoch: RefCell::new(0),
            invocations: RefCell::new(vec![]),
            last_inv: RefCell::new(None),
            base_fee: RefCell::new(TokenAmount::zero()),
            timestamp: RefCell::new(0),
            policy,
            faults: RefCell::new(vec![]),
            consensus_fault: RefCell::new(None),
            strict_sigs: Cell::new(true),
            keep_vm_api_trace: Cell::new(false),
            panics: RefCell::new(vec![]),
        }
    }

    /// Genesis identical to test_vm's `new_with_singletons` (same ids), under `policy`.
    pub fn genesis(policy: Policy) -> VVM {
        let reward_total = TokenAmount::from_whole(1_100_000_000i64);
        let faucet_total = TokenAmount::from_whole(1_000_000_000i64);
        let v = VVM::new(policy);
        let store = Rc::clone(&v.store);
        v.set_circulating_supply(&reward_total + &faucet_total);

        let sys_st = SystemState::new(&store).unwrap();
        let sys_head = v.put_store(&sys_st);
        v.set_actor(
            &SYSTEM_ACTOR_ADDR,
            new_actor(*SYSTEM_ACTOR_CODE_ID, sys_head, 0, faucet_total.clone(), None),
        );
        let init_st = InitState::new(&store, "integration-test".to_string()).unwrap();
        let init_head = v.put_store(&init_st);
        v.set_actor(
            &INIT_ACTOR_ADDR,
            new_actor(*INIT_ACTOR_CODE_ID, init_head, 0, TokenAmount::zero(), None),
        );
        let reward_head = v.put_store(&RewardState::new(StoragePower::zero()));
        v.set_actor(
            &REWARD_ACTOR_ADDR,
            new_actor(*REWARD_ACTOR_CODE_ID, reward_head, 0, reward_total, None),
        );
        let builtin_entries = vec![
            CronEntry {
                receiver: STORAGE_POWER_ACTOR_ADDR,
                method_num: MethodPower::OnEpochTickEnd as u64,
            },
            CronEntry {
                receiver: STORAGE_MARKET_ACTOR_ADDR,
                method_num: MarketMethod::CronTick as u64,
            },
        ];
        let cron_head = v.put_store(&CronState { entries: builtin_entries });
        v.set_actor(
            &CRON_ACTOR_ADDR,
            new_actor(*CRON_ACTOR_CODE_ID, cron_head, 0, TokenAmount::zero(), None),
        );
        let power_head = v.put_store(&PowerState::new(&v.store).unwrap());
        v.set_actor(
            &STORAGE_POWER_ACTOR_ADDR,
            new_actor(*POWER_ACTOR_CODE_ID, power_head, 0, TokenAmount::zero(), None),
        );
        let market_head = v.put_store(&MarketState::new(&v.store).unwrap());
        v.set_actor(
            &STORAGE_MARKET_ACTOR_ADDR,
            new_actor(*MARKET_ACTOR_CODE_ID, market_head, 0, TokenAmount::zero(), None),
        );
        v.execute_message(
            &INIT_ACTOR_ADDR,
            &Address::new_bls(VERIFREG_ROOT_KEY).unwrap(),
            &TokenAmount::zero(),
            METHOD_SEND,
            None,
        )
        .unwrap();
        let verifreg_root_signer =
            v.resolve_id_address(&Address::new_bls(VERIFREG_ROOT_KEY).unwrap()).unwrap();
        assert_eq!(TEST_VERIFREG_ROOT_SIGNER_ADDR, verifreg_root_signer);
        let msig_ctor_params = serialize(
            &fil_actor_multisig::ConstructorParams {
                signers: vec![verifreg_root_signer],
                num_approvals_threshold: 1,
                unlock_duration: 0,
                start_epoch: 0,
            },
            "multisig ctor params",
        )
        .unwrap();
        let msig_ctor_ret: ExecReturn = v
            .execute_message(
                &SYSTEM_ACTOR_ADDR,
                &INIT_ACTOR_ADDR,
                &TokenAmount::zero(),
                fil_actor_init::Method::Exec as u64,
                Some(serialize_ok(&fil_actor_init::ExecParams {
                    code_cid: *MULTISIG_ACTOR_CODE_ID,
                    constructor_params: msig_ctor_params,
                })),
            )
            .unwrap()
            .ret
            .unwrap()
            .deserialize()
            .unwrap();
        let root_msig_addr = msig_ctor_ret.id_address;
        assert_eq!(TEST_VERIFREG_ROOT_ADDR, root_msig_addr);
        let verifreg_head = v.put_store(&VerifRegState::new(&v.store, root_msig_addr).unwrap());
        v.set_actor(
            &VERIFIED_REGISTRY_ACTOR_ADDR,
            new_actor(*VERIFREG_ACTOR_CODE_ID, verifreg_head, 0, TokenAmount::zero(), None),
        );
        v.set_actor(
            &EAM_ACTOR_ADDR,
            new_actor(*EAM_ACTOR_CODE_ID, EMPTY_ARR_CID, 0, TokenAmount::zero(), None),
        );
        let datacap_head =
            v.put_store(&DataCapState::new(&v.store, VERIFIED_REGISTRY_ACTOR_ADDR).unwrap());
        v.set_actor(
            &DATACAP_TOKEN_ACTOR_ADDR,
            new_actor(*DATACAP_TOKEN_ACTOR_CODE_ID, datacap_head, 0, TokenAmount::zero(), None),
        );
        let burnt_funds_head = v.put_store(&AccountState { address: BURNT_FUNDS_ACTOR_ADDR });
        v.set_actor(
            &BURNT_FUNDS_ACTOR_ADDR,
            new_actor(*ACCOUNT_ACTOR_CODE_ID, burnt_funds_head, 0, TokenAmount::zero(), None),
        );
        v.execute_message(
            &SYSTEM_ACTOR_ADDR,
            &Address::new_bls(FAUCET_ROOT_KEY).unwrap(),
            &faucet_total,
            METHOD_SEND,
            None,
        )
        .unwrap();
        v.checkpoint();
        v.take_invocations();
        v
    }

    pub fn put_store<S: serde::ser::Serialize>(&self, obj: &S) -> Cid {
        self.store.put_cbor(obj, Code::Blake2b256).unwrap()
    }

    pub fn checkpoint(&self) -> Cid {
        if !*self.actors_dirty.borrow() && self.actors_cache.borrow().is_empty() {
            return *self.state_root.borrow();
        }
        let mut actors =
            Hamt::<Rc<MemoryBlockstore>, ActorState, BytesKey, Sha256>::load_with_config(
                &self.state_root.borrow(),
                Rc::clone(&self.store),
                DEFAULT_HAMT_CONFIG,
            )
            .unwrap();
        if *self.actors_dirty.borrow() {
            for (addr, act) in self.actors_cache.borrow().iter() {
                match act {
                    Some(act) => {
                        actors.set(addr.to_bytes().into(), act.clone()).unwrap();
                    }
                    None => {
                        actors.delete(&BytesKey::from(addr.to_bytes())).unwrap();
                    }
                }
            }
            self.state_root.replace(actors.flush().unwrap());
        }
        self.actors_dirty.replace(false);
        *self.state_root.borrow()
    }

    pub fn rollback(&self, root: Cid) {
        self.actors_cache.replace(HashMap::new());
        self.state_root.replace(root);
        self.actors_dirty.replace(false);
    }

    fn actor_map(&self) -> Map2<&MemoryBlockstore, Address, ActorState> {
        Map2::load(self.store.as_ref(), &self.checkpoint(), DEFAULT_HAMT_CONFIG, "actors").unwrap()
    }

    pub fn delete_actor_entry(&self, key: &Address) {
        self.actors_cache.borrow_mut().insert(*key, None);
        self.actors_dirty.replace(true);
    }

    pub fn add_fault(&self, r: FaultRule) {
        self.faults.borrow_mut().push((r, Cell::new(0), Cell::new(0)));
    }
    pub fn clear_faults(&self) {
        self.faults.borrow_mut().clear();
    }
    pub fn faults_fired(&self) -> u32 {
        self.faults.borrow().iter().map(|(_, _, f)| f.get()).sum()
    }

    pub fn actor_type(&self, a: &Address) -> Option<Type> {
        self.actor(a).and_then(|s| ACTOR_TYPES.get(&s.code).cloned())
    }

    /// Execute a top-level message; panics inside actor code are caught and reported as an outcome
    /// (state rolled back, as the Wasm trampoline + FVM would do).
    pub fn run(
        &self,
        from: &Address,
        to: &Address,
        value: &TokenAmount,
        method: MethodNum,
        params: Option<IpldBlock>,
    ) -> Outcome {
        let from_id = self.resolve_id_address(from).expect("unknown sender");
        let mut a = self.actor(&from_id).expect("sender actor missing");
        let call_seq = a.sequence;
        a.sequence = call_seq + 1;
        if a.code == *PLACEHOLDER_ACTOR_CODE_ID {
            a.code = *ETHACCOUNT_ACTOR_CODE_ID;
        }
        self.set_actor(&from_id, a);
        let prior_root = self.checkpoint();
        let top = TopCtx {
            originator_stable_addr: *from,
            originator_call_seq: call_seq,
            new_actor_addr_count: Rc::new(RefCell::new(0)),
            circ_supply: self.circulating_supply.borrow().clone(),
        };
        let msg = InternalMessage {
            from: from_id.id().unwrap(),
            to: *to,
            value: value.clone(),
            method,
            params,
        };
        let mut ctx = InvocationCtx::new(self, top, msg, false);
        let res = std::panic::catch_unwind(std::panic::AssertUnwindSafe(|| ctx.invoke()));
        match res {
            Err(p) => {
                let m = if let Some(s) = p.downcast_ref::<String>() {
                    s.clone()
                } else if let Some(s) = p.downcast_ref::<&str>() {
                    s.to_string()
                } else {
                    "panic".to_string()
                };
                self.rollback(prior_root);
                self.panics.borrow_mut().push(m.clone());
                let inv = ctx.gather(Err(ActorError::unchecked(
                    ExitCode::USR_ASSERTION_FAILED,
                    format!("PANIC: {m}"),
                )));
                self.last_inv.replace(Some(inv.clone()));
                Outcome {
                    code: ExitCode::USR_ASSERTION_FAILED,
                    message: format!("PANIC: {m}"),
                    ret: None,
                    panicked: true,
                    inv,
                }
            }
            Ok(res) => {
                let inv = ctx.gather(res.clone());
                if self.keep_vm_api_trace.get() {
                    self.invocations.borrow_mut().push(inv.to_trace());
                }
                self.last_inv.replace(Some(inv.clone()));
                match res {
                    Err(mut ae) => {
                        self.rollback(prior_root);
                        Outcome {
                            code: ae.exit_code(),
                            message: ae.msg().to_string(),
                            ret: ae.take_data(),
                            panicked: false,
                            inv,
                        }
                    }
                    Ok(ret) => {
                        self.checkpoint();
                        Outcome {
                            code: ExitCode::OK,
                            message: "OK".into(),
                            ret,
                            panicked: false,
                            inv,
                        }
                    }
                }
            }
        }
    }

    pub fn run_p<P: Serialize>(
        &self,
        from: &Address,
        to: &Address,
        value: &TokenAmount,
        method: MethodNum,
        params: &P,
    ) -> Outcome {
        self.run(from, to, value, method, IpldBlock::serialize_cbor(params).unwrap())
    }

    /// The implicit end-of-epoch cron message, then advance the epoch by one.
    pub fn tick(&self) -> Outcome {
        let o = self.run(
            &SYSTEM_ACTOR_ADDR,
            &CRON_ACTOR_ADDR,
            &TokenAmount::zero(),
            fil_actor_cron::Method::EpochTick as u64,
            None,
        );
        let e = self.epoch();
        self.set_epoch(e + 1);
        o
    }

    pub fn state<T: DeserializeOwned>(&self, a: &Address) -> Option<T> {
        let act = self.actor(a)?;
        self.store.get_cbor::<T>(&act.state).ok().flatten()
    }

    /// Sum of all actor balances in the state tree.
    pub fn total_fil(&self) -> TokenAmount {
        let mut t = TokenAmount::zero();
        for (_, a) in self.actor_states() {
            t += a.balance;
        }
        t
    }

    /// Create `n` funded account actors (secp addresses derived from `seed`), returns ID addresses.
    pub fn create_accounts(&self, n: usize, seed: u64, balance: &TokenAmount) -> Vec<Address> {
        let mut out = vec![];
        for i in 0..n {
            let mut key = [0u8; 20];
            key[..8].copy_from_slice(&seed.to_be_bytes());
            key[8..16].copy_from_slice(&(i as u64).to_be_bytes());
            let a = Address::new_secp256k1(&{
                let mut pk = [0u8; 65];
                pk[..20].copy_from_slice(&key);
                pk[64] = 7;
                pk
            })
            .unwrap();
            let o = self.run(&TEST_FAUCET_ADDR, &a, balance, METHOD_SEND, None);
            assert!(o.ok(), "faucet: {}", o.message);
            out.push(self.resolve_id_address(&a).unwrap());
        }
        out
    }
}

impl VM for VVM {
    fn blockstore(&self) -> &dyn Blockstore {
        self.store.as_ref()
    }

    fn execute_message(
        &self,
        from: &Address,
        to: &Address,
        value: &TokenAmount,
        method: MethodNum,
        params: Option<IpldBlock>,
    ) -> Result<MessageResult, VMError> {
        let o = self.run(from, to, value, method, params);
        Ok(MessageResult { code: o.code, message: o.message, ret: o.ret })
    }

    fn execute_message_implicit(
        &self,
        from: &Address,
        to: &Address,
        value: &TokenAmount,
        method: MethodNum,
        params: Option<IpldBlock>,
    ) -> Result<MessageResult, VMError> {
        self.execute_message(from, to, value, method, params)
    }

    fn resolve_id_address(&self, address: &Address) -> Option<Address> {
        if let Payload::ID(_) = address.payload() {
            return Some(*address);
        }
        let st: InitState = get_state(self, &INIT_ACTOR_ADDR).unwrap();
        st.resolve_address(&self.store, address).unwrap()
    }

    fn balance(&self, address: &Address) -> TokenAmount {
        self.actor(address).map_or(TokenAmount::zero(), |a| a.balance)
    }

    fn take_invocations(&self) -> Vec<InvocationTrace> {
        self.invocations.take()
    }

    fn actor(&self, address: &Address) -> Option<ActorState> {
        if let Some(act) = self.actors_cache.borrow().get(address) {
            return act.clone();
        }
        let actors = self.actor_map();
        let actor = actors.get(address).unwrap().cloned();
        if let Some(a) = &actor {
            self.actors_cache.borrow_mut().insert(*address, Some(a.clone()));
        }
        actor
    }

    fn set_actor(&self, key: &Address, a: ActorState) {
        self.actors_cache.borrow_mut().insert(*key, Some(a));
        self.actors_dirty.replace(true);
    }

    fn primitives(&self) -> &dyn Primitives {
        &self.primitives
    }

    fn actor_manifest(&self) -> BTreeMap<Cid, Type> {
        ACTOR_TYPES.clone()
    }

    fn actor_states(&self) -> BTreeMap<Address, ActorState> {
        let map = self.actor_map();
        let mut tree = BTreeMap::new();
        map.for_each(|k, v| {
            tree.insert(k, v.clone());
            Ok(())
        })
        .unwrap();
        tree
    }

    fn epoch(&self) -> ChainEpoch {
        *self.curr_epoch.borrow()
    }
    fn set_epoch(&self, epoch: ChainEpoch) {
        self.curr_epoch.replace(epoch);
    }
    fn circulating_supply(&self) -> TokenAmount {
        self.circulating_supply.borrow().clone()
    }
    fn set_circulating_supply(&self, supply: TokenAmount) {
        self.circulating_supply.replace(supply);
    }
    fn base_fee(&self) -> TokenAmount {
        self.base_fee.borrow().clone()
    }
    fn set_base_fee(&self, amount: TokenAmount) {
        self.base_fee.replace(amount);
    }
    fn timestamp(&self) -> u64 {
        *self.timestamp.borrow()
    }
    fn set_timestamp(&self, timestamp: u64) {
        self.timestamp.replace(timestamp);
    }
    fn mut_primitives(&self) -> &dyn MockPrimitives {
        &self.primitives
    }
}

#[derive(Clone)]
pub struct TopCtx {
    pub originator_stable_addr: Address,
    pub originator_call_seq: u64,
    pub new_actor_addr_count: Rc<RefCell<u64>>,
    pub circ_supply: TokenAmount,
}

#[derive(Clone, Debug)]
pub struct InternalMessage {
    pub from: ActorID,
    pub to: Address,
    pub value: TokenAmount,
    pub method: MethodNum,
    pub params: Option<IpldBlock>,
}

pub struct InvocationCtx<'i> {
    pub v: &'i VVM,
    pub top: TopCtx,
    pub msg: InternalMessage,
    pub allow_side_effects: RefCell<bool>,
    pub caller_validated: RefCell<bool>,
    pub read_only: bool,
    pub subs: RefCell<Vec<Inv>>,
    pub events: RefCell<Vec<EmittedEvent>>,
    pub validations: RefCell<Vec<Validation>>,
    pub wrote: Cell<bool>,
    pub sent: Cell<bool>,
    pub injected: Cell<bool>,
}

impl MessageInfo for InvocationCtx<'_> {
    fn nonce(&self) -> u64 {
        self.top.originator_call_seq
    }
    fn caller(&self) -> Address {
        Address::new_id(self.msg.from)
    }
    fn origin(&self) -> Address {
        Address::new_id(self.resolve_address(&self.top.originator_stable_addr).unwrap())
    }
    fn receiver(&self) -> Address {
        self.to()
    }
    fn value_received(&self) -> TokenAmount {
        self.msg.value.clone()
    }
    fn gas_premium(&self) -> TokenAmount {
        TokenAmount::zero()
    }
}

impl<'i> InvocationCtx<'i> {
    pub fn new(v: &'i VVM, top: TopCtx, msg: InternalMessage, read_only: bool) -> Self {
        InvocationCtx {
            v,
            top,
            msg,
            allow_side_effects: RefCell::new(true),
            caller_validated: RefCell::new(false),
            read_only,
            subs: RefCell::new(vec![]),
            events: RefCell::new(vec![]),
            validations: RefCell::new(vec![]),
            wrote: Cell::new(false),
            sent: Cell::new(false),
            injected: Cell::new(false),
        }
    }

    fn resolve_target(&self, target: &Address) -> Result<(ActorState, Address), ActorError> {
        if let Some(a) = self.v.resolve_id_address(target)
            && let Some(act) = self.v.actor(&a)
        {
            return Ok((act, a));
        }
        let is_account = match target.payload() {
            Payload::Secp256k1(_) | Payload::BLS(_) => true,
            Payload::Delegated(da)
                if self.v.actor(&Address::new_id(da.namespace())).is_some() =>
            {
                false
            }
            _ => {
                return Err(ActorError::unchecked(
                    ExitCode::SYS_INVALID_RECEIVER,
                    format!(
                        "cannot create account for address {} type {}",
                        target,
                        target.protocol()
                    ),
                ));
            }
        };
        if self.read_only() {
            return Err(ActorError::unchecked(
                ExitCode::USR_READ_ONLY,
                format!("cannot create actor {target} in read-only mode"),
            ));
        }
        let mut st: InitState = get_state(self.v, &INIT_ACTOR_ADDR).unwrap();
        let (target_id, existing) = st.map_addresses_to_id(&self.v.store, target, None).unwrap();
        assert!(!existing, "should never have existing actor when no f4 address is specified");
        let target_id_addr = Address::new_id(target_id);
        let mut init_actor = self.v.actor(&INIT_ACTOR_ADDR).unwrap();
        init_actor.state = self.v.store.put_cbor(&st, Code::Blake2b256).unwrap();
        self.v.set_actor(&INIT_ACTOR_ADDR, init_actor);

        let new_actor_msg = InternalMessage {
            from: SYSTEM_ACTOR_ID,
            to: target_id_addr,
            value: TokenAmount::zero(),
            method: METHOD_CONSTRUCTOR,
            params: IpldBlock::serialize_cbor(target).unwrap(),
        };
        {
            let mut new_ctx = InvocationCtx::new(self.v, self.top.clone(), new_actor_msg, false);
            if is_account {
                new_ctx.create_actor(*ACCOUNT_ACTOR_CODE_ID, target_id, None).unwrap();
                let res = new_ctx.invoke();
                let inv = new_ctx.gather(res);
                self.subs.borrow_mut().push(inv);
            } else {
                new_ctx
                    .create_actor(*PLACEHOLDER_ACTOR_CODE_ID, target_id, Some(*target))
                    .unwrap();
            }
        }
        Ok((self.v.actor(&target_id_addr).unwrap(), target_id_addr))
    }

    pub fn gather(&mut self, res: Result<Option<IpldBlock>, ActorError>) -> Inv {
        let (ret, code, m) = match res {
            Ok(rb) => (rb, ExitCode::OK, String::new()),
            Err(ae) => (None, ae.exit_code(), ae.msg().to_string()),
        };
        let to = self.v.resolve_id_address(&self.msg.to).unwrap_or(self.msg.to);
        let to_type = self.v.actor_type(&to);
        Inv {
            from: self.msg.from,
            to,
            to_type,
            value: self.msg.value.clone(),
            method: self.msg.method,
            params: self.msg.params.clone(),
            ret,
            exit: code,
            msg: m,
            injected: self.injected.get(),
            read_only: self.read_only,
            validations: self.validations.take(),
            wrote: self.wrote.get(),
            subs: self.subs.take(),
            events: self.events.take(),
        }
    }

    fn to(&self) -> Address {
        self.resolve_target(&self.msg.to).unwrap().1
    }

    pub fn invoke(&mut self) -> Result<Option<IpldBlock>, ActorError> {
        let prior_root = self.v.checkpoint();
        let r = self.invoke_inner();
        if r.is_err() {
            self.v.rollback(prior_root);
        }
        r
    }

    fn invoke_inner(&mut self) -> Result<Option<IpldBlock>, ActorError> {
        let mut from_actor = self.v.actor(&Address::new_id(self.msg.from)).unwrap();
        if !self.msg.value.is_zero() {
            if self.msg.value.is_negative() {
                return Err(ActorError::unchecked(
                    ExitCode::SYS_ASSERTION_FAILED,
                    "attempt to transfer negative value".to_string(),
                ));
            }
            if from_actor.balance < self.msg.value {
                return Err(ActorError::unchecked(
                    ExitCode::SYS_INSUFFICIENT_FUNDS,
                    "insufficient balance to transfer".to_string(),
                ));
            }
            if self.read_only() {
                return Err(ActorError::unchecked(
                    ExitCode::USR_READ_ONLY,
                    "cannot transfer value in read-only mode".to_string(),
                ));
            }
        }
        from_actor.balance -= &self.msg.value;
        self.v.set_actor(&Address::new_id(self.msg.from), from_actor);

        let (mut to_actor, to_addr) = self.resolve_target(&self.msg.to)?;
        to_actor.balance += &self.msg.value;
        self.v.set_actor(&to_addr, to_actor);

        if self.msg.method == METHOD_SEND {
            return Ok(None);
        }
        self.msg.to = to_addr;

        let to_actor = self.v.actor(&to_addr).unwrap();
        let params = self.msg.params.clone();
        let m = self.msg.method;
        let mut res = match ACTOR_TYPES.get(&to_actor.code).expect("Target actor is not a builtin")
        {
            Type::Account => AccountActor::invoke_method(self, m, params),
            Type::Cron => CronActor::invoke_method(self, m, params),
            Type::Init => InitActor::invoke_method(self, m, params),
            Type::Market => MarketActor::invoke_method(self, m, params),
            Type::Miner => MinerActor::invoke_method(self, m, params),
            Type::Multisig => MultisigActor::invoke_method(self, m, params),
            Type::System => SystemActor::invoke_method(self, m, params),
            Type::Reward => RewardActor::invoke_method(self, m, params),
            Type::Power => PowerActor::invoke_method(self, m, params),
            Type::PaymentChannel => PaychActor::invoke_method(self, m, params),
            Type::VerifiedRegistry => VerifregActor::invoke_method(self, m, params),
            Type::DataCap => DataCapActor::invoke_method(self, m, params),
            Type::Placeholder => {
                Err(ActorError::unhandled_message("placeholder actors only handle method 0".into()))
            }
            Type::EVM => EvmContractActor::invoke_method(self, m, params),
            Type::EAM => EamActor::invoke_method(self, m, params),
            Type::EthAccount => EthAccountActor::invoke_method(self, m, params),
        };
        if res.is_ok() && !*self.caller_validated.borrow() {
            res = Err(actor_error!(assertion_failed, "failed to validate caller"));
        }
        res
    }

    fn record_validation(&self, kind: &'static str, ok: bool) {
        self.validations.borrow_mut().push(Validation {
            kind,
            ok,
            after_write: self.wrote.get(),
            after_send: self.sent.get(),
        });
    }

    fn double_validated(&self) -> Result<(), ActorError> {
        if *self.caller_validated.borrow() {
            self.record_validation("double", false);
            return Err(ActorError::unchecked(
                ExitCode::SYS_ASSERTION_FAILED,
                "caller double validated".to_string(),
            ));
        }
        Ok(())
    }

    fn fault_matches(&self, from_id: ActorID, to: &Address, method: MethodNum) -> bool {
        let faults = self.v.faults.borrow();
        if faults.is_empty() {
            return false;
        }
        let to_id = self.v.resolve_id_address(to).and_then(|a| a.id().ok());
        let to_type = to_id.and_then(|i| self.v.actor_type(&Address::new_id(i)));
        let from_type = self.v.actor_type(&Address::new_id(from_id));
        for (r, seen, fired) in faults.iter() {
            if let Some(t) = r.from_type
                && Some(t) != from_type
            {
                continue;
            }
            if let Some(t) = r.to_type
                && Some(t) != to_type
            {
                continue;
            }
            if let Some(i) = r.to
                && Some(i) != to_id
            {
                continue;
            }
            if let Some(mm) = r.method
                && mm != method
            {
                continue;
            }
            let s = seen.get();
            seen.set(s + 1);
            if s < r.skip {
                continue;
            }
            if r.times != 0 && fired.get() >= r.times {
                continue;
            }
            fired.set(fired.get() + 1);
            return true;
        }
        false
    }
}

impl Runtime for InvocationCtx<'_> {
    type Blockstore = Rc<MemoryBlockstore>;

    fn create_actor(
        &self,
        code_id: Cid,
        actor_id: ActorID,
        predictable_address: Option<Address>,
    ) -> Result<(), ActorError> {
        if NON_SINGLETON_CODES.get(&code_id).is_none() {
            return Err(ActorError::unchecked(
                ExitCode::SYS_ASSERTION_FAILED,
                "create_actor called with singleton builtin actor code cid".to_string(),
            ));
        }
        let addr = &Address::new_id(actor_id);
        let actor = match self.v.actor(addr) {
            Some(mut act) if act.code == *PLACEHOLDER_ACTOR_CODE_ID => {
                act.code = code_id;
                act
            }
            None => new_actor(code_id, EMPTY_ARR_CID, 0, TokenAmount::zero(), predictable_address),
            _ => {
                return Err(actor_error!(forbidden;
                    "attempt to create new actor at existing address {}", addr));
            }
        };
        if self.read_only() {
            return Err(ActorError::unchecked(
                ExitCode::USR_READ_ONLY,
                "cannot create actor in read-only mode".into(),
            ));
        }
        self.top.new_actor_addr_count.replace_with(|old| *old + 1);
        self.v.set_actor(addr, actor);
        Ok(())
    }

    fn store(&self) -> &Rc<MemoryBlockstore> {
        &self.v.store
    }
    fn network_version(&self) -> NetworkVersion {
        self.v.network_version
    }
    fn message(&self) -> &dyn MessageInfo {
        self
    }
    fn curr_epoch(&self) -> ChainEpoch {
        self.v.epoch()
    }
    fn chain_id(&self) -> ChainID {
        ChainID::from(0)
    }

    fn validate_immediate_caller_accept_any(&self) -> Result<(), ActorError> {
        self.double_validated()?;
        self.caller_validated.replace(true);
        self.record_validation("any", true);
        Ok(())
    }

    fn validate_immediate_caller_namespace<I>(&self, namespaces: I) -> Result<(), ActorError>
    where
        I: IntoIterator<Item = u64>,
    {
        self.double_validated()?;
        // NB: as in test_vm the flag is not set here on success/failure paths differently from FVM;
        // FVM sets it on success.
        let managers: Vec<_> = namespaces.into_iter().collect();
        if let Some(delegated) =
            self.lookup_delegated_address(self.message().caller().id().unwrap())
        {
            for id in managers {
                if match delegated.payload() {
                    Payload::Delegated(d) => d.namespace() == id,
                    _ => false,
                } {
                    self.caller_validated.replace(true);
                    self.record_validation("namespace", true);
                    return Ok(());
                }
            }
        } else {
            self.record_validation("namespace", false);
            return Err(ActorError::unchecked(
                ExitCode::SYS_ASSERTION_FAILED,
                "immediate caller actor expected to have namespace".to_string(),
            ));
        }
        self.record_validation("namespace", false);
        Err(ActorError::unchecked(
            ExitCode::SYS_ASSERTION_FAILED,
            "immediate caller actor namespace forbidden".to_string(),
        ))
    }

    fn validate_immediate_caller_is<'a, I>(&self, addresses: I) -> Result<(), ActorError>
    where
        I: IntoIterator<Item = &'a Address>,
    {
        self.double_validated()?;
        self.caller_validated.replace(true);
        for addr in addresses {
            if *addr == Address::new_id(self.msg.from) {
                self.record_validation("is", true);
                return Ok(());
            }
        }
        self.record_validation("is", false);
        Err(ActorError::unchecked(
            ExitCode::USR_FORBIDDEN,
            "immediate caller address forbidden".to_string(),
        ))
    }

    fn validate_immediate_caller_type<'a, I>(&self, types: I) -> Result<(), ActorError>
    where
        I: IntoIterator<Item = &'a Type>,
    {
        self.double_validated()?;
        self.caller_validated.replace(true);
        let to_match =
            ACTOR_TYPES.get(&self.v.actor(&Address::new_id(self.msg.from)).unwrap().code).unwrap();
        if types.into_iter().any(|t| *t == *to_match) {
            self.record_validation("type", true);
            return Ok(());
        }
        self.record_validation("type", false);
        Err(ActorError::unchecked(
            ExitCode::USR_FORBIDDEN,
            "immediate caller actor type forbidden".to_string(),
        ))
    }

    fn current_balance(&self) -> TokenAmount {
        self.v.actor(&self.to()).unwrap().balance
    }

    fn resolve_address(&self, addr: &Address) -> Option<ActorID> {
        if let Some(a) = self.v.resolve_id_address(addr)
            && let &Payload::ID(id) = a.payload()
        {
            return Some(id);
        }
        None
    }

    fn get_actor_code_cid(&self, id: &ActorID) -> Option<Cid> {
        self.v.actor(&Address::new_id(*id)).map(|a| a.code)
    }

    fn lookup_delegated_address(&self, id: ActorID) -> Option<Address> {
        self.v.actor(&Address::new_id(id)).and_then(|act| act.delegated_address)
    }

    fn send(
        &self,
        to: &Address,
        method: MethodNum,
        params: Option<IpldBlock>,
        value: TokenAmount,
        _gas_limit: Option<u64>,
        mut send_flags: SendFlags,
    ) -> Result<Response, SendError> {
        if self.read_only() {
            send_flags.set(SendFlags::READ_ONLY, true)
        }
        if !*self.allow_side_effects.borrow() {
            return Ok(Response { exit_code: ExitCode::SYS_ASSERTION_FAILED, return_data: None });
        }
        self.sent.set(true);
        let from_id = self.resolve_address(&self.to()).unwrap();
        let new_actor_msg = InternalMessage { from: from_id, to: *to, value, method, params };
        let mut new_ctx =
            InvocationCtx::new(self.v, self.top.clone(), new_actor_msg, send_flags.read_only());

        if self.fault_matches(from_id, to, method) {
            new_ctx.injected.set(true);
            let inv = new_ctx.gather(Err(ActorError::unchecked(
                INJECTED_EXIT,
                "injected failure".to_string(),
            )));
            self.subs.borrow_mut().push(inv);
            return Ok(Response { exit_code: INJECTED_EXIT, return_data: None });
        }

        let res = new_ctx.invoke();
        let inv = new_ctx.gather(res.clone());
        self.subs.borrow_mut().push(inv);
        Ok(Response {
            exit_code: res.as_ref().err().map(|e| e.exit_code()).unwrap_or(ExitCode::OK),
            return_data: res.unwrap_or_else(|mut e| e.take_data()),
        })
    }

    fn get_randomness_from_tickets(
        &self,
        _p: DomainSeparationTag,
        _e: ChainEpoch,
        _entropy: &[u8],
    ) -> Result<[u8; RANDOMNESS_LENGTH], ActorError> {
        Ok(RAND_ARRAY)
    }
    fn get_randomness_from_beacon(
        &self,
        _p: DomainSeparationTag,
        _e: ChainEpoch,
        _entropy: &[u8],
    ) -> Result<[u8; RANDOMNESS_LENGTH], ActorError> {
        Ok(RAND_ARRAY)
    }
    fn get_beacon_randomness(&self, _e: ChainEpoch) -> Result<[u8; RANDOMNESS_LENGTH], ActorError> {
        Ok(RAND_ARRAY)
    }

    fn get_state_root(&self) -> Result<Cid, ActorError> {
        Ok(self.v.actor(&self.to()).unwrap().state)
    }

    fn set_state_root(&self, root: &Cid) -> Result<(), ActorError> {
        match self.v.actor(&self.to()) {
            None => Err(ActorError::unchecked(
                ExitCode::SYS_ASSERTION_FAILED,
                "actor does not exist".to_string(),
            )),
            Some(mut act) if !self.read_only() => {
                act.state = *root;
                self.wrote.set(true);
                self.v.set_actor(&self.to(), act);
                Ok(())
            }
            _ => Err(ActorError::unchecked(
                ExitCode::USR_READ_ONLY,
                "actor is read-only".to_string(),
            )),
        }
    }

    fn transaction<S, RT, F>(&self, f: F) -> Result<RT, ActorError>
    where
        S: Serialize + DeserializeOwned,
        F: FnOnce(&mut S, &Self) -> Result<RT, ActorError>,
    {
        let mut st = self.state::<S>().unwrap();
        self.allow_side_effects.replace(false);
        let result = f(&mut st, self);
        self.allow_side_effects.replace(true);
        let ret = result?;
        let mut act = self.v.actor(&self.to()).unwrap();
        act.state = self.v.store.put_cbor(&st, Code::Blake2b256).unwrap();
        if self.read_only {
            return Err(ActorError::unchecked(
                ExitCode::USR_READ_ONLY,
                "actor is read-only".to_string(),
            ));
        }
        self.wrote.set(true);
        self.v.set_actor(&self.to(), act);
        Ok(ret)
    }

    fn new_actor_address(&self) -> Result<Address, ActorError> {
        let mut b = self.top.originator_stable_addr.to_bytes();
        b.extend_from_slice(&self.top.originator_call_seq.to_be_bytes());
        b.extend_from_slice(&self.top.new_actor_addr_count.borrow().to_be_bytes());
        Ok(Address::new_actor(&b))
    }

    /// FVM `self_destruct(false)`: fails unless the balance is zero, then removes the actor from
    /// the state tree (the init actor's address map keeps its entry).
    fn delete_actor(&self) -> Result<(), ActorError> {
        if !*self.allow_side_effects.borrow() {
            return Err(
                actor_error!(assertion_failed; "delete_actor is not allowed during transaction"),
            );
        }
        if self.read_only() {
            return Err(ActorError::unchecked(
                ExitCode::USR_READ_ONLY,
                "cannot delete actor in read-only mode".into(),
            ));
        }
        let me = self.to();
        let act = self.v.actor(&me).unwrap();
        if !act.balance.is_zero() {
            return Err(ActorError::unchecked(
                ExitCode::USR_ILLEGAL_STATE,
                "self-destruct with non-zero balance (unspent funds)".into(),
            ));
        }
        self.wrote.set(true);
        self.v.delete_actor_entry(&me);
        Ok(())
    }

    fn resolve_builtin_actor_type(&self, code_id: &Cid) -> Option<Type> {
        ACTOR_TYPES.get(code_id).cloned()
    }
    fn get_code_cid_for_type(&self, typ: Type) -> Cid {
        ACTOR_CODES.get(&typ).cloned().unwrap()
    }
    fn total_fil_circ_supply(&self) -> TokenAmount {
        self.top.circ_supply.clone()
    }
    fn charge_gas(&self, _name: &'static str, _compute: i64) {}
    fn base_fee(&self) -> TokenAmount {
        self.v.base_fee()
    }
    fn actor_balance(&self, id: ActorID) -> Option<TokenAmount> {
        self.v.actor(&Address::new_id(id)).map(|act| act.balance)
    }
    fn gas_available(&self) -> u64 {
        u32::MAX.into()
    }
    fn tipset_timestamp(&self) -> u64 {
        self.v.timestamp()
    }
    fn tipset_cid(&self, _epoch: i64) -> Result<Cid, ActorError> {
        Ok(Cid::new_v1(IPLD_RAW, Multihash::wrap(0, b"faketipset").unwrap()))
    }
    fn emit_event(&self, event: &ActorEvent) -> Result<(), ActorError> {
        // As in the repository's reference test_vm (and MockRuntime), the runtime does NOT police events in
        // read-only mode: an actor that must not log beneath a static call (C18) has to refuse by itself.
        self.events
            .borrow_mut()
            .push(EmittedEvent { emitter: self.msg.to.id().unwrap(), event: event.clone() });
        Ok(())
    }
    fn read_only(&self) -> bool {
        self.read_only
    }
}

impl Primitives for InvocationCtx<'_> {
    fn verify_signature(
        &self,
        signature: &Signature,
        signer: &Address,
        plaintext: &[u8],
    ) -> Result<(), anyhow::Error> {
        if self.v.strict_sigs.get() {
            if signature.bytes != sign(signer, plaintext) {
                return Err(anyhow!("invalid signature (expects signer bytes ++ plaintext)"));
            }
            return Ok(());
        }
        self.v.primitives().verify_signature(signature, signer, plaintext)
    }
    fn hash_blake2b(&self, data: &[u8]) -> [u8; 32] {
        self.v.primitives().hash_blake2b(data)
    }
    fn compute_unsealed_sector_cid(
        &self,
        proof_type: RegisteredSealProof,
        pieces: &[PieceInfo],
    ) -> Result<Cid, anyhow::Error> {
        self.v.primitives().compute_unsealed_sector_cid(proof_type, pieces)
    }
    fn hash(&self, hasher: SupportedHashes, data: &[u8]) -> Vec<u8> {
        self.v.primitives().hash(hasher, data)
    }
    fn hash_64(&self, hasher: SupportedHashes, data: &[u8]) -> ([u8; 64], usize) {
        // NB: /repo's FakePrimitives::hash_64 returns the multihash *code* as the digest length
        // (27 for keccak-256); compute it from `hash` instead, as the FVM syscall does.
        let d = self.v.primitives().hash(hasher, data);
        let mut buf = [0u8; 64];
        let n = d.len().min(64);
        buf[..n].copy_from_slice(&d[..n]);
        (buf, n)
    }
    fn recover_secp_public_key(
        &self,
        hash: &[u8; SECP_SIG_MESSAGE_HASH_SIZE],
        signature: &[u8; SECP_SIG_LEN],
    ) -> Result<[u8; SECP_PUB_LEN], anyhow::Error> {
        self.v.primitives().recover_secp_public_key(hash, signature)
    }
    fn verify_post(&self, verify_info: &WindowPoStVerifyInfo) -> Result<(), anyhow::Error> {
        for proof in &verify_info.proofs {
            if proof.proof_bytes.eq(&INVALID_POST.as_bytes().to_vec()) {
                return Err(anyhow!("invalid proof"));
            }
        }
        Ok(())
    }
    fn verify_consensus_fault(
        &self,
        _h1: &[u8],
        _h2: &[u8],
        _extra: &[u8],
    ) -> Result<Option<ConsensusFault>, anyhow::Error> {
        Ok(self.v.consensus_fault.borrow().clone())
    }
    fn batch_verify_seals(&self, batch: &[SealVerifyInfo]) -> anyhow::Result<Vec<bool>> {
        Ok(vec![true; batch.len()])
    }
    fn verify_aggregate_seals(
        &self,
        _aggregate: &AggregateSealVerifyProofAndInfos,
    ) -> Result<(), anyhow::Error> {
        Ok(())
    }
    fn verify_replica_update(&self, replica: &ReplicaUpdateInfo) -> Result<(), anyhow::Error> {
        self.v.primitives().verify_replica_update(replica)
    }
}

impl RuntimePolicy for InvocationCtx<'_> {
    fn policy(&self) -> &Policy {
        &self.v.policy
    }
}
