//! EVM toolkit + driver for cross-contract state coherence (spec/EVMCalls.tla, C19).
//!
//! Part 1 (also used by initd.rs / C20):
//!  * Keccak-256 and the RLP list encoding of (address, nonce), written here from the specifications
//!    (FIPS-202 permutation with Keccak padding; Ethereum yellow paper appendix B) -- deliberately NOT
//!    the runtime's `hash` primitive nor the `rlp` crate the EAM uses, so that the CREATE / CREATE2
//!    address formulas are re-computed independently;
//!  * a tiny label-resolving EVM assembler;
//!  * the universal script contract U: its runtime code interprets a *script* passed as call data
//!    (storage / transient reads and writes, CALL / STATICCALL / DELEGATECALL with a nested script,
//!    CREATE / CREATE2 with init code taken from the call data, SELFDESTRUCT, REVERT, LOG, ...).
//!    Every value read is appended to an output buffer that is returned (or reverted with) to the
//!    caller, which appends it to its own buffer: one top-level message returns the whole tree of
//!    observations.  Scripts are compiled to call data by `encode` and the returned buffer is parsed
//!    back along the script by `parse_out`.
use crate::vm::*;
use fil_actor_eam::{CreateExternalParams, Return as EamReturn};
use fil_actors_runtime::EAM_ACTOR_ADDR;
use fvm_ipld_encoding::{BytesDe, BytesSer};
use fvm_shared::address::Address;
use fvm_shared::econ::TokenAmount;
use num_traits::Zero;
use serde_json::{Value, json};
use std::collections::HashMap;
use vm_api::VM;

// ------------------------------------------------------------------------------------------------
// Keccak-256 (own implementation)

const KECCAK_RC: [u64; 24] = [
    0x0000000000000001, 0x0000000000008082, 0x800000000000808a, 0x8000000080008000,
    0x000000000000808b, 0x0000000080000001, 0x8000000080008081, 0x8000000000008009,
    0x000000000000008a, 0x0000000000000088, 0x0000000080008009, 0x000000008000000a,
    0x000000008000808b, 0x800000000000008b, 0x8000000000008089, 0x8000000000008003,
    0x8000000000008002, 0x8000000000000080, 0x000000000000800a, 0x800000008000000a,
    0x8000000080008081, 0x8000000000008080, 0x0000000080000001, 0x8000000080008008,
];
const KECCAK_ROT: [u32; 24] =
    [1, 3, 6, 10, 15, 21, 28, 36, 45, 55, 2, 14, 27, 41, 56, 8, 25, 43, 62, 18, 39, 61, 20, 44];
const KECCAK_PIL: [usize; 24] =
    [10, 7, 11, 17, 18, 3, 5, 16, 8, 21, 24, 4, 15, 23, 19, 13, 12, 2, 20, 14, 22, 9, 6, 1];

fn keccak_f(st: &mut [u64; 25]) {
    for rc in KECCAK_RC.iter() {
        let mut bc = [0u64; 5];
        for i in 0..5 {
            bc[i] = st[i] ^ st[i + 5] ^ st[i + 10] ^ st[i + 15] ^ st[i + 20];
        }
        for i in 0..5 {
            let t = bc[(i + 4) % 5] ^ bc[(i + 1) % 5].rotate_left(1);
            for j in (0..25).step_by(5) {
                st[j + i] ^= t;
            }
        }
        let mut t = st[1];
        for i in 0..24 {
            let j = KECCAK_PIL[i];
            let b = st[j];
            st[j] = t.rotate_left(KECCAK_ROT[i]);
            t = b;
        }
        for j in (0..25).step_by(5) {
            let mut row = [0u64; 5];
            row.copy_from_slice(&st[j..j + 5]);
            for i in 0..5 {
                st[j + i] ^= (!row[(i + 1) % 5]) & row[(i + 2) % 5];
            }
        }
        st[0] ^= rc;
    }
}

pub fn keccak256(data: &[u8]) -> [u8; 32] {
    const RATE: usize = 136;
    let mut st = [0u64; 25];
    let mut padded = data.to_vec();
    padded.push(0x01);
    while padded.len() % RATE != 0 {
        padded.push(0);
    }
    let n = padded.len();
    padded[n - 1] |= 0x80;
    for block in padded.chunks(RATE) {
        for (i, lane) in block.chunks(8).enumerate() {
            st[i] ^= u64::from_le_bytes(lane.try_into().unwrap());
        }
        keccak_f(&mut st);
    }
    let mut out = [0u8; 32];
    for i in 0..4 {
        out[i * 8..i * 8 + 8].copy_from_slice(&st[i].to_le_bytes());
    }
    out
}

/// The runtime's Keccak (multihash code table), used ONLY to cross-check the implementation above.
pub fn keccak256_runtime(data: &[u8]) -> [u8; 32] {
    use multihash_codetable::MultihashDigest;
    let h = multihash_codetable::Code::Keccak256.digest(data);
    h.digest().try_into().unwrap()
}

fn rlp_bytes(b: &[u8], out: &mut Vec<u8>) {
    if b.len() == 1 && b[0] < 0x80 {
        out.push(b[0]);
    } else {
        assert!(b.len() < 56);
        out.push(0x80 + b.len() as u8);
        out.extend_from_slice(b);
    }
}

/// RLP([address, nonce]) -- scalars are big-endian without leading zeros, 0 is the empty string
pub fn rlp_addr_nonce(addr: &[u8; 20], nonce: u64) -> Vec<u8> {
    let mut payload = vec![];
    rlp_bytes(addr, &mut payload);
    let be = nonce.to_be_bytes();
    let first = be.iter().position(|&x| x != 0).unwrap_or(8);
    rlp_bytes(&be[first..], &mut payload);
    assert!(payload.len() < 56);
    let mut out = vec![0xc0 + payload.len() as u8];
    out.extend(payload);
    out
}

pub type Eth = [u8; 20];

/// CREATE: keccak256(rlp([sender, nonce]))[12..]
pub fn create_address(deployer: &Eth, nonce: u64) -> Eth {
    keccak256(&rlp_addr_nonce(deployer, nonce))[12..].try_into().unwrap()
}
/// CREATE2 (EIP-1014): keccak256(0xff ++ sender ++ salt ++ keccak256(init_code))[12..]
pub fn create2_address(deployer: &Eth, salt: &[u8; 32], initcode: &[u8]) -> Eth {
    let mut b = vec![0xffu8];
    b.extend_from_slice(deployer);
    b.extend_from_slice(salt);
    b.extend_from_slice(&keccak256(initcode));
    keccak256(&b)[12..].try_into().unwrap()
}
/// the "stable" Ethereum address the EAM derives for a native account: keccak(key address bytes)[12..]
pub fn account_stable_eth(key_addr: &Address) -> Eth {
    keccak256(&key_addr.to_bytes())[12..].try_into().unwrap()
}
/// reserved ranges (never assignable): null, precompiles (0x00.. / 0xfe.. + 18 zero bytes), ID-like (0xff + 11 zero bytes)
pub fn eth_reserved(a: &Eth) -> bool {
    let null = a.iter().all(|&x| x == 0);
    let pre = (a[0] == 0 || a[0] == 0xfe) && a[1..19].iter().all(|&x| x == 0);
    let idl = a[0] == 0xff && a[1..12].iter().all(|&x| x == 0);
    null || pre || idl
}
pub fn eth_to_f4(a: &Eth) -> Address {
    Address::new_delegated(10, a).unwrap()
}
pub fn id_to_eth(id: u64) -> Eth {
    let mut a = [0u8; 20];
    a[0] = 0xff;
    a[12..].copy_from_slice(&id.to_be_bytes());
    a
}

pub fn self_test() {
    assert_eq!(
        hex::encode(keccak256(b"")),
        "c5d2460186f7233c927e7db2dcc703c0e500b653ca82273b7bfad8045d85a470"
    );
    assert_eq!(
        hex::encode(keccak256(b"abc")),
        "4e03657aea45a94fc7d47ba826c8d667c0d1e6e33a64a036ec44f58fa12d6c45"
    );
    for n in [0usize, 1, 135, 136, 137, 271, 272, 273, 1000] {
        let d: Vec<u8> = (0..n).map(|i| (i * 7 + 3) as u8).collect();
        assert_eq!(keccak256(&d), keccak256_runtime(&d), "keccak cross-check, len {n}");
    }
    // well-known CREATE vector: sender 0x6ac7ea33f8831ea9dcc53393aaa88b25a785dbf0, nonces 0..3
    let s: Eth = hex::decode("6ac7ea33f8831ea9dcc53393aaa88b25a785dbf0").unwrap().try_into().unwrap();
    assert_eq!(hex::encode(create_address(&s, 0)), "cd234a471b72ba2f1ccf0a70fcaba648a5eecd8d");
    assert_eq!(hex::encode(create_address(&s, 1)), "343c43a37d37dff08ae8c4a11544c718abb4fcf8");
    assert_eq!(hex::encode(create_address(&s, 2)), "f778b86fa74e846c4f0a1fbd1335fe81c00a0c91");
    // EIP-1014 examples
    let z: Eth = [0; 20];
    assert_eq!(
        hex::encode(create2_address(&z, &[0; 32], &[0x00])),
        "4d1a2e2bb4f88f0250f26ffff098b0b30b26bf38"
    );
    let d: Eth = hex::decode("deadbeef00000000000000000000000000000000").unwrap().try_into().unwrap();
    assert_eq!(
        hex::encode(create2_address(&d, &[0; 32], &[0x00])),
        "b928f69bb1d91cd65274e3c79d8986362984fda3"
    );
    assert_eq!(
        hex::encode(create2_address(&z, &[0; 32], &hex::decode("deadbeef").unwrap())),
        "70f2b2914a2a4b783faefb75f459a580616fcb5e"
    );
    // sender 0x..deadbeef, salt 0x..cafebabe (both right aligned), init 0xdeadbeef
    let mut s2: Eth = [0; 20];
    s2[16..].copy_from_slice(&hex::decode("deadbeef").unwrap());
    let mut salt2 = [0u8; 32];
    salt2[28..].copy_from_slice(&hex::decode("cafebabe").unwrap());
    assert_eq!(
        hex::encode(create2_address(&s2, &salt2, &hex::decode("deadbeef").unwrap())),
        "60f3f640a8508fc6a86d45df051962668e1e8ac7"
    );
}

// ------------------------------------------------------------------------------------------------
// assembler

pub mod op {
    pub const STOP: u8 = 0x00;
    pub const ADD: u8 = 0x01;
    pub const MUL: u8 = 0x02;
    pub const SUB: u8 = 0x03;
    pub const LT: u8 = 0x10;
    pub const EQ: u8 = 0x14;
    pub const ISZERO: u8 = 0x15;
    pub const OR: u8 = 0x17;
    pub const SHR: u8 = 0x1c;
    pub const ADDRESS: u8 = 0x30;
    pub const BALANCE: u8 = 0x31;
    pub const CALLER: u8 = 0x33;
    pub const CALLVALUE: u8 = 0x34;
    pub const CALLDATALOAD: u8 = 0x35;
    pub const CALLDATASIZE: u8 = 0x36;
    pub const CALLDATACOPY: u8 = 0x37;
    pub const CODECOPY: u8 = 0x39;
    pub const RETURNDATASIZE: u8 = 0x3d;
    pub const RETURNDATACOPY: u8 = 0x3e;
    pub const SELFBALANCE: u8 = 0x47;
    pub const POP: u8 = 0x50;
    pub const MLOAD: u8 = 0x51;
    pub const MSTORE: u8 = 0x52;
    pub const SLOAD: u8 = 0x54;
    pub const SSTORE: u8 = 0x55;
    pub const JUMP: u8 = 0x56;
    pub const JUMPI: u8 = 0x57;
    pub const GAS: u8 = 0x5a;
    pub const JUMPDEST: u8 = 0x5b;
    pub const TLOAD: u8 = 0x5c;
    pub const TSTORE: u8 = 0x5d;
    pub const PUSH0: u8 = 0x5f;
    pub const DUP1: u8 = 0x80;
    pub const SWAP1: u8 = 0x90;
    pub const LOG1: u8 = 0xa1;
    pub const CREATE: u8 = 0xf0;
    pub const CALL: u8 = 0xf1;
    pub const RETURN: u8 = 0xf3;
    pub const DELEGATECALL: u8 = 0xf4;
    pub const CREATE2: u8 = 0xf5;
    pub const STATICCALL: u8 = 0xfa;
    pub const REVERT: u8 = 0xfd;
    pub const INVALID: u8 = 0xfe;
    pub const SELFDESTRUCT: u8 = 0xff;
}

enum Item {
    Op(u8),
    Push(Vec<u8>),
    Label(String),
    PushL(String),
}

#[derive(Default)]
pub struct Asm {
    items: Vec<Item>,
}

impl Asm {
    pub fn new() -> Asm {
        Asm::default()
    }
    pub fn op(&mut self, b: u8) -> &mut Self {
        self.items.push(Item::Op(b));
        self
    }
    pub fn ops(&mut self, bs: &[u8]) -> &mut Self {
        for b in bs {
            self.items.push(Item::Op(*b));
        }
        self
    }
    /// PUSH of the minimal width (PUSH0 for zero)
    pub fn push(&mut self, v: u64) -> &mut Self {
        let be = v.to_be_bytes();
        let first = be.iter().position(|&x| x != 0).unwrap_or(8);
        self.items.push(Item::Push(be[first..].to_vec()));
        self
    }
    pub fn pushb(&mut self, b: &[u8]) -> &mut Self {
        assert!(!b.is_empty() && b.len() <= 32);
        self.items.push(Item::Push(b.to_vec()));
        self
    }
    /// JUMPDEST with a name
    pub fn label(&mut self, n: &str) -> &mut Self {
        self.items.push(Item::Label(n.to_string()));
        self
    }
    /// PUSH2 <address of label>
    pub fn pushl(&mut self, n: &str) -> &mut Self {
        self.items.push(Item::PushL(n.to_string()));
        self
    }
    pub fn assemble(&self) -> Vec<u8> {
        let mut pos = 0usize;
        let mut labels: HashMap<String, usize> = HashMap::new();
        for it in &self.items {
            match it {
                Item::Op(_) => pos += 1,
                Item::Push(b) => pos += 1 + b.len(),
                Item::Label(n) => {
                    assert!(labels.insert(n.clone(), pos).is_none(), "duplicate label {n}");
                    pos += 1
                }
                Item::PushL(_) => pos += 3,
            }
        }
        let mut out = vec![];
        for it in &self.items {
            match it {
                Item::Op(b) => out.push(*b),
                Item::Push(b) if b.is_empty() => out.push(op::PUSH0),
                Item::Push(b) => {
                    out.push(0x5f + b.len() as u8);
                    out.extend_from_slice(b)
                }
                Item::Label(_) => out.push(op::JUMPDEST),
                Item::PushL(n) => {
                    let p = *labels.get(n).unwrap_or_else(|| panic!("unknown label {n}"));
                    out.push(0x61);
                    out.extend_from_slice(&(p as u16).to_be_bytes());
                }
            }
        }
        out
    }
}

/// init code that returns `runtime` as the contract's code
pub fn loader(runtime: &[u8]) -> Vec<u8> {
    let mut a = Asm::new();
    // CODECOPY(0, 10, len); RETURN(0, len)       (the loader is exactly 10 bytes)
    a.pushb(&(runtime.len() as u16).to_be_bytes()).op(op::DUP1).pushb(&[10]).op(op::PUSH0);
    a.op(op::CODECOPY).op(op::PUSH0).op(op::RETURN);
    let mut c = a.assemble();
    assert_eq!(c.len(), 10);
    c.extend_from_slice(runtime);
    c
}

// ------------------------------------------------------------------------------------------------
// the universal script contract U

// memory map of U
const M_CUR: u64 = 0x00; // call-data cursor
const M_OUT: u64 = 0x20; // output pointer (absolute)
const M_LAST: u64 = 0x40; // address created last in this frame
const M_KIND: u64 = 0x60;
const M_ADDR: u64 = 0x80;
const M_VAL: u64 = 0xa0;
const M_LEN: u64 = 0xc0;
const M_SALT: u64 = 0xe0;
const OUT_BASE: u64 = 0x100;

pub const C_SSTORE: u8 = 1;
pub const C_SLOAD: u8 = 2;
pub const C_TSTORE: u8 = 3;
pub const C_TLOAD: u8 = 4;
pub const C_CALL: u8 = 5;
pub const C_CREATE: u8 = 6;
pub const C_CREATE2: u8 = 7;
pub const C_DESTROY: u8 = 8;
pub const C_REVERT: u8 = 9;
pub const C_LOG: u8 = 10;
pub const C_RETURN: u8 = 11;
pub const C_ENV: u8 = 12;
pub const C_BALANCE: u8 = 13;
pub const C_INVALID: u8 = 14;

/// read an n-byte big-endian field at the cursor onto the stack and advance the cursor
fn rd(a: &mut Asm, n: u64) {
    a.push(M_CUR).op(op::MLOAD).op(op::CALLDATALOAD);
    if n < 32 {
        a.push(256 - 8 * n).op(op::SHR);
    }
    a.push(M_CUR).op(op::MLOAD).push(n).op(op::ADD).push(M_CUR).op(op::MSTORE);
}
/// pop a word and append it to the output buffer
fn out(a: &mut Asm) {
    a.push(M_OUT).op(op::MLOAD).op(op::MSTORE);
    a.push(M_OUT).op(op::MLOAD).push(32).op(op::ADD).push(M_OUT).op(op::MSTORE);
}
fn mstore_to(a: &mut Asm, slot: u64) {
    a.push(slot).op(op::MSTORE);
}
fn mload(a: &mut Asm, slot: u64) {
    a.push(slot).op(op::MLOAD);
}
/// CALLDATACOPY(out+0x40, cursor, len); cursor += len      (stage a nested script / init code)
fn stage_payload(a: &mut Asm) {
    mload(a, M_LEN);
    mload(a, M_CUR);
    mload(a, M_OUT);
    a.push(0x40).op(op::ADD).op(op::CALLDATACOPY);
    mload(a, M_CUR);
    mload(a, M_LEN);
    a.op(op::ADD);
    mstore_to(a, M_CUR);
}

/// Runtime code of U.  `code_id` is a constant embedded in the code (reported by ENV) so that
/// "whose code is running" is observable under DELEGATECALL.
pub fn u_runtime(code_id: u8) -> Vec<u8> {
    let mut a = Asm::new();
    a.push(OUT_BASE);
    mstore_to(&mut a, M_OUT);
    a.label("loop");
    // cursor < calldatasize ?
    a.op(op::CALLDATASIZE);
    mload(&mut a, M_CUR);
    a.op(op::LT).op(op::ISZERO).pushl("done").op(op::JUMPI);
    rd(&mut a, 1);
    let table: [(u8, &str); 14] = [
        (C_SSTORE, "sstore"),
        (C_SLOAD, "sload"),
        (C_TSTORE, "tstore"),
        (C_TLOAD, "tload"),
        (C_CALL, "call"),
        (C_CREATE, "create"),
        (C_CREATE2, "create2"),
        (C_DESTROY, "destroy"),
        (C_REVERT, "revert"),
        (C_LOG, "log"),
        (C_RETURN, "done"),
        (C_ENV, "env"),
        (C_BALANCE, "balance"),
        (C_INVALID, "invalid"),
    ];
    for (c, l) in table.iter() {
        a.op(op::DUP1).push(*c as u64).op(op::EQ).pushl(l).op(op::JUMPI);
    }
    a.op(op::INVALID);

    a.label("sstore").op(op::POP);
    rd(&mut a, 1);
    rd(&mut a, 1);
    a.op(op::SWAP1).op(op::SSTORE).pushl("loop").op(op::JUMP);

    a.label("sload").op(op::POP);
    rd(&mut a, 1);
    a.op(op::SLOAD);
    out(&mut a);
    a.pushl("loop").op(op::JUMP);

    a.label("tstore").op(op::POP);
    rd(&mut a, 1);
    rd(&mut a, 1);
    a.op(op::SWAP1).op(op::TSTORE).pushl("loop").op(op::JUMP);

    a.label("tload").op(op::POP);
    rd(&mut a, 1);
    a.op(op::TLOAD);
    out(&mut a);
    a.pushl("loop").op(op::JUMP);

    // CALL: kind:1 addr:20 value:1 len:2 script
    a.label("call").op(op::POP);
    rd(&mut a, 1);
    mstore_to(&mut a, M_KIND);
    rd(&mut a, 20);
    // addr == 0 -> the contract created last
    a.op(op::DUP1).op(op::ISZERO);
    mload(&mut a, M_LAST);
    a.op(op::MUL).op(op::OR);
    mstore_to(&mut a, M_ADDR);
    rd(&mut a, 1);
    mstore_to(&mut a, M_VAL);
    rd(&mut a, 2);
    mstore_to(&mut a, M_LEN);
    stage_payload(&mut a);
    // common tail of the argument list: outSize, outOff, inSize, inOff
    let args_tail = |a: &mut Asm| {
        a.op(op::PUSH0).op(op::PUSH0);
        mload(a, M_LEN);
        mload(a, M_OUT);
        a.push(0x40).op(op::ADD);
    };
    mload(&mut a, M_KIND);
    a.op(op::DUP1).push(1).op(op::EQ).pushl("k_static").op(op::JUMPI);
    a.op(op::DUP1).push(2).op(op::EQ).pushl("k_delegate").op(op::JUMPI);
    a.op(op::POP);
    args_tail(&mut a);
    mload(&mut a, M_VAL);
    mload(&mut a, M_ADDR);
    a.op(op::GAS).op(op::CALL).pushl("aftercall").op(op::JUMP);
    a.label("k_static").op(op::POP);
    args_tail(&mut a);
    mload(&mut a, M_ADDR);
    a.op(op::GAS).op(op::STATICCALL).pushl("aftercall").op(op::JUMP);
    a.label("k_delegate").op(op::POP);
    args_tail(&mut a);
    mload(&mut a, M_ADDR);
    a.op(op::GAS).op(op::DELEGATECALL);
    a.label("aftercall");
    // out[0] = success, out[1] = returndatasize, then the return data
    mload(&mut a, M_OUT);
    a.op(op::MSTORE);
    a.op(op::RETURNDATASIZE);
    mload(&mut a, M_OUT);
    a.push(0x20).op(op::ADD).op(op::MSTORE);
    a.op(op::RETURNDATASIZE).op(op::PUSH0);
    mload(&mut a, M_OUT);
    a.push(0x40).op(op::ADD).op(op::RETURNDATACOPY);
    mload(&mut a, M_OUT);
    a.push(0x40).op(op::ADD).op(op::RETURNDATASIZE).op(op::ADD);
    mstore_to(&mut a, M_OUT);
    a.pushl("loop").op(op::JUMP);

    // CREATE: value:1 len:2 initcode
    a.label("create").op(op::POP);
    rd(&mut a, 1);
    mstore_to(&mut a, M_VAL);
    rd(&mut a, 2);
    mstore_to(&mut a, M_LEN);
    stage_payload(&mut a);
    mload(&mut a, M_LEN);
    mload(&mut a, M_OUT);
    a.push(0x40).op(op::ADD);
    mload(&mut a, M_VAL);
    a.op(op::CREATE).op(op::DUP1);
    mstore_to(&mut a, M_LAST);
    out(&mut a);
    a.pushl("loop").op(op::JUMP);

    // CREATE2: value:1 salt:32 len:2 initcode
    a.label("create2").op(op::POP);
    rd(&mut a, 1);
    mstore_to(&mut a, M_VAL);
    rd(&mut a, 32);
    mstore_to(&mut a, M_SALT);
    rd(&mut a, 2);
    mstore_to(&mut a, M_LEN);
    stage_payload(&mut a);
    mload(&mut a, M_SALT);
    mload(&mut a, M_LEN);
    mload(&mut a, M_OUT);
    a.push(0x40).op(op::ADD);
    mload(&mut a, M_VAL);
    a.op(op::CREATE2).op(op::DUP1);
    mstore_to(&mut a, M_LAST);
    out(&mut a);
    a.pushl("loop").op(op::JUMP);

    // SELFDESTRUCT: beneficiary:20 (0 = caller)
    a.label("destroy").op(op::POP);
    rd(&mut a, 20);
    a.op(op::DUP1).op(op::ISZERO).op(op::CALLER).op(op::MUL).op(op::OR).op(op::SELFDESTRUCT);

    a.label("revert").op(op::POP);
    a.push(OUT_BASE);
    mload(&mut a, M_OUT);
    a.op(op::SUB).push(OUT_BASE).op(op::REVERT);

    // LOG1(topic) with empty data
    a.label("log").op(op::POP);
    rd(&mut a, 1);
    a.op(op::PUSH0).op(op::PUSH0).op(op::LOG1).pushl("loop").op(op::JUMP);

    a.label("env").op(op::POP);
    for o in [op::ADDRESS, op::CALLER, op::CALLVALUE] {
        a.op(o);
        out(&mut a);
    }
    a.pushb(&[code_id]);
    out(&mut a);
    a.op(op::SELFBALANCE);
    out(&mut a);
    a.pushl("loop").op(op::JUMP);

    a.label("balance").op(op::POP);
    rd(&mut a, 20);
    a.op(op::BALANCE);
    out(&mut a);
    a.pushl("loop").op(op::JUMP);

    a.label("invalid").op(op::INVALID);

    // end of script / RETURN command: return the output buffer
    a.label("done");
    a.push(OUT_BASE);
    mload(&mut a, M_OUT);
    a.op(op::SUB).push(OUT_BASE).op(op::RETURN);
    a.assemble()
}

pub fn u_initcode(code_id: u8) -> Vec<u8> {
    loader(&u_runtime(code_id))
}

/// A script command.  Addresses are 20-byte Ethereum addresses; the all-zero address means
/// "the contract created last in this frame" for Call and "the caller" for Destroy.
#[derive(Clone, Debug)]
pub enum Cmd {
    SStore(u8, u8),
    SLoad(u8),
    TStore(u8, u8),
    TLoad(u8),
    /// kind: 0 CALL, 1 STATICCALL, 2 DELEGATECALL
    Call { kind: u8, to: Eth, value: u8, prog: Vec<Cmd> },
    Create { value: u8, init: Vec<u8> },
    Create2 { value: u8, salt: [u8; 32], init: Vec<u8> },
    Destroy(Eth),
    Revert,
    Log(u8),
    Return,
    Env,
    Balance(Eth),
    Invalid,
}

pub fn encode(prog: &[Cmd]) -> Vec<u8> {
    let mut o = vec![];
    for c in prog {
        match c {
            Cmd::SStore(k, v) => o.extend_from_slice(&[C_SSTORE, *k, *v]),
            Cmd::SLoad(k) => o.extend_from_slice(&[C_SLOAD, *k]),
            Cmd::TStore(k, v) => o.extend_from_slice(&[C_TSTORE, *k, *v]),
            Cmd::TLoad(k) => o.extend_from_slice(&[C_TLOAD, *k]),
            Cmd::Call { kind, to, value, prog } => {
                let sub = encode(prog);
                o.push(C_CALL);
                o.push(*kind);
                o.extend_from_slice(to);
                o.push(*value);
                o.extend_from_slice(&(sub.len() as u16).to_be_bytes());
                o.extend(sub);
            }
            Cmd::Create { value, init } => {
                o.push(C_CREATE);
                o.push(*value);
                o.extend_from_slice(&(init.len() as u16).to_be_bytes());
                o.extend_from_slice(init);
            }
            Cmd::Create2 { value, salt, init } => {
                o.push(C_CREATE2);
                o.push(*value);
                o.extend_from_slice(salt);
                o.extend_from_slice(&(init.len() as u16).to_be_bytes());
                o.extend_from_slice(init);
            }
            Cmd::Destroy(b) => {
                o.push(C_DESTROY);
                o.extend_from_slice(b);
            }
            Cmd::Revert => o.push(C_REVERT),
            Cmd::Log(t) => o.extend_from_slice(&[C_LOG, *t]),
            Cmd::Return => o.push(C_RETURN),
            Cmd::Env => o.push(C_ENV),
            Cmd::Balance(a) => {
                o.push(C_BALANCE);
                o.extend_from_slice(a);
            }
            Cmd::Invalid => o.push(C_INVALID),
        }
    }
    o
}

/// One observation parsed back from an output buffer.
#[derive(Clone, Debug)]
pub enum Obs {
    /// SLoad/TLoad/Balance result (index of the command in its frame, word)
    Read(usize, [u8; 32]),
    /// CREATE/CREATE2 result (address word; zero = failed)
    Created(usize, [u8; 32]),
    /// ENV: address, caller, value, code id, self balance
    Env(usize, Vec<[u8; 32]>),
    /// a nested call: success flag, size of its return data, observations parsed from it
    Call(usize, bool, usize, Vec<Obs>),
}

fn word(b: &[u8], at: usize) -> Option<[u8; 32]> {
    b.get(at..at + 32).map(|s| s.try_into().unwrap())
}

/// Parse the output buffer of a frame that ran `prog`.  A frame that halted early (SELFDESTRUCT,
/// abort, a static-mode violation...) simply has a shorter buffer: parsing stops there.
pub fn parse_out(prog: &[Cmd], buf: &[u8]) -> Vec<Obs> {
    let mut obs = vec![];
    let mut at = 0usize;
    for (i, c) in prog.iter().enumerate() {
        match c {
            Cmd::SLoad(_) | Cmd::TLoad(_) | Cmd::Balance(_) => match word(buf, at) {
                Some(w) => {
                    obs.push(Obs::Read(i, w));
                    at += 32
                }
                None => break,
            },
            Cmd::Create { .. } | Cmd::Create2 { .. } => match word(buf, at) {
                Some(w) => {
                    obs.push(Obs::Created(i, w));
                    at += 32
                }
                None => break,
            },
            Cmd::Env => {
                if buf.len() < at + 160 {
                    break;
                }
                obs.push(Obs::Env(i, (0..5).map(|k| word(buf, at + 32 * k).unwrap()).collect()));
                at += 160;
            }
            Cmd::Call { prog: sub, .. } => {
                let (Some(ok), Some(sz)) = (word(buf, at), word(buf, at + 32)) else { break };
                let sz = u64::from_be_bytes(sz[24..].try_into().unwrap()) as usize;
                let Some(data) = buf.get(at + 64..at + 64 + sz) else { break };
                obs.push(Obs::Call(i, ok[31] == 1, sz, parse_out(sub, data)));
                at += 64 + sz;
            }
            Cmd::Revert | Cmd::Return | Cmd::Destroy(_) | Cmd::Invalid => break,
            _ => {}
        }
    }
    obs
}

pub fn word_u64(w: &[u8; 32]) -> Option<u64> {
    if w[..24].iter().all(|&x| x == 0) { Some(u64::from_be_bytes(w[24..].try_into().unwrap())) } else { None }
}
pub fn word_eth(w: &[u8; 32]) -> Eth {
    w[12..].try_into().unwrap()
}

// ------------------------------------------------------------------------------------------------
// talking to the real actors

/// EAM.CreateExternal(initcode) from an account / Ethereum account.
pub fn create_external(v: &VVM, from: &Address, initcode: &[u8], value: &TokenAmount) -> (Outcome, Option<EamReturn>) {
    let o = v.run_p(
        from,
        &EAM_ACTOR_ADDR,
        value,
        fil_actor_eam::Method::CreateExternal as u64,
        &CreateExternalParams(initcode.to_vec()),
    );
    let r = if o.ok() { Some(o.de::<EamReturn>()) } else { None };
    (o, r)
}

/// InvokeContract(calldata); returns the outcome and the returned (or reverted-with) bytes.
pub fn invoke(v: &VVM, from: &Address, to: &Address, calldata: &[u8], value: &TokenAmount) -> (Outcome, Vec<u8>) {
    let o = v.run_p(from, to, value, fil_actor_evm::Method::InvokeContract as u64, &BytesSer(calldata));
    let data = match &o.ret {
        Some(b) => b.deserialize::<BytesDe>().map(|BytesDe(d)| d).unwrap_or_default(),
        None => vec![],
    };
    (o, data)
}

pub fn hex_eth(a: &Eth) -> String {
    hex::encode(a)
}

// ------------------------------------------------------------------------------------------------
// Part 2: the C19 driver (`drive evmcalls ...`)
//
// World: a user `u`, script contracts A, B, C (code ids 1, 2, 3; deployed by u through the real EAM,
// each endowed with 2 atto), plain receivers x1, x2 (f410 addresses, created on first receipt) and
// the children the contracts create (CREATE2 salt sN / CREATE nonce n; child code id 9).  One event
// per user message: the script, the flattened observations it returned, and the post-state as the
// outside sees it (GetStorageAt / GetBytecode sent from f00, balances, effective events).

pub const KEYS: u8 = 3; // storage keys 0..KEYS-1 are observed
const CHILD_CID: u8 = 9;

pub struct CWorld {
    pub v: VVM,
    pub user: Address,
    names: std::cell::RefCell<HashMap<Eth, Value>>,
    last_msg: std::cell::Cell<(u64, u64)>,
}

/// salts s1.. are used with the plain child init code, t1.. with the storing one
fn cw_salt(name: &str) -> [u8; 32] {
    let mut s = [0u8; 32];
    s[31] = match name.strip_prefix('t') {
        Some(n) => 100 + n.parse::<u8>().unwrap_or(55),
        None => name.trim_start_matches('s').parse::<u8>().unwrap_or(77),
    };
    s
}
fn cw_salt_name(s: &[u8; 32]) -> String {
    if s[31] >= 100 { format!("t{}", s[31] - 100) } else { format!("s{}", s[31]) }
}
/// child init code: "plain" = loader(U code 9); "store" = SSTORE(0,3); TSTORE(1,2); then the loader
pub fn child_init(kind: &str) -> Vec<u8> {
    let rt = u_runtime(CHILD_CID);
    if kind != "store" {
        return loader(&rt);
    }
    let mut a = Asm::new();
    a.pushb(&[3]).op(op::PUSH0).op(op::SSTORE).pushb(&[2]).pushb(&[1]).op(op::TSTORE);
    a.pushb(&(rt.len() as u16).to_be_bytes()).op(op::DUP1).pushb(&[19]).op(op::PUSH0);
    a.op(op::CODECOPY).op(op::PUSH0).op(op::RETURN);
    let mut c = a.assemble();
    assert_eq!(c.len(), 19);
    c.extend_from_slice(&rt);
    c
}

impl CWorld {
    pub fn new(seed: u64) -> CWorld {
        use fil_actors_runtime::runtime::Policy;
        let v = VVM::genesis(Policy::default());
        let user = v.create_accounts(1, seed, &TokenAmount::from_whole(1_000_000))[0];
        let w = CWorld {
            v,
            user,
            names: std::cell::RefCell::new(HashMap::new()),
            last_msg: std::cell::Cell::new((0, 0)),
        };
        w.names.borrow_mut().insert(id_to_eth(user.id().unwrap()), json!(["u"]));
        for (i, n) in ["A", "B", "C"].iter().enumerate() {
            let (o, r) = create_external(&w.v, &user, &u_initcode(i as u8 + 1), &TokenAmount::zero());
            assert!(o.ok(), "deploy {n}: {}", o.message);
            let eth = r.unwrap().eth_address.0;
            w.names.borrow_mut().insert(eth, json!([n]));
        }
        for n in ["A", "B", "C"] {
            let a = eth_to_f4(&w.eth_of(&json!([n])));
            let o = w.v.run(&user, &a, &TokenAmount::from_atto(2), fvm_shared::METHOD_SEND, None);
            assert!(o.ok());
        }
        for n in ["x1", "x2"] {
            let e: Eth = {
                let mut a: Eth = keccak256(format!("recv:{n}").as_bytes())[..20].try_into().unwrap();
                if a[0] == 0 || a[0] >= 0xfe {
                    a[0] = 0x22;
                }
                a
            };
            w.names.borrow_mut().insert(e, json!([n]));
        }
        w
    }

    pub fn eth_of(&self, n: &Value) -> Eth {
        let tag = n[0].as_str().unwrap();
        let e = match tag {
            "c2" => {
                let salt = n[2].as_str().unwrap();
                let init = child_init(if salt.starts_with('t') { "store" } else { "plain" });
                create2_address(&self.eth_of(&n[1]), &cw_salt(salt), &init)
            }
            "c1" => create_address(&self.eth_of(&n[1]), n[2].as_u64().unwrap()),
            _ => {
                let names = self.names.borrow();
                *names.iter().find(|(_, v)| *v == n).unwrap_or_else(|| panic!("unknown name {n}")).0
            }
        };
        self.names.borrow_mut().entry(e).or_insert_with(|| n.clone());
        e
    }
    pub fn name_of(&self, e: &Eth) -> Value {
        self.names.borrow().get(e).cloned().unwrap_or_else(|| json!(["unk", hex::encode(e)]))
    }

    fn to_cmds(&self, prog: &Value) -> Vec<Cmd> {
        let b = |x: &Value| x.as_u64().unwrap() as u8;
        prog.as_array()
            .unwrap()
            .iter()
            .map(|o| match o["op"].as_str().unwrap() {
                "sstore" => Cmd::SStore(b(&o["k"]), b(&o["v"])),
                "sload" => Cmd::SLoad(b(&o["k"])),
                "tstore" => Cmd::TStore(b(&o["k"]), b(&o["v"])),
                "tload" => Cmd::TLoad(b(&o["k"])),
                "log" => Cmd::Log(b(&o["t"])),
                "env" => Cmd::Env,
                "bal" => Cmd::Balance(self.eth_of(&o["a"])),
                "revert" => Cmd::Revert,
                "return" => Cmd::Return,
                "invalid" => Cmd::Invalid,
                "destroy" => {
                    Cmd::Destroy(if o["ben"][0] == "caller" { [0u8; 20] } else { self.eth_of(&o["ben"]) })
                }
                "create" => Cmd::Create { value: b(&o["value"]), init: child_init(o["init"].as_str().unwrap_or("plain")) },
                "create2" => Cmd::Create2 {
                    value: b(&o["value"]),
                    salt: cw_salt(o["salt"].as_str().unwrap()),
                    init: child_init(o["init"].as_str().unwrap_or("plain")),
                },
                "call" => Cmd::Call {
                    kind: match o["kind"].as_str().unwrap() {
                        "call" => 0,
                        "static" => 1,
                        _ => 2,
                    },
                    to: self.eth_of(&o["to"]),
                    value: b(&o["value"]),
                    prog: self.to_cmds(&o["prog"]),
                },
                x => panic!("unknown op {x}"),
            })
            .collect()
    }

    fn small(w: &[u8; 32]) -> Value {
        match word_u64(w) {
            Some(x) if x < (1 << 31) => json!(x),
            _ => json!(-1),
        }
    }

    fn flatten(&self, prog: &[Cmd], obs: &[Obs], out: &mut Vec<Value>) {
        for o in obs {
            match o {
                Obs::Read(i, w) => {
                    let tag = match &prog[*i] {
                        Cmd::SLoad(_) => "s",
                        Cmd::TLoad(_) => "t",
                        _ => "b",
                    };
                    out.push(json!([tag, Self::small(w)]));
                }
                Obs::Created(_, w) => {
                    let e = word_eth(w);
                    out.push(json!(["new", if e == [0u8; 20] { json!(["none"]) } else { self.name_of(&e) }]));
                }
                Obs::Env(_, ws) => out.push(json!(["env", self.name_of(&word_eth(&ws[0])),
                    self.name_of(&word_eth(&ws[1])), Self::small(&ws[2]), Self::small(&ws[3]), Self::small(&ws[4])])),
                Obs::Call(i, ok, _, sub) => {
                    out.push(json!(["call", ok]));
                    if let Cmd::Call { prog: p, .. } = &prog[*i] {
                        self.flatten(p, sub, out);
                    }
                    out.push(json!(["end"]));
                }
            }
        }
    }

    fn effective_events(&self, inv: &Inv, out: &mut Vec<Value>) {
        if !inv.exit.is_success() {
            return;
        }
        for ev in &inv.events {
            let mut topic = json!(-1);
            for en in &ev.event.entries {
                if en.key == "t1" {
                    let mut x: u64 = 0;
                    for b in &en.value {
                        x = (x << 8) | *b as u64;
                    }
                    topic = json!(x);
                }
            }
            let em = self
                .v
                .actor(&Address::new_id(ev.emitter))
                .and_then(|a| a.delegated_address)
                .and_then(|d| match d.payload() {
                    fvm_shared::address::Payload::Delegated(dd) => dd.subaddress().try_into().ok(),
                    _ => None,
                })
                .map(|e: Eth| self.name_of(&e))
                .unwrap_or(json!(["id", ev.emitter]));
            out.push(json!([em, topic]));
        }
        for s in &inv.subs {
            self.effective_events(s, out);
        }
    }

    /// name the contracts created in this message by their derivation (deployer, salt | nonce),
    /// from the EAM calls seen in the invocation tree
    fn register_creations(&self, inv: &Inv) {
        if inv.to == EAM_ACTOR_ADDR && (inv.method == 2 || inv.method == 3) && inv.exit.is_success() {
            let r: EamReturn = inv.ret.as_ref().unwrap().deserialize().unwrap();
            let deth: Option<Eth> = self
                .v
                .actor(&Address::new_id(inv.from))
                .and_then(|a| a.delegated_address)
                .and_then(|d| match d.payload() {
                    fvm_shared::address::Payload::Delegated(dd) => dd.subaddress().try_into().ok(),
                    _ => None,
                });
            if let (Some(de), Some(p)) = (deth, inv.params.as_ref()) {
                let dn = self.name_of(&de);
                let n = if inv.method == 2 {
                    let c: fil_actor_eam::CreateParams = p.deserialize().unwrap();
                    json!(["c1", dn, c.nonce])
                } else {
                    let c: fil_actor_eam::Create2Params = p.deserialize().unwrap();
                    json!(["c2", dn, cw_salt_name(&c.salt)])
                };
                self.names.borrow_mut().entry(r.eth_address.0).or_insert(n);
            }
        }
        for s in &inv.subs {
            self.register_creations(s);
        }
    }

    fn code_id(&self, code: &[u8]) -> i64 {
        for i in [1u8, 2, 3, CHILD_CID] {
            if code == u_runtime(i).as_slice() {
                return i as i64;
            }
        }
        if code.is_empty() { 0 } else { -1 }
    }

    pub fn project(&self, logs: Vec<Value>) -> Value {
        use fil_actors_evm_shared::uints::U256;
        use fil_actors_runtime::SYSTEM_ACTOR_ADDR;
        use fil_actors_runtime::runtime::builtins::Type;
        use fil_actors_runtime::test_utils::ACTOR_TYPES;
        use fvm_ipld_blockstore::Blockstore;
        let zero = TokenAmount::zero();
        let mut con = vec![];
        let mut bal = vec![];
        for (addr, a) in self.v.actor_states() {
            let Some(fvm_shared::address::Payload::Delegated(d)) = a.delegated_address.as_ref().map(|x| *x.payload())
            else {
                continue;
            };
            let Ok(eth): Result<Eth, _> = d.subaddress().try_into() else { continue };
            let name = self.name_of(&eth);
            if name[0] == "unk" {
                continue;
            }
            let amt = a.balance.atto().clone();
            let amt: i64 = num_traits::ToPrimitive::to_i64(&amt).filter(|x| *x < (1 << 31)).unwrap_or(-1);
            bal.push(json!([name, amt]));
            if ACTOR_TYPES.get(&a.code) != Some(&Type::EVM) {
                continue;
            }
            let raw: fil_actor_evm::State = self.v.state(&addr).unwrap();
            // storage and code as the outside sees them (API calls from f00)
            let mut st = vec![];
            for k in 0..KEYS {
                let o = self.v.run_p(
                    &SYSTEM_ACTOR_ADDR,
                    &addr,
                    &zero,
                    fil_actor_evm::Method::GetStorageAt as u64,
                    &fil_actor_evm::GetStorageAtParams { storage_key: U256::from(k as u64) },
                );
                assert!(o.ok(), "GetStorageAt: {}", o.message);
                let r: fil_actor_evm::GetStorageAtReturn = o.de();
                st.push(Self::small(&r.storage.to_big_endian()));
            }
            let o = self.v.run(&SYSTEM_ACTOR_ADDR, &addr, &zero, fil_actor_evm::Method::GetBytecode as u64, None);
            assert!(o.ok(), "GetBytecode: {}", o.message);
            let br: fil_actor_evm::BytecodeReturn = o.de();
            let hc = match br.code {
                Some(c) => !self.v.store.get(&c).unwrap().unwrap_or_default().is_empty(),
                None => false,
            };
            let rawcode = self.v.store.get(&raw.bytecode).unwrap().unwrap_or_default();
            let tomb = match raw.tombstone {
                None => 0,
                Some(t) if (t.origin, t.nonce) == self.last_msg.get() => 1,
                Some(_) => 2,
            };
            con.push(json!([name, {"st": st, "nonce": raw.nonce, "tomb": tomb, "hc": hc,
                                   "cid": self.code_id(&rawcode)}]));
        }
        json!({"con": con, "bal": bal, "logs": logs})
    }

    pub fn step(&self, m: &Value) -> Value {
        let mut ev = m.clone();
        ev["ev"] = json!("Msg");
        ev["a"] = json!("Msg");
        let prog = self.to_cmds(&m["prog"]);
        let to = eth_to_f4(&self.eth_of(&m["to"]));
        let val = TokenAmount::from_atto(m["value"].as_u64().unwrap());
        let nonce = self.v.actor(&self.user).unwrap().sequence;
        let (o, data) = invoke(&self.v, &self.user, &to, &encode(&prog), &val);
        self.last_msg.set((self.user.id().unwrap(), nonce));
        self.register_creations(&o.inv);
        let mut obs = vec![];
        self.flatten(&prog, &parse_out(&prog, &data), &mut obs);
        let mut logs = vec![];
        if o.ok() {
            self.effective_events(&o.inv, &mut logs);
        }
        ev["ok"] = json!(o.ok());
        ev["class"] = json!(o.class());
        ev["code"] = json!(o.code.value());
        ev["obs"] = json!(obs);
        ev["st"] = self.project(logs);
        ev
    }
}

// guided random scripts: write / call / read patterns over all call kinds, nesting up to 4 frames,
// re-entrancy (any existing contract may be the target, including the running one and dead ones),
// reverts / aborts / early returns at random positions, value transfers, CREATE/CREATE2, SELFDESTRUCT
fn random_script(rng: &mut crate::util::Rng, depth: u32, cons: &[Value], recv: &[Value]) -> Value {
    let n = rng.range(1, if depth == 0 { 6 } else { 4 });
    let mut ops = vec![];
    for _ in 0..n {
        let k = rng.below(KEYS as u64);
        let o = match rng.below(100) {
            0..=19 => json!({"op": "sstore", "k": k, "v": rng.below(4)}),
            20..=34 => json!({"op": "sload", "k": k}),
            35..=42 => json!({"op": "tstore", "k": k, "v": rng.below(4)}),
            43..=50 => json!({"op": "tload", "k": k}),
            51..=54 => json!({"op": "log", "t": rng.range(1, 3)}),
            55..=58 => json!({"op": "env"}),
            59..=60 => json!({"op": "bal", "a": if rng.chance(60) { rng.pick(cons).clone() } else { rng.pick(recv).clone() }}),
            61..=85 if depth < 3 => {
                let kind = *rng.pick(&["call", "call", "call", "static", "delegate", "delegate"]);
                let value = if kind == "call" && rng.chance(30) { 1 } else { 0 };
                let mut sub = random_script(rng, depth + 1, cons, recv);
                if rng.chance(25) {
                    // the classic shape: the callee reads what the caller wrote, writes, and the caller reads it back
                    let mut v = vec![json!({"op": "sload", "k": k}), json!({"op": "sstore", "k": k, "v": rng.range(1, 3)})];
                    v.extend(sub.as_array().unwrap().iter().cloned());
                    sub = json!(v);
                }
                ops.push(json!({"op": "call", "kind": kind, "to": rng.pick(cons).clone(), "value": value, "prog": sub}));
                json!({"op": if rng.chance(70) { "sload" } else { "tload" }, "k": k})
            }
            86..=88 => {
                if rng.chance(35) {
                    json!({"op": "create2", "salt": "t1", "value": rng.below(2), "init": "store"})
                } else {
                    json!({"op": "create2", "salt": format!("s{}", rng.range(1, 2)), "value": rng.below(2), "init": "plain"})
                }
            }
            89..=90 => json!({"op": "create", "value": 0, "init": *rng.pick(&["plain", "store"])}),
            91..=93 => {
                let ben = match rng.below(10) {
                    0..=3 => json!(["caller"]),
                    4..=7 => rng.pick(recv).clone(),
                    _ => rng.pick(cons).clone(),
                };
                json!({"op": "destroy", "ben": ben})
            }
            94..=96 => json!({"op": "revert"}),
            97 => json!({"op": "invalid"}),
            98 => json!({"op": "return"}),
            _ => json!({"op": "sload", "k": k}),
        };
        ops.push(o);
    }
    json!(ops)
}

fn random_msg(rng: &mut crate::util::Rng, st: &Value) -> Value {
    let cons: Vec<Value> = st["con"].as_array().unwrap().iter().map(|c| c[0].clone()).collect();
    let recv = vec![json!(["x1"]), json!(["x2"])];
    let to = rng.pick(&cons).clone();
    json!({"a": "Msg", "to": to, "value": if rng.chance(25) { 1 } else { 0 },
           "prog": random_script(rng, 0, &cons, &recv)})
}

pub fn main(args: &[String]) {
    let r = std::panic::catch_unwind(std::panic::AssertUnwindSafe(|| main_inner(args)));
    if let Err(p) = r {
        let m = p.downcast_ref::<String>().cloned().or_else(|| p.downcast_ref::<&str>().map(|s| s.to_string()));
        eprintln!("evmcalls driver panicked: {}", m.unwrap_or_default());
        std::process::exit(3);
    }
}

fn main_inner(args: &[String]) {
    use crate::util::*;
    self_test();
    let out = arg(args, "--out").expect("--out");
    let seed = arg_u64(args, "--seed", 1);
    let mut t = TraceOut::create(out);
    let mut sched_out = arg(args, "--schedules").map(TraceOut::create);
    let mut first = true;
    let keys = format!("{{{}}}", (0..KEYS).map(|k| k.to_string()).collect::<Vec<_>>().join(", "));
    let mut begin = |t: &mut TraceOut, w: &CWorld| {
        let ev = if first { "Init" } else { "Reset" };
        first = false;
        t.line(&json!({"ev": ev, "const": {"Keys": keys}, "st": w.project(vec![])}));
        t.traces += 1;
    };
    if let Some(b) = arg(args, "--behaviours") {
        for (i, beh) in read_behaviours(b).iter().enumerate() {
            let w = CWorld::new(seed + i as u64);
            begin(&mut t, &w);
            for m in beh {
                t.line(&w.step(m));
            }
            if let Some(s) = sched_out.as_mut() {
                s.line(&json!(beh));
            }
        }
    }
    let n = arg_u64(args, "--random", 0);
    let len = arg_u64(args, "--len", 10);
    let mut rng = Rng::new(seed);
    for i in 0..n {
        let w = CWorld::new(seed.wrapping_mul(1000) + i);
        begin(&mut t, &w);
        let mut st = w.project(vec![]);
        let mut msgs = vec![];
        for _ in 0..len {
            let m = random_msg(&mut rng, &st);
            let ev = w.step(&m);
            st = ev["st"].clone();
            t.line(&ev);
            msgs.push(m);
        }
        if let Some(s) = sched_out.as_mut() {
            s.line(&json!(msgs));
        }
    }
    t.flush();
    if let Some(s) = sched_out.as_mut() {
        s.flush();
    }
    println!("{}", json!({"driver": "evmcalls", "traces": t.traces, "events": t.events}));
}
