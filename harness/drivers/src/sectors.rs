//! System-level driver + projection for miner x power x reward x cron (spec/Sectors*.tla;
//! C02, C03, C04, C05, C14, C15 and the miner/reward clauses of C01).
//!
//! Only user messages (from owner/worker accounts) and the implicit per-epoch cron/reward messages
//! are sent; everything else happens through the real nested sends.  Runs under the `tiny` policy
//! (DESIGN.md 3.1): 4 deadlines of 6 epochs, 2 KiB sectors (partition size 2).
use crate::minerctl::{create_bls_accounts, create_miner};
use crate::util::*;
use crate::vm::*;
use fil_actor_miner::{
    PieceActivationManifest, ProveReplicaUpdates3Params, ProveReplicaUpdates3Return, SectorClaim,
    SectorUpdateManifest, VerifiedAllocationKey,
    CompactPartitionsParams, DeclareFaultsParams, DeclareFaultsRecoveredParams, ExpirationExtension2,
    ExpirationQueue, ExtendSectorExpiration2Params, FaultDeclaration, Method as MinerMethod,
    PoStPartition, PowerPair, PreCommitSectorBatchParams2, ProveCommitSectors3Params,
    RecoveryDeclaration, SectorActivationManifest, SectorOnChainInfo, SectorPreCommitInfo,
    SectorPreCommitOnChainInfo, Sectors, State as MinerState, SubmitWindowedPoStParams,
    TerminateSectorsParams, TerminationDeclaration, WithdrawBalanceParams, BitFieldQueue,
    CompactCommD, qa_power_for_sector,
};
use fil_actor_power::{CronEvent, State as PowerState};
use fil_actor_reward::AwardBlockRewardParams;
use fil_actors_runtime::runtime::Policy;
use fil_actors_runtime::test_utils::{make_piece_cid, make_sealed_cid};
use fil_actors_runtime::{
    DATACAP_TOKEN_ACTOR_ADDR, VERIFIED_REGISTRY_ACTOR_ADDR,
    Array, BURNT_FUNDS_ACTOR_ADDR, DEFAULT_HAMT_CONFIG, Map2, Multimap, REWARD_ACTOR_ADDR,
    STORAGE_POWER_ACTOR_ADDR, SYSTEM_ACTOR_ADDR,
};
use fvm_ipld_bitfield::BitField;
use fvm_ipld_encoding::RawBytes;
use fvm_shared::address::Address;
use fvm_shared::bigint::BigInt;
use fvm_shared::clock::ChainEpoch;
use fvm_shared::econ::TokenAmount;
use fvm_shared::randomness::Randomness;
use fvm_shared::sector::{
    PoStProof, RegisteredPoStProof, RegisteredSealProof, SectorSize, StoragePower,
};
use num_traits::{Signed, ToPrimitive};
use serde_json::{Value, json};
use std::collections::BTreeMap;
use vm_api::VM;

pub const SEAL: RegisteredSealProof = RegisteredSealProof::StackedDRG2KiBV1P1;
pub const SEAL_NI: RegisteredSealProof = RegisteredSealProof::StackedDRG2KiBV1P2_Feat_NiPoRep;
pub const POST: RegisteredPoStProof = RegisteredPoStProof::StackedDRGWindow2KiBV1P1;
pub const SSIZE: SectorSize = SectorSize::_2KiB;

pub fn tiny_policy() -> Policy {
    let mut p = Policy::default();
    p.wpost_period_deadlines = 4;
    p.wpost_challenge_window = 6;
    p.wpost_proving_period = 24;
    p.wpost_challenge_lookback = 1;
    p.fault_declaration_cutoff = 2;
    p.fault_max_age = 2 * 24;
    // (a deadline is mutable for 12 epochs after it closes under this policy: with a dispute window of 12 it could never
    // be compacted; 6 leaves the second half of that time for CompactPartitions)
    p.wpost_dispute_window = 6;
    p.chain_finality = 3;
    p.worker_key_change_delay = 3;
    p.consensus_fault_ineligibility_duration = 3;
    p.pre_commit_challenge_delay = 1;
    p.max_pre_commit_randomness_lookback = 40;
    p.wpost_max_chain_commit_age = 24;
    p.min_sector_expiration = 3 * 24;
    p.max_sector_expiration_extension = 20_000 * 24;
    p.expired_pre_commit_clean_up_delay = 6;
    p.valid_pre_commit_proof_type.insert(SEAL);
    p.valid_post_proof_type.insert(POST);
    p.valid_prove_commit_ni_proof_type.insert(SEAL_NI);
    p.min_aggregated_sectors_ni = 1;
    p.max_aggregated_sectors_ni = 8;
    p.max_prove_commit_ni_randomness_lookback = 40;
    p.minimum_consensus_power = StoragePower::from(2 * 2048);
    p.end_of_life_claim_drop_period = 2 * 24;
    p.minimum_verified_allocation_size = StoragePower::from(256);
    p
}

/// the sectors suite's own policy: additionally, one message addresses at most 4 sectors / 3 partitions, so that
/// more than 4 simultaneous early terminations leave a backlog that follow-up cron callbacks work off
pub fn sectors_policy() -> Policy {
    let mut p = tiny_policy();
    p.addressed_sectors_max = 4;
    p.addressed_partitions_max = 3;
    // verified allocations small enough for sectors that live a few proving periods
    p.minimum_verified_allocation_term = 24;
    p.maximum_verified_allocation_term = 4000;
    p.maximum_verified_allocation_expiration = 60;
    p
}

fn bf(v: &Value) -> BitField {
    let mut b = BitField::new();
    for x in v.as_array().unwrap() {
        b.set(x.as_u64().unwrap());
    }
    b
}
fn bfv(b: &BitField) -> Value {
    json!(b.iter().collect::<Vec<u64>>())
}
fn pw(p: &PowerPair) -> Value {
    json!([p.raw.to_i64().unwrap(), p.qa.to_i64().unwrap()])
}

pub struct World {
    /// pledge of "the rest of the network" added to the power actor's total at genesis (attoFIL)
    pub boost: TokenAmount,
    pub v: VVM,
    pub names: BTreeMap<String, Address>,
    pub miners: Vec<String>,
    burnt0: TokenAmount,
    /// (miner, deadline) of accepted Window PoSts carrying an invalid proof (candidates for a dispute)
    pub bad_posts: std::cell::RefCell<Vec<(String, u64)>>,
    /// epoch at which each miner was created (its creation deposit starts vesting there)
    pub created: BTreeMap<String, i64>,
    /// generator mode: miner m1 never proves (its sectors fault, time out together and leave a termination backlog)
    pub neglect: std::cell::Cell<bool>,
    /// generator: a miner in fee debt was just topped up -- withdraw (nothing or little) before the cron repays the debt
    pub pending_w0: std::cell::RefCell<Option<String>>,
    /// open verified allocations the generator knows of: (allocation id, provider miner, piece name, size)
    pub allocs: std::cell::RefCell<Vec<(u64, String, String, u64)>>,
    /// serial number for piece names
    pub piece_serial: std::cell::Cell<u64>,
    /// sectors that received data through a replica update (cannot be updated again)
    pub updated: std::cell::RefCell<Vec<u64>>,
    /// claims the generator knows a sector to hold: (miner, sector) -> claim ids
    pub sector_claims: std::cell::RefCell<BTreeMap<(String, u64), Vec<u64>>>,
    /// generator: goals still to be reached in this trace (see `goal_call`)
    pub goals: std::cell::RefCell<Vec<String>>,
    /// generator: the miner proves everything that is due, without skipping and with valid proofs
    pub diligent: std::cell::Cell<bool>,
    /// generator: progress / chosen deadline (or start epoch) of the goal being pursued
    pub goal_state: std::cell::Cell<u32>,
    pub goal_dl: std::cell::Cell<i64>,
}

impl World {
    pub fn new(seed: u64, n_miners: usize) -> World {
        World::new_boosted(seed, n_miners, false)
    }

    /// `boost`: start from a network whose pledge total already holds 1M FIL of other miners'
    /// pledge (a configuration in which finding F1's negative-total abort cannot trigger)
    pub fn new_boosted(seed: u64, n_miners: usize, boost: bool) -> World {
        let v = VVM::genesis(sectors_policy());
        let boost_amt = if boost { TokenAmount::from_whole(1_000_000) } else { TokenAmount::from_atto(0) };
        if boost {
            let mut ps: PowerState = v.state(&STORAGE_POWER_ACTOR_ADDR).unwrap();
            ps.total_pledge_collateral += &boost_amt;
            let head = v.put_store(&ps);
            let mut a = v.actor(&STORAGE_POWER_ACTOR_ADDR).unwrap();
            a.state = head;
            v.set_actor(&STORAGE_POWER_ACTOR_ADDR, a);
            v.checkpoint();
        }
        let accts = v.create_accounts(6, seed, &TokenAmount::from_whole(1_000_000));
        let bls = create_bls_accounts(&v, 2, seed, &TokenAmount::from_whole(1000));
        let mut names = BTreeMap::new();
        for (n, a) in ["o1", "o2", "x", "rep", "vf", "cl"].iter().zip(accts.iter()) {
            names.insert(n.to_string(), *a);
        }
        names.insert("w1".into(), bls[0]);
        names.insert("w2".into(), bls[1]);
        let mut miners = vec![];
        let mut created = BTreeMap::new();
        for (i, (m, o, w)) in [("m1", "o1", "w1"), ("m2", "o2", "w2")].iter().enumerate() {
            if i >= n_miners {
                break;
            }
            let (id, out) = create_miner(&v, &names[*o], &names[*w], POST, &TokenAmount::from_whole(200));
            assert!(out.ok(), "create miner: {}", out.message);
            names.insert(m.to_string(), id.unwrap());
            created.insert(m.to_string(), v.epoch());
            miners.push(m.to_string());
        }
        // DataCap: root -> verifier vf -> client cl (1 MiB, far more than the traces use)
        {
            let o = v.run_p(
                &TEST_VERIFREG_ROOT_SIGNER_ADDR,
                &TEST_VERIFREG_ROOT_ADDR,
                &TokenAmount::from_atto(0),
                fil_actor_multisig::Method::Propose as u64,
                &fil_actor_multisig::ProposeParams {
                    to: VERIFIED_REGISTRY_ACTOR_ADDR,
                    value: TokenAmount::from_atto(0),
                    method: fil_actor_verifreg::Method::AddVerifier as u64,
                    params: RawBytes::serialize(&fil_actor_verifreg::VerifierParams {
                        address: names["vf"], allowance: StoragePower::from(1u64 << 22) }).unwrap(),
                },
            );
            assert!(o.ok(), "add verifier: {}", o.message);
            let r: fil_actor_multisig::ProposeReturn = o.de();
            assert!(r.applied && r.code.is_success(), "add verifier (inner): {}", r.code);
            let o = v.run_p(&names["vf"], &VERIFIED_REGISTRY_ACTOR_ADDR, &TokenAmount::from_atto(0),
                fil_actor_verifreg::Method::AddVerifiedClient as u64,
                &fil_actor_verifreg::VerifierParams { address: names["cl"], allowance: StoragePower::from(1u64 << 20) });
            assert!(o.ok(), "add client: {}", o.message);
        }
        let burnt0 = v.balance(&BURNT_FUNDS_ACTOR_ADDR);
        World { boost: boost_amt, v, names, miners, burnt0, bad_posts: Default::default(), created, neglect: Default::default(), pending_w0: Default::default(),
                allocs: Default::default(), piece_serial: Default::default(), updated: Default::default(), sector_claims: Default::default(), goals: Default::default(), diligent: Default::default(), goal_state: Default::default(), goal_dl: Default::default() }
    }

    pub fn mstate(&self, m: &str) -> MinerState {
        self.v.state(&self.names[m]).unwrap()
    }

    /// "poor" miners: the owner withdraws everything that is available right after creation, so the
    /// miner holds exactly its locked creation deposit and any penalty turns into fee debt
    pub fn drain(&self) {
        for m in self.miners.clone() {
            let o = self.v.run_p(&self.names[&m.replace('m', "o")], &self.names[&m], &TokenAmount::from_atto(0),
                MinerMethod::WithdrawBalance as u64,
                &WithdrawBalanceParams { amount_requested: TokenAmount::from_whole(1_000_000) });
            assert!(o.ok(), "drain: {}", o.message);
        }
    }

    fn name_of(&self, a: &Address) -> String {
        let id = self.v.resolve_id_address(a).unwrap_or(*a);
        for (n, x) in &self.names {
            if *x == id {
                return n.clone();
            }
        }
        format!("{}", id)
    }

    fn project_miner(&self, m: &str) -> Value {
        let st = self.mstate(m);
        let store = &self.v.store;
        let policy = &self.v.policy;
        let addr = self.names[m];
        // sectors
        let mut sectors = vec![];
        let mut infos: BTreeMap<u64, SectorOnChainInfo> = BTreeMap::new();
        Sectors::load(store, &st.sectors)
            .unwrap()
            .amt
            .for_each(|n, s: &SectorOnChainInfo| {
                infos.insert(n, s.clone());
                Ok(())
            })
            .unwrap();
        for (n, s) in &infos {
            sectors.push(json!({"n": n, "act": s.activation, "exp": s.expiration, "base": s.power_base_epoch,
                "pledge": big(&s.initial_pledge), "raw": SSIZE as u64,
                "qa": qa_power_for_sector(SSIZE, s).to_i64().unwrap(),
                "vw": s.verified_deal_weight.to_i64().unwrap_or(i64::MAX), "fee": big(&s.daily_fee)}));
        }
        // pre-commits
        let mut pres = vec![];
        let pcs: Map2<_, u64, SectorPreCommitOnChainInfo> =
            Map2::load(store, &st.pre_committed_sectors, fil_actor_miner::PRECOMMIT_CONFIG, "precommits").unwrap();
        pcs.for_each(|n, pc| {
            pres.push((n, json!({"n": n, "dep": big(&pc.pre_commit_deposit), "exp": pc.info.expiration,
                                 "at": pc.pre_commit_epoch})));
            Ok(())
        })
        .unwrap();
        pres.sort_by_key(|x| x.0);
        let allocated: BitField = store_get(store, &st.allocated_sectors);
        // vesting
        let vest: Vec<Value> = st
            .vesting_funds
            .load(store)
            .unwrap()
            .iter()
            .map(|f| json!([f.epoch, big(&f.amount)]))
            .collect();
        // deadlines
        let dls = st.load_deadlines(store).unwrap();
        let mut deadlines = vec![];
        for d in 0..policy.wpost_period_deadlines {
            let dl = dls.load_deadline(store, d).unwrap();
            let quant = st.quant_spec_for_deadline(policy, d);
            let mut parts = vec![];
            dl.partitions_amt(store)
                .unwrap()
                .for_each(|pi, p| {
                    let mut q = vec![];
                    ExpirationQueue::new(store, &p.expirations_epochs, quant)
                        .unwrap()
                        .amt
                        .for_each(|e, es| {
                            q.push(json!({"e": e, "on": bfv(&es.on_time_sectors), "early": bfv(&es.early_sectors),
                                "pledge": big(&es.on_time_pledge), "act": pw(&es.active_power),
                                "flt": pw(&es.faulty_power), "fee": big(&es.fee_deduction)}));
                            Ok(())
                        })
                        .unwrap();
                    let mut etq = vec![];
                    BitFieldQueue::new(store, &p.early_terminated, fil_actor_miner::NO_QUANTIZATION)
                        .unwrap()
                        .amt
                        .for_each(|e, b| {
                            etq.push(json!({"e": e, "s": bfv(b)}));
                            Ok(())
                        })
                        .unwrap();
                    parts.push(json!({"i": pi, "S": bfv(&p.sectors), "U": bfv(&p.unproven), "F": bfv(&p.faults),
                        "R": bfv(&p.recoveries), "T": bfv(&p.terminated),
                        "live": pw(&p.live_power), "unp": pw(&p.unproven_power), "flt": pw(&p.faulty_power),
                        "rec": pw(&p.recovering_power), "q": q, "etq": etq}));
                    Ok(())
                })
                .unwrap();
            let mut dq = vec![];
            BitFieldQueue::new(store, &dl.expirations_epochs, quant)
                .unwrap()
                .amt
                .for_each(|e, b| {
                    dq.push(json!({"e": e, "p": bfv(b)}));
                    Ok(())
                })
                .unwrap();
            deadlines.push(json!({"d": d, "parts": parts, "posted": bfv(&dl.partitions_posted),
                "early": bfv(&dl.early_terminations), "live": dl.live_sectors, "total": dl.total_sectors,
                "flt": pw(&dl.faulty_power), "livep": pw(&dl.live_power), "fee": big(&dl.daily_fee), "dq": dq,
                "quantOff": quant.offset, "quantUnit": quant.unit}));
        }
        let info = st.get_info(store).unwrap();
        json!({
            "m": m,
            "bal": big(&self.v.balance(&addr)), "pcd": big(&st.pre_commit_deposits), "locked": big(&st.locked_funds),
            "ip": big(&st.initial_pledge), "debt": big(&st.fee_debt), "vest": vest,
            "dlParts": deadlines.iter().map(|d| d["parts"].as_array().unwrap().len()).collect::<Vec<_>>(),
            "pps": st.proving_period_start, "curDl": st.current_deadline, "cronActive": st.deadline_cron_active,
            "earlyDls": bfv(&st.early_terminations), "alloc": bfv(&allocated), "pre": pres.into_iter().map(|x| x.1).collect::<Vec<_>>(),
            "sectors": sectors, "dls": deadlines, "cfElapsed": info.consensus_fault_elapsed, "createdAt": self.created[m],
            "owner": self.name_of(&info.owner), "worker": self.name_of(&info.worker), "ben": self.name_of(&info.beneficiary),
        })
    }

    pub fn project(&self) -> Value {
        let store = &self.v.store;
        let ps: PowerState = self.v.state(&STORAGE_POWER_ACTOR_ADDR).unwrap();
        let mut claims = vec![];
        ps.load_claims(store)
            .unwrap()
            .for_each(|a, c| {
                claims.push(json!({"m": self.name_of(&a), "raw": c.raw_byte_power.to_i64().unwrap(),
                                   "qa": c.quality_adj_power.to_i64().unwrap()}));
                Ok(())
            })
            .unwrap();
        claims.sort_by_key(|c| c["m"].as_str().map(|s| s.to_string()));
        let mut cronq = vec![];
        let mm: Multimap<_> = Multimap::from_root(
            store,
            &ps.cron_event_queue,
            fil_actor_power::CRON_QUEUE_HAMT_BITWIDTH,
            fil_actor_power::CRON_QUEUE_AMT_BITWIDTH,
        )
        .unwrap();
        mm.for_all::<_, CronEvent>(|k, arr| {
            let e = <i64 as integer_encoding::VarInt>::decode_var(k).map(|x| x.0).unwrap_or(-1);
            let mut evs = vec![];
            arr.for_each(|_, ev: &CronEvent| {
                let payload: fil_actor_miner::CronEventPayload =
                    fvm_ipld_encoding::from_slice(ev.callback_payload.bytes()).unwrap();
                evs.push(json!([self.name_of(&ev.miner_addr), payload.event_type]));
                Ok(())
            })?;
            cronq.push((e, json!({"e": e, "evs": evs})));
            Ok(())
        })
        .unwrap();
        cronq.sort_by_key(|x| x.0);
        let power = json!({
            "claims": claims,
            "raw": ps.total_raw_byte_power.to_i64().unwrap(), "qa": ps.total_quality_adj_power.to_i64().unwrap(),
            "rawCommitted": ps.total_bytes_committed.to_i64().unwrap(), "qaCommitted": ps.total_qa_bytes_committed.to_i64().unwrap(),
            "aboveMin": ps.miner_above_min_power_count, "minerCount": ps.miner_count,
            "pledge": big(&(&ps.total_pledge_collateral - &self.boost)), "boosted": self.boost.is_positive(), "qaSmoothed": big(&TokenAmount::from_atto(ps.this_epoch_qa_power_smoothed.estimate())),
            "rewardSmoothed": big(&TokenAmount::from_atto(self.v.state::<fil_actor_reward::State>(&REWARD_ACTOR_ADDR).unwrap().this_epoch_reward_smoothed.estimate())), "pledgeReal": big(&ps.total_pledge_collateral),
            "firstCron": ps.first_cron_epoch,
            "cronq": cronq.into_iter().map(|x| x.1).collect::<Vec<_>>(),
        });
        let miners: Vec<Value> = self.miners.iter().map(|m| self.project_miner(m)).collect();
        let mut bals = vec![];
        for (a, st) in self.v.actor_states() {
            bals.push(json!([self.name_of(&a), big(&st.balance)]));
        }
        json!({"epoch": self.v.epoch(), "power": power, "miners": miners, "bals": bals,
               "rewardBal": big(&self.v.balance(&REWARD_ACTOR_ADDR)),
               "burnt": big(&(self.v.balance(&BURNT_FUNDS_ACTOR_ADDR) - &self.burnt0)),
               "total": big(&self.v.total_fil())})
    }

    fn controller(&self, m: &str, who: &str) -> Address {
        let st = self.mstate(m);
        let info = st.get_info(&self.v.store).unwrap();
        match who {
            "worker" => info.worker,
            "owner" => info.owner,
            other => self.names[other],
        }
    }

    /// flattened effective value transfers of an outcome, with names
    fn transfers(&self, o: &Outcome) -> Value {
        let mut tr = vec![];
        o.inv.effective_transfers(&mut tr);
        json!(tr
            .iter()
            .map(|(f, t, a)| json!([self.name_of(&Address::new_id(*f)), self.name_of(&Address::new_id(*t)), big(a)]))
            .collect::<Vec<_>>())
    }

    /// exit codes of everything that failed somewhere in the invocation tree
    fn failures(&self, o: &Outcome) -> Value {
        let mut out = vec![];
        o.inv.walk(
            &mut |i, depth| {
                if !i.exit.is_success() {
                    let mut f = json!({"to": self.name_of(&i.to), "method": i.method, "code": i.exit.value(),
                                    "depth": depth, "injected": i.injected, "msg": i.msg.chars().take(160).collect::<String>(),
                                    "from": self.name_of(&Address::new_id(i.from)), "delta": [1]});
                    if i.to == STORAGE_POWER_ACTOR_ADDR && i.method == fil_actor_power::Method::UpdatePledgeTotal as u64 {
                        if let Some(d) = i.params.as_ref().and_then(|p| p.deserialize::<TokenAmount>().ok()) {
                            f["delta"] = big(&d);
                        }
                    }
                    out.push(f);
                }
            },
            0,
        );
        json!(out)
    }

    pub fn step(&self, call: &Value) -> Value {
        let a = call["a"].as_str().unwrap();
        let zero = TokenAmount::from_atto(0);
        let mut ev = call.clone();
        ev["ev"] = json!(a);
        if a == "Tick" {
            let n = call["n"].as_i64().unwrap();
            let mut cron_ok = true;
            let mut fails = vec![];
            let mut trs: Vec<Value> = vec![];
            // the continued-fault fee each miner's proving-deadline callback owes in these epochs: the faulty
            // QA power of a deadline at the moment it closes, priced by the protocol's own fee function with
            // the estimates the callback will read (the reward / power actors update them after the callbacks)
            let mut ffee: BTreeMap<String, TokenAmount> = BTreeMap::new();
            for _ in 0..n {
                {
                    let epoch = self.v.epoch();
                    let ps: PowerState = self.v.state(&STORAGE_POWER_ACTOR_ADDR).unwrap();
                    let rs: fil_actor_reward::State = self.v.state(&REWARD_ACTOR_ADDR).unwrap();
                    for m in &self.miners {
                        let st = self.mstate(m);
                        let di = st.deadline_info(&self.v.policy, epoch);
                        if st.deadline_cron_active && di.period_started() && epoch == di.last() {
                            let dls = st.load_deadlines(&self.v.store).unwrap();
                            let dl = dls.load_deadline(&self.v.store, di.index).unwrap();
                            if dl.live_sectors > 0 {
                                let fee = fil_actor_miner::pledge_penalty_for_continued_fault(
                                    &rs.this_epoch_reward_smoothed, &ps.this_epoch_qa_power_smoothed, &dl.faulty_power.qa);
                                *ffee.entry(m.clone()).or_default() += fee;
                            }
                        }
                    }
                }
                let o = self.v.tick();
                if o.ok() {
                    trs.extend(self.transfers(&o).as_array().unwrap().iter().cloned());
                }
                let f = self.failures(&o);
                if !o.ok() || !f.as_array().unwrap().is_empty() {
                    cron_ok = false;
                    fails.push(json!({"epoch": self.v.epoch() - 1, "f": f, "panic": o.panicked}));
                }
            }
            ev["ok"] = json!(true);
            ev["cronOK"] = json!(cron_ok);
            ev["fails"] = json!(fails);
            ev["tr"] = json!(trs);
            ev["ffee"] = json!(self.miners.iter().map(|m| json!([m, big(ffee.get(m).unwrap_or(&TokenAmount::from_atto(0)))])).collect::<Vec<_>>());
            ev["injected"] = json!(self.v.faults_fired());
            ev["st"] = self.project();
            return ev;
        }
        if a == "Fault" {
            // arm a one-shot failure of a tolerated nested send (DESIGN.md Appendix C)
            let rule = match call["site"].as_str().unwrap() {
                "reward->miner" => FaultRule { from_type: Some(fil_actors_runtime::runtime::builtins::Type::Reward),
                    method: Some(MinerMethod::ApplyRewards as u64), times: 1, ..Default::default() },
                "cron->market" => FaultRule { from_type: Some(fil_actors_runtime::runtime::builtins::Type::Cron),
                    to_type: Some(fil_actors_runtime::runtime::builtins::Type::Market), times: 1, ..Default::default() },
                "miner->market" => FaultRule { from_type: Some(fil_actors_runtime::runtime::builtins::Type::Miner),
                    to_type: Some(fil_actors_runtime::runtime::builtins::Type::Market), times: 1, ..Default::default() },
                "miner->burn" => FaultRule { from_type: Some(fil_actors_runtime::runtime::builtins::Type::Miner),
                    to: Some(BURNT_FUNDS_ACTOR_ADDR.id().unwrap()), times: 1, ..Default::default() },
                other => panic!("unknown fault site {other}"),
            };
            self.v.clear_faults();
            self.v.add_fault(rule);
            ev["ok"] = json!(true);
            ev["class"] = json!("ok");
            ev["code"] = json!(0);
            ev["tr"] = json!([]);
            ev["fails"] = json!([]);
            ev["st"] = self.project();
            return ev;
        }
        let o = match a {
            "Reward" => {
                // the implicit block-reward message
                self.v.run_p(
                    &SYSTEM_ACTOR_ADDR,
                    &REWARD_ACTOR_ADDR,
                    &zero,
                    fil_actor_reward::Method::AwardBlockReward as u64,
                    &AwardBlockRewardParams {
                        miner: self.names[call["m"].as_str().unwrap()],
                        penalty: TokenAmount::from_atto(call["penalty"].as_i64().unwrap_or(0)),
                        gas_reward: TokenAmount::from_atto(call["gas"].as_i64().unwrap_or(0)),
                        win_count: call["wins"].as_i64().unwrap_or(1),
                    },
                )
            }
            "Alloc" => {
                // the client transfers DataCap to the registry with one allocation request per piece
                let m = call["m"].as_str().unwrap();
                let reqs = fil_actor_verifreg::AllocationRequests {
                    allocations: call["pieces"].as_array().unwrap().iter().map(|p| fil_actor_verifreg::AllocationRequest {
                        provider: self.names[m].id().unwrap(),
                        data: make_piece_cid(p["data"].as_str().unwrap().as_bytes()),
                        size: fvm_shared::piece::PaddedPieceSize(p["size"].as_u64().unwrap()),
                        term_min: call["tmin"].as_i64().unwrap(),
                        term_max: call["tmax"].as_i64().unwrap(),
                        expiration: call["exp"].as_i64().unwrap(),
                    }).collect(),
                    extensions: vec![],
                };
                let total: u64 = call["pieces"].as_array().unwrap().iter().map(|p| p["size"].as_u64().unwrap()).sum();
                let o = self.v.run_p(&self.names["cl"], &DATACAP_TOKEN_ACTOR_ADDR, &zero,
                    fil_actor_datacap::Method::TransferExported as u64,
                    &frc46_token::token::types::TransferParams {
                        to: VERIFIED_REGISTRY_ACTOR_ADDR,
                        amount: TokenAmount::from_whole(total as i64),
                        operator_data: RawBytes::serialize(&reqs).unwrap(),
                    });
                ev["ids"] = json!([]);
                if o.ok() {
                    let r: frc46_token::token::types::TransferReturn = o.de();
                    if let Ok(resp) = r.recipient_data.deserialize::<fil_actor_verifreg::AllocationsResponse>() {
                        ev["ids"] = json!(resp.new_allocations);
                        for (id, p) in resp.new_allocations.iter().zip(call["pieces"].as_array().unwrap().iter()) {
                            self.allocs.borrow_mut().push((*id, m.to_string(), p["data"].as_str().unwrap().to_string(), p["size"].as_u64().unwrap()));
                        }
                    }
                }
                o
            }
            "Fund" => self.v.run(
                &self.names["x"],
                &self.names[call["m"].as_str().unwrap()],
                &(TokenAmount::from_nano(call["nano"].as_i64().unwrap()) + TokenAmount::from_whole(call["whole"].as_i64().unwrap_or(0))),
                fvm_shared::METHOD_SEND,
                None,
            ),
            _ => {
                let m = call["m"].as_str().unwrap();
                let maddr = self.names[m];
                let from = self.controller(m, call["c"].as_str().unwrap_or("worker"));
                match a {
                    "PreCommit" => {
                        let sectors: Vec<SectorPreCommitInfo> = call["sectors"]
                            .as_array()
                            .unwrap()
                            .iter()
                            .map(|s| {
                                let n = s["n"].as_u64().unwrap();
                                SectorPreCommitInfo {
                                    seal_proof: SEAL,
                                    sector_number: n,
                                    sealed_cid: make_sealed_cid(format!("sn: {n}").as_bytes()),
                                    seal_rand_epoch: self.v.epoch() - 1,
                                    deal_ids: vec![],
                                    expiration: s["exp"].as_i64().unwrap(),
                                    unsealed_cid: CompactCommD::empty(),
                                }
                            })
                            .collect();
                        self.v.run_p(&from, &maddr, &zero, MinerMethod::PreCommitSectorBatch2 as u64,
                                     &PreCommitSectorBatchParams2 { sectors })
                    }
                    "ProveCommit" => {
                        let ns: Vec<u64> = call["ns"].as_array().unwrap().iter().map(|x| x.as_u64().unwrap()).collect();
                        let acts: Vec<SectorActivationManifest> =
                            ns.iter().map(|n| SectorActivationManifest { sector_number: *n, pieces: vec![] }).collect();
                        self.v.run_p(&from, &maddr, &zero, MinerMethod::ProveCommitSectors3 as u64,
                            &ProveCommitSectors3Params {
                                sector_proofs: ns.iter().map(|n| RawBytes::new(vec![*n as u8; 4])).collect(),
                                sector_activations: acts,
                                aggregate_proof: vec![].into(),
                                aggregate_proof_type: None,
                                require_activation_success: call["requireAll"].as_bool().unwrap_or(false),
                                require_notification_success: false,
                            })
                    }
                    "CommitNI" => {
                        let mid = maddr.id().unwrap();
                        let sectors: Vec<fil_actor_miner::SectorNIActivationInfo> = call["sectors"].as_array().unwrap().iter().map(|x| {
                            let n = x["n"].as_u64().unwrap();
                            fil_actor_miner::SectorNIActivationInfo {
                                sealing_number: n, sealer_id: mid, sealed_cid: make_sealed_cid(format!("ni: {n}").as_bytes()),
                                sector_number: n, seal_rand_epoch: self.v.epoch() - 1, expiration: x["exp"].as_i64().unwrap(),
                            }
                        }).collect();
                        self.v.run_p(&from, &maddr, &zero, MinerMethod::ProveCommitSectorsNI as u64,
                            &fil_actor_miner::ProveCommitSectorsNIParams {
                                sectors, aggregate_proof: RawBytes::new(vec![1, 2, 3]), seal_proof_type: SEAL_NI,
                                aggregate_proof_type: fvm_shared::sector::RegisteredAggregateProof::SnarkPackV2,
                                proving_deadline: call["dl"].as_u64().unwrap(),
                                require_activation_success: call["requireAll"].as_bool().unwrap_or(false),
                            })
                    }
                    "PoSt" => {
                        let st = self.mstate(m);
                        let di = st.deadline_info(&self.v.policy, self.v.epoch());
                        let parts: Vec<PoStPartition> = call["parts"]
                            .as_array()
                            .unwrap()
                            .iter()
                            .map(|p| PoStPartition { index: p["i"].as_u64().unwrap(), skipped: bf(&p["skipped"]) })
                            .collect();
                        let bad = call["badProof"].as_bool().unwrap_or(false);
                        self.v.run_p(&from, &maddr, &zero, MinerMethod::SubmitWindowedPoSt as u64,
                            &SubmitWindowedPoStParams {
                                deadline: call["dl"].as_u64().unwrap(),
                                partitions: parts,
                                proofs: vec![PoStProof {
                                    post_proof: POST,
                                    proof_bytes: if bad { INVALID_POST.as_bytes().to_vec() } else { vec![1, 2, 3] },
                                }],
                                chain_commit_epoch: di.challenge,
                                chain_commit_rand: Randomness(RAND_ARRAY.into()),
                            })
                    }
                    "DeclareFaults" => self.v.run_p(&from, &maddr, &zero, MinerMethod::DeclareFaults as u64,
                        &DeclareFaultsParams {
                            faults: call["decls"].as_array().unwrap().iter().map(|d| FaultDeclaration {
                                deadline: d["dl"].as_u64().unwrap(), partition: d["p"].as_u64().unwrap(),
                                sectors: bf(&d["s"]) }).collect(),
                        }),
                    "DeclareRecovered" => self.v.run_p(&from, &maddr, &zero, MinerMethod::DeclareFaultsRecovered as u64,
                        &DeclareFaultsRecoveredParams {
                            recoveries: call["decls"].as_array().unwrap().iter().map(|d| RecoveryDeclaration {
                                deadline: d["dl"].as_u64().unwrap(), partition: d["p"].as_u64().unwrap(),
                                sectors: bf(&d["s"]) }).collect(),
                        }),
                    "Terminate" => self.v.run_p(&from, &maddr, &zero, MinerMethod::TerminateSectors as u64,
                        &TerminateSectorsParams {
                            terminations: call["decls"].as_array().unwrap().iter().map(|d| TerminationDeclaration {
                                deadline: d["dl"].as_u64().unwrap(), partition: d["p"].as_u64().unwrap(),
                                sectors: bf(&d["s"]) }).collect(),
                        }),
                    "Extend" => self.v.run_p(&from, &maddr, &zero, MinerMethod::ExtendSectorExpiration2 as u64,
                        &ExtendSectorExpiration2Params {
                            extensions: call["decls"].as_array().unwrap().iter().map(|d| ExpirationExtension2 {
                                deadline: d["dl"].as_u64().unwrap(), partition: d["p"].as_u64().unwrap(),
                                sectors: bf(&d["s"]),
                                sectors_with_claims: d["claims"].as_array().map(|cs| cs.iter().map(|c| SectorClaim {
                                    sector_number: c["n"].as_u64().unwrap(),
                                    maintain_claims: c["maintain"].as_array().unwrap().iter().map(|x| x.as_u64().unwrap()).collect(),
                                    drop_claims: c["drop"].as_array().unwrap().iter().map(|x| x.as_u64().unwrap()).collect(),
                                }).collect()).unwrap_or_default(),
                                new_expiration: d["exp"].as_i64().unwrap() }).collect(),
                        }),
                    "ReplicaUpdate" => {
                        let ups = call["ups"].as_array().unwrap();
                        let client = self.names["cl"].id().unwrap();
                        let manifests: Vec<SectorUpdateManifest> = ups.iter().map(|u| {
                            let n = u["n"].as_u64().unwrap();
                            SectorUpdateManifest { sector: n, deadline: u["dl"].as_u64().unwrap(), partition: u["p"].as_u64().unwrap(),
                                new_sealed_cid: make_sealed_cid(format!("ru: {n}").as_bytes()),
                                pieces: u["pieces"].as_array().unwrap().iter().map(|p| PieceActivationManifest {
                                    cid: make_piece_cid(p["data"].as_str().unwrap().as_bytes()),
                                    size: fvm_shared::piece::PaddedPieceSize(p["size"].as_u64().unwrap()),
                                    verified_allocation_key: match p["id"].as_u64().unwrap_or(0) {
                                        0 => None,
                                        id => Some(VerifiedAllocationKey { client, id }),
                                    },
                                    notify: vec![],
                                }).collect() }
                        }).collect();
                        let proof = if call["ni"].as_bool().unwrap_or(true) { SEAL_NI } else { SEAL };
                        let o = self.v.run_p(&from, &maddr, &zero, MinerMethod::ProveReplicaUpdates3 as u64,
                            &ProveReplicaUpdates3Params {
                                sector_proofs: ups.iter().map(|_| RawBytes::new(vec![1, 2, 3, 4])).collect(),
                                sector_updates: manifests,
                                aggregate_proof: RawBytes::default(),
                                update_proofs_type: proof.registered_update_proof().unwrap(),
                                aggregate_proof_type: None,
                                require_activation_success: call["requireAll"].as_bool().unwrap_or(false),
                                require_notification_success: false,
                            });
                        if o.ok() {
                            let r: ProveReplicaUpdates3Return = o.de();
                            let fails: Vec<u32> = r.activation_results.fail_codes.iter().map(|f| f.idx).collect();
                            ev["res"] = json!((0..ups.len() as u32).map(|i| !fails.contains(&i)).collect::<Vec<_>>());
                            // the allocations of the successful updates are spent
                            for (i, u) in ups.iter().enumerate() {
                                if !fails.contains(&(i as u32)) {
                                    self.updated.borrow_mut().push(u["n"].as_u64().unwrap());
                                    for p in u["pieces"].as_array().unwrap() {
                                        let id = p["id"].as_u64().unwrap_or(0);
                                        self.allocs.borrow_mut().retain(|a| a.0 != id);
                                        if id != 0 {
                                            self.sector_claims.borrow_mut().entry((call["m"].as_str().unwrap().to_string(), u["n"].as_u64().unwrap())).or_default().push(id);
                                        }
                                    }
                                }
                            }
                        }
                        o
                    }
                    "Compact" => self.v.run_p(&from, &maddr, &zero, MinerMethod::CompactPartitions as u64,
                        &CompactPartitionsParams { deadline: call["dl"].as_u64().unwrap(), partitions: bf(&call["parts"]) }),
                    "Withdraw" => {
                        // "all": far more than the miner holds (everything available is paid out)
                        let amount = if call["all"].as_bool().unwrap_or(false) { TokenAmount::from_whole(1_000_000_000) }
                                     else { TokenAmount::from_nano(call["nano"].as_i64().unwrap()) };
                        ev["req"] = big(&amount);
                        self.v.run_p(&from, &maddr, &zero, MinerMethod::WithdrawBalance as u64,
                            &WithdrawBalanceParams { amount_requested: amount })
                    }
                    "RepayDebt" => self.v.run(&from, &maddr, &zero, MinerMethod::RepayDebt as u64, None),
                    "ReportFault" => {
                        // the consensus-fault oracle answers what the driver decided
                        let fe = self.v.epoch() - call["age"].as_i64().unwrap();
                        *self.v.consensus_fault.borrow_mut() = if call["proven"].as_bool().unwrap_or(true) {
                            Some(fvm_shared::consensus::ConsensusFault {
                                target: self.names[call["target"].as_str().unwrap_or(m)],
                                epoch: fe,
                                fault_type: fvm_shared::consensus::ConsensusFaultType::DoubleForkMining,
                            })
                        } else {
                            None
                        };
                        if call["failSend"].as_bool().unwrap_or(false) {
                            self.v.clear_faults();
                            self.v.add_fault(FaultRule { from_type: Some(fil_actors_runtime::runtime::builtins::Type::Miner),
                                to: Some(self.names["rep"].id().unwrap()), times: 1, ..Default::default() });
                        }
                        let rew: fil_actor_reward::State = self.v.state(&REWARD_ACTOR_ADDR).unwrap();
                        let this_epoch_reward = TokenAmount::from_atto(rew.this_epoch_reward_smoothed.estimate());
                        ev["cfPenalty"] = big(&fil_actor_miner::consensus_fault_penalty(this_epoch_reward));
                        let o = self.v.run_p(&self.names["rep"], &maddr, &zero, MinerMethod::ReportConsensusFault as u64,
                            &fil_actor_miner::ReportConsensusFaultParams { header1: vec![1], header2: vec![2], header_extra: vec![] });
                        self.v.clear_faults();
                        o
                    }
                    "Dispute" => {
                        let params = fil_actor_miner::DisputeWindowedPoStParams { deadline: call["dl"].as_u64().unwrap(), post_index: call["idx"].as_u64().unwrap() };
                        if call["failSend"].as_bool().unwrap_or(false) {
                            // twin execution: what the same dispute charges when the disputer CAN be paid
                            // (run on a checkpoint and rolled back); then the real one with the transfer failing
                            let root = self.v.checkpoint();
                            let epoch0 = self.v.epoch();
                            let debt0 = self.mstate(m).fee_debt;
                            let twin = self.v.run_p(&self.names["rep"], &maddr, &zero, MinerMethod::DisputeWindowedPoSt as u64, &params);
                            if twin.ok() {
                                let mut tr = vec![];
                                twin.inv.effective_transfers(&mut tr);
                                let mid = maddr.id().unwrap();
                                let out: TokenAmount = tr.iter().filter(|(f, _, _)| *f == mid).map(|(_, _, a)| a.clone()).sum();
                                ev["twinCharged"] = big(&(out + self.mstate(m).fee_debt - debt0));
                            }
                            self.v.rollback(root);
                            assert_eq!(self.v.epoch(), epoch0);
                            self.v.clear_faults();
                            self.v.add_fault(FaultRule { from_type: Some(fil_actors_runtime::runtime::builtins::Type::Miner),
                                to: Some(self.names["rep"].id().unwrap()), times: 1, ..Default::default() });
                        }
                        let o = self.v.run_p(&self.names["rep"], &maddr, &zero, MinerMethod::DisputeWindowedPoSt as u64, &params);
                        self.v.clear_faults();
                        o
                    }
                    _ => panic!("unknown call {a}"),
                }
            }
        };
        if a == "PoSt" && o.ok() && call["badProof"].as_bool().unwrap_or(false) {
            self.bad_posts.borrow_mut().push((call["m"].as_str().unwrap().to_string(), call["dl"].as_u64().unwrap()));
        }
        ev["ok"] = json!(o.ok());
        ev["class"] = json!(o.class());
        ev["code"] = json!(o.code.value());
        ev["msg"] = json!(o.message.chars().take(200).collect::<String>());
        ev["tr"] = if o.ok() { self.transfers(&o) } else { json!([]) };
        ev["fails"] = self.failures(&o);
        ev["st"] = self.project();
        ev
    }
}

fn store_get<T: serde::de::DeserializeOwned>(store: &impl fvm_ipld_blockstore::Blockstore, c: &cid::Cid) -> T {
    use fvm_ipld_encoding::CborStore;
    store.get_cbor(c).unwrap().unwrap()
}

// ---------------------------------------------------------------------------------------------
// guided random schedules

struct View {
    st: Value,
}
impl View {
    fn miner(&self, m: &str) -> &Value {
        self.st["miners"].as_array().unwrap().iter().find(|x| x["m"] == json!(m)).unwrap()
    }
}

fn dl_open(pps: i64, d: i64, w: i64) -> i64 {
    pps + d * w
}

/// One sector of a miner as the generator sees it.
#[derive(Clone, Debug)]
struct SecView {
    n: u64,
    dl: i64,
    p: u64,
    exp: i64,
    vw: i64,
    unproven: bool,
    faulty: bool,
    recovering: bool,
    term: bool,
}
impl SecView {
    fn active(&self) -> bool {
        !self.unproven && !self.faulty && !self.term
    }
    fn live(&self) -> bool {
        !self.term
    }
}
fn sec_views(ms: &Value) -> Vec<SecView> {
    let mut out = vec![];
    let infos = ms["sectors"].as_array().unwrap();
    for d in ms["dls"].as_array().unwrap() {
        for p in d["parts"].as_array().unwrap() {
            let has = |k: &str, n: u64| p[k].as_array().unwrap().iter().any(|x| x.as_u64() == Some(n));
            for x in p["S"].as_array().unwrap() {
                let n = x.as_u64().unwrap();
                let info = infos.iter().find(|s| s["n"].as_u64() == Some(n));
                out.push(SecView { n, dl: d["d"].as_i64().unwrap(), p: p["i"].as_u64().unwrap(),
                    exp: info.map(|s| s["exp"].as_i64().unwrap()).unwrap_or(0),
                    vw: info.map(|s| s["vw"].as_i64().unwrap()).unwrap_or(0),
                    unproven: has("U", n), faulty: has("F", n), recovering: has("R", n), term: has("T", n) });
            }
        }
    }
    out
}

/// Goal-directed part of the generator: rare-but-valid configurations that purely random schedules almost never
/// reach in the quick volume (batches spanning several deadlines with non-zero deltas, verified data snapped into
/// committed-capacity sectors, claim drops at the end of a sector's life, ...).  A goal looks at the projected state
/// and returns the next call towards it (or None when it is reached / has become unreachable); the random
/// generator continues afterwards from whatever state that produced.
fn goal_call(rng: &mut Rng, w: &World, policy: &Policy, view: &View) -> Option<Value> {
    let goal = w.goals.borrow().first().cloned()?;
    let m = "m1";
    let ms = view.miner(m);
    let epoch = view.st["epoch"].as_i64().unwrap();
    let wdw = policy.wpost_challenge_window;
    let nd = policy.wpost_period_deadlines as i64;
    let period = policy.wpost_proving_period;
    let pps = ms["pps"].as_i64().unwrap();
    let cur = (((epoch - pps) % period + period) % period) / wdw;
    let into = ((epoch - pps) % wdw + wdw) % wdw;
    let secs = sec_views(ms);
    let mutable = |d: i64| d != cur && d != (cur + 1) % nd;
    let done = |w: &World| { w.goals.borrow_mut().remove(0); w.goal_state.set(0); };
    let alloc: Vec<u64> = ms["alloc"].as_array().unwrap().iter().map(|x| x.as_u64().unwrap()).collect();
    let fresh_numbers = |k: usize| -> Vec<u64> { (0..200u64).filter(|x| !alloc.contains(x)).take(k).collect() };
    // the miner proves everything that is due (valid proofs, nothing skipped) while a goal is pursued
    if epoch >= pps && !(w.neglect.get()) {
        let posted: Vec<u64> = ms["dls"].as_array().unwrap()[cur as usize]["posted"].as_array().unwrap().iter().map(|x| x.as_u64().unwrap()).collect();
        let mut open: Vec<u64> = secs.iter().filter(|s| s.dl == cur && s.live() && (!s.faulty || s.recovering) && !posted.contains(&s.p)).map(|s| s.p).collect();
        open.sort();
        open.dedup();
        open.truncate(2);
        if !open.is_empty() {
            return Some(json!({"a": "PoSt", "m": m, "c": "worker", "dl": cur, "badProof": false,
                               "parts": open.iter().map(|i| json!({"i": i, "skipped": []})).collect::<Vec<_>>()}));
        }
    }
    let wait = || -> Value { json!({"a": "Tick", "n": (wdw - into).max(1)}) };
    match goal.as_str() {
        // verified data snapped into committed-capacity sectors of TWO deadlines by ONE ProveReplicaUpdates3
        "ru-multi" => {
            let cc: Vec<&SecView> = secs.iter().filter(|s| s.active() && s.vw == 0 && !w.updated.borrow().contains(&s.n) && s.exp - epoch > 40).collect();
            let mut dls: Vec<i64> = cc.iter().map(|s| s.dl).collect();
            dls.sort();
            dls.dedup();
            let live_dls: Vec<i64> = { let mut v: Vec<i64> = secs.iter().filter(|s| s.live() && s.exp - epoch > 40).map(|s| s.dl).collect(); v.sort(); v.dedup(); v };
            if dls.len() >= 2 {
                let a = (cur + 2) % nd;
                let b = (cur + 3) % nd;
                if !(dls.contains(&a) && dls.contains(&b)) {
                    // the two mutable deadlines are not (yet) two deadlines with updatable sectors
                    if dls.iter().filter(|d| mutable(**d)).count() >= 2 { /* cannot happen with 4 deadlines */ }
                    return Some(wait());
                }
                let mut targets: Vec<&SecView> = vec![];
                for d in [a, b] {
                    let mut k = 0;
                    for s in cc.iter().filter(|s| s.dl == d) {
                        if k < 1 + rng.below(2) as usize { targets.push(s); k += 1; }
                    }
                }
                let have: Vec<(u64, String, String, u64)> = w.allocs.borrow().iter().filter(|a| a.1 == m && a.3 == 2048).cloned().collect();
                if have.len() < targets.len() {
                    let mut pieces = vec![];
                    for _ in 0..(targets.len() - have.len()) {
                        let k = w.piece_serial.get();
                        w.piece_serial.set(k + 1);
                        pieces.push(json!({"data": format!("pc{k}"), "size": 2048}));
                    }
                    return Some(json!({"a": "Alloc", "m": m, "pieces": pieces, "tmin": 24, "tmax": 4000, "exp": epoch + 50}));
                }
                let ups: Vec<Value> = targets.iter().zip(have.iter()).map(|(s, a)| json!({"n": s.n, "dl": s.dl, "p": s.p,
                    "pieces": [{"data": a.2, "size": a.3, "id": a.0}]})).collect();
                done(w);
                return Some(json!({"a": "ReplicaUpdate", "m": m, "c": "worker", "ups": ups, "requireAll": rng.chance(30)}));
            }
            if live_dls.len() < 2 {
                // commit two sectors into a mutable deadline that holds none yet (long-lived enough for the claims)
                let d = if !live_dls.contains(&((cur + 2) % nd)) { (cur + 2) % nd } else { (cur + 3) % nd };
                // (three sectors: two partitions per deadline)
                let ns = fresh_numbers(3);
                let exp = epoch + policy.min_sector_expiration + 2 * period + rng.range(0, 30);
                return Some(json!({"a": "CommitNI", "m": m, "c": "worker", "dl": d, "requireAll": true,
                                   "sectors": ns.iter().map(|n| json!({"n": n, "exp": exp})).collect::<Vec<_>>()}));
            }
            // (poor miners cannot afford the pledge; give up after a while)
            if epoch > 400 { done(w); return None; }
            Some(wait())
        }
        // ONE ExtendSectorExpiration2 over sectors with claims in two deadlines, dropping a claim in the first
        "ext-multi" => {
            let sc = w.sector_claims.borrow();
            let mut with: Vec<&SecView> = secs.iter().filter(|s| s.active() && s.vw > 0 && sc.contains_key(&(m.to_string(), s.n))).collect();
            with.sort_by_key(|s| (s.dl, s.n));
            let mut dls: Vec<i64> = with.iter().map(|s| s.dl).collect();
            dls.dedup();
            if dls.len() < 2 { drop(sc); done(w); return None; }
            let first = *with.iter().min_by_key(|s| (s.exp, s.n)).unwrap();
            let second = *with.iter().filter(|s| s.dl != first.dl).min_by_key(|s| (s.exp, s.n)).unwrap();
            // the second sector keeps its claims two times out of three, else drops them as well
            let keep = (first.n + second.n) % 3 != 0;
            let gate = if keep { first.exp } else { first.exp.max(second.exp) };
            if gate - epoch >= policy.end_of_life_claim_drop_period {
                return Some(json!({"a": "Tick", "n": (gate - epoch - policy.end_of_life_claim_drop_period + 1).min((wdw - into).max(1))}));
            }
            // every partition of the two deadlines gets a declaration (the first sector's partition first): sectors with
            // claims declare them -- `first` drops, `second` keeps or drops, the others keep --, the rest are plain
            let all: Vec<&SecView> = secs.iter().filter(|s| s.active() && (s.dl == first.dl || s.dl == second.dl)).collect();
            let new_exp = all.iter().map(|s| s.exp).max().unwrap() + *rng.pick(&[24, 48, 30]);
            let mut groups: Vec<(i64, u64)> = all.iter().map(|s| (s.dl, s.p)).collect();
            groups.sort();
            groups.dedup();
            groups.sort_by_key(|g| (*g != (first.dl, first.p), g.0 != first.dl, *g));
            let mut decls = vec![];
            for g in groups {
                let mut plain = vec![];
                let mut claims = vec![];
                for s2 in all.iter().filter(|s| (s.dl, s.p) == g) {
                    match sc.get(&(m.to_string(), s2.n)) {
                        Some(ids) if s2.vw > 0 => {
                            let dropit = s2.n == first.n || (s2.n == second.n && !keep);
                            claims.push(json!({"n": s2.n, "maintain": if dropit { vec![] } else { ids.clone() }, "drop": if dropit { ids.clone() } else { vec![] }}));
                        }
                        _ => plain.push(s2.n),
                    }
                }
                let mut d = json!({"dl": g.0, "p": g.1, "s": plain, "exp": new_exp});
                if !claims.is_empty() { d["claims"] = json!(claims); }
                decls.push(d);
            }
            drop(sc);
            done(w);
            Some(json!({"a": "Extend", "m": m, "c": "worker", "decls": decls}))
        }
        // a termination backlog (more early terminations at one deadline end than one callback may process) that is
        // still being worked off when the deadline becomes available for compaction; then CompactPartitions naming a
        // partition that has no pending terminations itself
        "backlog-compact" => {
            let st = w.goal_state.get();
            let d = w.goal_dl.get();
            let mine: Vec<&SecView> = secs.iter().filter(|s| s.dl == d).collect();
            match st {
                0..=3 => {
                    // four batches of 8 sectors into the farthest mutable deadline
                    let d = if st == 0 { (cur + 3) % nd } else { d };
                    if !mutable(d) { done(w); return None; }
                    w.goal_dl.set(d);
                    w.goal_state.set(st + 1);
                    let ns = fresh_numbers(8);
                    let exp = epoch + policy.min_sector_expiration + 6 * period;
                    Some(json!({"a": "CommitNI", "m": m, "c": "worker", "dl": d, "requireAll": true,
                                "sectors": ns.iter().map(|n| json!({"n": n, "exp": exp})).collect::<Vec<_>>()}))
                }
                4 => {
                    // partition 0 is terminated by hand (and paid for at once); from now on the miner proves nothing
                    w.goal_state.set(5);
                    w.neglect.set(true);
                    let p0: Vec<u64> = mine.iter().filter(|s| s.p == 0 && s.live()).map(|s| s.n).collect();
                    if p0.is_empty() || !mutable(d) { done(w); return None; }
                    Some(json!({"a": "Terminate", "m": m, "c": "worker", "decls": [{"dl": d, "p": 0, "s": p0}]}))
                }
                _ => {
                    let pending = ms["dls"].as_array().unwrap()[d as usize]["early"].as_array().unwrap().len();
                    let live = mine.iter().filter(|s| s.live()).count();
                    if live == 0 && pending == 0 { done(w); w.neglect.set(false); return None; }
                    if pending > 0 {
                        // the epochs since the deadline closed
                        let since = (epoch - pps - (d + 1) * wdw).rem_euclid(period);
                        if since >= policy.wpost_dispute_window && mutable(d) {
                            done(w);
                            w.neglect.set(false);
                            return Some(json!({"a": "Compact", "m": m, "c": "worker", "dl": d, "parts": [0]}));
                        }
                        return Some(json!({"a": "Tick", "n": 1}));
                    }
                    if epoch > 600 { done(w); w.neglect.set(false); return None; }
                    Some(wait())
                }
            }
        }
        // a miner that holds nothing but its collateral, neglects its sectors and receives small amounts at odd moments:
        // penalties turn into fee debt, part of which each deadline callback repays from whatever has arrived
        "debt-timeout" => {
            let st = w.goal_state.get();
            match st {
                0 => {
                    w.goal_state.set(1);
                    let ns = fresh_numbers(2);
                    let exp = epoch + policy.min_sector_expiration + 8 * period;
                    Some(json!({"a": "CommitNI", "m": m, "c": "worker", "dl": (cur + 2) % nd, "requireAll": true,
                                "sectors": ns.iter().map(|n| json!({"n": n, "exp": exp})).collect::<Vec<_>>()}))
                }
                1 => {
                    w.goal_state.set(2);
                    w.neglect.set(true);
                    w.goal_dl.set(epoch);
                    Some(json!({"a": "Withdraw", "m": m, "c": "owner", "nano": 0, "all": true}))
                }
                2 => {
                    w.goal_state.set(3);
                    Some(json!({"a": "Tick", "n": 2}))
                }
                3 => {
                    // a consensus-fault report: the penalty exceeds everything the miner holds and becomes fee debt
                    w.goal_state.set(4);
                    Some(json!({"a": "ReportFault", "m": m, "age": 1, "proven": true, "failSend": false, "target": m}))
                }
                5 => {
                    // (after a top-up that just covers the debt) a pre-commitment whose deposit the top-up does not cover on top of the debt
                    // (refused for lack of funds, the debt stays) ...
                    w.goal_state.set(6);
                    let n = fresh_numbers(1)[0];
                    let exp = epoch + 30 * 2880 + policy.pre_commit_challenge_delay + policy.min_sector_expiration + 5;
                    Some(json!({"a": "PreCommit", "m": m, "c": "worker", "sectors": [{"n": n, "exp": exp}]}))
                }
                6 => {
                    // ... then a withdrawal that pays out nothing or next to nothing
                    w.goal_state.set(4);
                    Some(json!({"a": "Withdraw", "m": m, "c": "owner", "nano": *rng.pick(&[0, 0, 1])}))
                }
                _ => {
                    let limbs = ms["debt"].as_array().unwrap();
                    // (the recipe ends some time after the time-out, once the debt has been dealt with)
                    if epoch - w.goal_dl.get() > 4 * period + 12 || (secs.iter().all(|s| !s.live()) && limbs.len() <= 1) { done(w); w.neglect.set(false); return None; }
                    // (only after the fault time-out two and a half periods in, so that the time-out meets the debt)
                    if limbs.len() > 1 && epoch - w.goal_dl.get() > 2 * period + 18 && rng.chance(25) {
                        let mut debt: u128 = 0;
                        for x in limbs.iter().skip(1).rev() {
                            debt = debt * 10_000 + x.as_u64().unwrap() as u128;
                        }
                        let whole = (debt / 1_000_000_000_000_000_000) as i64;
                        let nano = ((debt % 1_000_000_000_000_000_000) / 1_000_000_000) as i64 + 1;
                        w.goal_state.set(5);
                        return Some(json!({"a": "Fund", "m": m, "whole": whole, "nano": nano}));
                    }
                    if rng.chance(45) {
                        Some(json!({"a": "Fund", "m": m, "nano": *rng.pick(&[1, 1, 50, 1000, 100_000])}))
                    } else {
                        Some(json!({"a": "Tick", "n": *rng.pick(&[1, 1, 2, 3, (wdw - into).max(1)])}))
                    }
                }
            }
        }
        _ => { done(w); None }
    }
}

fn random_call(rng: &mut Rng, w: &World, policy: &Policy) -> Value {
    let view = View { st: w.project() };
    if let Some(c) = goal_call(rng, w, policy, &view) {
        return c;
    }
    let epoch = view.st["epoch"].as_i64().unwrap();
    let m = rng.pick(&w.miners).clone();
    let ms = view.miner(&m);
    let wdw = policy.wpost_challenge_window;
    let nd = policy.wpost_period_deadlines as i64;
    let pps = ms["pps"].as_i64().unwrap();
    let period = policy.wpost_proving_period;
    let cur = (((epoch - pps) % period + period) % period) / wdw;
    let alloc: Vec<u64> = ms["alloc"].as_array().unwrap().iter().map(|x| x.as_u64().unwrap()).collect();
    let pre: Vec<u64> = ms["pre"].as_array().unwrap().iter().map(|x| x["n"].as_u64().unwrap()).collect();
    if let Some(pm) = w.pending_w0.borrow_mut().take() {
        return json!({"a": "Withdraw", "m": pm, "c": "owner", "nano": *rng.pick(&[0, 0, 1, 1_000_000_000])});
    }
    // a miner in fee debt: top it up now and then (the next call withdraws before the cron can repay the debt)
    if ms["debt"].as_array().unwrap().len() > 1 && rng.chance(12) {
        *w.pending_w0.borrow_mut() = Some(m.clone());
        // (enough to cover the whole debt -- a withdrawal aborts otherwise -- or, rarely, too little)
        let limbs = ms["debt"].as_array().unwrap();
        let mut debt: u128 = 0;
        for x in limbs.iter().skip(1).rev() {
            debt = debt * 10_000 + x.as_u64().unwrap() as u128;
        }
        let need = (debt / 1_000_000_000) as i64 + 1;
        return json!({"a": "Fund", "m": m, "nano": *rng.pick(&[need, need, need + 1000, need + 50_000_000, 1000])});
    }
    let who = if rng.chance(6) { "x" } else if rng.chance(30) { "owner" } else { "worker" };
    // all (deadline, partition, sector sets)
    let mut parts: Vec<(i64, u64, Vec<u64>, Vec<u64>, Vec<u64>, Vec<u64>, Vec<u64>)> = vec![];
    for d in ms["dls"].as_array().unwrap() {
        for p in d["parts"].as_array().unwrap() {
            let g = |k: &str| -> Vec<u64> { p[k].as_array().unwrap().iter().map(|x| x.as_u64().unwrap()).collect() };
            parts.push((d["d"].as_i64().unwrap(), p["i"].as_u64().unwrap(), g("S"), g("U"), g("F"), g("R"), g("T")));
        }
    }
    let subset = |rng: &mut Rng, v: &Vec<u64>| -> Vec<u64> {
        let mut out: Vec<u64> = v.iter().filter(|_| rng.chance(55)).cloned().collect();
        if out.is_empty() && !v.is_empty() {
            out.push(*rng.pick(v));
        }
        out
    };
    // a PoSt opportunity: the current deadline has an un-posted partition with something to prove
    {
        let posted: Vec<u64> = ms["dls"].as_array().unwrap()[cur as usize]["posted"].as_array().unwrap().iter().map(|x| x.as_u64().unwrap()).collect();
        let open: Vec<_> = parts.iter().filter(|p| p.0 == cur && !posted.contains(&p.1)
            && p.2.iter().any(|s| !p.6.contains(s) && (!p.4.contains(s) || p.5.contains(s)))).collect();
        if !open.is_empty() && epoch >= pps && rng.chance(70) && !(w.neglect.get() && m == "m1") {
            let mut sel = vec![];
            for p in &open {
                if rng.chance(85) {
                    let live: Vec<u64> = p.2.iter().filter(|s| !p.6.contains(s)).cloned().collect();
                    let skipped = if rng.chance(20) { subset(rng, &live) } else { vec![] };
                    sel.push(json!({"i": p.1, "skipped": skipped}));
                }
            }
            if !sel.is_empty() {
                return json!({"a": "PoSt", "m": m, "c": "worker", "dl": cur, "parts": sel, "badProof": rng.chance(18)});
            }
        }
    }
    if rng.chance(9) {
        // non-interactive commit: short-lived sectors straight into a chosen deadline
        let cnt = if w.neglect.get() { rng.range(2, 6) } else { rng.range(1, 3) };
        let mut sectors = vec![];
        for _ in 0..cnt {
            let n = if rng.chance(88) {
                (0..60u64).find(|x| !alloc.contains(x) && !sectors.iter().any(|s: &Value| s["n"] == json!(x))).unwrap_or(61)
            } else { rng.range(0, 6) as u64 };
            sectors.push(json!({"n": n, "exp": epoch + policy.min_sector_expiration + *rng.pick(&[0, 0, 1, 7, 24, 30, -1])}));
        }
        let d = if rng.chance(80) { (cur + 2 + rng.range(0, 1)) % nd } else { rng.range(0, nd - 1) };
        return json!({"a": "CommitNI", "m": m, "c": who, "sectors": sectors, "dl": d, "requireAll": rng.chance(30)});
    }
    let k = rng.below(100);
    if k < 12 {
        // pre-commit 1-3 new (or occasionally used) sector numbers
        let cnt = rng.range(1, 3);
        let mut sectors = vec![];
        for _ in 0..cnt {
            let n = if rng.chance(85) {
                (0..40u64).find(|x| !alloc.contains(x) && !sectors.iter().any(|s: &Value| s["n"] == json!(x))).unwrap_or(41)
            } else {
                rng.range(0, 6) as u64
            };
            let min_exp = epoch + 30 * 2880 + policy.pre_commit_challenge_delay + policy.min_sector_expiration;
            let exp = min_exp + *rng.pick(&[0, 1, 5, 24, 100, -1, 3 * 24]);
            sectors.push(json!({"n": n, "exp": exp}));
        }
        return json!({"a": "PreCommit", "m": m, "c": who, "sectors": sectors});
    }
    if k < 24 && !pre.is_empty() {
        let mut ns = subset(rng, &pre);
        if rng.chance(10) {
            ns.push(rng.range(0, 8) as u64);
        }
        ns.sort();
        ns.dedup();
        return json!({"a": "ProveCommit", "m": m, "c": who, "ns": ns, "requireAll": rng.chance(30)});
    }
    if (24..30).contains(&k) && !(w.neglect.get() && m == "m1") {
        // PoSt for the current deadline (or, rarely, another one)
        let d = if rng.chance(90) { cur } else { rng.range(0, nd - 1) };
        let ps: Vec<&(i64, u64, Vec<u64>, Vec<u64>, Vec<u64>, Vec<u64>, Vec<u64>)> = parts.iter().filter(|p| p.0 == d).collect();
        if !ps.is_empty() {
            let posted: Vec<u64> = ms["dls"].as_array().unwrap()[d as usize]["posted"].as_array().unwrap().iter().map(|x| x.as_u64().unwrap()).collect();
            let mut sel = vec![];
            for p in &ps {
                let provable = p.2.iter().any(|s| !p.6.contains(s) && (!p.4.contains(s) || p.5.contains(s)));
                if (rng.chance(85) && !posted.contains(&p.1) && provable) || rng.chance(4) {
                    let live: Vec<u64> = p.2.iter().filter(|s| !p.6.contains(s)).cloned().collect();
                    let skipped = if rng.chance(25) { subset(rng, &live) } else { vec![] };
                    sel.push(json!({"i": p.1, "skipped": skipped}));
                }
            }
            if !sel.is_empty() {
                return json!({"a": "PoSt", "m": m, "c": who, "dl": d, "parts": sel, "badProof": rng.chance(8)});
            }
        }
    }
    if (50..56).contains(&k) && !parts.is_empty() {
        let p = rng.pick(&parts);
        let live: Vec<u64> = p.2.iter().filter(|s| !p.6.contains(s)).cloned().collect();
        if !live.is_empty() {
            return json!({"a": "DeclareFaults", "m": m, "c": who, "decls": [{"dl": p.0, "p": p.1, "s": subset(rng, &live)}]});
        }
    }
    if (56..64).contains(&k) && !parts.is_empty() {
        let cands: Vec<_> = parts.iter().filter(|p| !p.4.is_empty()).collect();
        if !cands.is_empty() {
            let p = rng.pick(&cands);
            return json!({"a": "DeclareRecovered", "m": m, "c": who, "decls": [{"dl": p.0, "p": p.1, "s": subset(rng, &p.4)}]});
        }
    }
    if (64..67).contains(&k) && !parts.is_empty() {
        // one declaration, or (a third of the time) one declaration per partition over several deadlines
        let mut decls = vec![];
        let many = rng.chance(35);
        let first = rng.pick(&parts).clone();
        for p in parts.iter() {
            // (a declaration for the open or the next deadline makes the code reject the whole message)
            let mutable = p.0 != cur && p.0 != (cur + 1) % nd;
            let chosen = if many { rng.chance(70) && (mutable || rng.chance(10)) } else { p.0 == first.0 && p.1 == first.1 };
            let live: Vec<u64> = p.2.iter().filter(|s| !p.6.contains(s)).cloned().collect();
            if chosen && !live.is_empty() {
                decls.push(json!({"dl": p.0, "p": p.1, "s": subset(rng, &live)}));
            }
        }
        if !decls.is_empty() {
            return json!({"a": "Terminate", "m": m, "c": who, "decls": decls});
        }
    }
    if (67..71).contains(&k) && !parts.is_empty() {
        // extension, valid by construction most of the time: one to three partitions (often of ONE deadline, sometimes of
        // several) extended to ONE new expiration; sectors with verified data declare their claims (kept, or dropped at
        // the end of their life)
        let svs = sec_views(ms);
        let act: Vec<&SecView> = svs.iter().filter(|s| s.active() && s.exp >= epoch).collect();
        if !act.is_empty() {
            let mut groups: Vec<(i64, u64)> = act.iter().map(|s| (s.dl, s.p)).collect();
            groups.sort();
            groups.dedup();
            let first = *rng.pick(&groups);
            let same_dl: Vec<(i64, u64)> = groups.iter().filter(|g| g.0 == first.0 && **g != first).cloned().collect();
            let other: Vec<(i64, u64)> = groups.iter().filter(|g| g.0 != first.0).cloned().collect();
            let mut chosen = vec![first];
            if !same_dl.is_empty() && rng.chance(60) { chosen.push(*rng.pick(&same_dl)); }
            if !other.is_empty() && rng.chance(35) { chosen.push(*rng.pick(&other)); }
            let max_exp = act.iter().filter(|s| chosen.contains(&(s.dl, s.p))).map(|s| s.exp).max().unwrap();
            let new_exp = max_exp + *rng.pick(&[0, 1, 24, 48, 24, 1000, -1]);
            let sc = w.sector_claims.borrow();
            let mut decls = vec![];
            for g in &chosen {
                let mut plain = vec![];
                let mut claims = vec![];
                for s in act.iter().filter(|s| (s.dl, s.p) == *g) {
                    if !rng.chance(80) { continue; }
                    match sc.get(&(m.clone(), s.n)) {
                        Some(ids) if s.vw > 0 => {
                            let drop = s.exp - epoch < policy.end_of_life_claim_drop_period && rng.chance(50);
                            claims.push(json!({"n": s.n, "maintain": if drop { vec![] } else { ids.clone() }, "drop": if drop { ids.clone() } else { vec![] }}));
                        }
                        _ => plain.push(s.n),
                    }
                }
                if plain.is_empty() && claims.is_empty() { continue; }
                let mut d = json!({"dl": g.0, "p": g.1, "s": plain, "exp": new_exp});
                if !claims.is_empty() { d["claims"] = json!(claims); }
                decls.push(d);
            }
            if !decls.is_empty() {
                return json!({"a": "Extend", "m": m, "c": who, "decls": decls});
            }
        }
        let p = rng.pick(&parts);
        let live: Vec<u64> = p.2.iter().filter(|s| !p.6.contains(s)).cloned().collect();
        if !live.is_empty() {
            let ss = subset(rng, &live);
            let cur_exp = ms["sectors"].as_array().unwrap().iter().find(|s| s["n"] == json!(ss[0])).map(|s| s["exp"].as_i64().unwrap()).unwrap_or(epoch);
            return json!({"a": "Extend", "m": m, "c": who, "decls": [{"dl": p.0, "p": p.1, "s": ss,
                          "exp": cur_exp + *rng.pick(&[0, 1, 24, 48, 1000, -1])}]});
        }
    }
    if (73..76).contains(&k) {
        // verified data for a committed-capacity sector now and then (outside the goal-directed traces too)
        let svs = sec_views(ms);
        let cc: Vec<&SecView> = svs.iter().filter(|s| s.active() && s.vw == 0 && !w.updated.borrow().contains(&s.n)
            && s.dl != cur && s.dl != (cur + 1) % nd && s.exp - epoch > 30).collect();
        if !cc.is_empty() {
            let have: Vec<(u64, String, String, u64)> = w.allocs.borrow().iter().filter(|a| a.1 == m).cloned().collect();
            if have.is_empty() {
                let kser = w.piece_serial.get();
                w.piece_serial.set(kser + 1);
                return json!({"a": "Alloc", "m": m, "pieces": [{"data": format!("pc{kser}"), "size": *rng.pick(&[2048, 2048, 1024])}],
                              "tmin": 24, "tmax": *rng.pick(&[4000, 4000, 100]), "exp": epoch + *rng.pick(&[50, 50, 10])});
            }
            let s = *rng.pick(&cc);
            let a = rng.pick(&have).clone();
            // the same sector may be named twice, a piece may come without an allocation, rarely
            let mut ups = vec![json!({"n": s.n, "dl": s.dl, "p": s.p, "pieces": [{"data": a.2, "size": a.3, "id": if rng.chance(92) { a.0 } else { 0 }}]})];
            if cc.len() > 1 && rng.chance(30) {
                let s2 = *rng.pick(&cc);
                ups.push(json!({"n": s2.n, "dl": s2.dl, "p": s2.p, "pieces": []}));
            }
            return json!({"a": "ReplicaUpdate", "m": m, "c": who, "ups": ups, "requireAll": rng.chance(30)});
        }
    }
    if (71..73).contains(&k) && !parts.is_empty() {
        // compaction: mostly of a deadline that is available for it (mutable, its dispute window over), naming one or
        // two partitions without unproven or faulty sectors
        let since = |d: i64| (epoch - pps - (d + 1) * wdw).rem_euclid(period);
        let ok: Vec<&(i64, u64, Vec<u64>, Vec<u64>, Vec<u64>, Vec<u64>, Vec<u64>)> = parts.iter()
            .filter(|p| p.0 != cur && p.0 != (cur + 1) % nd && since(p.0) >= policy.wpost_dispute_window && p.3.is_empty() && p.4.is_empty()).collect();
        if !ok.is_empty() && rng.chance(85) {
            let p = *rng.pick(&ok);
            let mut ps = vec![p.1];
            if let Some(q) = ok.iter().find(|q| q.0 == p.0 && q.1 != p.1) {
                if rng.chance(50) { ps.push(q.1); }
            }
            return json!({"a": "Compact", "m": m, "c": who, "dl": p.0, "parts": ps});
        }
        let p = rng.pick(&parts);
        return json!({"a": "Compact", "m": m, "c": who, "dl": p.0, "parts": [p.1]});
    }
    if (80..84).contains(&k) {
        return json!({"a": "Reward", "m": m, "wins": rng.range(1, 2), "penalty": if rng.chance(20) { rng.range(1, 1_000_000_000) } else { 0 },
                      "gas": rng.range(0, 1000)});
    }
    if (84..87).contains(&k) {
        return json!({"a": "Withdraw", "m": m, "c": if rng.chance(80) {"owner"} else {"worker"}, "nano": *rng.pick(&[0, 1, 1000, 1_000_000_000])});
    }
    if (87..88).contains(&k) {
        return json!({"a": "RepayDebt", "m": m, "c": who});
    }
    if (88..90).contains(&k) {
        let some = rng.range(1, 1_000_000);
        return json!({"a": "Fund", "m": m, "nano": *rng.pick(&[1, 1000, 1_000_000, 50_000_000, some])});
    }
    if (91..93).contains(&k) {
        return json!({"a": "ReportFault", "m": m, "age": *rng.pick(&[1, 1, 2, 0, 5]), "proven": rng.chance(90),
                      "failSend": rng.chance(30), "target": if rng.chance(92) { m.clone() } else { "m1".to_string() }});
    }
    // a dispute opportunity: an invalid proof of this miner was accepted optimistically and its deadline has closed
    let aimed = w.bad_posts.borrow().iter().any(|(bm, bd)| *bm == m && *bd as i64 != cur) && rng.chance(50);
    if aimed || (93..95).contains(&k) {
        // mostly aimed at a deadline for which an invalid proof was accepted optimistically
        let cands: Vec<(String, u64)> = w.bad_posts.borrow().iter().filter(|(bm, _)| !aimed || *bm == m).cloned().collect();
        if !cands.is_empty() && (aimed || rng.chance(80)) {
            let (bm, bd) = rng.pick(&cands).clone();
            // now and then a sector of the disputed deadline loses its power first (declared faulty or
            // terminated between the proof and the dispute)
            if bm == m && rng.chance(35) {
                if let Some(p) = parts.iter().find(|p| p.0 == bd as i64) {
                    let live: Vec<u64> = p.2.iter().filter(|s| !p.6.contains(s) && !p.4.contains(s)).cloned().collect();
                    if !live.is_empty() {
                        let a = if rng.chance(50) { "DeclareFaults" } else { "Terminate" };
                        return json!({"a": a, "m": m, "c": who, "decls": [{"dl": p.0, "p": p.1, "s": vec![live[0]]}]});
                    }
                }
            }
            if rng.chance(50) {
                w.bad_posts.borrow_mut().retain(|(x, y)| !(*x == bm && *y == bd));   // give up on it after a try or two
            }
            return json!({"a": "Dispute", "m": bm, "dl": bd, "idx": if rng.chance(85) { 0 } else { 1 }, "failSend": rng.chance(35)});
        }
        return json!({"a": "Dispute", "m": m, "dl": rng.range(0, nd - 1), "idx": rng.range(0, 1), "failSend": false});
    }
    if (90..91).contains(&k) {
        return json!({"a": "Fault", "site": *rng.pick(&["reward->miner", "cron->market", "miner->market"])});
    }
    // advance time: usually to just before / at / after a deadline boundary
    let into = ((epoch - pps) % wdw + wdw) % wdw;
    let to_boundary = (wdw - into).max(1);
    let mut n = *rng.pick(&[1, 1, 2, to_boundary - 1, to_boundary, to_boundary + 1, wdw, 3]);
    // rarely: more than a day, so that vesting-table entries (daily steps of the 180-day schedule) mature
    if rng.chance(2) {
        n = *rng.pick(&[2900, 4400, 1500]);
    }
    json!({"a": "Tick", "n": n.max(1)})
}

/// a call of spec/MC_Sectors.tla (single miner, epochs relative to e0) in the driver's vocabulary
fn from_model(c: &Value, e0: i64) -> Value {
    let a = c["a"].as_str().unwrap();
    let who = c["c"].as_str().unwrap_or("worker");
    let decls = |with_exp: bool| -> Value {
        json!(c["decls"].as_array().unwrap().iter().map(|d| {
            let mut o = json!({"dl": d["d"], "p": d["p"], "s": d["s"]});
            if with_exp { o["exp"] = json!(d["exp"].as_i64().unwrap() + e0); }
            o
        }).collect::<Vec<_>>())
    };
    match a {
        "Tick" => json!({"a": "Tick", "n": c["n"]}),
        "CommitNI" => {
            let ns = c["ns"].as_array().unwrap();
            let ex = c["exps"].as_array().unwrap();
            json!({"a": "CommitNI", "m": "m1", "c": who, "dl": c["d"], "requireAll": c["requireAll"],
                   "sectors": ns.iter().zip(ex.iter()).map(|(n, x)| json!({"n": n, "exp": x.as_i64().unwrap() + e0})).collect::<Vec<_>>()})
        }
        "PoSt" => json!({"a": "PoSt", "m": "m1", "c": who, "dl": c["d"], "badProof": !c["proofOK"].as_bool().unwrap_or(true),
                         "parts": c["parts"].as_array().unwrap().iter().map(|p| json!({"i": p["i"], "skipped": p["skipped"]})).collect::<Vec<_>>()}),
        "DeclareFaults" | "DeclareRecovered" | "Terminate" => json!({"a": a, "m": "m1", "c": who, "decls": decls(false)}),
        "Extend" => json!({"a": "Extend", "m": "m1", "c": who, "decls": decls(true)}),
        "PreCommit" => {
            let ns = c["ns"].as_array().unwrap();
            let ex = c["exps"].as_array().unwrap();
            json!({"a": "PreCommit", "m": "m1", "c": who,
                   "sectors": ns.iter().zip(ex.iter()).map(|(n, x)| json!({"n": n, "exp": x.as_i64().unwrap() + e0})).collect::<Vec<_>>()})
        }
        "ProveCommit" => json!({"a": "ProveCommit", "m": "m1", "c": who, "ns": c["ns"], "requireAll": c["requireAll"]}),
        other => panic!("unknown model call {other}"),
    }
}

pub fn header(policy: &Policy) -> Value {
    json!({"D": policy.wpost_period_deadlines, "W": policy.wpost_challenge_window, "P": policy.wpost_proving_period,
           "PartSize": 2, "FaultMaxAge": policy.fault_max_age, "FaultCutoff": policy.fault_declaration_cutoff,
           "MinPower": policy.minimum_consensus_power.to_i64().unwrap(), "MinMiners": 4,
           "MinLife": policy.min_sector_expiration, "MaxLife": policy.max_sector_expiration_extension,
           "AddrSectorsMax": policy.addressed_sectors_max, "AddrPartsMax": policy.addressed_partitions_max,
           // the pre-commit path: how long a pre-commitment (of the seal proof the driver uses) may wait for its proof
           "MaxPC": fil_actor_miner::max_prove_commit_duration(policy, SEAL).unwrap_or(0), "ChalDelay": policy.pre_commit_challenge_delay})
}

pub fn main(args: &[String]) {
    let out = arg(args, "--out").expect("--out");
    let seed = arg_u64(args, "--seed", 1);
    let mut t = TraceOut::create(out);
    let mut sched_out = arg(args, "--schedules").map(TraceOut::create);
    let policy = sectors_policy();
    let mut first = true;
    let mut begin = |t: &mut TraceOut, w: &World| {
        let ev = if first { "Init" } else { "Reset" };
        first = false;
        t.line(&json!({"ev": ev, "const": header(&w.v.policy), "st": w.project()}));
        t.traces += 1;
    };
    if let Some(b) = arg(args, "--behaviours") {
        for (i, (_, beh)) in read_schedules(b, 1).iter().enumerate() {
            let nm = beh.first().and_then(|c| c["miners"].as_u64()).unwrap_or(1) as usize;
            let boost = beh.first().and_then(|c| c["boost"].as_bool()).unwrap_or(false);
            let model = beh.first().map(|c| c["a"] != json!("Create")).unwrap_or(false);
            let w = World::new_boosted(seed + i as u64, nm, boost || model);
            if beh.first().and_then(|c| c["poor"].as_bool()).unwrap_or(false) {
                w.drain();
            }
            // behaviours of MC_Sectors count epochs from a proving-period start of miner m1
            let mut e0 = 0;
            if model {
                let pps = w.mstate("m1").proving_period_start;
                let p = w.v.policy.wpost_proving_period;
                while (w.v.epoch() - pps).rem_euclid(p) != 0 {
                    w.v.tick();
                }
                e0 = w.v.epoch();
            }
            begin(&mut t, &w);
            for call in beh {
                if call["a"] == json!("Create") {
                    continue;
                }
                let call = if model { from_model(call, e0) } else { call.clone() };
                t.line(&w.step(&call));
            }
            if let Some(s) = sched_out.as_mut() {
                s.line(&json!({"scale": 1, "calls": beh}));
            }
        }
    }
    let n = arg_u64(args, "--random", 0);
    let len = arg_u64(args, "--len", 60);
    let mut rng = Rng::new(seed);
    for i in 0..n {
        let nm = if rng.chance(35) { 2 } else { 1 };
        // (the goal-directed traces run in a network that already holds other miners' pledge, where finding F1's
        // negative-total abort cannot interfere)
        let boost = rng.chance(60) || i % 2 == 1;
        let w = World::new_boosted(seed.wrapping_mul(1000) + i, nm, boost);
        let poor = rng.chance(40) && i % 6 % 2 == 0;
        if poor {
            w.drain();
        }
        w.neglect.set(rng.chance(25));
        // every third trace pursues the verified-onboarding goals first (a funded, diligent miner)
        let goals: Vec<String> = match i % 6 {
            1 => vec!["ru-multi".into(), "ext-multi".into()],
            3 => vec!["backlog-compact".into()],
            5 => vec!["debt-timeout".into()],
            _ => vec![],
        };
        if !goals.is_empty() {
            w.neglect.set(false);
        }
        *w.goals.borrow_mut() = goals.clone();
        begin(&mut t, &w);
        let mut calls = vec![json!({"a": "Create", "miners": nm, "boost": boost, "poor": poor, "goals": goals})];
        for _ in 0..len {
            let call = random_call(&mut rng, &w, &policy);
            t.line(&w.step(&call));
            calls.push(call);
        }
        if let Some(s) = sched_out.as_mut() {
            s.line(&json!({"scale": 1, "calls": calls}));
        }
    }
    t.flush();
    if let Some(s) = sched_out.as_mut() {
        s.flush();
    }
    println!("{}", json!({"driver": "sectors", "traces": t.traces, "events": t.events}));
}
