//! Matrix driver for C11 -- privileged methods (spec/Access.tla, spec/Trace_Access.tla).
//!
//! Builds ONE rich fixture world on the recording VM (accounts, two miners created through the
//! power actor with owner / worker / control / beneficiary / pending beneficiary / pending owner,
//! proven and pre-committed sectors, a 3-of-3 multisig with a pending transaction, a payment
//! channel, the verified registry with verifiers, a client with DataCap, an allocation and a claim,
//! market balances with a published and an activated deal, two EVM contracts deployed through the
//! EAM, an EthAccount, a placeholder, an actor with non-built-in code) and then executes every cell
//! (actor type, method number / parameter variant, caller class) exported by TLC from
//! spec/MC_Access.tla, each on a fresh copy of the fixture state (checkpoint / rollback), in two
//! parameter modes:
//!   * `default`: well-typed but mostly empty / zero parameters;
//!   * `success`: parameters constructed so that the DESIGNATED caller's call completes with exit 0
//!     (where this driver knows how to build them: `succ` = true in the event).
//! A caller class is impersonated by sending the top-level message from that actor's address
//! (`VVM::run(from, ..)`).
use crate::evm::loader;
use crate::minerctl::{create_bls_accounts, create_miner};
use crate::util::*;
use crate::vm::*;
use cid::Cid;
use fil_actor_market::ext::miner::{PieceChange, SectorChanges, SectorContentChangedParams};
use fil_actor_market::{
    BatchActivateDealsParams, ClientDealProposal, DealProposal, DealQueryParams, GetBalanceParams,
    Label, OnMinerSectorsTerminateParams, PublishStorageDealsParams, PublishStorageDealsReturn,
    SectorDeals, SettleDealPaymentsParams, VerifyDealsForActivationParams,
};
use fil_actor_miner::{
    ChangeBeneficiaryParams, ChangeMultiaddrsParams, ChangeOwnerAddressParams, ChangePeerIDParams,
    ChangeWorkerAddressParams, CheckSectorProvenParams, CompactCommD, CompactPartitionsParams,
    CompactSectorNumbersParams, CronEventPayload, DeclareFaultsParams, DeclareFaultsRecoveredParams,
    DeferredCronEventParams, DisputeWindowedPoStParams, ExpirationExtension2,
    ExtendSectorExpiration2Params, FaultDeclaration, GenerateSectorLocationParams,
    InternalSectorSetupForPresealParams, IsControllingAddressParam,
    MaxTerminationFeeParams, MinerConstructorParams, PoStPartition, PreCommitSectorBatchParams2,
    ProveCommitSectors3Params, ProveCommitSectorsNIParams, ProveReplicaUpdates3Params,
    RecoveryDeclaration, ReportConsensusFaultParams, SectorActivationManifest, SectorPreCommitInfo,
    SectorStatusCode, State as MinerState, SubmitWindowedPoStParams, TerminateSectorsParams,
    TerminationDeclaration, ValidateSectorStatusParams, CRON_EVENT_PROVING_DEADLINE,
};
use fil_actor_multisig::{
    AddSignerParams, ChangeNumApprovalsThresholdParams, LockBalanceParams, ProposeParams,
    RemoveSignerParams, SwapSignerParams, TxnID, TxnIDParams,
};
use fil_actor_paych::{SignedVoucher, UpdateChannelStateParams};
use fil_actor_power::{
    CreateMinerParams, EnrollCronEventParams, MinerPowerParams, MinerRawPowerParams,
    UpdateClaimedPowerParams, UpdatePledgeTotalParams,
};
use fil_actor_verifreg::{
    AllocationClaim, AllocationRequest, AllocationRequests, AllocationsResponse,
    ClaimAllocationsParams, ClaimAllocationsReturn, ClaimTerm, ExtendClaimTermsParams,
    GetClaimsParams, RemoveDataCapParams, RemoveDataCapProposal, RemoveDataCapProposalID,
    RemoveDataCapRequest, RemoveExpiredAllocationsParams, RemoveExpiredClaimsParams,
    RemoveVerifierParams, SectorAllocationClaims, VerifierParams,
    SIGNATURE_DOMAIN_SEPARATION_REMOVE_DATA_CAP,
};
use fil_actors_evm_shared::address::EthAddress;
use fil_actors_evm_shared::uints::U256;
use fil_actors_runtime::runtime::{EMPTY_ARR_CID, Policy};
use fil_actors_runtime::test_utils::*;
use fil_actors_runtime::{
    BatchReturn, CRON_ACTOR_ADDR, DATACAP_TOKEN_ACTOR_ADDR, EAM_ACTOR_ADDR, EAM_ACTOR_ID,
    INIT_ACTOR_ADDR, REWARD_ACTOR_ADDR, STORAGE_MARKET_ACTOR_ADDR, STORAGE_POWER_ACTOR_ADDR,
    SYSTEM_ACTOR_ADDR, VERIFIED_REGISTRY_ACTOR_ADDR,
};
use frc46_token::receiver::{FRC46_TOKEN_TYPE, FRC46TokenReceived};
use frc46_token::token::types::{
    BurnFromParams, BurnParams, DecreaseAllowanceParams, GetAllowanceParams,
    IncreaseAllowanceParams, RevokeAllowanceParams, TransferFromParams, TransferParams,
    TransferReturn,
};
use fvm_actor_utils::receiver::UniversalReceiverParams;
use fvm_ipld_bitfield::BitField;
use fvm_ipld_encoding::ipld_block::IpldBlock;
use fvm_ipld_encoding::{BytesDe, DAG_CBOR, RawBytes};
use fvm_shared::METHOD_SEND;
use fvm_shared::address::Address;
use fvm_shared::bigint::BigInt;
use fvm_shared::bigint::bigint_ser::BigIntDe;
use fvm_shared::consensus::{ConsensusFault, ConsensusFaultType};
use fvm_shared::crypto::signature::{Signature, SignatureType};
use fvm_shared::econ::TokenAmount;
use fvm_shared::piece::PaddedPieceSize;
use fvm_shared::randomness::Randomness;
use fvm_shared::sector::{
    PoStProof, RegisteredAggregateProof, RegisteredPoStProof, RegisteredSealProof,
    RegisteredUpdateProof, StoragePower,
};
use multihash_codetable::{Code, MultihashDigest};
use num_traits::Zero;
use serde::Serialize;
use serde_json::{Value, json};
use std::collections::BTreeMap;
use vm_api::{ActorState, VM, new_actor};

pub const SEAL: RegisteredSealProof = RegisteredSealProof::StackedDRG2KiBV1P1;
pub const POST: RegisteredPoStProof = RegisteredPoStProof::StackedDRGWindow2KiBV1P1;
const PIECE: u64 = 2048;
const MIN_ALLOC: u64 = 256;
const UNKNOWN_ID: u64 = 90_001;
/// runtime code of the fixture contracts: SSTORE(0, 1); STOP  (an invocation has a visible effect)
const CONTRACT_CODE: &[u8] = &[0x60, 0x01, 0x5f, 0x55, 0x00];

pub fn policy() -> Policy {
    let mut p = crate::sectors::tiny_policy();
    p.minimum_verified_allocation_size = StoragePower::from(MIN_ALLOC);
    p.minimum_verified_allocation_term = 10;
    p.maximum_verified_allocation_term = 5000;
    p.maximum_verified_allocation_expiration = 500;
    // shorter than one challenge window, so that (with 4 deadlines) the deadline two windows back
    // is compactable while the previous one is still disputable
    p.wpost_dispute_window = 5;
    p
}

fn blk<T: Serialize>(t: &T) -> Option<IpldBlock> {
    IpldBlock::serialize_cbor(t).unwrap()
}
fn whole(n: u64) -> TokenAmount {
    TokenAmount::from_whole(n as i64)
}
fn atto(n: i64) -> TokenAmount {
    TokenAmount::from_atto(n)
}
fn bits(xs: &[u64]) -> BitField {
    let mut b = BitField::new();
    for x in xs {
        b.set(*x);
    }
    b
}

pub struct World {
    pub v: VVM,
    pub fixture: String,
    /// named actors: caller classes and helpers -> ID address
    pub a: BTreeMap<String, Address>,
    /// public-key addresses of the named accounts (for signatures)
    pub pk: BTreeMap<String, Address>,
    /// actor type -> target instance
    pub tgt: BTreeMap<String, Address>,
    /// actor type -> an actor record with that code and NO state (never constructed): the target
    /// of Constructor cells in success mode
    pub blank: BTreeMap<String, Address>,
    pub root: Cid,
    pub base: BTreeMap<Address, ActorState>,
    pub deal_pending: u64,
    pub deal_active: u64,
    pub alloc_open: u64,
    pub claim: u64,
    pub s_claim: u64,
    pub s_plain: u64,
    pub s_pre: u64,
    pub loc_plain: (u64, u64),
    pub exp_plain: i64,
    pub pending_ben: (TokenAmount, i64),
    pub deal_end: i64,
    pub notes: Vec<String>,
}

fn proposal(w: &BTreeMap<String, Address>, label: &str, start: i64) -> DealProposal {
    DealProposal {
        piece_cid: make_piece_cid(label.as_bytes()),
        piece_size: PaddedPieceSize(PIECE),
        verified_deal: false,
        client: w["client"],
        provider: w["m1"],
        label: Label::String(label.to_string()),
        start_epoch: start,
        end_epoch: start + 180 * 2880 + 10,
        storage_price_per_epoch: atto(1),
        provider_collateral: whole(1),
        client_collateral: atto(0),
    }
}

fn signed(p: DealProposal, client_pk: &Address) -> ClientDealProposal {
    let bytes = RawBytes::serialize(&p).unwrap();
    ClientDealProposal {
        proposal: p,
        client_signature: Signature {
            sig_type: SignatureType::Secp256k1,
            bytes: sign(client_pk, bytes.bytes()),
        },
    }
}

impl World {
    fn must(o: &Outcome, what: &str) {
        assert!(o.ok(), "fixture step `{what}` failed: {} ({})", o.message, o.code);
    }

    pub fn build(seed: u64, fixture: &str) -> World {
        let v = VVM::genesis(policy());
        {
            // as in the sectors driver: start from a network that already holds other miners' pledge,
            // so that known finding F1 (the creation deposit is not in the network pledge total, see
            // DESIGN.md section 8) cannot make fee-burning calls abort on a negative total
            let mut ps: fil_actor_power::State = v.state(&STORAGE_POWER_ACTOR_ADDR).unwrap();
            ps.total_pledge_collateral += whole(1_000_000);
            let head = v.put_store(&ps);
            let mut act = v.actor(&STORAGE_POWER_ACTOR_ADDR).unwrap();
            act.state = head;
            v.set_actor(&STORAGE_POWER_ACTOR_ADDR, act);
            v.checkpoint();
        }
        for _ in 0..30 {
            v.tick();
        }
        let zero = TokenAmount::zero();
        let names = [
            "owner", "control", "beneficiary", "nominee", "pendingOwner", "proposer", "signer",
            "signer2", "payer", "payee", "verifier", "verifier2", "client", "operator", "account",
            "acctTarget", "owner2", "spare",
        ];
        let accts = v.create_accounts(names.len(), seed, &whole(100_000));
        let bls = create_bls_accounts(&v, 4, seed, &whole(100_000));
        let mut a: BTreeMap<String, Address> = BTreeMap::new();
        let mut pk: BTreeMap<String, Address> = BTreeMap::new();
        for (n, x) in names.iter().zip(accts.iter()) {
            a.insert(n.to_string(), *x);
        }
        for (n, x) in ["worker", "worker2", "workerNew", "workerSpare"].iter().zip(bls.iter()) {
            a.insert(n.to_string(), *x);
        }
        for (n, x) in a.iter() {
            let st: fil_actor_account::State = v.state(x).unwrap();
            pk.insert(n.clone(), st.address);
        }
        for (n, x) in [
            ("system", SYSTEM_ACTOR_ADDR),
            ("init", INIT_ACTOR_ADDR),
            ("reward", REWARD_ACTOR_ADDR),
            ("cron", CRON_ACTOR_ADDR),
            ("power", STORAGE_POWER_ACTOR_ADDR),
            ("market", STORAGE_MARKET_ACTOR_ADDR),
            ("verifreg", VERIFIED_REGISTRY_ACTOR_ADDR),
            ("datacap", DATACAP_TOKEN_ACTOR_ADDR),
            ("eam", EAM_ACTOR_ADDR),
            ("root", TEST_VERIFREG_ROOT_ADDR),
        ] {
            a.insert(n.to_string(), x);
        }
        let mut notes = vec![];

        // ---- payment channel ------------------------------------------------------------------
        let o = v.run_p(&a["payer"], &INIT_ACTOR_ADDR, &atto(1_000_000), fil_actor_init::Method::Exec as u64,
            &fil_actor_init::ExecParams {
                code_cid: *PAYCH_ACTOR_CODE_ID,
                constructor_params: RawBytes::serialize(&fil_actor_paych::ConstructorParams { from: a["payer"], to: a["payee"] }).unwrap(),
            });
        Self::must(&o, "create paych");
        let pc = o.de::<fil_actor_init::ExecReturn>().id_address;
        a.insert("pc".into(), pc);

        if fixture == "B" {
            // the channel is settled long enough ago for Collect to be possible in the final state
            Self::must(&v.run(&a["payee"], &pc, &zero, fil_actor_paych::Method::Settle as u64, None), "B: settle");
        }
        for _ in 0..1450 {
            let o = v.tick();
            assert!(o.ok(), "cron tick failed: {}", o.message);
        }

        // ---- miners -------------------------------------------------------------------------
        let (m1, o) = create_miner(&v, &a["owner"], &a["worker"], POST, &whole(200));
        Self::must(&o, "create m1");
        let (m2, o) = create_miner(&v, &a["owner2"], &a["worker2"], POST, &whole(200));
        Self::must(&o, "create m2");
        let (m1, m2) = (m1.unwrap(), m2.unwrap());
        a.insert("m1".into(), m1);
        a.insert("m2".into(), m2);
        let mm = |x: fil_actor_miner::Method| x as u64;
        Self::must(
            &v.run_p(&a["owner"], &m1, &zero, mm(fil_actor_miner::Method::ChangeWorkerAddress),
                &ChangeWorkerAddressParams { new_worker: a["worker"], new_control_addresses: vec![a["control"]] }),
            "set control",
        );
        Self::must(&v.run(&TEST_FAUCET_ADDR, &m1, &whole(5_000), METHOD_SEND, None), "fund m1");
        Self::must(&v.run(&TEST_FAUCET_ADDR, &m2, &whole(5_000), METHOD_SEND, None), "fund m2");
        // sectors 1, 2 proven; 3 pre-committed only
        let e = v.epoch();
        let exp = e + 30 * 2880 + v.policy.pre_commit_challenge_delay + v.policy.min_sector_expiration + 200;
        let pre = |n: u64| SectorPreCommitInfo {
            seal_proof: SEAL,
            sector_number: n,
            sealed_cid: make_sealed_cid(format!("sn: {n}").as_bytes()),
            seal_rand_epoch: e - 1,
            deal_ids: vec![],
            expiration: exp,
            unsealed_cid: CompactCommD::empty(),
        };
        Self::must(
            &v.run_p(&a["worker"], &m1, &zero, mm(fil_actor_miner::Method::PreCommitSectorBatch2),
                &PreCommitSectorBatchParams2 { sectors: vec![pre(1), pre(2), pre(3)] }),
            "precommit",
        );
        for _ in 0..2 {
            v.tick();
        }
        Self::must(
            &v.run_p(&a["worker"], &m1, &zero, mm(fil_actor_miner::Method::ProveCommitSectors3),
                &prove_params(&[1, 2])),
            "prove commit",
        );
        // beneficiary, pending beneficiary proposal, pending owner
        let ben_exp = v.epoch() + 1_000_000;
        let cb = |nb: Address, q: u64, x: i64| ChangeBeneficiaryParams { new_beneficiary: nb, new_quota: whole(q), new_expiration: x };
        let m_cb = mm(fil_actor_miner::Method::ChangeBeneficiary);
        Self::must(&v.run_p(&a["owner"], &m1, &zero, m_cb, &cb(a["beneficiary"], 1000, ben_exp)), "propose beneficiary");
        Self::must(&v.run_p(&a["beneficiary"], &m1, &zero, m_cb, &cb(a["beneficiary"], 1000, ben_exp)), "confirm beneficiary");
        Self::must(&v.run_p(&a["owner"], &m1, &zero, m_cb, &cb(a["nominee"], 2000, ben_exp + 5)), "propose nominee");
        Self::must(
            &v.run_p(&a["owner"], &m1, &zero, mm(fil_actor_miner::Method::ChangeOwnerAddress),
                &ChangeOwnerAddressParams { new_owner: a["pendingOwner"] }),
            "propose owner",
        );
        {
            let st: MinerState = v.state(&m1).unwrap();
            let info = st.get_info(&v.store).unwrap();
            assert_eq!(info.beneficiary, a["beneficiary"]);
            assert_eq!(info.pending_owner_address, Some(a["pendingOwner"]));
            assert_eq!(info.pending_beneficiary_term.as_ref().unwrap().new_beneficiary, a["nominee"]);
            assert_eq!(info.control_addresses, vec![a["control"]]);
        }

        // ---- multisig: 3-of-3 with one pending transaction proposed by `proposer` -----------
        let ms_ctor = fil_actor_multisig::ConstructorParams {
            signers: vec![a["proposer"], a["signer"], a["signer2"]],
            num_approvals_threshold: 3,
            unlock_duration: 0,
            start_epoch: 0,
        };
        let o = v.run_p(&a["proposer"], &INIT_ACTOR_ADDR, &atto(1_000_000), fil_actor_init::Method::Exec as u64,
            &fil_actor_init::ExecParams { code_cid: *MULTISIG_ACTOR_CODE_ID, constructor_params: RawBytes::serialize(&ms_ctor).unwrap() });
        Self::must(&o, "create multisig");
        let ms = o.de::<fil_actor_init::ExecReturn>().id_address;
        a.insert("ms".into(), ms);
        Self::must(
            &v.run_p(&a["proposer"], &ms, &zero, fil_actor_multisig::Method::Propose as u64,
                &ProposeParams { to: a["account"], value: atto(1), method: METHOD_SEND, params: RawBytes::default() }),
            "multisig propose",
        );

        // ---- verified registry ----------------------------------------------------------------
        let vr = VERIFIED_REGISTRY_ACTOR_ADDR;
        let via_root = |method: u64, params: RawBytes, what: &str| {
            let o = v.run_p(&TEST_VERIFREG_ROOT_SIGNER_ADDR, &TEST_VERIFREG_ROOT_ADDR, &zero,
                fil_actor_multisig::Method::Propose as u64,
                &ProposeParams { to: vr, value: TokenAmount::zero(), method, params });
            Self::must(&o, what);
            let r: fil_actor_multisig::ProposeReturn = o.de();
            assert!(r.applied && r.code.is_success(), "{what}: inner code {}", r.code);
        };
        for n in ["verifier", "verifier2"] {
            via_root(fil_actor_verifreg::Method::AddVerifier as u64,
                RawBytes::serialize(&VerifierParams { address: a[n], allowance: BigInt::from(1000 * MIN_ALLOC) }).unwrap(),
                "add verifier");
        }
        Self::must(
            &v.run_p(&a["verifier"], &vr, &zero, fil_actor_verifreg::Method::AddVerifiedClient as u64,
                &VerifierParams { address: a["client"], allowance: BigInt::from(100 * MIN_ALLOC) }),
            "add client",
        );
        let e = v.epoch();
        let alloc_req = |label: &str, e: i64| AllocationRequest {
            provider: m1.id().unwrap(),
            data: make_piece_cid(label.as_bytes()),
            size: PaddedPieceSize(MIN_ALLOC),
            term_min: 10,
            term_max: 1000,
            expiration: e + 400,
        };
        let o = v.run_p(&a["client"], &DATACAP_TOKEN_ACTOR_ADDR, &zero, fil_actor_datacap::Method::TransferExported as u64,
            &TransferParams {
                to: vr,
                amount: whole(2 * MIN_ALLOC),
                operator_data: RawBytes::serialize(&AllocationRequests {
                    allocations: vec![alloc_req("alloc-1", e), alloc_req("alloc-2", e)],
                    extensions: vec![],
                }).unwrap(),
            });
        Self::must(&o, "allocate");
        let resp: AllocationsResponse = o.de::<TransferReturn>().recipient_data.deserialize().unwrap();
        let (al1, al2) = (resp.new_allocations[0], resp.new_allocations[1]);
        let o = v.run_p(&m1, &vr, &zero, fil_actor_verifreg::Method::ClaimAllocations as u64,
            &ClaimAllocationsParams {
                sectors: vec![SectorAllocationClaims {
                    sector: 1,
                    expiry: e + 500,
                    claims: vec![AllocationClaim { client: a["client"].id().unwrap(), allocation_id: al1,
                        data: make_piece_cid(b"alloc-1"), size: PaddedPieceSize(MIN_ALLOC) }],
                }],
                all_or_nothing: true,
            });
        Self::must(&o, "claim");
        let cr: ClaimAllocationsReturn = o.de();
        assert!(cr.sector_results.all_ok(), "claim failed");
        Self::must(
            &v.run_p(&a["client"], &DATACAP_TOKEN_ACTOR_ADDR, &zero, fil_actor_datacap::Method::IncreaseAllowanceExported as u64,
                &IncreaseAllowanceParams { operator: a["operator"], increase: whole(50 * MIN_ALLOC) }),
            "operator allowance",
        );

        // ---- market: balances, one pending and one activated deal -----------------------------
        let mk = STORAGE_MARKET_ACTOR_ADDR;
        Self::must(&v.run_p(&a["client"], &mk, &whole(100), fil_actor_market::Method::AddBalance as u64, &a["client"]), "client escrow");
        Self::must(&v.run_p(&a["owner"], &mk, &whole(100), fil_actor_market::Method::AddBalance as u64, &m1), "provider escrow");
        let start = v.epoch() + 200;
        let deals = vec![
            signed(proposal(&a, "deal-pending", start), &pk["client"]),
            signed(proposal(&a, "deal-active", start), &pk["client"]),
        ];
        let deal_end = deals[0].proposal.end_epoch;
        let o = v.run_p(&a["worker"], &mk, &zero, fil_actor_market::Method::PublishStorageDeals as u64,
            &PublishStorageDealsParams { deals });
        Self::must(&o, "publish");
        let pr: PublishStorageDealsReturn = o.de();
        assert_eq!(pr.ids.len(), 2, "both deals must be valid");
        let o = v.run_p(&m1, &mk, &zero, fil_actor_market::Method::BatchActivateDeals as u64,
            &BatchActivateDealsParams {
                sectors: vec![SectorDeals { sector_number: 1, sector_type: SEAL, sector_expiry: deal_end + 100, deal_ids: vec![pr.ids[1]] }],
                compute_cid: false,
            });
        Self::must(&o, "activate");

        // ---- EVM contracts, EthAccount, placeholder, unknown code -----------------------------
        let mut contracts = vec![];
        for _ in 0..2 {
            let o = v.run_p(&a["account"], &EAM_ACTOR_ADDR, &zero, fil_actor_eam::Method::CreateExternal as u64,
                &fil_actor_eam::CreateExternalParams(loader(CONTRACT_CODE)));
            Self::must(&o, "deploy contract");
            let r: fil_actor_eam::CreateExternalReturn = o.de();
            contracts.push(Address::new_id(r.actor_id));
        }
        a.insert("e1".into(), contracts[0]);
        a.insert("evm".into(), contracts[1]);
        let mut f4 = vec![];
        for i in 0..3u8 {
            let mut sub = [0u8; 20];
            sub[0] = 0xab;
            sub[19] = i + 1;
            let d = Address::new_delegated(EAM_ACTOR_ID, &sub).unwrap();
            Self::must(&v.run(&TEST_FAUCET_ADDR, &d, &whole(100_000), METHOD_SEND, None), "create placeholder");
            f4.push(v.resolve_id_address(&d).unwrap());
        }
        // the first two send a message each: the VM turns a sending placeholder into an EthAccount
        for x in &f4[..2] {
            Self::must(&v.run(x, &a["account"], &atto(1), METHOD_SEND, None), "ethaccount first send");
            assert_eq!(v.actor(x).unwrap().code, *ETHACCOUNT_ACTOR_CODE_ID);
        }
        assert_eq!(v.actor(&f4[2]).unwrap().code, *PLACEHOLDER_ACTOR_CODE_ID);
        a.insert("ethaccount".into(), f4[0]);
        a.insert("eaTarget".into(), f4[1]);
        a.insert("placeholder".into(), f4[2]);
        let unknown_code = Cid::new_v1(fvm_shared::IPLD_RAW, Code::Blake2b256.digest(b"verif: some user-deployed native actor"));
        let unk = Address::new_id(UNKNOWN_ID);
        v.set_actor(&unk, new_actor(unknown_code, EMPTY_ARR_CID, 0, whole(100_000), None));
        a.insert("unknown".into(), unk);
        notes.push("class unknown: an actor record with a non-built-in code CID at f090001 (never invoked, only used as a sender)".into());

        // every caller class can pay for what it sends
        for n in ["system", "init", "reward", "cron", "power", "market", "verifreg", "datacap", "eam", "root", "ms", "pc", "e1", "evm", "m1", "m2"] {
            Self::must(&v.run(&TEST_FAUCET_ADDR, &a[n], &whole(10_000), METHOD_SEND, None), "fund class");
        }

        // fixture A stops inside the challenge window of the deadline holding sectors 1 and 2, before
        // any Window PoSt was submitted
        let (dl, part) = {
            let st: MinerState = v.state(&m1).unwrap();
            st.find_sector(&v.store, 2).expect("sector 2 location")
        };
        let tick_until_deadline = |want: u64| {
            for _ in 0..400 {
                let st: MinerState = v.state(&m1).unwrap();
                let di = st.deadline_info(&v.policy, v.epoch());
                if di.index == want && di.period_started() && di.is_open() {
                    return;
                }
                let o = v.tick();
                assert!(o.ok(), "cron tick failed: {}", o.message);
            }
            panic!("deadline {want} never opened");
        };
        tick_until_deadline(dl);

        // ---- second fixture state: later in time, hand-overs completed or withdrawn ------------
        let mut pending_ben = (whole(2000), ben_exp + 5);
        if fixture == "B" {
            // the Window PoSt was submitted (optimistically accepted, with a proof that a dispute
            // would find invalid), sector 1 was declared faulty, and time moved on to a deadline
            // from which the sectors' deadline is mutable again
            let st: MinerState = v.state(&m1).unwrap();
            let di = st.deadline_info(&v.policy, v.epoch());
            Self::must(
                &v.run_p(&a["worker"], &m1, &zero, mm(fil_actor_miner::Method::SubmitWindowedPoSt),
                    &SubmitWindowedPoStParams {
                        deadline: dl, partitions: vec![PoStPartition { index: part, skipped: bits(&[]) }],
                        proofs: vec![PoStProof { post_proof: POST, proof_bytes: INVALID_POST.as_bytes().to_vec() }],
                        chain_commit_epoch: di.challenge, chain_commit_rand: Randomness(RAND_ARRAY.into()) }),
                "B: window post",
            );
            tick_until_deadline((dl + 1) % v.policy.wpost_period_deadlines);
            Self::must(
                &v.run_p(&a["worker"], &m1, &zero, mm(fil_actor_miner::Method::DeclareFaults),
                    &DeclareFaultsParams { faults: vec![FaultDeclaration { deadline: dl, partition: part, sectors: bits(&[1]) }] }),
                "B: declare fault",
            );
            // the pending owner took over and is now the `owner` class; a payment channel is settling
            Self::must(
                &v.run_p(&a["pendingOwner"], &m1, &zero, mm(fil_actor_miner::Method::ChangeOwnerAddress),
                    &ChangeOwnerAddressParams { new_owner: a["pendingOwner"] }),
                "B: accept ownership",
            );
            let old = a["owner"];
            a.insert("owner".into(), a["pendingOwner"]);
            pk.insert("owner".into(), pk["pendingOwner"]);
            // the new owner proposes the old one as its successor, and re-nominates the nominee
            Self::must(
                &v.run_p(&a["owner"], &m1, &zero, mm(fil_actor_miner::Method::ChangeOwnerAddress),
                    &ChangeOwnerAddressParams { new_owner: old }),
                "B: propose owner back",
            );
            a.insert("pendingOwner".into(), old);
            Self::must(&v.run_p(&a["owner"], &m1, &zero, m_cb, &cb(a["nominee"], 3000, ben_exp + 9)), "B: re-propose nominee");
            pending_ben = (whole(3000), ben_exp + 9);
            let st: fil_actor_paych::State = v.state(&pc).unwrap();
            assert!(st.settling_at > 0 && st.settling_at <= v.epoch(), "channel must be collectable");
            // one more signature on the pending multisig transaction: in B the `signer` class is a
            // signer that HAS approved (so it is an approver, but not the proposer)
            Self::must(
                &v.run_p(&a["signer"], &ms, &zero, fil_actor_multisig::Method::Approve as u64,
                    &TxnIDParams { id: TxnID(0), proposal_hash: vec![] }),
                "B: approve",
            );
        }

        let mut tgt = BTreeMap::new();
        for t in ["system", "init", "reward", "cron", "power", "market", "verifreg", "datacap", "eam"] {
            tgt.insert(t.to_string(), a[t]);
        }
        tgt.insert("account".into(), a["acctTarget"]);
        tgt.insert("ethaccount".into(), a["eaTarget"]);
        tgt.insert("placeholder".into(), a["placeholder"]);
        tgt.insert("miner".into(), m1);
        tgt.insert("multisig".into(), ms);
        tgt.insert("paych".into(), pc);
        tgt.insert("evm".into(), a["e1"]);

        let mut blank = BTreeMap::new();
        for (i, (t, code)) in [
            ("system", *SYSTEM_ACTOR_CODE_ID), ("init", *INIT_ACTOR_CODE_ID), ("reward", *REWARD_ACTOR_CODE_ID),
            ("cron", *CRON_ACTOR_CODE_ID), ("power", *POWER_ACTOR_CODE_ID), ("market", *MARKET_ACTOR_CODE_ID),
            ("verifreg", *VERIFREG_ACTOR_CODE_ID), ("datacap", *DATACAP_TOKEN_ACTOR_CODE_ID), ("eam", *EAM_ACTOR_CODE_ID),
            ("account", *ACCOUNT_ACTOR_CODE_ID), ("ethaccount", *ETHACCOUNT_ACTOR_CODE_ID), ("miner", *MINER_ACTOR_CODE_ID),
            ("multisig", *MULTISIG_ACTOR_CODE_ID), ("paych", *PAYCH_ACTOR_CODE_ID), ("evm", *EVM_ACTOR_CODE_ID),
        ].iter().enumerate() {
            let addr = Address::new_id(UNKNOWN_ID + 100 + i as u64);
            let deleg = if *t == "ethaccount" || *t == "evm" {
                let mut sub = [0xcdu8; 20];
                sub[19] = i as u8;
                Some(Address::new_delegated(EAM_ACTOR_ID, &sub).unwrap())
            } else {
                None
            };
            v.set_actor(&addr, new_actor(*code, EMPTY_ARR_CID, 0, TokenAmount::zero(), deleg));
            blank.insert(t.to_string(), addr);
        }

        // where the plain sector lives
        let st: MinerState = v.state(&m1).unwrap();
        let loc = (dl, part);
        let exp_plain = st.get_sector(&v.store, 2).unwrap().unwrap().expiration;

        let root = v.checkpoint();
        let base = v.actor_states();
        World {
            v,
            fixture: fixture.to_string(),
            a,
            pk,
            tgt,
            blank,
            root,
            base,
            deal_pending: pr.ids[0],
            deal_active: pr.ids[1],
            alloc_open: al2,
            claim: al1,
            s_claim: 1,
            s_plain: 2,
            s_pre: 3,
            loc_plain: loc,
            exp_plain,
            pending_ben,
            deal_end,
            notes,
        }
    }

    /// the address a caller class sends from, for a target of type `t`
    pub fn sender(&self, t: &str, cls: &str) -> Address {
        match cls {
            "self" => self.tgt[t],
            "miner" => {
                if t == "miner" {
                    self.a["m2"]
                } else {
                    self.a["m1"]
                }
            }
            c => *self.a.get(c).unwrap_or_else(|| panic!("no actor for caller class {c}")),
        }
    }
}

fn prove_params(ns: &[u64]) -> ProveCommitSectors3Params {
    ProveCommitSectors3Params {
        sector_proofs: ns.iter().map(|n| RawBytes::new(vec![*n as u8; 4])).collect(),
        sector_activations: ns.iter().map(|n| SectorActivationManifest { sector_number: *n, pieces: vec![] }).collect(),
        aggregate_proof: vec![].into(),
        aggregate_proof_type: None,
        require_activation_success: true,
        require_notification_success: false,
    }
}

/// What is sent for one cell.
pub struct Call {
    pub params: Option<IpldBlock>,
    pub value: TokenAmount,
    /// the parameters are of the method's parameter type
    pub typed: bool,
    /// the parameters were constructed so that a designated caller's call succeeds
    pub succ: bool,
}

impl Call {
    fn new(params: Option<IpldBlock>, succ: bool) -> Call {
        Call { params, value: TokenAmount::zero(), typed: true, succ }
    }
    fn val(mut self, v: TokenAmount) -> Call {
        self.value = v;
        self
    }
    fn untyped() -> Call {
        Call { params: None, value: TokenAmount::zero(), typed: false, succ: false }
    }
}

impl World {
    /// Parameters for (actor type, method, variant, caller class, mode).
    pub fn params(&self, t: &str, name: &str, var: &str, cls: &str, success: bool, kind: &str) -> Call {
        let a = &self.a;
        let v = &self.v;
        let e = v.epoch();
        let s = success;
        let in_a = self.fixture == "A";
        let base = name.strip_suffix("Exported").unwrap_or(name);
        if kind == "undefined" {
            // the FRC-42 number an internal-only method would get if exported: send what that method
            // takes, so that an alias added for it would really run
            if let Some(internal) = name.strip_prefix("frc42:") {
                if internal != "Undefined" {
                    let mut c = self.params(t, internal, var, cls, success, "method");
                    c.succ = false;
                    return c;
                }
            }
            return Call::new(None, false);
        }
        if kind == "fallback" {
            return Call::new(None, true);
        }
        let m1 = a["m1"];
        let m1id = m1.id().unwrap();
        let client_id = a["client"].id().unwrap();
        let alloc_reqs = |label: &str| AllocationRequests {
            allocations: vec![AllocationRequest {
                provider: m1id,
                data: make_piece_cid(label.as_bytes()),
                size: PaddedPieceSize(MIN_ALLOC),
                term_min: 10,
                term_max: 1000,
                expiration: e + 300,
            }],
            extensions: vec![],
        };
        let contract_ctor = || fil_actor_evm::ConstructorParams {
            creator: EthAddress::from_id(a["account"].id().unwrap()),
            initcode: loader(CONTRACT_CODE).into(),
        };
        let miner_ctor = || MinerConstructorParams {
            owner: a["spare"],
            worker: a["workerSpare"],
            control_addresses: vec![],
            window_post_proof_type: POST,
            peer_id: b"peer".to_vec(),
            multi_addresses: vec![BytesDe(b"addr".to_vec())],
        };
        match (t, base) {
            // ---------------------------------------------------------------- constructors
            // (success mode sends Constructor to a never-constructed actor of the type, see run_cell)
            ("system", "Constructor") | ("power", "Constructor") | ("market", "Constructor")
            | ("ethaccount", "Constructor") => Call::new(None, s),
            // the EAM refuses to be constructed anywhere but at f010, before looking at the caller
            ("eam", "Constructor") => Call::new(None, false),
            ("init", "Constructor") => Call::new(blk(&fil_actor_init::ConstructorParams { network_name: "x".into() }), s),
            ("reward", "Constructor") => Call::new(blk(&fil_actor_reward::ConstructorParams { power: Some(BigIntDe(BigInt::from(0))) }), s),
            ("cron", "Constructor") => Call::new(blk(&fil_actor_cron::ConstructorParams { entries: vec![] }), s),
            ("verifreg", "Constructor") => Call::new(blk(&fil_actor_verifreg::ConstructorParams { root_key: a["root"] }), s),
            ("datacap", "Constructor") => Call::new(blk(&fil_actor_datacap::ConstructorParams { governor: a["verifreg"] }), s),
            ("account", "Constructor") => Call::new(blk(&fil_actor_account::types::ConstructorParams { address: self.pk["spare"] }), s),
            ("miner", "Constructor") => Call::new(blk(&miner_ctor()), s).val(if s { whole(200) } else { atto(0) }),
            ("multisig", "Constructor") => Call::new(blk(&fil_actor_multisig::ConstructorParams {
                signers: vec![a["spare"]], num_approvals_threshold: 1, unlock_duration: 0, start_epoch: 0 }), s),
            ("paych", "Constructor") => Call::new(blk(&fil_actor_paych::ConstructorParams { from: a["payer"], to: a["payee"] }), s),
            ("evm", "Constructor") => Call::new(blk(&contract_ctor()), s),

            // ---------------------------------------------------------------- init
            ("init", "Exec") => {
                let (code, ctor, ok) = match var {
                    "multisig" | "" => (*MULTISIG_ACTOR_CODE_ID, RawBytes::serialize(&fil_actor_multisig::ConstructorParams {
                        signers: vec![a["spare"]], num_approvals_threshold: 1, unlock_duration: 0, start_epoch: 0 }).unwrap(), true),
                    "paych" => (*PAYCH_ACTOR_CODE_ID, RawBytes::serialize(&fil_actor_paych::ConstructorParams {
                        from: a["payer"], to: a["payee"] }).unwrap(), true),
                    "miner" => (*MINER_ACTOR_CODE_ID, RawBytes::serialize(&miner_ctor()).unwrap(), true),
                    "account" => (*ACCOUNT_ACTOR_CODE_ID, RawBytes::serialize(&fil_actor_account::types::ConstructorParams {
                        address: self.pk["spare"] }).unwrap(), false),
                    "evm" => (*EVM_ACTOR_CODE_ID, RawBytes::serialize(&contract_ctor()).unwrap(), false),
                    _ => panic!("init.Exec variant {var}"),
                };
                let c = Call::new(blk(&fil_actor_init::ExecParams { code_cid: code, constructor_params: ctor }), ok);
                if var == "miner" { c.val(whole(200)) } else { c }
            }
            ("init", "Exec4") => {
                let mut sub = [0x5au8; 20];
                sub[19] = 1;
                Call::new(blk(&fil_actor_init::Exec4Params {
                    code_cid: *EVM_ACTOR_CODE_ID,
                    constructor_params: RawBytes::serialize(&contract_ctor()).unwrap(),
                    subaddress: sub.to_vec().into(),
                }), true)
            }

            // ---------------------------------------------------------------- reward, cron
            ("reward", "AwardBlockReward") => Call::new(blk(&fil_actor_reward::AwardBlockRewardParams {
                miner: m1, penalty: atto(0), gas_reward: atto(0), win_count: if s { 1 } else { 0 } }), s),
            ("reward", "ThisEpochReward") => Call::new(None, true),
            ("reward", "UpdateNetworkKPI") => Call::new(blk(&fil_actor_reward::UpdateNetworkKPIParams {
                curr_realized_power: Some(BigIntDe(BigInt::from(0))) }), true),
            ("cron", "EpochTick") => Call::new(None, true),

            // ---------------------------------------------------------------- power
            ("power", "CreateMiner") => Call::new(blk(&CreateMinerParams {
                owner: a["spare"], worker: a["workerSpare"], window_post_proof_type: POST,
                peer: b"peer".to_vec(), multiaddrs: vec![BytesDe(b"addr".to_vec())] }), s)
                .val(if s { whole(200) } else { atto(0) }),
            ("power", "UpdateClaimedPower") => Call::new(blk(&UpdateClaimedPowerParams {
                raw_byte_delta: StoragePower::from(0), quality_adjusted_delta: StoragePower::from(0) }), true),
            ("power", "EnrollCronEvent") => Call::new(blk(&EnrollCronEventParams {
                event_epoch: if s { e + 10 } else { -1 }, payload: RawBytes::default() }), s),
            ("power", "OnEpochTickEnd") => Call::new(None, true),
            ("power", "UpdatePledgeTotal") => Call::new(blk(&UpdatePledgeTotalParams { pledge_delta: atto(if s { 1 } else { 0 }) }), true),
            ("power", "CurrentTotalPower") | ("power", "NetworkRawPower") | ("power", "MinerCount")
            | ("power", "MinerConsensusCount") => Call::new(None, true),
            ("power", "MinerRawPower") => Call::new(blk(&MinerRawPowerParams { miner: m1id }), true),
            ("power", "MinerPower") => Call::new(blk(&MinerPowerParams { miner: m1id }), true),

            // ---------------------------------------------------------------- market
            ("market", "AddBalance") => Call::new(blk(&a["client"]), s).val(atto(if s { 1 } else { 0 })),
            ("market", "WithdrawBalance") => Call::new(blk(&fil_actor_market::WithdrawBalanceParams {
                provider_or_client: if var == "client" { a["client"] } else { m1 }, amount: atto(if s { 5 } else { 0 }) }), true),
            ("market", "PublishStorageDeals") => {
                let deals = if s { vec![signed(proposal(a, "deal-new", e + 300), &self.pk["client"])] } else { vec![] };
                Call::new(blk(&PublishStorageDealsParams { deals }), s)
            }
            ("market", "VerifyDealsForActivation") => Call::new(blk(&VerifyDealsForActivationParams {
                sectors: vec![SectorDeals { sector_number: 77, sector_type: SEAL, sector_expiry: self.deal_end + 100,
                    deal_ids: if s { vec![self.deal_pending] } else { vec![] } }] }), true),
            ("market", "BatchActivateDeals") => Call::new(blk(&BatchActivateDealsParams {
                sectors: vec![SectorDeals { sector_number: 77, sector_type: SEAL, sector_expiry: self.deal_end + 100,
                    deal_ids: if s { vec![self.deal_pending] } else { vec![] } }], compute_cid: false }), true),
            ("market", "OnMinerSectorsTerminate") => Call::new(blk(&OnMinerSectorsTerminateParams {
                epoch: e, sectors: if s { bits(&[1]) } else { bits(&[]) } }), true),
            ("market", "CronTick") => Call::new(None, true),
            ("market", "GetBalance") => Call::new(blk(&GetBalanceParams { account: a["client"] }), true),
            ("market", "GetDealActivation") | ("market", "GetDealSector") => Call::new(blk(&DealQueryParams { id: self.deal_active }), true),
            ("market", g) if g.starts_with("GetDeal") => Call::new(blk(&DealQueryParams { id: self.deal_pending }), true),
            ("market", "SettleDealPayments") => Call::new(blk(&SettleDealPaymentsParams {
                deal_ids: if s { bits(&[self.deal_active]) } else { bits(&[]) } }), true),
            ("market", "SectorContentChanged") => Call::new(blk(&SectorContentChangedParams {
                sectors: if s { vec![SectorChanges { sector: 78, minimum_commitment_epoch: self.deal_end + 100,
                    added: vec![PieceChange { data: make_piece_cid(b"deal-pending"), size: PaddedPieceSize(PIECE),
                        payload: RawBytes::serialize(self.deal_pending).unwrap() }] }] } else { vec![] } }), true),

            // ---------------------------------------------------------------- verifreg
            ("verifreg", "AddVerifier") => Call::new(blk(&VerifierParams {
                address: a["spare"], allowance: BigInt::from(if s { 10 * MIN_ALLOC } else { 0 }) }), s),
            ("verifreg", "RemoveVerifier") => Call::new(blk(&RemoveVerifierParams {
                verifier: if s { a["verifier2"] } else { a["spare"] } }), s),
            ("verifreg", "AddVerifiedClient") => Call::new(blk(&VerifierParams {
                address: a["spare"], allowance: BigInt::from(if s { 2 * MIN_ALLOC } else { 0 }) }), s),
            ("verifreg", "RemoveVerifiedClientDataCap") => {
                let amt = BigInt::from(MIN_ALLOC);
                let req = |n: &str, good: bool| {
                    let prop = RemoveDataCapProposal { verified_client: a["client"], data_cap_amount: amt.clone(),
                        removal_proposal_id: RemoveDataCapProposalID { id: 0 } };
                    let b = RawBytes::serialize(prop).unwrap();
                    let payload = [SIGNATURE_DOMAIN_SEPARATION_REMOVE_DATA_CAP, b.bytes()].concat();
                    let signer = if good { self.pk[n] } else { self.pk["spare"] };
                    RemoveDataCapRequest { verifier: a[n], signature: Signature { sig_type: SignatureType::Secp256k1, bytes: sign(&signer, &payload) } }
                };
                Call::new(blk(&RemoveDataCapParams {
                    verified_client_to_remove: a["client"], data_cap_amount_to_remove: amt.clone(),
                    verifier_request_1: req("verifier", s), verifier_request_2: req("verifier2", s) }), s)
            }
            ("verifreg", "RemoveExpiredAllocations") => Call::new(blk(&RemoveExpiredAllocationsParams { client: client_id, allocation_ids: vec![] }), true),
            ("verifreg", "ClaimAllocations") => Call::new(blk(&ClaimAllocationsParams {
                sectors: if s { vec![SectorAllocationClaims { sector: 2, expiry: e + 500, claims: vec![AllocationClaim {
                    client: client_id, allocation_id: self.alloc_open, data: make_piece_cid(b"alloc-2"), size: PaddedPieceSize(MIN_ALLOC) }] }] } else { vec![] },
                all_or_nothing: true }), true),
            ("verifreg", "GetClaims") => Call::new(blk(&GetClaimsParams { provider: m1id, claim_ids: vec![self.claim] }), true),
            ("verifreg", "ExtendClaimTerms") => Call::new(blk(&ExtendClaimTermsParams {
                terms: vec![ClaimTerm { provider: m1id, claim_id: if s { self.claim } else { 9999 }, term_max: 1001 }] }), s),
            ("verifreg", "RemoveExpiredClaims") => Call::new(blk(&RemoveExpiredClaimsParams { provider: m1id, claim_ids: vec![] }), true),
            ("verifreg", "UniversalReceiverHook") => {
                let payload = if s {
                    RawBytes::serialize(&FRC46TokenReceived {
                        from: client_id, to: a["verifreg"].id().unwrap(), operator: client_id, amount: whole(MIN_ALLOC),
                        operator_data: RawBytes::serialize(&alloc_reqs("alloc-hook")).unwrap(), token_data: RawBytes::default() }).unwrap()
                } else { RawBytes::default() };
                Call::new(blk(&UniversalReceiverParams { type_: FRC46_TOKEN_TYPE, payload }), s)
            }

            // ---------------------------------------------------------------- datacap
            ("datacap", "Mint") => Call::new(blk(&fil_actor_datacap::MintParams {
                to: a["spare"], amount: whole(if s { MIN_ALLOC } else { 0 }), operators: vec![] }), true),
            ("datacap", "Destroy") => Call::new(blk(&fil_actor_datacap::DestroyParams {
                owner: a["client"], amount: whole(if s { 1 } else { 0 }) }), true),
            ("datacap", "Name") | ("datacap", "Symbol") | ("datacap", "Granularity") | ("datacap", "TotalSupply") => Call::new(None, true),
            ("datacap", "Balance") => Call::new(blk(&a["client"]), true),
            ("datacap", "Allowance") => Call::new(blk(&GetAllowanceParams { owner: a["client"], operator: a["operator"] }), true),
            ("datacap", "Transfer") => {
                if var == "toGovernor" {
                    Call::new(blk(&TransferParams { to: a["verifreg"], amount: whole(MIN_ALLOC),
                        operator_data: RawBytes::serialize(&alloc_reqs("alloc-3")).unwrap() }), true)
                } else {
                    Call::new(blk(&TransferParams { to: a["spare"], amount: whole(1), operator_data: RawBytes::default() }), true)
                }
            }
            ("datacap", "TransferFrom") => {
                if var == "toGovernor" {
                    Call::new(blk(&TransferFromParams { from: a["client"], to: a["verifreg"], amount: whole(MIN_ALLOC),
                        operator_data: RawBytes::serialize(&alloc_reqs("alloc-4")).unwrap() }), true)
                } else {
                    Call::new(blk(&TransferFromParams { from: a["client"], to: a["spare"], amount: whole(1), operator_data: RawBytes::default() }), false)
                }
            }
            ("datacap", "IncreaseAllowance") => Call::new(blk(&IncreaseAllowanceParams { operator: a["acctTarget"], increase: whole(1) }), true),
            ("datacap", "DecreaseAllowance") => Call::new(blk(&DecreaseAllowanceParams { operator: a["acctTarget"], decrease: whole(1) }), true),
            ("datacap", "RevokeAllowance") => Call::new(blk(&RevokeAllowanceParams { operator: a["acctTarget"] }), true),
            ("datacap", "Burn") => Call::new(blk(&BurnParams { amount: whole(1) }), true),
            ("datacap", "BurnFrom") => Call::new(blk(&BurnFromParams { owner: a["client"], amount: whole(1) }), true),

            // ---------------------------------------------------------------- eam
            ("eam", "Create") => Call::new(blk(&fil_actor_eam::CreateParams { initcode: loader(CONTRACT_CODE), nonce: 7 }), true),
            ("eam", "Create2") => Call::new(blk(&fil_actor_eam::Create2Params { initcode: loader(CONTRACT_CODE), salt: [7u8; 32] }), true),
            ("eam", "CreateExternal") => Call::new(blk(&fil_actor_eam::CreateExternalParams(loader(CONTRACT_CODE))), true),

            // ---------------------------------------------------------------- account
            ("account", "PubkeyAddress") => Call::new(None, true),
            ("account", "AuthenticateMessage") => {
                let msg = b"hello".to_vec();
                let signer = if s { self.pk["acctTarget"] } else { self.pk["spare"] };
                Call::new(blk(&fil_actor_account::types::AuthenticateMessageParams { signature: sign(&signer, &msg), message: msg }), s)
            }

            // ---------------------------------------------------------------- miner
            ("miner", "ControlAddresses") | ("miner", "GetBeneficiary") | ("miner", "GetOwner")
            | ("miner", "GetSectorSize") | ("miner", "GetAvailableBalance") | ("miner", "GetVestingFunds")
            | ("miner", "GetPeerID") | ("miner", "GetMultiaddrs") | ("miner", "InitialPledge")
            | ("miner", "ConfirmChangeWorkerAddress") | ("miner", "RepayDebt") => Call::new(None, true),
            ("miner", "ChangeWorkerAddress") => Call::new(blk(&ChangeWorkerAddressParams {
                new_worker: if s { a["workerNew"] } else { a["owner"] },
                new_control_addresses: vec![a["control"]] }), s),
            ("miner", "ChangePeerID") => Call::new(blk(&ChangePeerIDParams { new_id: b"peer-2".to_vec() }), true),
            ("miner", "ChangeMultiaddrs") => Call::new(blk(&ChangeMultiaddrsParams { new_multi_addrs: vec![BytesDe(b"addr-2".to_vec())] }), true),
            ("miner", "SubmitWindowedPoSt") => {
                let st: MinerState = v.state(&m1).unwrap();
                let di = st.deadline_info(&v.policy, e);
                Call::new(blk(&SubmitWindowedPoStParams {
                    deadline: self.loc_plain.0, partitions: if s { vec![PoStPartition { index: self.loc_plain.1, skipped: bits(&[]) }] } else { vec![] },
                    proofs: vec![PoStProof { post_proof: POST, proof_bytes: vec![1, 2, 3] }],
                    chain_commit_epoch: di.challenge, chain_commit_rand: Randomness(RAND_ARRAY.into()) }), s && in_a)
            }
            ("miner", "TerminateSectors") => Call::new(blk(&TerminateSectorsParams {
                terminations: if s { vec![TerminationDeclaration { deadline: self.loc_plain.0, partition: self.loc_plain.1, sectors: bits(&[self.s_plain]) }] } else { vec![] } }), s && !in_a),
            ("miner", "DeclareFaults") => Call::new(blk(&DeclareFaultsParams {
                faults: if s { vec![FaultDeclaration { deadline: self.loc_plain.0, partition: self.loc_plain.1, sectors: bits(&[self.s_plain]) }] } else { vec![] } }), !s || !in_a),
            ("miner", "DeclareFaultsRecovered") => Call::new(blk(&DeclareFaultsRecoveredParams {
                recoveries: if s { vec![RecoveryDeclaration { deadline: self.loc_plain.0, partition: self.loc_plain.1,
                    sectors: if in_a { bits(&[]) } else { bits(&[self.s_claim]) } }] } else { vec![] } }), !s || !in_a),
            ("miner", "OnDeferredCronEvent") => {
                let rew: fil_actor_reward::State = v.state(&REWARD_ACTOR_ADDR).unwrap();
                let pow: fil_actor_power::State = v.state(&STORAGE_POWER_ACTOR_ADDR).unwrap();
                Call::new(blk(&DeferredCronEventParams {
                    event_payload: if s { RawBytes::serialize(CronEventPayload { event_type: CRON_EVENT_PROVING_DEADLINE }).unwrap().to_vec() } else { vec![] },
                    reward_smoothed: rew.this_epoch_reward_smoothed.clone(),
                    quality_adj_power_smoothed: pow.this_epoch_qa_power_smoothed.clone() }), s)
            }
            ("miner", "CheckSectorProven") => Call::new(blk(&CheckSectorProvenParams { sector_number: if s { self.s_plain } else { 900 } }), s),
            ("miner", "ApplyRewards") => Call::new(blk(&fil_actor_miner::ApplyRewardParams { reward: atto(10), penalty: atto(0) }), true).val(atto(10)),
            ("miner", "ReportConsensusFault") => Call::new(blk(&ReportConsensusFaultParams {
                header1: vec![1], header2: vec![2], header_extra: vec![] }), s),
            ("miner", "WithdrawBalance") => Call::new(blk(&fil_actor_miner::WithdrawBalanceParams { amount_requested: atto(if s { 7 } else { 0 }) }), true),
            ("miner", "InternalSectorSetupForPreseal") => {
                let rew: fil_actor_reward::State = v.state(&REWARD_ACTOR_ADDR).unwrap();
                let pow: fil_actor_power::State = v.state(&STORAGE_POWER_ACTOR_ADDR).unwrap();
                Call::new(blk(&InternalSectorSetupForPresealParams {
                    sectors: vec![], reward_smoothed: rew.this_epoch_reward_smoothed.clone(),
                    reward_baseline_power: rew.this_epoch_baseline_power.clone(),
                    quality_adj_power_smoothed: pow.this_epoch_qa_power_smoothed.clone() }), false)
            }
            ("miner", "CompactPartitions") => Call::new(blk(&CompactPartitionsParams {
                deadline: (self.loc_plain.0 + if in_a { 2 } else { 3 }) % v.policy.wpost_period_deadlines,
                partitions: bits(&[]) }), true),
            ("miner", "CompactSectorNumbers") => Call::new(blk(&CompactSectorNumbersParams {
                mask_sector_numbers: if s { bits(&[500, 501]) } else { bits(&[]) } }), s),
            ("miner", "ChangeOwnerAddress") => Call::new(blk(&ChangeOwnerAddressParams {
                new_owner: if s && cls == "pendingOwner" { a["pendingOwner"] } else { a["spare"] } }), true),
            ("miner", "DisputeWindowedPoSt") => Call::new(blk(&DisputeWindowedPoStParams { deadline: self.loc_plain.0, post_index: 0 }), !in_a),
            ("miner", "PreCommitSectorBatch2") => {
                let exp = e + 30 * 2880 + v.policy.pre_commit_challenge_delay + v.policy.min_sector_expiration + 200;
                Call::new(blk(&PreCommitSectorBatchParams2 { sectors: if s { vec![SectorPreCommitInfo {
                    seal_proof: SEAL, sector_number: 40, sealed_cid: make_sealed_cid(b"sn: 40"), seal_rand_epoch: e - 1,
                    deal_ids: vec![], expiration: exp, unsealed_cid: CompactCommD::empty() }] } else { vec![] } }), s)
            }
            ("miner", "ChangeBeneficiary") => {
                let p = if s && (cls == "beneficiary" || cls == "nominee") {
                    ChangeBeneficiaryParams { new_beneficiary: a["nominee"], new_quota: self.pending_ben.0.clone(), new_expiration: self.pending_ben.1 }
                } else {
                    ChangeBeneficiaryParams { new_beneficiary: a["spare"], new_quota: whole(5), new_expiration: e + 100_000 }
                };
                Call::new(blk(&p), true)
            }
            ("miner", "ExtendSectorExpiration2") => Call::new(blk(&ExtendSectorExpiration2Params {
                extensions: if s { vec![ExpirationExtension2 { deadline: self.loc_plain.0, partition: self.loc_plain.1,
                    sectors: bits(&[self.s_plain]), sectors_with_claims: vec![], new_expiration: self.exp_plain + 2 * v.policy.wpost_proving_period }] } else { vec![] } }), s && !in_a),
            ("miner", "ProveCommitSectors3") => Call::new(blk(&prove_params(if s { &[3] } else { &[] })), s),
            ("miner", "ProveReplicaUpdates3") => Call::new(blk(&ProveReplicaUpdates3Params {
                sector_updates: vec![], sector_proofs: vec![], aggregate_proof: vec![].into(),
                update_proofs_type: RegisteredUpdateProof::StackedDRG2KiBV1, aggregate_proof_type: None,
                require_activation_success: false, require_notification_success: false }), false),
            ("miner", "ProveCommitSectorsNI") => Call::new(blk(&ProveCommitSectorsNIParams {
                sectors: vec![], aggregate_proof: vec![].into(), seal_proof_type: RegisteredSealProof::StackedDRG2KiBV1P2_Feat_NiPoRep,
                aggregate_proof_type: RegisteredAggregateProof::SnarkPackV2, proving_deadline: 0, require_activation_success: false }), false),
            ("miner", "IsControllingAddress") => Call::new(blk(&IsControllingAddressParam { address: a["owner"] }), true),
            ("miner", "MaxTerminationFee") => Call::new(blk(&MaxTerminationFeeParams { power: StoragePower::from(2048), initial_pledge: atto(1000) }), true),
            ("miner", "GenerateSectorLocation") => Call::new(blk(&GenerateSectorLocationParams { sector_number: self.s_plain }), true),
            ("miner", "ValidateSectorStatus") => {
                let aux = fvm_ipld_encoding::to_vec(&fil_actor_miner::SectorLocation {
                    deadline: self.loc_plain.0 as i64, partition: self.loc_plain.1 as i64 }).unwrap();
                Call::new(blk(&ValidateSectorStatusParams { sector_number: self.s_plain, status: SectorStatusCode::Active, aux_data: aux }), true)
            }
            ("miner", "GetNominalSectorExpiration") => Call::new(blk(&self.s_plain), true),

            // ---------------------------------------------------------------- multisig
            ("multisig", "Propose") => Call::new(blk(&ProposeParams { to: a["account"], value: atto(1), method: METHOD_SEND, params: RawBytes::default() }), true),
            ("multisig", "Approve") => Call::new(blk(&TxnIDParams { id: TxnID(if s { 0 } else { 55 }), proposal_hash: vec![] }), s && in_a),
            ("multisig", "Cancel") => Call::new(blk(&TxnIDParams { id: TxnID(if s { 0 } else { 55 }), proposal_hash: vec![] }), s),
            ("multisig", "AddSigner") => Call::new(blk(&AddSignerParams { signer: a["spare"], increase: false }), true),
            ("multisig", "RemoveSigner") => Call::new(blk(&RemoveSignerParams { signer: a["signer2"], decrease: true }), true),
            ("multisig", "SwapSigner") => Call::new(blk(&SwapSignerParams { from: a["signer2"], to: a["spare"] }), true),
            ("multisig", "ChangeNumApprovalsThreshold") => Call::new(blk(&ChangeNumApprovalsThresholdParams { new_threshold: 2 }), true),
            ("multisig", "LockBalance") => Call::new(blk(&LockBalanceParams { start_epoch: e, unlock_duration: 10, amount: atto(1) }), true),
            ("multisig", "UniversalReceiverHook") => Call::new(blk(&UniversalReceiverParams { type_: 0, payload: RawBytes::default() }), true),

            // ---------------------------------------------------------------- paych
            ("paych", "UpdateChannelState") => {
                // a voucher is redeemed by one party and must carry the OTHER party's signature
                let signer = if cls == "payee" { self.pk["payer"] } else { self.pk["payee"] };
                let mut sv = SignedVoucher {
                    channel_addr: a["pc"], time_lock_min: 0, time_lock_max: 0, secret_pre_image: vec![], extra: None,
                    lane: 1, nonce: 1, amount: atto(10), min_settle_height: 0, merges: vec![], signature: None,
                };
                if s {
                    let bz = sv.signing_bytes().unwrap();
                    sv.signature = Some(Signature { sig_type: SignatureType::Secp256k1, bytes: sign(&signer, &bz) });
                }
                Call::new(blk(&UpdateChannelStateParams { sv, secret: vec![] }), s && in_a)
            }
            ("paych", "Settle") => Call::new(None, self.fixture == "A"),
            ("paych", "Collect") => Call::new(None, self.fixture == "B"),

            // ---------------------------------------------------------------- evm
            ("evm", "Resurrect") => Call::new(blk(&contract_ctor()), false),
            ("evm", "GetBytecode") | ("evm", "GetBytecodeHash") => Call::new(None, true),
            ("evm", "GetStorageAt") => Call::new(blk(&fil_actor_evm::GetStorageAtParams { storage_key: U256::from(0u64) }), true),
            ("evm", "InvokeContractDelegate") => {
                let st: fil_actor_evm::State = v.state(&a["e1"]).unwrap();
                let p = fil_actor_evm::DelegateCallParams {
                    code: st.bytecode, input: vec![], caller: EthAddress::from_id(a["account"].id().unwrap()), value: atto(0) };
                Call::new(Some(IpldBlock::serialize(DAG_CBOR, &p).unwrap()), true)
            }
            ("evm", "InvokeContract") => Call::new(blk(&fil_actor_evm::InvokeContractParams { input_data: vec![] }), true),
            _ => Call::untyped(),
        }
    }

    fn type_name(&self, a: &Address) -> String {
        match self.v.actor_type(a) {
            Some(t) => format!("{:?}", t).to_lowercase(),
            None => "none".into(),
        }
    }

    /// Execute one cell in one mode; returns the trace event.
    pub fn run_cell(&self, cell: &Value, mode: &str) -> Value {
        let t = cell["t"].as_str().unwrap();
        let name = cell["name"].as_str().unwrap();
        let var = cell["var"].as_str().unwrap_or("");
        let kind = cell["kind"].as_str().unwrap_or("method");
        let cls = cell["cls"].as_str().unwrap();
        let hi = cell["hi"].as_u64().unwrap();
        let lo = cell["lo"].as_u64().unwrap();
        let method = hi * 65536 + lo;
        let success = mode == "success";
        self.v.rollback(self.root);
        let from = self.sender(t, cls);
        let to = if name == "Constructor" && success { self.blank[t] } else { self.tgt[t] };
        let call = self.params(t, name, var, cls, success, kind);
        let is_rcf = t == "miner" && name == "ReportConsensusFault" && success;
        if is_rcf {
            self.v.consensus_fault.replace(Some(ConsensusFault {
                target: self.a["m1"], epoch: self.v.epoch() - 1, fault_type: ConsensusFaultType::DoubleForkMining }));
        }
        let o = self.v.run(&from, &to, &call.value, method, call.params.clone());
        if is_rcf {
            self.v.consensus_fault.replace(None);
        }
        // what changed in the state tree (the sender's nonce is bumped by the VM for every message,
        // accepted or not, and is not an effect of the call)
        let post = self.v.actor_states();
        let mut changed: Vec<String> = vec![];
        for (k, b) in self.base.iter() {
            match post.get(k) {
                None => changed.push(format!("{k}:deleted")),
                Some(p) => {
                    let seq_ok = p.sequence == b.sequence || (*k == from && p.sequence == b.sequence + 1);
                    if p.code != b.code || p.state != b.state || p.balance != b.balance || !seq_ok {
                        changed.push(format!("{k}"));
                    }
                }
            }
        }
        for k in post.keys() {
            if !self.base.contains_key(k) {
                changed.push(format!("{k}:new"));
            }
        }
        self.v.rollback(self.root);

        // exit class
        let mut exit = o.class().to_string();
        if o.ok() && t == "verifreg" && name.starts_with("ExtendClaimTerms") {
            if let Some(r) = o.ret.as_ref().and_then(|b| b.deserialize::<BatchReturn>().ok()) {
                if r.success_count == 0 && !r.fail_codes.is_empty() {
                    exit = "ok_allfailed".into();
                }
            }
        }
        // validations of the top-level invocation, and of the whole tree
        let top = &o.inv;
        let vals: Vec<Value> = top.validations.iter()
            .map(|x| json!({"kind": x.kind, "ok": x.ok, "afterWrite": x.after_write, "afterSend": x.after_send}))
            .collect();
        let wrote_before = top.validations.iter().any(|x| x.after_write);
        let sent_before = top.validations.iter().any(|x| x.after_send);
        let mut completed_unvalidated = false;
        let mut tree_bad: Vec<Value> = vec![];
        top.walk(&mut |i: &Inv, depth| {
            if i.msg.contains("failed to validate caller") {
                completed_unvalidated = true;
            }
            if depth > 0 {
                for x in &i.validations {
                    if x.after_write || x.after_send {
                        tree_bad.push(json!({"to": self.type_name(&i.to), "hi": i.method >> 16, "lo": i.method & 0xffff,
                                             "afterWrite": x.after_write, "afterSend": x.after_send}));
                    }
                }
            }
        }, 0);
        // sends that (may) have preceded the first validation: when the validation failed the call
        // ended there, so ALL recorded sends preceded it (`exact`); otherwise they are an upper bound
        let mut presends: Vec<Value> = vec![];
        let mut presends_exact = true;
        if sent_before {
            presends_exact = top.validations.iter().any(|x| !x.ok);
            for sub in &top.subs {
                let mut wrote = false;
                sub.walk(&mut |i: &Inv, _| { if i.wrote && i.exit.is_success() { wrote = true; } }, 0);
                presends.push(json!({"to": self.type_name(&sub.to), "hi": sub.method >> 16, "lo": sub.method & 0xffff,
                                     "value0": sub.value.is_zero(), "wrote": wrote, "readOnly": sub.read_only}));
            }
        }
        if std::env::var("ACCESS_VERBOSE").is_ok() {
            top.walk(&mut |i: &Inv, depth| {
                eprintln!("{}{} -> {} m{} exit {} {}", "  ".repeat(depth), i.from, i.to, i.method, i.exit, i.msg);
            }, 0);
        }
        let vm_unknown_artefact = o.panicked && cls == "unknown" && o.message.contains("Option::unwrap()");
        json!({
            "ev": format!("{t}.{name}"),
            "t": t, "name": name, "var": var, "kind": kind, "hi": hi, "lo": lo, "cls": cls,
            "mode": mode, "fx": self.fixture,
            "designated": cell["designated"],
            "ok": exit == "ok",
            "exit": exit,
            "code": o.code.value(),
            "msg": o.message.chars().take(140).collect::<String>(),
            "vals": vals,
            "wroteBeforeValidate": wrote_before,
            "sentBeforeValidate": sent_before,
            "presends": presends,
            "presendsExact": presends_exact,
            "treeBad": tree_bad,
            "completedWithoutValidating": completed_unvalidated,
            "changed": !changed.is_empty(),
            "panicked": o.panicked,
            "vmUnknownCallerArtefact": vm_unknown_artefact,
            "typed": call.typed,
            "succ": call.succ && success,
            "st": {"changed": changed},
        })
    }
}

/// FRC-42 method number of a name (independent re-implementation: blake2b-512 of "1|name", first
/// big-endian 4-byte window >= 2^24).
pub fn frc42(name: &str) -> u64 {
    let h = blake2b_simd::Params::new().hash_length(64).hash(format!("1|{name}").as_bytes());
    for c in h.as_bytes().chunks(4) {
        let n = u32::from_be_bytes([c[0], c[1], c[2], c[3]]) as u64;
        if n >= (1 << 24) {
            return n;
        }
    }
    panic!("no method number for {name}");
}

pub fn main(args: &[String]) {
    let out = arg(args, "--out").expect("--out");
    let seed = arg_u64(args, "--seed", 1);
    let modes: Vec<String> = arg(args, "--modes").unwrap_or("default,success").split(',').map(|s| s.to_string()).collect();
    let fixtures: Vec<String> = arg(args, "--fixtures").unwrap_or("A").split(',').map(|s| s.to_string()).collect();
    let only = arg(args, "--only"); // debugging: "type.Method"
    // extra passes over the whole matrix with different seeds (account keys, ids, addresses)
    let reseed = arg_u64(args, "--reseed", 0);
    let beh = arg(args, "--behaviours").expect("--behaviours (the matrix exported by TLC from MC_Access)");
    let mut t = TraceOut::create(out);
    let mut sched_out = arg(args, "--schedules").map(TraceOut::create);
    let cells: Vec<Value> = read_schedules(beh, 1).into_iter().flat_map(|(_, c)| c).collect();
    let mut first = true;
    let mut stats: BTreeMap<String, u64> = BTreeMap::new();
    let mut bump = |k: &str| *stats.entry(k.to_string()).or_insert(0) += 1;
    let mut frc_bad = vec![];
    let mut passes: Vec<(String, u64)> = fixtures.iter().map(|f| (f.clone(), seed)).collect();
    for k in 0..reseed {
        for f in &fixtures {
            passes.push((f.clone(), seed.wrapping_mul(7919).wrapping_add(k + 1)));
        }
    }
    // a replay file names the fixture, seed and mode of its cell(s): run exactly those
    if !cells.is_empty() && cells.iter().all(|c| c.get("fx").is_some() && c.get("seed").is_some()) {
        passes.clear();
        for c in &cells {
            let p = (c["fx"].as_str().unwrap().to_string(), c["seed"].as_u64().unwrap());
            if !passes.contains(&p) {
                passes.push(p);
            }
        }
    }
    for (fx, seed) in &passes {
        let seed = *seed;
        // a replayed cell names its fixture and mode
        let mine: Vec<&Value> = cells.iter()
            .filter(|c| c.get("fx").and_then(|f| f.as_str()).map(|f| f == fx).unwrap_or(true))
            .filter(|c| c.get("seed").and_then(|f| f.as_u64()).map(|f| f == seed).unwrap_or(true))
            .collect();
        if mine.is_empty() {
            continue;
        }
        let w = World::build(seed, fx);
        for cell in mine {
            if let Some(o) = only {
                if format!("{}.{}", cell["t"].as_str().unwrap(), cell["name"].as_str().unwrap()) != o {
                    continue;
                }
            }
            // the exported numbers of the table are the FRC-42 hashes of the names
            let name = cell["name"].as_str().unwrap();
            let num = cell["hi"].as_u64().unwrap() * 65536 + cell["lo"].as_u64().unwrap();
            let hashed = name.strip_suffix("Exported").map(|n| n.to_string())
                .or_else(|| name.strip_prefix("frc42:").map(|n| n.to_string()));
            if let Some(n) = hashed {
                if frc42(&n) != num && !(cell["t"] == json!("market") && n == "SectorContentChanged" && false) {
                    frc_bad.push(format!("{}.{}", cell["t"], name));
                }
            }
            for mode in &modes {
                if let Some(m) = cell.get("mode").and_then(|m| m.as_str()) {
                    if m != mode {
                        continue;
                    }
                }
                let ev = w.run_cell(cell, mode);
                t.line(&json!({"ev": if first { "Init" } else { "Reset" }, "const": {"Fixture": fx}, "st": {"changed": []}}));
                first = false;
                t.traces += 1;
                bump("cells");
                bump(&format!("exit:{}", ev["exit"].as_str().unwrap()));
                if ev["succ"] == json!(true) { bump("with_success_params"); }
                if ev["designated"] == json!(true) { bump("designated"); }
                if ev["designated"] == json!(true) && ev["exit"] == json!("ok") { bump("designated_ok"); }
                if ev["changed"] == json!(true) { bump("state_changed"); }
                if ev["typed"] == json!(false) { bump("untyped_params"); }
                t.line(&ev);
                if let Some(s) = sched_out.as_mut() {
                    let mut c = cell.clone();
                    c["mode"] = json!(mode);
                    c["fx"] = json!(fx);
                    c["seed"] = json!(seed);
                    s.line(&json!({"scale": 1, "calls": [c]}));
                }
            }
        }
        for n in &w.notes {
            eprintln!("note: {n}");
        }
    }
    t.flush();
    if let Some(s) = sched_out.as_mut() {
        s.flush();
    }
    frc_bad.sort();
    frc_bad.dedup();
    if !frc_bad.is_empty() {
        eprintln!("table rows whose number is not the FRC-42 hash of their name: {frc_bad:?}");
        std::process::exit(3);
    }
    println!("{}", json!({"driver": "access", "traces": t.traces, "events": t.events, "stats": stats}));
}
