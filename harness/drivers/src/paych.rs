//! Driver + projection for the payment channel actor (spec/Paych.tla, property C16).
use crate::util::*;
use crate::vm::*;
use fil_actor_paych::{
    LaneState, Merge, Method, ModVerifyParams, SETTLE_DELAY, SignedVoucher, State,
    UpdateChannelStateParams,
};
use fil_actors_runtime::runtime::Policy;
use fil_actors_runtime::test_utils::PAYCH_ACTOR_CODE_ID;
use fil_actors_runtime::{Array, INIT_ACTOR_ADDR};
use fvm_ipld_encoding::RawBytes;
use fvm_shared::METHOD_SEND;
use fvm_shared::address::Address;
use fvm_shared::crypto::signature::{Signature, SignatureType};
use fvm_shared::econ::TokenAmount;
use serde_json::{Value, json};
use vm_api::VM;

pub const MODEL_MAX_LANE: i64 = 1_000_000; // abstraction of MAX_LANE (2^63-1) in traces
const REAL_TOO_BIG_LANE: u64 = 1 << 63;

pub struct Chan {
    pub v: VVM,
    pub payer: Address,
    pub payee: Address,
    pub other: Address,
    pub payer_pk: Address,
    pub payee_pk: Address,
    pub other_pk: Address,
    pub chan: Address,
}

fn pk_of(v: &VVM, id: &Address) -> Address {
    let st: fil_actor_account::State = v.state(id).unwrap();
    st.address
}

impl Chan {
    pub fn new(seed: u64) -> Chan {
        let v = VVM::genesis(Policy::default());
        let accts = v.create_accounts(3, seed, &TokenAmount::from_atto(1_000_000));
        let (payer, payee, other) = (accts[0], accts[1], accts[2]);
        let ctor = fil_actor_paych::ConstructorParams { from: payer, to: payee };
        let o = v.run_p(
            &payer,
            &INIT_ACTOR_ADDR,
            &TokenAmount::from_atto(0),
            fil_actor_init::Method::Exec as u64,
            &fil_actor_init::ExecParams {
                code_cid: *PAYCH_ACTOR_CODE_ID,
                constructor_params: RawBytes::serialize(&ctor).unwrap(),
            },
        );
        assert!(o.ok(), "paych create: {}", o.message);
        let ret: fil_actor_init::ExecReturn = o.de();
        Chan {
            payer_pk: pk_of(&v, &payer),
            payee_pk: pk_of(&v, &payee),
            other_pk: pk_of(&v, &other),
            v,
            payer,
            payee,
            other,
            chan: ret.id_address,
        }
    }

    fn who(&self, c: &str) -> (Address, Address) {
        match c {
            "payer" => (self.payer, self.payer_pk),
            "payee" => (self.payee, self.payee_pk),
            _ => (self.other, self.other_pk),
        }
    }

    /// Abstract state of spec/Paych.tla read from the real actor.
    pub fn project(&self) -> Value {
        let epoch = self.v.epoch();
        match self.v.actor(&self.chan) {
            None => json!({"bal": 0, "toSend": 0, "settlingAt": 0, "minSettle": 0, "lanes": [],
                           "alive": false, "epoch": epoch}),
            Some(a) => {
                let st: State = self.v.state(&self.chan).unwrap();
                let arr: Array<LaneState, _> = Array::load(&st.lane_states, &self.v.store).unwrap();
                let mut lanes = vec![];
                arr.for_each(|i, ls| {
                    lanes.push(json!([lane_to_model(i), small(&ls.redeemed), ls.nonce]));
                    Ok(())
                })
                .unwrap();
                json!({"bal": small(&a.balance), "toSend": small(&st.to_send),
                       "settlingAt": st.settling_at, "minSettle": st.min_settle_height,
                       "lanes": lanes, "alive": true, "epoch": epoch})
            }
        }
    }

    /// Execute one abstract call; returns the trace event.
    pub fn step(&self, call: &Value, scale: i64) -> Value {
        let a = call["a"].as_str().unwrap();
        match a {
            "Tick" => {
                let n = call["n"].as_i64().unwrap() * scale;
                self.v.set_epoch(self.v.epoch() + n);
                json!({"ev": "Tick", "ok": true, "n": n, "st": self.project()})
            }
            "Deposit" => {
                let amt = call["amt"].as_i64().unwrap();
                let o = self.v.run(
                    &self.payer,
                    &self.chan,
                    &TokenAmount::from_atto(amt),
                    METHOD_SEND,
                    None,
                );
                json!({"ev": "Deposit", "ok": o.ok(), "class": o.class(), "amt": amt, "st": self.project()})
            }
            "Settle" | "Collect" => {
                let c = call["c"].as_str().unwrap();
                let (from, _) = self.who(c);
                let m = if a == "Settle" { Method::Settle } else { Method::Collect };
                let bal_payee = self.v.balance(&self.payee);
                let bal_payer = self.v.balance(&self.payer);
                let o = self.v.run(&from, &self.chan, &TokenAmount::from_atto(0), m as u64, None);
                let mut ev = json!({"ev": a, "ok": o.ok(), "class": o.class(), "c": c, "msg": o.message,
                                    "st": self.project()});
                if a == "Collect" && o.ok() {
                    // what actually arrived, observed on the balances
                    ev["paid"] = json!({
                        "payee": small(&(self.v.balance(&self.payee) - bal_payee)),
                        "payer": small(&(self.v.balance(&self.payer) - bal_payer))});
                }
                ev
            }
            "Voucher" => {
                let v = &call["v"];
                let mut vv = v.clone();
                let (from, _) = self.who(v["caller"].as_str().unwrap());
                let (_, signer_pk) = self.who(v["signer"].as_str().unwrap());
                let lane_m = v["lane"].as_i64().unwrap();
                let secret_ok = v["secretOK"].as_bool().unwrap();
                let secret_len_ok = v["secretLenOK"].as_bool().unwrap();
                let extra_ok = v["extraOK"].as_bool().unwrap();
                let nonce = v["nonce"].as_u64().unwrap();
                // variety that the abstract record does not determine is derived from the nonce
                let use_preimage = !secret_ok || (nonce % 2 == 1);
                let secret: Vec<u8> = if !secret_len_ok {
                    vec![7u8; 257]
                } else if use_preimage {
                    b"the secret".to_vec()
                } else {
                    vec![]
                };
                let pre_image: Vec<u8> = if !secret_len_ok {
                    vec![]
                } else if use_preimage {
                    let good = blake2b_simd::Params::new()
                        .hash_length(32)
                        .to_state()
                        .update(b"the secret")
                        .finalize()
                        .as_bytes()
                        .to_vec();
                    if secret_ok {
                        good
                    } else {
                        blake2b_simd::Params::new()
                            .hash_length(32)
                            .to_state()
                            .update(b"another secret")
                            .finalize()
                            .as_bytes()
                            .to_vec()
                    }
                } else {
                    vec![]
                };
                let extra = if !extra_ok {
                    // method 3 does not exist on an account actor (and is below the FRC-42 range)
                    Some(ModVerifyParams { actor: self.other, method: 3, data: RawBytes::default() })
                } else if nonce % 3 == 2 {
                    // an account actor accepts any method number in the FRC-42 range
                    Some(ModVerifyParams { actor: self.other, method: 1 << 24, data: RawBytes::default() })
                } else {
                    None
                };
                let merges: Vec<Merge> = v["merges"]
                    .as_array()
                    .unwrap()
                    .iter()
                    .map(|m| Merge {
                        lane: lane_to_real(m["lane"].as_i64().unwrap()),
                        nonce: m["nonce"].as_u64().unwrap(),
                    })
                    .collect();
                let mut sv = SignedVoucher {
                    channel_addr: if v["chanOK"].as_bool().unwrap() { self.chan } else { self.payer },
                    time_lock_min: v["tlMin"].as_i64().unwrap() * scale,
                    time_lock_max: v["tlMax"].as_i64().unwrap() * scale,
                    secret_pre_image: pre_image,
                    extra,
                    lane: lane_to_real(lane_m),
                    nonce,
                    amount: TokenAmount::from_atto(v["amt"].as_i64().unwrap()),
                    min_settle_height: v["msh"].as_i64().unwrap() * scale,
                    merges,
                    signature: None,
                };
                if v["signed"].as_bool().unwrap() {
                    let bz = sv.signing_bytes().unwrap();
                    sv.signature = Some(Signature {
                        sig_type: SignatureType::Secp256k1,
                        bytes: sign(&signer_pk, &bz),
                    });
                }
                vv["tlMin"] = json!(sv.time_lock_min);
                vv["tlMax"] = json!(sv.time_lock_max);
                vv["msh"] = json!(sv.min_settle_height);
                let o = self.v.run_p(
                    &from,
                    &self.chan,
                    &TokenAmount::from_atto(0),
                    Method::UpdateChannelState as u64,
                    &UpdateChannelStateParams { sv, secret },
                );
                json!({"ev": "Voucher", "ok": o.ok(), "class": o.class(), "v": vv, "msg": o.message,
                       "st": self.project()})
            }
            _ => panic!("unknown call {a}"),
        }
    }
}

fn lane_to_model(l: u64) -> i64 {
    if l >= REAL_TOO_BIG_LANE {
        MODEL_MAX_LANE + 1
    } else if l >= MODEL_MAX_LANE as u64 {
        MODEL_MAX_LANE
    } else {
        l as i64
    }
}
fn lane_to_real(l: i64) -> u64 {
    if l > MODEL_MAX_LANE {
        REAL_TOO_BIG_LANE
    } else if l == MODEL_MAX_LANE {
        i64::MAX as u64
    } else {
        l as u64
    }
}

/// Random abstract schedule, biased to boundaries, peeking at the real state for plausible nonces.
fn random_call(rng: &mut Rng, ch: &Chan) -> Value {
    let st = ch.project();
    let epoch = st["epoch"].as_i64().unwrap();
    let settling = st["settlingAt"].as_i64().unwrap();
    let k = rng.below(100);
    if k < 55 {
        let lanes: Vec<(i64, i64, i64)> = st["lanes"]
            .as_array()
            .unwrap()
            .iter()
            .map(|l| (l[0].as_i64().unwrap(), l[1].as_i64().unwrap(), l[2].as_i64().unwrap()))
            .collect();
        let lane = rng.range(0, 3);
        let cur = lanes.iter().find(|l| l.0 == lane);
        let nonce = match cur {
            Some(l) => (l.2 + rng.range(-1, 2)).max(0),
            None => rng.range(0, 2),
        };
        let caller = *rng.pick(&["payer", "payee"]);
        let mut merges = vec![];
        let nm = *rng.pick(&[0, 0, 0, 1, 1, 2, 3]);
        for _ in 0..nm {
            let ml = rng.range(0, 3);
            let mcur = lanes.iter().find(|l| l.0 == ml).map(|l| l.2).unwrap_or(0);
            merges.push(json!({"lane": ml, "nonce": (mcur + rng.range(-1, 2)).max(0)}));
        }
        let msh = if rng.chance(25) {
            *rng.pick(&[epoch, epoch + 1, settling, settling + 1, settling + 1000, epoch + 2000])
        } else {
            0
        };
        let mut v = json!({
            "caller": caller, "signer": if caller == "payer" {"payee"} else {"payer"},
            "signed": true, "chanOK": true, "secretOK": true, "secretLenOK": true, "extraOK": true,
            "lane": lane, "nonce": nonce, "amt": rng.range(0, 9), "merges": merges,
            "tlMin": 0, "tlMax": 0, "msh": msh.max(0)});
        if rng.chance(30) {
            match rng.below(14) {
                0 => v["caller"] = json!("other"),
                1 => v["signer"] = v["caller"].clone(),
                2 => v["signer"] = json!("other"),
                3 => v["signed"] = json!(false),
                4 => v["chanOK"] = json!(false),
                5 => v["secretOK"] = json!(false),
                6 => v["secretLenOK"] = json!(false),
                7 => v["extraOK"] = json!(false),
                8 => v["tlMin"] = json!(epoch + 1),
                9 => v["tlMax"] = json!((epoch - 1).max(1)),
                10 => {
                    v["tlMin"] = json!(epoch);
                    v["tlMax"] = json!(epoch.max(1));
                }
                11 => v["lane"] = json!(MODEL_MAX_LANE + 1),
                12 => v["amt"] = json!(-1),
                _ => v["lane"] = json!(MODEL_MAX_LANE),
            }
        }
        json!({"a": "Voucher", "v": v})
    } else if k < 65 {
        json!({"a": "Deposit", "amt": rng.range(0, 6)})
    } else if k < 75 {
        json!({"a": "Settle", "c": *rng.pick(&["payer", "payee", "other"])})
    } else if k < 85 {
        json!({"a": "Collect", "c": *rng.pick(&["payer", "payee", "other"])})
    } else {
        let d = SETTLE_DELAY;
        let to_settle = (settling - epoch).max(1);
        json!({"a": "Tick", "n": *rng.pick(&[1, 1, 2, 100, d - 1, d, d + 1, to_settle - 1, to_settle, to_settle + 1]).max(&1)})
    }
}

pub fn header() -> Value {
    json!({"SettleDelay": SETTLE_DELAY, "MaxLane": MODEL_MAX_LANE})
}

/// Entry point: `drive paych --out F [--behaviours B --scale S] [--random N --len L --seed S]`
pub fn main(args: &[String]) {
    let out = arg(args, "--out").expect("--out");
    let seed = arg_u64(args, "--seed", 1);
    let mut t = TraceOut::create(out);
    let mut sched_out = arg(args, "--schedules").map(TraceOut::create);
    let mut first = true;
    let mut begin = |t: &mut TraceOut, ch: &Chan| {
        let ev = if first { "Init" } else { "Reset" };
        first = false;
        t.line(&json!({"ev": ev, "const": header(), "st": ch.project()}));
        t.traces += 1;
    };
    if let Some(b) = arg(args, "--behaviours") {
        let scale = arg_u64(args, "--scale", (SETTLE_DELAY / 2) as u64) as i64;
        for (i, (scale, beh)) in read_schedules(b, scale).iter().enumerate() {
            let scale = *scale;
            let ch = Chan::new(seed + i as u64);
            begin(&mut t, &ch);
            for call in beh {
                let ev = ch.step(call, scale);
                t.line(&ev);
            }
            if let Some(s) = sched_out.as_mut() {
                s.line(&json!({"scale": scale, "calls": beh}));
            }
        }
    }
    let n = arg_u64(args, "--random", 0);
    let len = arg_u64(args, "--len", 30);
    let mut rng = Rng::new(seed);
    for i in 0..n {
        let ch = Chan::new(seed.wrapping_mul(1000) + i);
        begin(&mut t, &ch);
        let mut calls = vec![];
        for _ in 0..len {
            let call = random_call(&mut rng, &ch);
            let ev = ch.step(&call, 1);
            t.line(&ev);
            calls.push(call);
        }
        if let Some(s) = sched_out.as_mut() {
            s.line(&json!({"scale": 1, "calls": calls}));
        }
    }
    t.flush();
    if let Some(s) = sched_out.as_mut() {
        s.flush();
    }
    println!("{}", json!({"driver": "paych", "traces": t.traces, "events": t.events}));
}
