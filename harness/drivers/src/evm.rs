//! Driver for the EVM interpreter (spec/EVM.tla + spec/Words.tla, properties C17 and C18).
//!
//! Every generated program is deployed through the real EAM (`CreateExternal` from an account, the
//! init code being a tiny loader that returns the runtime code) and invoked with `InvokeContract`
//! on the recording VM.  The interpreter's verification hook reports every step (pc, opcode, stack,
//! memory size) and enforces a step budget.  One trace per program:
//!   header  {"ev":"Init"|"Reset","const":{..},"kind":"call"|"init","code":[..],"calldata":[..],
//!            "static":false,"fuel":N,"fd":K,"cmp":true,"id":".."}
//!   steps   {"ev":"<MNEMONIC>","pc":..,"op":..,"d":depth,"stk":[[..],..],"ms":memory size}
//!            stk = the whole stack bottom..top if depth <= fd, else the top fd items; a word is
//!            its big-endian bytes without leading zero bytes ([] = 0)
//!   final   {"ev":"End","class":..,"code":exit code,"out":[..],"storage":[[k,v],..],
//!            "panicked":bool,"steps":n,"st":{..}}
//! The driver knows nothing about what the instructions should compute: the only EVM knowledge in
//! here is which stack operands of which opcode are (offset, size) of a memory region -- needed to
//! stop a run before the interpreter would allocate gigabytes (the harness' stand-in for
//! out-of-gas, class "memcap"; the specification predicts it independently).
use crate::util::*;
use crate::vm::*;
use fil_actor_evm::verif_hook;
use fil_actors_evm_shared::uints::U256;
use fil_actors_runtime::EAM_ACTOR_ADDR;
use fil_actors_runtime::runtime::Policy;
use fvm_ipld_encoding::BytesDe;
use fvm_ipld_kamt::{AsHashedKey, Config as KamtConfig, HashedKey, Kamt};
use fvm_shared::address::Address;
use fvm_shared::econ::TokenAmount;
use fvm_shared::error::ExitCode;
use rand::RngCore;
use serde_json::{Value, json};
use std::borrow::Cow;
use std::cell::RefCell;
use std::rc::Rc;
use vm_api::VM;

/// Memory may not grow beyond this many bytes in a harness run (stands for gas).
pub const MEM_CAP: u64 = 1 << 16;
pub const STACK_LIMIT: u64 = 1024;
pub const MEMCAP_PANIC: &str = "verif-evm: memory cap";
pub const DEFAULT_FUEL: u64 = 3000;

// ---------------------------------------------------------------------------------------------
// opcode names (for the per-opcode event counts in the evidence; no semantics)

pub fn mnemonic(op: u8) -> String {
    let fixed: &[(u8, &str)] = &[
        (0x00, "STOP"), (0x01, "ADD"), (0x02, "MUL"), (0x03, "SUB"), (0x04, "DIV"), (0x05, "SDIV"),
        (0x06, "MOD"), (0x07, "SMOD"), (0x08, "ADDMOD"), (0x09, "MULMOD"), (0x0a, "EXP"),
        (0x0b, "SIGNEXTEND"), (0x10, "LT"), (0x11, "GT"), (0x12, "SLT"), (0x13, "SGT"), (0x14, "EQ"),
        (0x15, "ISZERO"), (0x16, "AND"), (0x17, "OR"), (0x18, "XOR"), (0x19, "NOT"), (0x1a, "BYTE"),
        (0x1b, "SHL"), (0x1c, "SHR"), (0x1d, "SAR"), (0x1e, "CLZ"), (0x20, "KECCAK256"),
        (0x30, "ADDRESS"), (0x31, "BALANCE"), (0x32, "ORIGIN"), (0x33, "CALLER"), (0x34, "CALLVALUE"),
        (0x35, "CALLDATALOAD"), (0x36, "CALLDATASIZE"), (0x37, "CALLDATACOPY"), (0x38, "CODESIZE"),
        (0x39, "CODECOPY"), (0x3a, "GASPRICE"), (0x3b, "EXTCODESIZE"), (0x3c, "EXTCODECOPY"),
        (0x3d, "RETURNDATASIZE"), (0x3e, "RETURNDATACOPY"), (0x3f, "EXTCODEHASH"), (0x40, "BLOCKHASH"),
        (0x41, "COINBASE"), (0x42, "TIMESTAMP"), (0x43, "NUMBER"), (0x44, "PREVRANDAO"),
        (0x45, "GASLIMIT"), (0x46, "CHAINID"), (0x47, "SELFBALANCE"), (0x48, "BASEFEE"),
        (0x50, "POP"), (0x51, "MLOAD"), (0x52, "MSTORE"), (0x53, "MSTORE8"), (0x54, "SLOAD"),
        (0x55, "SSTORE"), (0x56, "JUMP"), (0x57, "JUMPI"), (0x58, "PC"), (0x59, "MSIZE"), (0x5a, "GAS"),
        (0x5b, "JUMPDEST"), (0x5c, "TLOAD"), (0x5d, "TSTORE"), (0x5e, "MCOPY"), (0x5f, "PUSH0"),
        (0xf0, "CREATE"), (0xf1, "CALL"), (0xf3, "RETURN"), (0xf4, "DELEGATECALL"), (0xf5, "CREATE2"),
        (0xfa, "STATICCALL"), (0xfd, "REVERT"), (0xfe, "INVALID"), (0xff, "SELFDESTRUCT"),
    ];
    if let Some((_, n)) = fixed.iter().find(|(c, _)| *c == op) {
        return n.to_string();
    }
    match op {
        0x60..=0x7f => format!("PUSH{}", op - 0x5f),
        0x80..=0x8f => format!("DUP{}", op - 0x7f),
        0x90..=0x9f => format!("SWAP{}", op - 0x8f),
        0xa0..=0xa4 => format!("LOG{}", op - 0xa0),
        _ => format!("OP_{op:02x}"),
    }
}

// ---------------------------------------------------------------------------------------------
// JSON encodings

pub fn bytes_json(b: &[u8]) -> Value {
    Value::Array(b.iter().map(|x| json!(*x)).collect())
}
/// A word as its big-endian bytes without leading zeros.
pub fn word_json(w: &[u8; 32]) -> Value {
    let first = w.iter().position(|x| *x != 0).unwrap_or(32);
    bytes_json(&w[first..])
}
pub fn hex_of(v: &Value) -> Vec<u8> {
    hex::decode(v.as_str().unwrap_or("")).expect("hex")
}

// ---------------------------------------------------------------------------------------------
// the recorded step

#[derive(Clone, Debug)]
pub struct StepRec {
    pub pc: usize,
    pub op: u8,
    pub depth: usize,
    pub top: Vec<[u8; 32]>, // bottom..top of the logged part
    pub ms: usize,
}

/// Which memory regions (offset, size) the instruction `op` is about to touch, read off the
/// operand stack (top = last).  Purely the operand layout of the memory-touching opcodes.
fn regions(op: u8, st: &[U256]) -> Vec<(U256, U256)> {
    let n = st.len();
    let s = |i: usize| st[n - 1 - i];
    let w = |k: u64| U256::from(k);
    let need = |k: usize| n >= k;
    match op {
        0x51 | 0x52 if need(if op == 0x51 { 1 } else { 2 }) => vec![(s(0), w(32))],
        0x53 if need(2) => vec![(s(0), w(1))],
        0x20 | 0xf3 | 0xfd if need(2) => vec![(s(0), s(1))],
        0xa0..=0xa4 if need(2 + (op - 0xa0) as usize) => vec![(s(0), s(1))],
        0x37 | 0x39 | 0x3e if need(3) => vec![(s(0), s(2))],
        0x3c if need(4) => vec![(s(1), s(3))],
        0x5e if need(3) => vec![(s(1), s(2)), (s(0), s(2))],
        0xf0 if need(3) => vec![(s(1), s(2))],
        0xf5 if need(4) => vec![(s(1), s(2))],
        0xf1 | 0xf2 if need(7) => vec![(s(3), s(4)), (s(5), s(6))],
        0xf4 | 0xfa if need(6) => vec![(s(2), s(3)), (s(4), s(5))],
        _ => vec![],
    }
}

/// true iff some region fits the 32-bit address space but ends beyond MEM_CAP.
fn exceeds_cap(op: u8, st: &[U256]) -> bool {
    let lim = U256::from(u32::MAX);
    regions(op, st).iter().any(|(off, size)| {
        if size.is_zero() || *off > lim || *size > lim {
            return false;
        }
        let end = off.low_u64() + size.low_u64();
        end <= u32::MAX as u64 && end > MEM_CAP
    })
}

pub struct Recorder {
    pub steps: Rc<RefCell<Vec<StepRec>>>,
    pub max_depth: Rc<RefCell<usize>>,
    pub max_ms: Rc<RefCell<usize>>,
}

/// Install the observer + fuel; `full_depth` = how many stack items to keep per step;
/// `keep` = maximum number of steps to keep in memory (the rest are only counted).
pub fn install(fuel: u64, full_depth: usize) -> Recorder {
    let steps: Rc<RefCell<Vec<StepRec>>> = Rc::new(RefCell::new(vec![]));
    let max_depth = Rc::new(RefCell::new(0usize));
    let max_ms = Rc::new(RefCell::new(0usize));
    let (s2, d2, m2) = (steps.clone(), max_depth.clone(), max_ms.clone());
    verif_hook::set_observer(Some(Box::new(move |s: &verif_hook::Step| {
        let n = s.stack.len();
        let k = n.min(full_depth);
        let top: Vec<[u8; 32]> = s.stack[n - k..].iter().map(|w| w.to_big_endian()).collect();
        s2.borrow_mut().push(StepRec { pc: s.pc, op: s.op, depth: n, top, ms: s.memory_size });
        if n > *d2.borrow() {
            *d2.borrow_mut() = n;
        }
        if s.memory_size > *m2.borrow() {
            *m2.borrow_mut() = s.memory_size;
        }
        if exceeds_cap(s.op, s.stack) {
            std::panic::panic_any(MEMCAP_PANIC.to_string());
        }
    })));
    verif_hook::set_fuel(Some(fuel));
    Recorder { steps, max_depth, max_ms }
}
pub fn uninstall() {
    verif_hook::set_observer(None);
    verif_hook::set_fuel(None);
}

// ---------------------------------------------------------------------------------------------
// the environment: a chain with one funded account; contracts are created through the EAM

pub struct Env {
    pub v: VVM,
    pub acct: Address,
    pub keccak_ok: bool,
}

pub struct StorageHash;
impl AsHashedKey<U256, 32> for StorageHash {
    fn as_hashed_key(key: &U256) -> Cow<'_, HashedKey<32>> {
        Cow::Owned(key.to_big_endian())
    }
}
const KAMT_CONFIG: KamtConfig = KamtConfig { min_data_depth: 0, bit_width: 5, max_array_width: 1 };

/// The loader: init code that returns `code` as the runtime code.
pub fn loader(code: &[u8]) -> Vec<u8> {
    let len = code.len();
    assert!(len <= 0xffff);
    let off = 12usize;
    let mut v = vec![
        0x61, (len >> 8) as u8, len as u8, // PUSH2 len
        0x80,                               // DUP1
        0x61, (off >> 8) as u8, off as u8, // PUSH2 off
        0x5f,                               // PUSH0
        0x39,                               // CODECOPY
        0x5f,                               // PUSH0
        0xf3,                               // RETURN
        0x00,
    ];
    assert_eq!(v.len(), off);
    v.extend_from_slice(code);
    v
}

pub fn out_bytes(o: &Outcome) -> Vec<u8> {
    match &o.ret {
        None => vec![],
        Some(b) => match b.deserialize::<BytesDe>() {
            Ok(BytesDe(d)) => d,
            Err(_) => b.data.clone(),
        },
    }
}

pub fn classify(o: &Outcome) -> &'static str {
    if o.panicked {
        return if o.message.contains(MEMCAP_PANIC) { "memcap" } else { "panic" };
    }
    let c = o.code;
    if c == ExitCode::OK {
        "ok"
    } else if c == fil_actor_evm::EVM_CONTRACT_REVERTED {
        "revert"
    } else if c == fil_actor_evm::EVM_CONTRACT_INVALID_INSTRUCTION {
        "invalid"
    } else if c == fil_actor_evm::EVM_CONTRACT_UNDEFINED_INSTRUCTION {
        "undefined"
    } else if c == fil_actor_evm::EVM_CONTRACT_STACK_UNDERFLOW {
        "underflow"
    } else if c == fil_actor_evm::EVM_CONTRACT_STACK_OVERFLOW {
        "overflow"
    } else if c == fil_actor_evm::EVM_CONTRACT_ILLEGAL_MEMORY_ACCESS {
        "mem"
    } else if c == fil_actor_evm::EVM_CONTRACT_BAD_JUMPDEST {
        "badjump"
    } else if c == ExitCode::SYS_OUT_OF_GAS {
        "fuel"
    } else if c == ExitCode::USR_READ_ONLY {
        "readonly"
    } else if c == ExitCode::USR_ILLEGAL_ARGUMENT {
        "illegal_argument"
    } else if c == ExitCode::USR_FORBIDDEN {
        "forbidden"
    } else {
        "other"
    }
}

impl Env {
    pub fn new(seed: u64) -> Env {
        let v = VVM::genesis(Policy::default());
        let acct = v.create_accounts(1, seed, &TokenAmount::from_whole(1_000_000))[0];
        let mut e = Env { v, acct, keccak_ok: false };
        e.keccak_ok = keccak_selftest(&e);
        e
    }

    /// CreateExternal with arbitrary init code.
    pub fn create(&self, initcode: &[u8]) -> Outcome {
        self.v.run_p(
            &self.acct,
            &EAM_ACTOR_ADDR,
            &TokenAmount::from_atto(0),
            fil_actor_eam::Method::CreateExternal as u64,
            &fil_actor_eam::CreateExternalParams(initcode.to_vec()),
        )
    }

    /// Deploy `code` as runtime code; returns the new contract's ID address.
    pub fn deploy(&self, code: &[u8]) -> Result<Address, Outcome> {
        let o = self.create(&loader(code));
        if !o.ok() {
            return Err(o);
        }
        let r: fil_actor_eam::CreateExternalReturn = o.de();
        Ok(Address::new_id(r.actor_id))
    }

    pub fn invoke_from(&self, from: &Address, to: &Address, calldata: &[u8]) -> Outcome {
        self.v.run_p(
            from,
            to,
            &TokenAmount::from_atto(0),
            fil_actor_evm::Method::InvokeContract as u64,
            &fil_actor_evm::InvokeContractParams { input_data: calldata.to_vec() },
        )
    }
    pub fn invoke(&self, to: &Address, calldata: &[u8]) -> Outcome {
        self.invoke_from(&self.acct, to, calldata)
    }

    /// The contract's storage read straight from its KAMT (sorted by key).
    pub fn storage_kamt(&self, a: &Address) -> Vec<([u8; 32], [u8; 32])> {
        let st: Option<fil_actor_evm::State> = self.v.state(a);
        let mut out = vec![];
        if let Some(st) = st {
            let k: Kamt<_, U256, U256, StorageHash> =
                Kamt::load_with_config(&st.contract_state, self.v.store.clone(), KAMT_CONFIG.clone())
                    .expect("load storage kamt");
            k.for_each(|key, val| {
                out.push((key.to_big_endian(), val.to_big_endian()));
                Ok(())
            })
            .expect("walk storage kamt");
        }
        out.sort();
        out
    }

    /// The value of one storage slot through the actor's own `GetStorageAt` (callable by f00 only).
    pub fn storage_at(&self, a: &Address, key: &[u8; 32]) -> Option<[u8; 32]> {
        let o = self.v.run_p(
            &fil_actors_runtime::SYSTEM_ACTOR_ADDR,
            a,
            &TokenAmount::from_atto(0),
            fil_actor_evm::Method::GetStorageAt as u64,
            &fil_actor_evm::GetStorageAtParams { storage_key: U256::from_big_endian(key) },
        );
        if !o.ok() {
            return None;
        }
        let r: fil_actor_evm::GetStorageAtReturn = o.de();
        Some(r.storage.to_big_endian())
    }
}

// ---------------------------------------------------------------------------------------------
// a schedule = one program

#[derive(Clone, Debug)]
pub struct Prog {
    pub kind: String, // "call" (runtime code invoked with calldata) | "init" (bytes run as init code)
    pub code: Vec<u8>,
    pub calldata: Vec<u8>,
    pub fuel: u64,
    pub fd: usize,
    pub id: String,
}

impl Prog {
    pub fn call(id: &str, code: Vec<u8>, calldata: Vec<u8>) -> Prog {
        Prog { kind: "call".into(), code, calldata, fuel: DEFAULT_FUEL, fd: 8, id: id.into() }
    }
    pub fn to_json(&self) -> Value {
        json!({"kind": self.kind, "code": hex::encode(&self.code), "calldata": hex::encode(&self.calldata),
               "fuel": self.fuel, "fd": self.fd, "id": self.id})
    }
    pub fn from_json(v: &Value) -> Prog {
        Prog {
            kind: v["kind"].as_str().unwrap_or("call").to_string(),
            code: hex_of(&v["code"]),
            calldata: hex_of(&v["calldata"]),
            fuel: v["fuel"].as_u64().unwrap_or(DEFAULT_FUEL),
            fd: v["fd"].as_u64().unwrap_or(8) as usize,
            id: v["id"].as_str().unwrap_or("").to_string(),
        }
    }
}

/// Does the VM's keccak-256, as the EVM actor reaches it, give the well-known digest of the empty
/// string?  (Decided by running PUSH0 PUSH0 KECCAK256 PUSH0 MSTORE PUSH1 32 PUSH0 RETURN; test_utils'
/// FakePrimitives::hash_64 used to return the multihash code as the digest length.)  The
/// specification's two built-in digests are only checked if it does.
pub fn keccak_known(env: &Env) -> bool {
    env.keccak_ok
}
fn keccak_selftest(env: &Env) -> bool {
    match env.deploy(&[0x5f, 0x5f, 0x20, 0x5f, 0x52, 0x60, 0x20, 0x5f, 0xf3]) {
        Err(_) => false,
        Ok(a) => {
            let o = env.invoke(&a, &[]);
            let out = out_bytes(&o);
            o.ok() && out.len() == 32 && out[..4] == [0xc5, 0xd2, 0x46, 0x01] && out[28..] == [0x5d, 0x85, 0xa4, 0x70]
        }
    }
}

pub fn consts(keccak_ok: bool) -> Value {
    json!({"MemCap": MEM_CAP, "StackLimit": STACK_LIMIT, "KeccakKnown": if keccak_ok { 1 } else { 0 }})
}

pub struct RunResult {
    pub class: String,
    pub steps: usize,
    pub max_depth: usize,
    pub max_ms: usize,
    pub panicked: bool,
}

/// How expensive re-executing this run in TLC would be (bytes moved / hashed); runs above the
/// budget are still bounds-checked step by step but not re-executed by the specification.
fn tlc_cost(steps: &[StepRec]) -> u64 {
    let mut c = steps.len() as u64;
    for s in steps {
        // a copy / hash / return of n bytes costs about n byte evaluations; the size operand is
        // the top-of-stack item 1 or 2 of those opcodes
        let n = s.top.len();
        let word = |i: usize| -> u64 {
            if n > i {
                let w = &s.top[n - 1 - i];
                if w[..24].iter().all(|b| *b == 0) { u64::from_be_bytes(w[24..].try_into().unwrap()) } else { u64::MAX }
            } else {
                0
            }
        };
        let sz = match s.op {
            0x37 | 0x39 | 0x3e | 0x5e => word(2),
            0x20 | 0xf3 | 0xfd => word(1),
            _ => 0,
        };
        c = c.saturating_add(sz.min(MEM_CAP));
    }
    c
}

pub struct Runner {
    pub env: Env,
    pub first: bool,
    pub tlc_budget: u64,
    pub skipped_cmp: usize,
    pub seed: u64,
    made: usize,
}

impl Runner {
    pub fn new(seed: u64) -> Runner {
        Runner { env: Env::new(seed), first: true, tlc_budget: 400_000, skipped_cmp: 0, seed, made: 0 }
    }

    fn header(&mut self, p: &Prog, cmp: bool, stat: bool, storage0: &[([u8; 32], [u8; 32])]) -> Value {
        let ev = if self.first { "Init" } else { "Reset" };
        self.first = false;
        let s0: Vec<Value> = storage0.iter().map(|(k, v)| json!([word_json(k), word_json(v)])).collect();
        json!({"ev": ev, "const": consts(keccak_known(&self.env)), "kind": p.kind, "code": bytes_json(&p.code),
               "calldata": bytes_json(&p.calldata), "static": stat, "fuel": p.fuel, "fd": p.fd,
               "cmp": cmp, "id": p.id, "storage0": s0, "st": "-"})
    }

    pub fn step_events(steps: &[StepRec]) -> Vec<Value> {
        steps
            .iter()
            .map(|s| {
                json!({"ev": mnemonic(s.op), "pc": s.pc, "op": s.op, "d": s.depth,
                       "stk": Value::Array(s.top.iter().map(word_json).collect()), "ms": s.ms})
            })
            .collect()
    }

    /// Run one program on the real actors and append its trace.
    pub fn run(&mut self, p: &Prog, t: &mut TraceOut) -> RunResult {
        // a fresh chain now and then keeps the block store small
        self.made += 1;
        if self.made % 400 == 0 {
            self.env = Env::new(self.seed + self.made as u64);
        }
        let mut hp = p.clone();           // the program as the header describes it
        let mut storage0: Vec<([u8; 32], [u8; 32])> = vec![];
        let (o, steps, rec_depth, rec_ms, target): (Outcome, Vec<StepRec>, usize, usize, Option<Address>) =
            if p.kind == "init" {
                let rec = install(p.fuel, p.fd);
                let o = self.env.create(&p.code);
                uninstall();
                let target = if o.ok() {
                    let r: fil_actor_eam::CreateExternalReturn = o.de();
                    Some(Address::new_id(r.actor_id))
                } else {
                    None
                };
                let steps = rec.steps.borrow().clone();
                (o, steps, *rec.max_depth.borrow(), *rec.max_ms.borrow(), target)
            } else {
                // "call": p.code is runtime code, deployed through the loader;
                // "initcall": p.code is init code, run unobserved; whatever contract it creates is called
                let created = if p.kind == "initcall" {
                    let o = self.env.create(&p.code);
                    if o.ok() {
                        let r: fil_actor_eam::CreateExternalReturn = o.de();
                        Ok(Address::new_id(r.actor_id))
                    } else {
                        Err(o)
                    }
                } else {
                    self.env.deploy(&p.code)
                };
                match created {
                    Err(o) => {
                        // cannot exist on chain (e.g. first byte 0xEF, too long): record as such
                        let class = if p.kind == "initcall" { "uncreated" } else { "undeployable" };
                        let h = self.header(p, false, false, &[]);
                        t.line(&h);
                        t.traces += 1;
                        t.line(&json!({"ev": "End", "class": class, "code": o.code.value(),
                                       "out": [], "storage": [], "panicked": o.panicked, "steps": 0,
                                       "msg": "-", "stok": true, "st": class}));
                        return RunResult { class: class.into(), steps: 0, max_depth: 0, max_ms: 0, panicked: o.panicked };
                    }
                    Ok(addr) => {
                        if p.kind == "initcall" {
                            hp.code = self.bytecode_of(&addr);
                            storage0 = self.env.storage_kamt(&addr);
                        }
                        let rec = install(p.fuel, p.fd);
                        let o = self.env.invoke(&addr, &p.calldata);
                        uninstall();
                        let steps = rec.steps.borrow().clone();
                        (o, steps, *rec.max_depth.borrow(), *rec.max_ms.borrow(), Some(addr))
                    }
                }
            };
        let class = classify(&o);
        let out = if class == "ok" || class == "revert" { out_bytes(&o) } else { vec![] };
        // for an init run the "output" of a successful run is the deployed code
        let out = if p.kind == "init" && class == "ok" {
            match target {
                Some(a) => self.bytecode_of(&a),
                None => vec![],
            }
        } else {
            out
        };
        // final storage: KAMT walk, cross-checked against GetStorageAt for every key seen
        let mut storage = vec![];
        let mut stok = true;
        if let Some(a) = target {
            if self.env.v.actor(&a).is_some() {
                let kv = self.env.storage_kamt(&a);
                let mut keys: Vec<[u8; 32]> = kv.iter().map(|(k, _)| *k).collect();
                for s in &steps {
                    if (s.op == 0x55 || s.op == 0x54) && !s.top.is_empty() {
                        keys.push(*s.top.last().unwrap());
                    }
                }
                keys.sort();
                keys.dedup();
                keys.truncate(200);
                for k in keys {
                    let via_actor = self.env.storage_at(&a, &k).unwrap_or([0xEE; 32]);
                    let via_kamt = kv.iter().find(|(kk, _)| *kk == k).map(|(_, v)| *v).unwrap_or([0; 32]);
                    if via_actor != via_kamt {
                        stok = false;
                    }
                }
                storage = kv;
            }
        }
        let cost = tlc_cost(&steps);
        let cmp = cost <= self.tlc_budget;
        if !cmp {
            self.skipped_cmp += 1;
        }
        let h = self.header(&hp, cmp, false, &storage0);
        t.line(&h);
        t.traces += 1;
        for e in Self::step_events(&steps) {
            t.line(&e);
        }
        let storage_json: Vec<Value> =
            storage.iter().map(|(k, v)| json!([word_json(k), word_json(v)])).collect();
        let out_j = bytes_json(&out);
        let digest = {
            use std::hash::{Hash, Hasher};
            let mut h = std::collections::hash_map::DefaultHasher::new();
            out.hash(&mut h);
            storage.hash(&mut h);
            h.finish()
        };
        let msg: String = o.message.chars().filter(|c| *c != '"' && *c != '\\' && !c.is_control()).take(120).collect();
        t.line(&json!({"ev": "End", "class": class, "code": o.code.value(), "out": out_j,
                       "storage": storage_json, "panicked": o.panicked && class != "memcap",
                       "steps": steps.len(), "msg": msg, "stok": stok,
                       "st": format!("{class}:{digest:016x}")}));
        RunResult { class: class.into(), steps: steps.len(), max_depth: rec_depth, max_ms: rec_ms, panicked: o.panicked && class != "memcap" }
    }

    pub fn bytecode_of(&self, a: &Address) -> Vec<u8> {
        let st: Option<fil_actor_evm::State> = self.env.v.state(a);
        match st {
            Some(st) => {
                use fvm_ipld_blockstore::Blockstore;
                self.env.v.store.get(&st.bytecode).ok().flatten().unwrap_or_default()
            }
            None => vec![],
        }
    }
}

// ---------------------------------------------------------------------------------------------
// a tiny assembler with labels

#[derive(Clone, Debug)]
pub enum Item {
    B(Vec<u8>),
    /// PUSH2 <address of label>
    PushLabel(usize),
    /// JUMPDEST marking the label
    Label(usize),
}

pub fn assemble(items: &[Item]) -> Vec<u8> {
    let mut addr = std::collections::HashMap::new();
    let mut pos = 0usize;
    for it in items {
        match it {
            Item::B(b) => pos += b.len(),
            Item::PushLabel(_) => pos += 3,
            Item::Label(l) => {
                addr.insert(*l, pos);
                pos += 1;
            }
        }
    }
    let mut out = vec![];
    for it in items {
        match it {
            Item::B(b) => out.extend_from_slice(b),
            Item::PushLabel(l) => {
                let a = *addr.get(l).expect("label");
                out.extend_from_slice(&[0x61, (a >> 8) as u8, a as u8]);
            }
            Item::Label(_) => out.push(0x5b),
        }
    }
    out
}

/// Shortest PUSH for a value given as 32 big-endian bytes (PUSH0 for zero).
pub fn push_min(w: &[u8; 32]) -> Vec<u8> {
    let first = w.iter().position(|x| *x != 0).unwrap_or(32);
    let n = 32 - first;
    let mut v = vec![0x5f + n as u8];
    v.extend_from_slice(&w[first..]);
    v
}
pub fn push32(w: &[u8; 32]) -> Vec<u8> {
    let mut v = vec![0x7f];
    v.extend_from_slice(w);
    v
}
pub fn push_u(x: u64) -> Vec<u8> {
    let mut w = [0u8; 32];
    w[24..].copy_from_slice(&x.to_be_bytes());
    push_min(&w)
}
pub fn word_u(x: u64) -> [u8; 32] {
    let mut w = [0u8; 32];
    w[24..].copy_from_slice(&x.to_be_bytes());
    w
}

// ---------------------------------------------------------------------------------------------
// generators

/// 2^k as a word
fn pow2(k: usize) -> [u8; 32] {
    let mut w = [0u8; 32];
    w[31 - k / 8] = 1 << (k % 8);
    w
}
fn add1(w: &[u8; 32]) -> [u8; 32] {
    let mut r = *w;
    for i in (0..32).rev() {
        let (v, c) = r[i].overflowing_add(1);
        r[i] = v;
        if !c {
            break;
        }
    }
    r
}
fn sub1(w: &[u8; 32]) -> [u8; 32] {
    let mut r = *w;
    for i in (0..32).rev() {
        let (v, b) = r[i].overflowing_sub(1);
        r[i] = v;
        if !b {
            break;
        }
    }
    r
}
pub fn rand_word(rng: &mut Rng) -> [u8; 32] {
    let mut w = [0u8; 32];
    for c in w.chunks_mut(8) {
        c.copy_from_slice(&rng.0.next_u64().to_be_bytes());
    }
    // vary the magnitude
    let keep = *rng.pick(&[32usize, 32, 32, 24, 16, 9, 8, 4, 2, 1]);
    for b in w.iter_mut().take(32 - keep) {
        *b = 0;
    }
    w
}
pub fn rand_bytes(rng: &mut Rng, n: usize) -> Vec<u8> {
    (0..n).map(|_| rng.below(256) as u8).collect()
}

/// The boundary lattice of the property text.
pub fn lattice(rng: &mut Rng, randoms: usize) -> Vec<[u8; 32]> {
    let mut v: Vec<[u8; 32]> = [0u64, 1, 2, 31, 32, 255, 256].iter().map(|x| word_u(*x)).collect();
    for k in [8usize, 16, 64, 128, 255] {
        let p = pow2(k);
        v.push(sub1(&p));
        v.push(p);
        v.push(add1(&p));
    }
    v.push([0xff; 32]);
    v.push(sub1(&[0xff; 32]));
    for _ in 0..randoms {
        v.push(rand_word(rng));
    }
    v.sort();
    v.dedup();
    v
}

pub const BIN_OPS: &[u8] = &[
    0x01, 0x02, 0x03, 0x04, 0x05, 0x06, 0x07, 0x0a, 0x0b, 0x10, 0x11, 0x12, 0x13, 0x14, 0x16, 0x17,
    0x18, 0x1a, 0x1b, 0x1c, 0x1d,
];
pub const UN_OPS: &[u8] = &[0x15, 0x19, 0x1e];
pub const TER_OPS: &[u8] = &[0x08, 0x09];

/// How a single-instruction case makes its result observable.
fn ending(e: u64) -> Vec<u8> {
    match e % 4 {
        0 => vec![0x5f, 0x52, 0x60, 0x20, 0x5f, 0xf3], // MSTORE at 0; RETURN 32 bytes
        1 => vec![0x60, 0x01, 0x55],                   // SSTORE at key 1, fall off the end
        2 => vec![0x5f, 0x52, 0x60, 0x20, 0x5f, 0xfd], // MSTORE at 0; REVERT 32 bytes
        _ => vec![0x60, 0x07, 0x5d, 0x60, 0x07, 0x5c, 0x60, 0x02, 0x55, 0x00], // TSTORE; TLOAD; SSTORE key 2; STOP
    }
}

fn op_case(op: u8, operands: &[[u8; 32]], e: u64, wide: bool) -> Prog {
    // operands[0] is the top of the stack (mu_s[0]), so it is pushed last
    let mut code = vec![];
    for w in operands.iter().rev() {
        code.extend(if wide { push32(w) } else { push_min(w) });
    }
    code.push(op);
    code.extend(ending(e));
    Prog::call(&format!("op:{}", mnemonic(op)), code, vec![])
}

/// (a) every arithmetic / comparison / bitwise instruction over the lattice: all pairs for binary
/// instructions, sampled triples for ternary ones.  `quota` = cases per instruction (0 = all).
pub fn gen_arith(rng: &mut Rng, quota: usize) -> Vec<Prog> {
    let lat = lattice(rng, 3);
    let mut out = vec![];
    let mut e = 0u64;
    for &op in BIN_OPS {
        let mut cases = vec![];
        for a in &lat {
            for b in &lat {
                cases.push((*a, *b));
            }
        }
        shuffle(rng, &mut cases);
        if quota > 0 {
            cases.truncate(quota);
        }
        for (a, b) in cases {
            e += 1;
            out.push(op_case(op, &[a, b], e, e % 7 == 0));
        }
    }
    for &op in UN_OPS {
        for a in &lat {
            e += 1;
            out.push(op_case(op, &[*a], e, e % 7 == 0));
        }
    }
    for &op in TER_OPS {
        let n = if quota > 0 { quota } else { 1500 };
        for i in 0..n {
            let (a, b) = (*rng.pick(&lat), *rng.pick(&lat));
            // moduli: the lattice, with 0 and 2^256-1 guaranteed to occur
            let c = match i {
                0 => [0u8; 32],
                1 => [0xff; 32],
                _ => *rng.pick(&lat),
            };
            e += 1;
            out.push(op_case(op, &[a, b, c], e, false));
        }
    }
    out
}

pub fn shuffle<T>(rng: &mut Rng, v: &mut [T]) {
    for i in (1..v.len()).rev() {
        let j = rng.below(i as u64 + 1) as usize;
        v.swap(i, j);
    }
}

const PAT1: [u8; 32] = [
    0xa0, 0xa1, 0xa2, 0xa3, 0xa4, 0xa5, 0xa6, 0xa7, 0xa8, 0xa9, 0xaa, 0xab, 0xac, 0xad, 0xae, 0xaf, 0xb0,
    0xb1, 0xb2, 0xb3, 0xb4, 0xb5, 0xb6, 0xb7, 0xb8, 0xb9, 0xba, 0xbb, 0xbc, 0xbd, 0xbe, 0xbf,
];
const PAT2: [u8; 32] = [
    0x01, 0x02, 0x03, 0x04, 0x05, 0x06, 0x07, 0x08, 0x09, 0x0a, 0x0b, 0x0c, 0x0d, 0x0e, 0x0f, 0x10, 0x11,
    0x12, 0x13, 0x14, 0x15, 0x16, 0x17, 0x18, 0x19, 0x1a, 0x1b, 0x1c, 0x1d, 0x1e, 0x1f, 0x20,
];

/// fill memory[0..96) with recognisable bytes
fn mem_prologue() -> Vec<u8> {
    let mut c = vec![];
    c.extend(push32(&PAT1));
    c.extend([0x5f, 0x52]); // MSTORE at 0
    c.extend(push32(&PAT2));
    c.extend([0x60, 0x20, 0x52]); // MSTORE at 32
    c.extend(push32(&PAT1));
    c.extend([0x60, 0x40, 0x52]); // MSTORE at 64
    c
}
/// push MSIZE into storage key 9 and return memory[0..160)
fn mem_epilogue() -> Vec<u8> {
    vec![0x59, 0x60, 0x09, 0x55, 0x60, 0xa0, 0x5f, 0xf3]
}

fn offsets_lattice() -> Vec<[u8; 32]> {
    let mut v: Vec<[u8; 32]> = [
        0u64, 1, 31, 32, 33, 63, 64, 95, 96, 255, 256,
        MEM_CAP - 64, MEM_CAP - 33, MEM_CAP - 32, MEM_CAP - 31, MEM_CAP - 1, MEM_CAP, MEM_CAP + 1,
        1 << 31, (1u64 << 32) - 33, (1u64 << 32) - 32, (1u64 << 32) - 2, (1u64 << 32) - 1, 1u64 << 32,
        (1u64 << 32) + 1, u64::MAX,
    ]
    .iter()
    .map(|x| word_u(*x))
    .collect();
    v.push(pow2(64));
    v.push(pow2(255));
    v.push([0xff; 32]);
    v
}

/// (a, continued) stack, memory, storage, call-data / code / return-data, hashing, control flow.
pub fn gen_other(rng: &mut Rng, keep_pct: u64) -> Vec<Prog> {
    let mut out: Vec<Prog> = vec![];
    let mut add = |id: &str, code: Vec<u8>, cd: Vec<u8>, fd: usize| {
        let mut p = Prog::call(id, code, cd);
        p.fd = fd;
        out.push(p);
    };
    // --- PUSH0..PUSH32, complete and truncated by the end of the code
    for n in 0..=32usize {
        let data = rand_bytes(rng, n);
        let mut c = vec![0x5f + n as u8];
        c.extend(&data);
        let mut full = c.clone();
        full.extend(ending(n as u64));
        add(&format!("stack:PUSH{n}"), full, vec![], 8);
        for cut in [0usize, n / 2, n.saturating_sub(1)] {
            if cut < n {
                let mut t = vec![0x5f, 0x5f]; // two items below
                t.push(0x5f + n as u8);
                t.extend(&data[..cut]);
                add(&format!("ill:PUSH{n}-truncated"), t, vec![], 8);
            }
        }
    }
    // --- DUP1..16 / SWAP1..16 on stacks of every relevant height, whole stack logged
    for n in 1..=16usize {
        for (name, op, need) in [("DUP", 0x7f + n as u8, n), ("SWAP", 0x8f + n as u8, n + 1)] {
            for h in [need.saturating_sub(1), need, need + 1, 17] {
                let mut c = vec![];
                for i in 0..h {
                    let mut w = rand_word(rng);
                    w[31] = i as u8 + 1;
                    c.extend(push_min(&w));
                }
                c.push(op);
                c.extend(ending((n + h) as u64));
                add(&format!("stack:{name}{n}"), c, vec![], 20);
            }
        }
    }
    add("stack:POP", vec![0x60, 0x01, 0x60, 0x02, 0x50, 0x5f, 0x52, 0x60, 0x20, 0x5f, 0xf3], vec![], 8);
    add("ill:POP-underflow", vec![0x50], vec![], 8);
    // --- MLOAD / MSTORE / MSTORE8 / MSIZE over the offsets lattice
    for off in offsets_lattice() {
        for op in [0x51u8, 0x52, 0x53] {
            let mut c = mem_prologue();
            if op != 0x51 {
                c.extend(push32(&PAT2.map(|b| b ^ 0x5a)));
            }
            c.extend(push_min(&off));
            c.push(op);
            if op == 0x51 {
                c.extend([0x60, 0x08, 0x55]); // SSTORE loaded word at key 8
            }
            c.extend(mem_epilogue());
            add(&format!("mem:{}", mnemonic(op)), c, vec![], 8);
        }
    }
    // --- MCOPY: overlapping both ways, zero length, growth by source and by destination
    let small = [0u64, 1, 5, 31, 32, 33, 64, 90, 200];
    let lens = [0u64, 1, 31, 32, 33, 64, 95];
    for &d in &small {
        for &s in &small {
            for &l in &lens {
                if !rng.chance(keep_pct) {
                    continue;
                }
                let mut c = mem_prologue();
                c.extend(push_u(l));
                c.extend(push_u(s));
                c.extend(push_u(d));
                c.push(0x5e);
                c.extend(mem_epilogue());
                add("mem:MCOPY", c, vec![], 8);
            }
        }
    }
    for (d, s, l) in [
        (word_u(0), word_u(0), word_u(MEM_CAP)),
        (word_u(0), word_u(0), word_u(MEM_CAP + 1)),
        (word_u(MEM_CAP - 32), word_u(0), word_u(32)),
        (word_u(MEM_CAP - 31), word_u(0), word_u(32)),
        (word_u(0), word_u(MEM_CAP - 31), word_u(32)),
        (word_u(0), word_u((1 << 32) - 1), word_u(1)),
        (word_u((1 << 32) - 1), word_u(0), word_u(1)),
        (word_u((1 << 32) - 2), word_u(0), word_u(1)),
        ([0xff; 32], [0xff; 32], word_u(0)),
        ([0xff; 32], word_u(0), word_u(1)),
        (word_u(0), word_u(0), [0xff; 32]),
        (word_u(MEM_CAP + 5), word_u((1 << 32) + 5), word_u(1)),
    ] {
        let mut c = mem_prologue();
        c.extend(push_min(&l));
        c.extend(push_min(&s));
        c.extend(push_min(&d));
        c.push(0x5e);
        c.extend(mem_epilogue());
        add("mem:MCOPY-edge", c, vec![], 8);
    }
    // --- CALLDATALOAD / CALLDATASIZE / CALLDATACOPY / CODESIZE / CODECOPY
    for cdlen in [0usize, 1, 31, 32, 33, 100] {
        let cd = rand_bytes(rng, cdlen);
        for off in [
            word_u(0), word_u(1), word_u(31), word_u(32), word_u(cdlen.saturating_sub(1) as u64),
            word_u(cdlen as u64), word_u(cdlen as u64 + 1), word_u(1 << 32), word_u(u64::MAX), [0xff; 32],
        ] {
            let mut c = push_min(&off);
            c.extend([0x35, 0x36, 0x60, 0x03, 0x55]); // CALLDATALOAD CALLDATASIZE -> key 3
            c.extend(ending(0));
            add("data:CALLDATALOAD", c, cd.clone(), 8);
        }
        for &op in &[0x37u8, 0x39] {
            for &dst in &[0u64, 7, 64] {
                for off in [
                    word_u(0), word_u(1), word_u(cdlen.saturating_sub(1) as u64), word_u(cdlen as u64),
                    word_u(cdlen as u64 + 5), word_u((1 << 32) - 1), [0xff; 32],
                ] {
                    for &sz in &[0u64, 1, 32, 33, 100] {
                        if !rng.chance(keep_pct) {
                            continue;
                        }
                        let mut c = mem_prologue();
                        c.extend(push_u(sz));
                        c.extend(push_min(&off));
                        c.extend(push_u(dst));
                        c.push(op);
                        c.push(0x38); // CODESIZE
                        c.extend([0x60, 0x04, 0x55]);
                        c.extend(mem_epilogue());
                        add(&format!("data:{}", mnemonic(op)), c, cd.clone(), 8);
                    }
                }
            }
        }
    }
    for &op in &[0x37u8, 0x39, 0x3e] {
        for (dst, off, sz) in [
            (word_u(0), word_u(0), word_u(MEM_CAP)),
            (word_u(0), word_u(0), word_u(MEM_CAP + 1)),
            (word_u(1), word_u(0), word_u(MEM_CAP)),
            (word_u(0), word_u(0), word_u((1 << 32) - 1)),
            (word_u(0), word_u(0), word_u(1 << 32)),
            (word_u(0), word_u(0), [0xff; 32]),
            ([0xff; 32], word_u(0), word_u(0)),
            ([0xff; 32], word_u(0), word_u(1)),
            (word_u((1 << 32) - 1), word_u(0), word_u(1)),
            (word_u((1 << 32) - 2), word_u(0), word_u(1)),
            (word_u(0), [0xff; 32], word_u(0)),
            (word_u(0), word_u(1), word_u(0)),
            (word_u(0), word_u(0), word_u(0)),
            (word_u(0), word_u(0), word_u(1)),
            (word_u(0), [0xff; 32], [0xff; 32]),
        ] {
            let mut c = mem_prologue();
            c.extend(push_min(&sz));
            c.extend(push_min(&off));
            c.extend(push_min(&dst));
            c.push(op);
            c.push(0x3d); // RETURNDATASIZE
            c.extend([0x60, 0x05, 0x55]);
            c.extend(mem_epilogue());
            add(&format!("data:{}-edge", mnemonic(op)), c, rand_bytes(rng, 40), 8);
        }
    }
    // --- KECCAK256 (uninterpreted: equal inputs must give equal digests; two known digests)
    for (o1, s1, o2, s2) in [
        (0u64, 0u64, 5u64, 0u64), (0, 32, 0, 32), (0, 32, 64, 32), (0, 64, 32, 64), (1, 31, 65, 31),
        (200, 32, 300, 32), (0, 96, 0, 96), (0, 1, 64, 1), (MEM_CAP - 32, 32, 0, 0),
    ] {
        let mut c = mem_prologue();
        c.extend(push_u(s1));
        c.extend(push_u(o1));
        c.push(0x20);
        c.extend(push_u(s2));
        c.extend(push_u(o2));
        c.push(0x20);
        c.extend([0x14, 0x60, 0x06, 0x55]); // EQ -> key 6
        c.extend(mem_epilogue());
        add("hash:KECCAK256", c, vec![], 8);
    }
    for (o, s) in [
        (word_u(0), word_u(MEM_CAP + 1)), ([0xff; 32], word_u(0)), (word_u(0), [0xff; 32]),
        (word_u((1 << 32) - 1), word_u(1)), (word_u((1 << 32) - 2), word_u(1)),
    ] {
        let mut c = push_min(&s);
        c.extend(push_min(&o));
        c.push(0x20);
        c.extend(ending(0));
        add("hash:KECCAK256-edge", c, vec![], 8);
    }
    // --- SLOAD / SSTORE / TLOAD / TSTORE
    let keys = [word_u(0), word_u(1), pow2(255), [0xff; 32], rand_word(rng)];
    for k in &keys {
        for v in [word_u(0), word_u(1), [0xff; 32], rand_word(rng)] {
            for (st, ld) in [(0x55u8, 0x54u8), (0x5d, 0x5c)] {
                let mut c = vec![];
                // store v, load, store again a second key with loaded value, overwrite with zero, load
                c.extend(push_min(&v));
                c.extend(push_min(k));
                c.push(st);
                c.extend(push_min(k));
                c.push(ld);
                c.extend([0x60, 0x0a, 0x55]); // SSTORE loaded -> key 10
                if rng.chance(50) {
                    c.push(0x5f);
                    c.extend(push_min(k));
                    c.push(st);
                }
                c.extend(push_min(k));
                c.push(ld);
                c.extend(ending(0));
                add(&format!("storage:{}", mnemonic(st)), c, vec![], 8);
            }
        }
    }
    // storage written then the run reverts / fails: nothing may persist
    for tail in [vec![0x5f, 0x5f, 0xfd], vec![0xfe], vec![0x50, 0x50], vec![0x5f, 0x56]] {
        let mut c = vec![0x60, 0x2a, 0x60, 0x01, 0x55, 0x60, 0x2b, 0x60, 0x01, 0x5d];
        c.extend(tail);
        add("storage:rollback", c, vec![], 8);
    }
    // --- control flow
    // JUMP / JUMPI to: a JUMPDEST, a non-JUMPDEST, 0x5b inside push data, beyond the code, huge
    let body = |dest: &[u8; 32], cond: Option<&[u8; 32]>| -> Vec<u8> {
        // layout: [cond] dest JUMP(I) ; PUSH1 0x5b ; JUMPDEST ; PUSH1 1 ; ... ; JUMPDEST(last byte)
        let mut c = vec![];
        if let Some(cw) = cond {
            c.extend(push32(cw));
        }
        c.extend(push32(dest));
        c.push(if cond.is_some() { 0x57 } else { 0x56 });
        c
    };
    for with_cond in [false, true] {
        let pre = if with_cond { 67usize } else { 34 };
        // code after the jump: pre+0: PUSH1, pre+1: 0x5b (data), pre+2: JUMPDEST, pre+3.. PUSH1 7 PUSH0 SSTORE, JUMPDEST(last)
        let rest = vec![0x60, 0x5b, 0x5b, 0x60, 0x07, 0x5f, 0x55, 0x5b];
        let total = pre + rest.len();
        let dests = [
            word_u(pre as u64 + 2), word_u(pre as u64 + 1), word_u(pre as u64), word_u(pre as u64 + 3),
            word_u(total as u64 - 1), word_u(total as u64), word_u(total as u64 + 1), word_u(0),
            word_u(1 << 32), word_u((1 << 32) + pre as u64 + 2), pow2(255), [0xff; 32],
            add1(&pow2(64)),
        ];
        let conds: Vec<Option<[u8; 32]>> = if with_cond {
            vec![Some(word_u(0)), Some(word_u(1)), Some(pow2(255)), Some(pow2(64)), Some([0xff; 32])]
        } else {
            vec![None]
        };
        for d in &dests {
            for cnd in &conds {
                let mut c = body(d, cnd.as_ref());
                assert_eq!(c.len(), pre);
                c.extend(&rest);
                add(if with_cond { "flow:JUMPI" } else { "flow:JUMP" }, c, vec![], 8);
            }
        }
    }
    // PC at several positions, JUMPDEST as plain instruction, STOP, INVALID, undefined opcodes
    add("flow:PC", vec![0x58, 0x60, 0x00, 0x58, 0x7f, 1, 2, 3, 4, 5, 6, 7, 8, 9, 10, 11, 12, 13, 14, 15, 16, 17, 18, 19, 20, 21, 22, 23, 24, 25, 26, 27, 28, 29, 30, 31, 32, 0x58, 0x01, 0x01, 0x01, 0x01, 0x5f, 0x52, 0x60, 0x20, 0x5f, 0xf3], vec![], 8);
    {
        // PC (and a JUMP) beyond byte 255 and beyond byte 4095 of the code
        for pad in [300usize, 5000] {
            let l = 3 + pad;
            let mut c = vec![0x61, (l >> 8) as u8, l as u8, 0x56]; // PUSH2 l; JUMP
            c.extend(vec![0xfe; pad - 1]);
            c.extend([0x5b, 0x58, 0x5f, 0x52, 0x58, 0x60, 0x20, 0x52, 0x60, 0x40, 0x5f, 0xf3]);
            add("flow:PC-far", c, vec![], 8);
        }
    }
    add("flow:JUMPDEST", vec![0x5b, 0x5b, 0x60, 0x01, 0x5b, 0x5f, 0x55], vec![], 8);
    add("flow:STOP", vec![0x60, 0x01, 0x5f, 0x55, 0x00, 0x60, 0x02, 0x5f, 0x55], vec![], 8);
    add("flow:INVALID", vec![0x60, 0x01, 0x5f, 0x55, 0xfe], vec![], 8);
    add("flow:empty", vec![], vec![1, 2, 3], 8);
    for op in [0x0cu8, 0x0f, 0x1f, 0x21, 0x2f, 0x4b, 0x4f, 0xa5, 0xb0, 0xc1, 0xd2, 0xe3, 0xef, 0xf6, 0xf9, 0xfb, 0xfc] {
        add("ill:undefined", vec![0x60, 0x01, 0x5f, 0x55, op, 0x00], vec![], 8);
    }
    // RETURN / REVERT regions
    for op in [0xf3u8, 0xfd] {
        for (o, s) in [
            (word_u(0), word_u(0)), (word_u(0), word_u(32)), (word_u(31), word_u(2)), (word_u(0), word_u(96)),
            (word_u(90), word_u(100)), (word_u(MEM_CAP - 32), word_u(32)), (word_u(MEM_CAP - 31), word_u(32)),
            (word_u((1 << 32) - 1), word_u(1)), (word_u((1 << 32) - 2), word_u(1)), ([0xff; 32], word_u(0)),
            (word_u(0), [0xff; 32]), (word_u(0), word_u(1 << 32)), (pow2(255), word_u(1)),
        ] {
            let mut c = mem_prologue();
            c.extend([0x60, 0x01, 0x60, 0x01, 0x55]);
            c.extend(push_min(&s));
            c.extend(push_min(&o));
            c.push(op);
            add(&format!("end:{}", mnemonic(op)), c, vec![], 8);
        }
    }
    out
}

/// (c) deliberately ill-formed programs.
pub fn gen_illformed(_rng: &mut Rng) -> Vec<Prog> {
    let mut out = vec![];
    let mut add = |id: &str, code: Vec<u8>, fuel: u64| {
        let mut p = Prog::call(id, code, vec![]);
        p.fuel = fuel;
        out.push(p);
    };
    // underflow: every in-scope instruction with one operand too few (and with none)
    for op in 0u8..=0xff {
        let ar = match op {
            0x08 | 0x09 | 0x37 | 0x39 | 0x3e | 0x5e => 3,
            0x01..=0x07 | 0x0a | 0x0b | 0x10..=0x14 | 0x16..=0x18 | 0x1a..=0x1d | 0x20 | 0x52 | 0x53 | 0x55
            | 0x57 | 0x5d | 0xf3 | 0xfd => 2,
            0x15 | 0x19 | 0x1e | 0x35 | 0x50 | 0x51 | 0x54 | 0x56 | 0x5c => 1,
            0x80..=0x8f => (op - 0x7f) as usize,
            0x90..=0x9f => (op - 0x8f) as usize + 1,
            _ => 0,
        };
        if ar == 0 {
            continue;
        }
        for have in [0usize, ar - 1] {
            let mut c = vec![0x60, 0x01, 0x5f, 0x55]; // a storage write that must be rolled back
            for i in 0..have {
                c.extend([0x60, i as u8 + 1]);
            }
            c.push(op);
            c.extend([0x00]);
            add(&format!("ill:underflow:{}", mnemonic(op)), c, DEFAULT_FUEL);
        }
    }
    // stack overflow: 1024 pushes are fine, the 1025th is not (by PUSH0, PUSH1, DUP1, PC, MSIZE, CALLDATASIZE ...)
    for pusher in [vec![0x5f], vec![0x80], vec![0x59]] {
        // JUMPDEST; <pusher>; PUSH0 ; JUMP   (loops pushing one net item per round)
        let mut c = vec![0x5f, 0x5b];
        c.extend(&pusher);
        c.extend([0x60, 0x01, 0x56]);
        add("ill:overflow", c, 5000);
    }
    // exactly 1024 items then STOP (no overflow): unrolled
    let mut c = vec![];
    for _ in 0..1024 {
        c.push(0x5f);
    }
    let mut c1 = c.clone();
    c1.extend([0x90, 0x50, 0x00]); // SWAP1 POP STOP at full stack
    add("stack:full-1024", c1, 5000);
    let mut c2 = c.clone();
    c2.extend([0x5f]);
    add("ill:overflow-1025", c2, 5000);
    let mut c3 = c.clone();
    c3.extend([0x80]);
    add("ill:overflow-dup", c3, 5000);
    // out of fuel: tight loops
    add("ill:loop", vec![0x5b, 0x5f, 0x56], 600);
    add("ill:loop-mem", vec![0x5b, 0x59, 0x59, 0x52, 0x5f, 0x56], 900); // grows memory word by word
    // falls off the end in the middle of nothing
    add("ill:falloff", vec![0x60, 0x01, 0x60, 0x02, 0x01], DEFAULT_FUEL);
    add("ill:only-push-data", vec![0x7f, 0x5b, 0x5b], DEFAULT_FUEL);
    add("ill:jump-into-push32", vec![0x60, 0x04, 0x56, 0x7f, 0x5b, 0x5b, 0x5b, 0x00], DEFAULT_FUEL);
    add("ill:jumpdest-after-truncated-push", vec![0x60, 0x03, 0x56, 0x61, 0x5b], DEFAULT_FUEL);
    out
}

/// All byte strings up to a small length over the alphabets of spec/MC_EVM.cfg (the programs the
/// model checker explores), sampled down to `n` (0 = none).
pub fn gen_tiny(rng: &mut Rng, n: usize) -> Vec<Prog> {
    if n == 0 {
        return vec![];
    }
    let wide: &[u8] = &[
        0, 1, 4, 8, 11, 16, 21, 25, 29, 32, 53, 54, 55, 57, 61, 62, 80, 81, 82, 83, 84, 85, 86, 87, 88, 89, 91,
        92, 93, 94, 95, 96, 97, 127, 128, 129, 144, 243, 253, 254, 12, 48, 160, 241, 255,
    ];
    let mid: &[u8] = &[0, 1, 32, 53, 55, 82, 85, 87, 88, 91, 93, 95, 96, 243];
    let narrow: &[u8] = &[95, 96, 1, 82, 86, 91];
    let mut all: Vec<Vec<u8>> = vec![];
    fn rec(alpha: &[u8], len: usize, cur: &mut Vec<u8>, all: &mut Vec<Vec<u8>>) {
        all.push(cur.clone());
        if cur.len() == len {
            return;
        }
        for &b in alpha {
            cur.push(b);
            rec(alpha, len, cur, all);
            cur.pop();
        }
    }
    rec(wide, 2, &mut vec![], &mut all);
    rec(mid, 3, &mut vec![], &mut all);
    rec(narrow, 4, &mut vec![], &mut all);
    all.sort();
    all.dedup();
    // the in-scope comparison stops at out-of-scope opcodes; keep them, the spec says "unsupported"
    shuffle(rng, &mut all);
    all.truncate(n);
    all.into_iter()
        .map(|c| {
            let mut p = Prog::call("tiny", c, vec![1, 2, 3]);
            p.fuel = 300;
            p
        })
        .collect()
}

// --- (b) random structured programs -----------------------------------------------------------

struct Gen<'a> {
    rng: &'a mut Rng,
    items: Vec<Item>,
    depth: usize,
    labels: usize,
    lat: Vec<[u8; 32]>,
    heavy: bool,
    /// items below this height belong to an enclosing construct (loop counter ...) and must survive
    floor: usize,
}

impl Gen<'_> {
    fn b(&mut self, bytes: &[u8]) {
        self.items.push(Item::B(bytes.to_vec()));
    }
    fn label(&mut self) -> usize {
        self.labels += 1;
        self.labels
    }
    fn push_word(&mut self) {
        let w = match self.rng.below(10) {
            0..=3 => *self.rng.pick(&self.lat.clone()),
            4..=6 => word_u(self.rng.below(300)),
            _ => rand_word(self.rng),
        };
        let enc = if self.rng.chance(15) { push32(&w) } else { push_min(&w) };
        self.b(&enc);
        self.depth += 1;
    }
    fn ensure(&mut self, n: usize) {
        while self.depth - self.floor < n {
            self.push_word();
        }
    }
    /// one random stack-level operation; keeps 0 < depth <= 12
    fn op(&mut self) {
        if self.depth > 10 && self.depth > self.floor {
            // spill the top into storage / memory / nowhere
            match self.rng.below(3) {
                0 => {
                    { let x__ = self.rng.below(4); self.b(&push_u(x__)); }
                    self.b(&[0x55]);
                }
                1 => {
                    { let x__ = self.rng.below(8) * 32 + self.rng.below(2) * 5; self.b(&push_u(x__)); }
                    self.b(&[0x52]);
                }
                _ => self.b(&[0x50]),
            }
            self.depth -= 1;
            return;
        }
        let k = self.rng.below(100);
        match k {
            0..=29 => {
                // binary arithmetic / comparison / bitwise; the expensive ones are rarer
                self.ensure(2);
                let cheap: &[u8] = &[0x01, 0x02, 0x03, 0x0b, 0x10, 0x11, 0x12, 0x13, 0x14, 0x16, 0x17, 0x18, 0x1a, 0x1b, 0x1c, 0x1d];
                let dear: &[u8] = &[0x04, 0x05, 0x06, 0x07, 0x0a];
                let op = if self.heavy && self.rng.chance(25) { *self.rng.pick(dear) } else { *self.rng.pick(cheap) };
                if op == 0x0a {
                    // keep EXP affordable for TLC: small exponent most of the time (exponent = 2nd item)
                    if self.rng.chance(85) {
                        self.b(&[0x50]);
                        self.depth -= 1;
                        self.ensure(1);
                        { let x__ = self.rng.below(40); self.b(&push_u(x__)); }
                        self.b(&[0x90]); // SWAP1: exponent below the base
                        self.depth += 1;
                    }
                }
                self.b(&[op]);
                self.depth -= 1;
            }
            30..=35 => {
                self.ensure(1);
                let op = *self.rng.pick(&[0x15u8, 0x19, 0x1e]);
                self.b(&[op]);
            }
            36..=38 => {
                if self.heavy {
                    self.ensure(3);
                    let op = *self.rng.pick(&[0x08u8, 0x09]);
                    self.b(&[op]);
                    self.depth -= 2;
                } else {
                    self.push_word();
                }
            }
            39..=48 => self.push_word(),
            49..=54 => {
                // DUPn
                self.ensure(1);
                let n = 1 + self.rng.below(self.depth.min(16) as u64) as u8;
                self.b(&[0x7f + n]);
                self.depth += 1;
            }
            55..=60 => {
                self.ensure(2);
                let n = 1 + self.rng.below((self.depth - self.floor - 1).min(16) as u64) as u8;
                self.b(&[0x8f + n]);
            }
            61..=66 => {
                // MSTORE / MSTORE8 at a small offset (aligned or not)
                self.ensure(1);
                let off = self.rng.below(12) * 32 + if self.rng.chance(30) { self.rng.below(32) } else { 0 };
                self.b(&push_u(off));
                { let o__ = if self.rng.chance(80) { 0x52 } else { 0x53 }; self.b(&[o__]); }
                self.depth -= 1;
            }
            67..=71 => {
                let off = self.rng.below(14) * 32 + if self.rng.chance(30) { self.rng.below(32) } else { 0 };
                self.b(&push_u(off));
                self.b(&[0x51]);
                self.depth += 1;
            }
            72..=73 => {
                self.b(&[0x59]); // MSIZE
                self.depth += 1;
            }
            74..=78 => {
                // SSTORE / TSTORE to a small key set
                self.ensure(1);
                { let x__ = self.rng.below(5); self.b(&push_u(x__)); }
                { let o__ = if self.rng.chance(60) { 0x55 } else { 0x5d }; self.b(&[o__]); }
                self.depth -= 1;
            }
            79..=82 => {
                { let x__ = self.rng.below(5); self.b(&push_u(x__)); }
                { let o__ = if self.rng.chance(60) { 0x54 } else { 0x5c }; self.b(&[o__]); }
                self.depth += 1;
            }
            83..=86 => {
                // CALLDATALOAD / CALLDATASIZE / CODESIZE / PC
                match self.rng.below(4) {
                    0 => {
                        { let x__ = self.rng.below(70); self.b(&push_u(x__)); }
                        self.b(&[0x35]);
                    }
                    1 => self.b(&[0x36]),
                    2 => self.b(&[0x38]),
                    _ => self.b(&[0x58]),
                }
                self.depth += 1;
            }
            87..=90 => {
                // CALLDATACOPY / CODECOPY / MCOPY with small operands
                let op = *self.rng.pick(&[0x37u8, 0x39, 0x5e]);
                { let x__ = self.rng.below(70); self.b(&push_u(x__)); }
                { let x__ = self.rng.below(90); self.b(&push_u(x__)); }
                { let x__ = self.rng.below(10) * 32 + self.rng.below(3); self.b(&push_u(x__)); }
                self.b(&[op]);
            }
            91..=93 => {
                // KECCAK256 of a small region
                { let x__ = self.rng.below(3) * 32 + self.rng.below(2); self.b(&push_u(x__)); }
                { let x__ = self.rng.below(4) * 32; self.b(&push_u(x__)); }
                self.b(&[0x20]);
                self.depth += 1;
            }
            94..=96 => {
                // forward jump over junk that looks like code
                let l = self.label();
                self.items.push(Item::PushLabel(l));
                self.b(&[0x56]);
                let junk = match self.rng.below(3) {
                    0 => vec![0x60, 0x5b, 0x5b, 0xfe],
                    1 => vec![0x7f, 0x5b],
                    _ => vec![0xfe, 0x5b, 0x00],
                };
                // junk must not swallow the label: a trailing PUSH would; pad with its data
                let mut j = junk.clone();
                if j[0] == 0x7f {
                    j.extend(vec![0x5b; 31]);
                }
                self.b(&j);
                self.items.push(Item::Label(l));
            }
            _ => {
                // conditional forward jump on a computed value
                self.ensure(1);
                let l = self.label();
                self.items.push(Item::PushLabel(l));
                self.b(&[0x57]);
                self.depth -= 1;
                let n = 1 + self.rng.below(3);
                let d0 = self.depth;
                for _ in 0..n {
                    // stack-neutral filler so that both paths agree on the depth
                    { let x__ = self.rng.below(256); self.b(&push_u(x__)); }
                    { let x__ = self.rng.below(4); self.b(&push_u(x__)); }
                    self.b(&[0x55]);
                }
                self.depth = d0;
                self.items.push(Item::Label(l));
            }
        }
    }
}

pub fn gen_program(rng: &mut Rng, idx: usize) -> Prog {
    let lat = lattice(rng, 2);
    let heavy = rng.chance(40);
    let mut g = Gen { rng, items: vec![], depth: 0, labels: 0, lat, heavy, floor: 0 };
    let pre = g.rng.below(4);
    for _ in 0..pre {
        g.push_word();
    }
    let segments = 2 + g.rng.below(4);
    for _ in 0..segments {
        if g.rng.chance(45) {
            // a bounded loop: counter on the stack top at the loop head
            let n = 1 + g.rng.below(9);
            let head = g.label();
            g.b(&push_u(n));
            g.depth += 1;
            g.items.push(Item::Label(head));
            let d0 = g.depth;
            let floor0 = g.floor;
            g.floor = d0;
            // body: uses the counter for memory growth, then a few stack-neutral operations
            if g.rng.chance(60) {
                // MSTORE(counter*stride + base, counter): word by word, unaligned, or in big strides
                let base = g.rng.below(6) * 32 + g.rng.below(2) * 7;
                let stride = *g.rng.pick(&[32u64, 32, 32, 33, 1000, 4096]);
                g.b(&[0x80, 0x80]); // DUP1 DUP1
                g.b(&push_u(stride));
                g.b(&[0x02]); // MUL
                g.b(&push_u(base));
                g.b(&[0x01, 0x52]); // ADD MSTORE
            }
            let body = 1 + g.rng.below(6);
            for _ in 0..body {
                g.op();
            }
            // restore the depth to the loop head's (counter on top)
            while g.depth > d0 {
                g.b(&[0x50]);
                g.depth -= 1;
            }
            while g.depth < d0 {
                // the body consumed the counter region: not possible since op() never pops below
                // its own pushes except through ensure(); be safe
                g.b(&[0x5f]);
                g.depth += 1;
            }
            g.floor = floor0;
            // counter -= 1; loop while non-zero   (PUSH1 1; SWAP1; SUB; DUP1; PUSH2 head; JUMPI)
            g.b(&[0x60, 0x01, 0x90, 0x03, 0x80]);
            g.items.push(Item::PushLabel(head));
            g.b(&[0x57, 0x50]);
            g.depth -= 1;
        } else {
            let n = 2 + g.rng.below(8);
            for _ in 0..n {
                g.op();
            }
        }
    }
    // epilogue: persist the top items, then end in one of the possible ways
    let keep = g.depth.min(3);
    for i in 0..keep {
        g.b(&push_u(20 + i as u64));
        g.b(&[0x55]);
        g.depth -= 1;
    }
    match g.rng.below(10) {
        0..=4 => {
            let (o, s) = (g.rng.below(5) * 32 + g.rng.below(3), g.rng.below(200));
            g.b(&push_u(s));
            g.b(&push_u(o));
            g.b(&[0xf3]);
        }
        5..=6 => {
            let (o, s) = (g.rng.below(3) * 32, g.rng.below(70));
            g.b(&push_u(s));
            g.b(&push_u(o));
            g.b(&[0xfd]);
        }
        7 => g.b(&[0x00]),
        8 => g.b(&[0xfe]),
        _ => {}
    }
    let code = assemble(&g.items);
    let cdlen = *g.rng.pick(&[0usize, 4, 31, 32, 33, 64, 100, 200]);
    let cd = rand_bytes(g.rng, cdlen);
    let mut p = Prog::call(&format!("prog:{idx}"), code, cd);
    p.fuel = 4000;
    p
}

// ---------------------------------------------------------------------------------------------

pub fn read_progs(path: &str) -> Vec<Prog> {
    let mut out = vec![];
    for line in std::fs::read_to_string(path).expect("read schedules").lines() {
        let line = line.trim();
        if line.is_empty() {
            continue;
        }
        if let Ok(v) = serde_json::from_str::<Value>(line) {
            if v.is_object() && v.get("code").is_some() {
                out.push(Prog::from_json(&v));
            }
        }
    }
    out
}

/// `drive evm17 --out F [--schedules S] [--seed N] [--behaviours B]
///               [--cases Q] [--other 1] [--illformed 1] [--tiny N] [--random N]`
pub fn main(args: &[String]) {
    let out = arg(args, "--out").expect("--out");
    let seed = arg_u64(args, "--seed", 1);
    let mut t = TraceOut::create(out);
    let mut sched_out = arg(args, "--schedules").map(TraceOut::create);
    let mut rng = Rng::new(seed);
    let mut progs: Vec<Prog> = vec![];
    if let Some(b) = arg(args, "--behaviours") {
        progs.extend(read_progs(b));
    }
    let quota = arg_u64(args, "--cases", 0) as usize;
    if arg(args, "--cases").is_some() {
        progs.extend(gen_arith(&mut rng, quota));
    }
    if arg_u64(args, "--other", 0) > 0 {
        progs.extend(gen_other(&mut rng, arg_u64(args, "--other", 0).min(100)));
    }
    if arg_u64(args, "--illformed", 0) > 0 {
        progs.extend(gen_illformed(&mut rng));
    }
    progs.extend(gen_tiny(&mut rng, arg_u64(args, "--tiny", 0) as usize));
    let n = arg_u64(args, "--random", 0) as usize;
    for i in 0..n {
        progs.push(gen_program(&mut rng, i));
    }
    let mut r = Runner::new(seed);
    let mut classes = std::collections::BTreeMap::new();
    let mut steps = 0usize;
    for p in &progs {
        let res = r.run(p, &mut t);
        *classes.entry(res.class.clone()).or_insert(0usize) += 1;
        steps += res.steps;
        if let Some(s) = sched_out.as_mut() {
            s.line(&p.to_json());
        }
    }
    t.flush();
    if let Some(s) = sched_out.as_mut() {
        s.flush();
    }
    println!(
        "{}",
        json!({"driver": "evm17", "traces": t.traces, "events": t.events, "steps": steps,
               "classes": classes, "not_reexecuted": r.skipped_cmp})
    );
}
