//! Driver for property C18 (EVM execution is total, bounded and respects read-only mode).
//!
//! Part A -- arbitrary byte strings (random, grammar-based, mutated from valid programs) as init code,
//! runtime code and call data, run directly.  Traces have the format of evm.rs; Trace_EVM.tla checks
//! the bounds on every recorded step (StackBound, MemBound, JumpDest), NoPanic / NoHang / OutcomeClass
//! at the end, and re-executes the run in the specification as far as the program stays inside the
//! specified instruction set.
//!
//! Part B -- read-only mode.  A chain of fixed proxy contracts (the first hop is always STATICCALL,
//! further hops CALL or DELEGATECALL) forwards the call data to a target whose code is arbitrary bytes
//! biased towards state-changing instructions.  Recorded: the target frame's steps (header kind
//! "static": the specification re-executes them with static = TRUE), the exit class of the target's
//! own invocation, what the caller saw (success flag, return data), and whether anything at all changed
//! in the state tree (every actor's code / state root / balance, the set of actors) or any event was
//! emitted during the whole top-level message.
use crate::evm::*;
use crate::util::*;
use crate::vm::*;
use fil_actors_evm_shared::address::EthAddress;
use fvm_shared::address::Address;
use serde_json::{Value, json};
use vm_api::VM;

// ---------------------------------------------------------------------------------------------
// Part A generators

/// opcodes the specification covers, weighted towards cheap ones
const INSCOPE: &[u8] = &[
    0x00, 0x01, 0x02, 0x03, 0x04, 0x05, 0x06, 0x07, 0x08, 0x09, 0x0a, 0x0b, 0x10, 0x11, 0x12, 0x13, 0x14, 0x15,
    0x16, 0x17, 0x18, 0x19, 0x1a, 0x1b, 0x1c, 0x1d, 0x1e, 0x20, 0x35, 0x36, 0x37, 0x38, 0x39, 0x3d, 0x3e, 0x50,
    0x51, 0x52, 0x53, 0x54, 0x55, 0x56, 0x57, 0x58, 0x59, 0x5b, 0x5c, 0x5d, 0x5e, 0x5f, 0x80, 0x81, 0x82, 0x83,
    0x90, 0x91, 0x92, 0xf3, 0xfd, 0xfe,
];
const OUTSCOPE: &[u8] = &[
    0x30, 0x31, 0x32, 0x33, 0x34, 0x3a, 0x3b, 0x3c, 0x3f, 0x40, 0x41, 0x42, 0x43, 0x44, 0x45, 0x46, 0x47, 0x48,
    0x5a, 0xa0, 0xa1, 0xa2, 0xa3, 0xa4, 0xf0, 0xf1, 0xf4, 0xf5, 0xfa, 0xff,
];

fn small_or_weird(rng: &mut Rng) -> [u8; 32] {
    match rng.below(12) {
        10 | 11 => word_u(*rng.pick(&[0u64, 1, 2, 7, 8, 30, 31, 32, 33, 63, 64, 255, 256, 257])),
        0..=4 => word_u(rng.below(130)),
        5 => word_u(rng.below(1 << 17)),
        6 => word_u((1u64 << 32) - 1 - rng.below(40)),
        7 => [0xff; 32],
        _ => rand_word(rng),
    }
}

/// uniformly random bytes
pub fn gen_random_bytes(rng: &mut Rng) -> Vec<u8> {
    let n = *rng.pick(&[1usize, 2, 3, 4, 6, 8, 12, 16, 24, 32, 48, 64, 100, 200]);
    rand_bytes(rng, n)
}

/// a sequence of instructions (with operands pushed first most of the time), mostly inside the
/// specified set, so that runs get deep before they end
pub fn gen_grammar(rng: &mut Rng, out_of_scope_pct: u64) -> Vec<u8> {
    let mut c = vec![];
    let n = 3 + rng.below(40);
    for _ in 0..n {
        let k = rng.below(100);
        if k < 45 {
            c.extend(push_min(&small_or_weird(rng)));
        } else if k < 45 + out_of_scope_pct {
            c.push(*rng.pick(OUTSCOPE));
        } else if k < 97 {
            c.push(*rng.pick(INSCOPE));
        } else {
            c.push(rng.below(256) as u8);
        }
    }
    c
}

/// a valid generated program with a few bytes flipped / inserted / deleted
pub fn gen_mutated(rng: &mut Rng, idx: usize) -> (Vec<u8>, Vec<u8>) {
    let p = gen_program(rng, idx);
    let mut c = p.code;
    let edits = 1 + rng.below(4);
    for _ in 0..edits {
        if c.is_empty() {
            break;
        }
        let i = rng.below(c.len() as u64) as usize;
        match rng.below(4) {
            0 => c[i] = rng.below(256) as u8,
            1 => c[i] ^= 1 << rng.below(8),
            2 => c.insert(i, rng.below(256) as u8),
            _ => {
                c.remove(i);
            }
        }
    }
    (c, p.calldata)
}

fn rand_calldata(rng: &mut Rng) -> Vec<u8> {
    let n = *rng.pick(&[0usize, 0, 1, 4, 31, 32, 33, 68, 100]);
    rand_bytes(rng, n)
}

// ---------------------------------------------------------------------------------------------
// Part B: read-only mode

pub const MAGIC: [u8; 32] = [
    0x9e, 0x37, 0x79, 0xb9, 0x7f, 0x4a, 0x7c, 0x15, 0xf3, 0x9c, 0xc0, 0x60, 0x5c, 0xed, 0xc8, 0x34, 0x10, 0x82,
    0x27, 0x6b, 0xf3, 0xa2, 0x72, 0x51, 0xf8, 0x6c, 0x6a, 0x11, 0xd0, 0xc1, 0x8e, 0x95,
];

/// A proxy: keeps MAGIC at the bottom of its stack, takes the next hop's address from the first call
/// data word, forwards the rest with `callop` (0xf1 CALL, 0xf4 DELEGATECALL, 0xfa STATICCALL) and returns
/// success flag ++ return data.
pub fn proxy(callop: u8) -> Vec<u8> {
    let mut c = push32(&MAGIC);
    c.extend([0x60, 0x20, 0x36, 0x03]); // PUSH1 32 CALLDATASIZE SUB        -> n = size - 32
    c.extend([0x80, 0x60, 0x20, 0x5f, 0x37]); // DUP1 PUSH1 32 PUSH0 CALLDATACOPY  mem[0..n) = calldata[32..)
    c.extend([0x5f, 0x5f, 0x82, 0x5f]); // outSize 0, outOff 0, inSize n (DUP3), inOff 0
    if callop == 0xf1 {
        c.push(0x5f); // value 0
    }
    c.extend([0x5f, 0x35, 0x5a, callop]); // PUSH0 CALLDATALOAD (address) GAS <call>
    c.extend([0x5f, 0x52]); // mem[0..32) = success
    c.extend([0x3d, 0x5f, 0x60, 0x20, 0x3e]); // RETURNDATACOPY(32, 0, RETURNDATASIZE)
    c.extend([0x3d, 0x60, 0x20, 0x01, 0x5f, 0xf3]); // RETURN(0, 32 + RETURNDATASIZE)
    c
}

/// target code biased towards the instructions that are forbidden in a static context
pub fn gen_target(rng: &mut Rng) -> Vec<u8> {
    if rng.chance(12) {
        return gen_grammar(rng, 20);
    }
    let mut c = vec![];
    let n = 1 + rng.below(7);
    let sm = |rng: &mut Rng| push_u(*rng.pick(&[0u64, 0, 1, 1, 2, 32, 64]));
    for _ in 0..n {
        match rng.below(16) {
            0 | 1 => {
                // benign: memory / reads
                c.extend(sm(rng));
                c.extend(sm(rng));
                c.push(*rng.pick(&[0x52u8, 0x53, 0x01, 0x10]));
                if *c.last().unwrap() <= 0x10 {
                    c.push(0x50);
                }
            }
            2 => {
                c.extend(sm(rng));
                c.push(*rng.pick(&[0x54u8, 0x5c, 0x51]));
                c.push(0x50);
            }
            3 | 4 => {
                c.extend(sm(rng));
                c.extend(sm(rng));
                c.push(0x55); // SSTORE
            }
            5 | 6 => {
                c.extend(sm(rng));
                c.extend(sm(rng));
                c.push(0x5d); // TSTORE
            }
            7 | 8 => {
                let t = rng.below(5) as u8;
                for _ in 0..t {
                    c.extend(sm(rng));
                }
                c.extend(sm(rng));
                c.extend(sm(rng));
                c.push(0xa0 + t); // LOGt
            }
            9 => {
                c.extend(sm(rng)); // size
                c.extend(sm(rng)); // offset
                c.extend(sm(rng)); // value
                c.push(0xf0); // CREATE
                c.push(0x50);
            }
            10 => {
                c.extend(sm(rng)); // salt
                c.extend(sm(rng));
                c.extend(sm(rng));
                c.extend(sm(rng));
                c.push(0xf5); // CREATE2
                c.push(0x50);
            }
            11 => {
                c.extend(sm(rng));
                c.push(0xff); // SELFDESTRUCT
            }
            12 | 13 => {
                // CALL with value (1 or 0) to a small address
                c.extend([0x5f, 0x5f, 0x5f, 0x5f]);
                c.extend(push_u(*rng.pick(&[1u64, 1, 1, 0])));
                c.extend(push_u(*rng.pick(&[1u64, 100, 101, 0xffff])));
                // the gas operand is pushed, not taken from GAS: the frame must stay inside the specified
                // instruction set up to the CALL for the specification to follow it
                c.extend([0x61, 0xff, 0xff, 0xf1, 0x50]);
            }
            14 => {
                // read back what may have been written and return it
                c.extend(sm(rng));
                c.push(*rng.pick(&[0x54u8, 0x5c]));
                c.extend([0x5f, 0x52, 0x60, 0x20, 0x5f, *rng.pick(&[0xf3u8, 0xfd])]);
            }
            _ => c.push(rng.below(256) as u8),
        }
    }
    match rng.below(5) {
        0 => c.extend([0x60, 0x20, 0x5f, 0xf3]),
        1 => c.extend([0x60, 0x20, 0x5f, 0xfd]),
        2 => c.push(0x00),
        _ => {}
    }
    c
}

fn addr_word(e: &EthAddress) -> [u8; 32] {
    let mut w = [0u8; 32];
    w[12..].copy_from_slice(&e.0);
    w
}

struct Deployed {
    id: Address,
    eth: EthAddress,
}

fn deploy_full(env: &Env, code: &[u8]) -> Option<Deployed> {
    let o = env.create(&loader(code));
    if !o.ok() {
        return None;
    }
    let r: fil_actor_eam::CreateExternalReturn = o.de();
    Some(Deployed { id: Address::new_id(r.actor_id), eth: r.eth_address })
}

/// (code cid, state cid, balance) of every actor
fn snapshot(v: &VVM) -> Vec<(String, String, String, String)> {
    v.actor_states()
        .iter()
        .map(|(a, s)| (a.to_string(), s.code.to_string(), s.state.to_string(), s.balance.atto().to_string()))
        .collect()
}

fn count_events(inv: &Inv) -> usize {
    let mut n = 0;
    inv.walk(&mut |i, _| n += i.events.len(), 0);
    n
}

pub struct StaticEnv {
    pub env: Env,
    p_static: Deployed,
    p_call: Deployed,
    p_delegate: Deployed,
    made: usize,
}

impl StaticEnv {
    pub fn new(seed: u64) -> StaticEnv {
        let env = Env::new(seed);
        let p_static = deploy_full(&env, &proxy(0xfa)).expect("proxy");
        let p_call = deploy_full(&env, &proxy(0xf1)).expect("proxy");
        let p_delegate = deploy_full(&env, &proxy(0xf4)).expect("proxy");
        StaticEnv { env, p_static, p_call, p_delegate, made: 0 }
    }

    /// chain 1: A -static-> T; 2: A -static-> B -call-> T; 3: A -static-> B -delegate-> C -call-> T;
    /// 4: A -static-> B -delegate-> C(=B's context) -static-> T
    pub fn run(&mut self, first: &mut bool, code: &[u8], payload: &[u8], chain: u64, fuel: u64, id: &str,
               t: &mut TraceOut) -> String {
        self.made += 1;
        let Some(target) = deploy_full(&self.env, code) else {
            return "undeployable".into();
        };
        // give the target some funds so that value transfers and SELFDESTRUCT would have something to move
        let _ = self.env.v.run(&self.env.acct, &target.id, &fvm_shared::econ::TokenAmount::from_atto(1000),
                               fvm_shared::METHOD_SEND, None);
        let hops: Vec<&Deployed> = match chain {
            1 => vec![],
            2 => vec![&self.p_call],
            3 => vec![&self.p_delegate, &self.p_call],
            _ => vec![&self.p_delegate, &self.p_static],
        };
        let mut cd = vec![];
        for h in &hops {
            cd.extend(addr_word(&h.eth));
        }
        cd.extend(addr_word(&target.eth));
        cd.extend(payload);
        let nproxies = 1 + hops.len();
        let before = snapshot(&self.env.v);
        let seq_before = self.env.v.actor(&self.env.acct).map(|a| a.sequence).unwrap_or(0);
        // the observer needs the whole stack to tell proxy frames (MAGIC at the bottom) from the target's
        let rec = install(fuel, 1024);
        let o = self.env.invoke(&self.p_static.id, &cd);
        uninstall();
        let steps = rec.steps.borrow().clone();
        let after = snapshot(&self.env.v);
        let _ = seq_before;
        let same_actors = before.len() == after.len() && before.iter().zip(after.iter()).all(|(a, b)| a.0 == b.0);
        let same_state = same_actors && before.iter().zip(after.iter()).all(|(a, b)| a.1 == b.1 && a.2 == b.2);
        let same_bal = same_actors && before.iter().zip(after.iter()).all(|(a, b)| a.3 == b.3);
        let events = count_events(&o.inv);
        // the target's frame: after `nproxies` frame entries (pc = 0, empty stack), until a proxy resumes
        let mut entries = 0usize;
        let mut first_t: Option<usize> = None;
        let mut tsteps: Vec<StepRec> = vec![];
        let mut t_open = false; // the recording ended inside the target's frame
        for (i, s) in steps.iter().enumerate() {
            let is_proxy_frame = s.depth >= 1 && s.top[0] == MAGIC;
            if first_t.is_none() {
                if s.pc == 0 && s.depth == 0 {
                    entries += 1;
                    if entries == nproxies + 1 {
                        first_t = Some(i);
                    }
                }
            }
            if let Some(_) = first_t {
                if is_proxy_frame {
                    t_open = false;
                    break;
                }
                t_open = true;
                tsteps.push(s.clone());
            }
        }
        // the target's own invocation in the tree
        let mut tinv: Option<(fvm_shared::error::ExitCode, String)> = None;
        o.inv.walk(
            &mut |i, _| {
                if i.to == target.id && i.method == fil_actor_evm::Method::InvokeContract as u64 && tinv.is_none() {
                    tinv = Some((i.exit, i.msg.clone()));
                }
            },
            0,
        );
        let top_class = classify(&o);
        // what the caller of the target saw: unwrap one (flag ++ data) layer per proxy
        let mut data = if top_class == "ok" { out_bytes(&o) } else { vec![] };
        let mut wrappers_ok = top_class == "ok";
        for k in 0..nproxies {
            if data.len() < 32 {
                wrappers_ok = false;
                break;
            }
            let flag = data[31];
            let rest = data[32..].to_vec();
            if k + 1 < nproxies && flag != 1 {
                wrappers_ok = false;
            }
            data = if k + 1 < nproxies { rest } else { data };
        }
        let (flag, tret) = if wrappers_ok && data.len() >= 32 { (data[31] as i64, data[32..].to_vec()) } else { (-1, vec![]) };
        let class = match &tinv {
            None => "unreached".to_string(),
            Some((code, _)) => {
                let fake = Outcome { code: *code, message: String::new(), ret: None, panicked: false, inv: o.inv.clone() };
                classify(&fake).to_string()
            }
        };
        // the whole message was cut short (budget, memory cap, panic): inside the target's frame this is the
        // frame's outcome; elsewhere (a proxy) the case says nothing about the target
        let class = if top_class == "memcap" || top_class == "panic" || top_class == "fuel" {
            if t_open { top_class.to_string() } else if top_class == "panic" { "panic".to_string() } else { "outside".to_string() }
        } else {
            class
        };
        let fuel_t = match first_t {
            Some(i) => fuel.saturating_sub(i as u64),
            None => fuel,
        };
        // trace
        let ev = if *first { "Init" } else { "Reset" };
        *first = false;
        let fd = 8usize;
        let cmp = class != "unreached" && class != "outside";
        t.line(&json!({"ev": ev, "const": consts(keccak_known(&self.env)), "kind": "static", "code": bytes_json(code),
                       "calldata": bytes_json(payload), "static": true, "fuel": fuel_t, "fd": fd, "cmp": cmp,
                       "id": id, "chain": chain, "storage0": [], "st": "-"}));
        t.traces += 1;
        let trimmed: Vec<StepRec> = tsteps
            .iter()
            .map(|s| {
                let k = s.top.len().min(fd);
                StepRec { pc: s.pc, op: s.op, depth: s.depth, top: s.top[s.top.len() - k..].to_vec(), ms: s.ms }
            })
            .collect();
        for e in Runner::step_events(&trimmed) {
            t.line(&e);
        }
        let msg: String = tinv.as_ref().map(|x| x.1.clone()).unwrap_or_default().chars()
            .filter(|c| *c != '"' && *c != '\\' && !c.is_control()).take(100).collect();
        t.line(&json!({"ev": "End", "class": class, "code": tinv.as_ref().map(|x| x.0.value()).unwrap_or(0),
                       "out": bytes_json(&tret), "storage": [], "panicked": o.panicked && top_class != "memcap",
                       "steps": trimmed.len(), "msg": msg, "stok": true,
                       "flag": flag, "top": top_class, "allsteps": steps.len(),
                       "same_state": same_state, "same_bal": same_bal, "same_actors": same_actors, "events": events,
                       "st": format!("{class}:{flag}:{}", tret.len())}));
        class
    }
}

// ---------------------------------------------------------------------------------------------

/// `drive evm18 --out F [--schedules S] [--seed N] [--behaviours B]
///               [--bytes N] [--grammar N] [--mutated N] [--init N] [--static N]`
pub fn main(args: &[String]) {
    let out = arg(args, "--out").expect("--out");
    let seed = arg_u64(args, "--seed", 1);
    let mut t = TraceOut::create(out);
    let mut sched_out = arg(args, "--schedules").map(TraceOut::create);
    let mut rng = Rng::new(seed ^ 0x18);
    // schedules: direct programs (evm.rs Prog) and static cases {"kind":"static","code","calldata","chain","fuel"}
    let mut scheds: Vec<Value> = vec![];
    if let Some(b) = arg(args, "--behaviours") {
        for line in std::fs::read_to_string(b).expect("read schedules").lines() {
            if let Ok(v) = serde_json::from_str::<Value>(line.trim()) {
                if v.is_object() && v.get("code").is_some() {
                    scheds.push(v);
                }
            }
        }
    }
    let mk = |kind: &str, id: &str, code: Vec<u8>, cd: Vec<u8>, fuel: u64| -> Value {
        let mut p = Prog::call(id, code, cd);
        p.kind = kind.into();
        p.fuel = fuel;
        p.to_json()
    };
    for i in 0..arg_u64(args, "--bytes", 0) {
        let c = gen_random_bytes(&mut rng);
        let cd = rand_calldata(&mut rng);
        scheds.push(mk("call", &format!("bytes:{i}"), c, cd, 1500));
    }
    for i in 0..arg_u64(args, "--grammar", 0) {
        let pct = *rng.pick(&[0u64, 0, 3, 10]);
        let c = gen_grammar(&mut rng, pct);
        let cd = rand_calldata(&mut rng);
        scheds.push(mk("call", &format!("grammar:{i}"), c, cd, 1500));
    }
    for i in 0..arg_u64(args, "--mutated", 0) {
        let (c, cd) = gen_mutated(&mut rng, i as usize);
        scheds.push(mk("call", &format!("mutated:{i}"), c, cd, 3000));
    }
    for i in 0..arg_u64(args, "--init", 0) {
        // init code: random bytes, grammar programs, loaders of random code, mutated loaders
        let c = match rng.below(5) {
            0 => gen_random_bytes(&mut rng),
            1 => gen_grammar(&mut rng, 3),
            2 => loader(&gen_grammar(&mut rng, 0)),
            3 => {
                let mut l = loader(&gen_random_bytes(&mut rng));
                let j = rng.below(l.len() as u64) as usize;
                l[j] = rng.below(256) as u8;
                l
            }
            _ => {
                // returns a region of memory that starts with 0xEF / is too long / is empty
                let mut c = vec![];
                match rng.below(3) {
                    0 => c.extend([0x60, 0xef, 0x5f, 0x53, 0x60, 0x05, 0x5f, 0xf3]),
                    1 => {
                        c.extend(push_u(24577 - rng.below(3)));
                        c.extend([0x5f, 0xf3]);
                    }
                    _ => c.extend([0x5f, 0x5f, 0xf3]),
                }
                c
            }
        };
        scheds.push(mk("init", &format!("init:{i}"), c.clone(), vec![], 1500));
        // ... and whatever contract that init code creates is then called with arbitrary call data
        let cd = rand_calldata(&mut rng);
        scheds.push(mk("initcall", &format!("initcall:{i}"), c, cd, 1500));
    }
    // the stack-limit edge: k one-word pushes (k = 1023, 1024), then ONE instruction of every kind, then code that
    // still executes if the instruction wrongly succeeded (so that the next recorded step shows the depth).
    // --edge N: N of the 256 opcodes per run, always including every instruction that pops nothing and pushes one
    // word (the zero-argument environment instructions, PUSH0..PUSH32, DUP1..DUP16, PC, MSIZE, GAS)
    {
        let n_edge = arg_u64(args, "--edge", 0);
        if n_edge > 0 {
            let mut ops: Vec<u8> = vec![0x30, 0x32, 0x33, 0x34, 0x36, 0x38, 0x3a, 0x3d, 0x41, 0x42, 0x43, 0x44, 0x45, 0x46,
                                        0x47, 0x48, 0x4a, 0x58, 0x59, 0x5a, 0x5f];
            ops.extend(0x60u8..=0x7f);
            ops.extend(0x80u8..=0x8f);
            let mut rest: Vec<u8> = (0u16..256).map(|x| x as u8).filter(|b| !ops.contains(b)).collect();
            // rotate the remaining opcodes by the seed so that successive seeds cover all of them
            let r = (seed as usize * 37) % rest.len();
            rest.rotate_left(r);
            ops.extend(rest);
            ops.truncate(n_edge as usize);
            let depths: &[usize] = if n_edge >= 256 { &[1024, 1023] } else { &[1024] };
            for &k in depths {
                for &op in &ops {
                    let mut c = vec![0x5fu8; k];
                    c.push(op);
                    c.extend([0x5bu8; 33]);
                    c.push(0x00);
                    scheds.push(mk("call", &format!("edge:{k}:{op:02x}"), c, vec![], 1500));
                }
            }
        }
    }
    for i in 0..arg_u64(args, "--static", 0) {
        let code = gen_target(&mut rng);
        let payload = rand_calldata(&mut rng);
        let chain = 1 + rng.below(4);
        scheds.push(json!({"kind": "static", "code": hex::encode(&code), "calldata": hex::encode(&payload),
                           "chain": chain, "fuel": 3000, "fd": 8, "id": format!("static:{i}")}));
    }

    if arg_u64(args, "--illformed", 0) > 0 {
        for p in gen_illformed(&mut rng) {
            scheds.push(p.to_json());
        }
    }
    for p in gen_tiny(&mut rng, arg_u64(args, "--tiny", 0) as usize) {
        scheds.push(p.to_json());
    }
    let mut r = Runner::new(seed);
    let mut se: Option<StaticEnv> = None;
    let mut classes = std::collections::BTreeMap::new();
    let mut steps = 0usize;
    let mut first = true;
    for s in &scheds {
        if s["kind"].as_str() == Some("static") {
            if se.is_none() || se.as_ref().unwrap().made % 300 == 299 {
                se = Some(StaticEnv::new(seed + 77 + scheds.len() as u64));
            }
            let code = hex_of(&s["code"]);
            if code.first() == Some(&0xef) {
                // cannot be deployed (EIP-3541): still one trace so that schedules and traces stay aligned
                let mut p = Prog::call(s["id"].as_str().unwrap_or(""), code.clone(), vec![]);
                p.kind = "call".into();
                r.first = first;
                let res = r.run(&p, &mut t);
                first = r.first;
                *classes.entry(format!("static:{}", res.class)).or_insert(0usize) += 1;
            } else {
                let c = se.as_mut().unwrap().run(
                    &mut first,
                    &code,
                    &hex_of(&s["calldata"]),
                    s["chain"].as_u64().unwrap_or(1),
                    s["fuel"].as_u64().unwrap_or(3000),
                    s["id"].as_str().unwrap_or(""),
                    &mut t,
                );
                if c == "undeployable" {
                    let mut p = Prog::call(s["id"].as_str().unwrap_or(""), code.clone(), vec![]);
                    p.kind = "call".into();
                    r.first = first;
                    let res = r.run(&p, &mut t);
                    first = r.first;
                    *classes.entry(format!("static:{}", res.class)).or_insert(0usize) += 1;
                } else {
                    *classes.entry(format!("static:{c}")).or_insert(0usize) += 1;
                }
            }
        } else {
            let p = Prog::from_json(s);
            r.first = first;
            let res = r.run(&p, &mut t);
            first = r.first;
            *classes.entry(res.class.clone()).or_insert(0usize) += 1;
            steps += res.steps;
        }
        if let Some(so) = sched_out.as_mut() {
            so.line(s);
        }
    }
    t.flush();
    if let Some(s) = sched_out.as_mut() {
        s.flush();
    }
    println!(
        "{}",
        json!({"driver": "evm18", "traces": t.traces, "events": t.events, "steps": steps, "classes": classes,
               "not_reexecuted": r.skipped_cmp})
    );
}
