use verif_harness::*;

fn main() {
    let args: Vec<String> = std::env::args().collect();
    // panics in actor code are caught by the VM and reported as outcomes; keep stderr quiet
    std::panic::set_hook(Box::new(|_| {}));
    match args.get(1).map(|s| s.as_str()) {
        Some("paych") => paych::main(&args[2..]),
        Some("multisig") => multisig::main(&args[2..]),
        Some("minerctl") => minerctl::main(&args[2..]),
        Some("market") => market::main(&args[2..]),
        Some("initd") => initd::main(&args[2..]),
        Some("evmcalls") => calls::main(&args[2..]),
        Some("sectors") => sectors::main(&args[2..]),
        Some("evm17") => evm::main(&args[2..]),
        Some("evm18") => evm18::main(&args[2..]),
        Some("verif") => verif::main(&args[2..]),
        Some("access") => access::main(&args[2..]),
        Some("claims") => claims::main(&args[2..]),
        Some("power") => power::main(&args[2..]),
        _ => {
            eprintln!("usage: drive <subsystem> ...");
            std::process::exit(2);
        }
    }
}
