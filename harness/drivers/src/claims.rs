//! System-level driver + projection for *verified onboarding* (spec/Claims.tla; C10): the real datacap
//! and verified-registry actors, verified clients, and a real miner created through the power actor,
//! with the per-epoch cron running, under a scaled-down policy (4 deadlines x 6 epochs, 2 KiB sectors,
//! claim terms / sector lifetimes / end-of-life claim-drop period of a few proving periods).
//!
//! Only user messages are sent: DataCap `Transfer` with allocation requests, `PreCommitSectorBatch2`,
//! `ProveCommitSectors3` with piece manifests naming allocations, `ProveCommitSectorsNI` (a CC sector),
//! `ProveReplicaUpdates3` (verified data into a CC sector), `ExtendSectorExpiration2` with arbitrary
//! maintain / drop claim lists, `ExtendClaimTerms`, `RemoveExpiredClaims`, `RemoveExpiredAllocations`,
//! `TerminateSectors`.  `Tick(n)` runs the cron n times; after every epoch the driver submits the
//! Window PoSt that is due (every partition of the open deadline, nothing skipped), so that sectors are
//! proven at the first opening of their deadline and never become faulty.
use crate::minerctl::{create_bls_accounts, create_miner};
use crate::sectors::{POST, SEAL_NI, SSIZE, tiny_policy};
use crate::util::*;
use crate::vm::*;
use cid::Cid;
use fil_actor_miner::{
    CompactCommD, ExpirationExtension2, ExtendSectorExpiration2Params, Method as MinerMethod,
    PieceActivationManifest, PoStPartition, PreCommitSectorBatchParams2, ProveCommitSectors3Params,
    ProveCommitSectors3Return, ProveReplicaUpdates3Params, ProveReplicaUpdates3Return,
    SectorActivationManifest, SectorClaim, SectorOnChainInfo, SectorOnChainInfoFlags,
    SectorPreCommitInfo, SectorPreCommitOnChainInfo, SectorUpdateManifest, Sectors,
    State as MinerState, SubmitWindowedPoStParams, TerminateSectorsParams, TerminationDeclaration,
    VerifiedAllocationKey, qa_power_for_sector,
};
use fil_actor_power::State as PowerState;
use fil_actor_verifreg::state::{DATACAP_MAP_CONFIG, DataCapMap};
use fil_actor_verifreg::{
    AllocationRequest, AllocationRequests, AllocationsResponse, ClaimExtensionRequest, ClaimTerm,
    ExtendClaimTermsParams, GetClaimsParams, GetClaimsReturn, Method as VrMethod,
    RemoveExpiredAllocationsParams, RemoveExpiredAllocationsReturn, RemoveExpiredClaimsParams,
    RemoveExpiredClaimsReturn, State as VrState, VerifierParams,
};
use fil_actors_runtime::runtime::Policy;
use fil_actors_runtime::test_utils::{make_piece_cid, make_sealed_cid};
use fil_actors_runtime::{
    BatchReturn, DATACAP_TOKEN_ACTOR_ADDR, Map2, STORAGE_POWER_ACTOR_ADDR, VERIFIED_REGISTRY_ACTOR_ADDR,
};
use frc46_token::token::types::{TransferParams, TransferReturn};
use fvm_ipld_bitfield::BitField;
use fvm_ipld_encoding::RawBytes;
use fvm_shared::address::Address;
use fvm_shared::bigint::BigInt;
use fvm_shared::econ::TokenAmount;
use fvm_shared::piece::{PaddedPieceSize, PieceInfo};
use fvm_shared::randomness::Randomness;
use fvm_shared::sector::{PoStProof, RegisteredSealProof, StoragePower};
use num_traits::{ToPrimitive, Zero};
use serde_json::{Value, json};
use std::collections::BTreeMap;
use vm_api::VM;

/// pre-committed sectors use the V1 proof: its prove-commit window is 1 day (not 30), so the shortest
/// sector that can be pre-committed lives 2880 + 1 + min_sector_expiration epochs
pub const SEAL_PC: RegisteredSealProof = RegisteredSealProof::StackedDRG2KiBV1;
/// DataCap granted to each client at world creation (bytes)
pub const GRANT: i64 = 16 * 1024;

pub fn cl_policy() -> Policy {
    let mut p = tiny_policy();
    p.valid_pre_commit_proof_type.insert(SEAL_PC);
    p.minimum_verified_allocation_term = 24;
    p.maximum_verified_allocation_term = 4000;
    p.maximum_verified_allocation_expiration = 60;
    p
}

fn data_cid(d: &str) -> Cid {
    make_piece_cid(d.as_bytes())
}

pub struct CW {
    pub v: VVM,
    pub names: BTreeMap<String, Address>,
}

const HOLDERS: [&str; 6] = ["c1", "c2", "v1", "v2", "vr", "x"];

impl CW {
    pub fn new(seed: u64) -> CW {
        let v = VVM::genesis(cl_policy());
        {
            // the rest of the network: 1M FIL of other miners' pledge in the power actor's total (without it the
            // release of a lone miner's pledge runs into known finding F1 and the power actor drops the miner)
            let mut ps: PowerState = v.state(&STORAGE_POWER_ACTOR_ADDR).unwrap();
            ps.total_pledge_collateral += TokenAmount::from_whole(1_000_000);
            let head = v.put_store(&ps);
            let mut a = v.actor(&STORAGE_POWER_ACTOR_ADDR).unwrap();
            a.state = head;
            v.set_actor(&STORAGE_POWER_ACTOR_ADDR, a);
            v.checkpoint();
        }
        let accts = v.create_accounts(7, seed, &TokenAmount::from_whole(1_000_000));
        let bls = create_bls_accounts(&v, 2, seed, &TokenAmount::from_whole(1000));
        let mut names = BTreeMap::new();
        for (n, a) in ["c1", "c2", "v1", "v2", "x", "o1", "o2"].iter().zip(accts.iter()) {
            names.insert(n.to_string(), *a);
        }
        names.insert("root".into(), TEST_VERIFREG_ROOT_ADDR);
        names.insert("vr".into(), VERIFIED_REGISTRY_ACTOR_ADDR);
        names.insert("w1".into(), bls[0]);
        names.insert("w2".into(), bls[1]);
        for (m, o, w) in [("m1", "o1", "w1"), ("m2", "o2", "w2")] {
            let (id, out) = create_miner(&v, &names[o], &names[w], POST, &TokenAmount::from_whole(10_000));
            assert!(out.ok(), "create miner: {}", out.message);
            names.insert(m.to_string(), id.unwrap());
        }
        let w = CW { v, names };
        // DataCap: root -> verifier v1 -> clients c1, c2
        let (ok, msg) = w.via_root(VrMethod::AddVerifier as u64,
            &VerifierParams { address: w.names["v1"], allowance: StoragePower::from(8 * GRANT) });
        assert!(ok, "add verifier: {msg}");
        for c in ["c1", "c2"] {
            let o = w.v.run_p(&w.names["v1"], &VERIFIED_REGISTRY_ACTOR_ADDR, &TokenAmount::zero(),
                VrMethod::AddVerifiedClient as u64,
                &VerifierParams { address: w.names[c], allowance: StoragePower::from(GRANT) });
            assert!(o.ok(), "add client: {}", o.message);
        }
        w
    }

    fn via_root<P: serde::Serialize>(&self, method: u64, params: &P) -> (bool, String) {
        let o = self.v.run_p(
            &TEST_VERIFREG_ROOT_SIGNER_ADDR,
            &TEST_VERIFREG_ROOT_ADDR,
            &TokenAmount::zero(),
            fil_actor_multisig::Method::Propose as u64,
            &fil_actor_multisig::ProposeParams {
                to: VERIFIED_REGISTRY_ACTOR_ADDR,
                value: TokenAmount::zero(),
                method,
                params: RawBytes::serialize(params).unwrap(),
            },
        );
        if !o.ok() {
            return (false, o.message);
        }
        let r: fil_actor_multisig::ProposeReturn = o.de();
        (r.applied && r.code.is_success(), format!("inner code {}", r.code))
    }

    fn name_of_id(&self, id: u64) -> String {
        let a = Address::new_id(id);
        for (n, x) in &self.names {
            if *x == a {
                return n.clone();
            }
        }
        format!("{}", a)
    }
    fn id_of(&self, n: &str) -> u64 {
        self.names.get(n).map(|a| a.id().unwrap()).unwrap_or(999_999)
    }
    fn data_name(&self, c: &Cid) -> String {
        for d in ["dA", "dB", "dC"] {
            if data_cid(d) == *c {
                return d.into();
            }
        }
        "d?".into()
    }
    fn tok_balance(&self, a: &Address) -> i64 {
        let o = self.v.run_p(&self.names["x"], &DATACAP_TOKEN_ACTOR_ADDR, &TokenAmount::zero(),
            fil_actor_datacap::Method::BalanceExported as u64, a);
        let t: TokenAmount = o.de();
        whole_bytes(&t)
    }
    pub fn mstate(&self, m: &str) -> MinerState {
        self.v.state(&self.names[m]).unwrap()
    }

    fn claim_json(&self, c: &fil_actor_verifreg::Claim) -> Value {
        json!({"client": self.name_of_id(c.client), "provider": self.name_of_id(c.provider),
               "data": self.data_name(&c.data), "size": c.size.0, "tmin": c.term_min, "tmax": c.term_max,
               "tstart": c.term_start, "sector": c.sector})
    }

    /// the registry as VerifReg.tla sees it, read from the actor state
    fn project_vr(&self) -> Value {
        let st: VrState = self.v.state(&VERIFIED_REGISTRY_ACTOR_ADDR).unwrap();
        let store = &self.v.store;
        let mut verifiers = vec![];
        DataCapMap::load(store, &st.verifiers, DATACAP_MAP_CONFIG, "verifiers")
            .unwrap()
            .for_each(|a: Address, c: &fvm_shared::bigint::bigint_ser::BigIntDe| {
                verifiers.push(json!([self.name_of_id(a.id().unwrap()), c.0.to_i64().unwrap()]));
                Ok(())
            })
            .unwrap();
        verifiers.sort_by_key(|v| v[0].as_str().map(|s| s.to_string()));
        let mut tok = serde_json::Map::new();
        for h in HOLDERS {
            tok.insert(h.into(), json!(self.tok_balance(&self.names[h])));
        }
        let o = self.v.run(&self.names["x"], &DATACAP_TOKEN_ACTOR_ADDR, &TokenAmount::zero(),
            fil_actor_datacap::Method::TotalSupplyExported as u64, None);
        let supply: TokenAmount = o.de();
        let mut allocs = vec![];
        let mut am = st.load_allocs(store).unwrap();
        for owner in self.names.values().filter_map(|a| a.id().ok()) {
            am.for_each_in(owner, |key, a: &fil_actor_verifreg::Allocation| {
                let id = fil_actors_runtime::parse_uint_key(key).unwrap();
                allocs.push((id, json!({"id": id, "a": {"client": self.name_of_id(a.client), "provider": self.name_of_id(a.provider),
                    "data": self.data_name(&a.data), "size": a.size.0, "tmin": a.term_min, "tmax": a.term_max, "exp": a.expiration}})));
                Ok(())
            })
            .unwrap();
        }
        allocs.sort_by_key(|x| x.0);
        let mut claims = vec![];
        let mut cm = st.load_claims(store).unwrap();
        for owner in self.names.values().filter_map(|a| a.id().ok()) {
            cm.for_each_in(owner, |key, c: &fil_actor_verifreg::Claim| {
                let id = fil_actors_runtime::parse_uint_key(key).unwrap();
                claims.push((id, json!({"id": id, "c": self.claim_json(c)})));
                Ok(())
            })
            .unwrap();
        }
        claims.sort_by_key(|x| x.0);
        json!({"verifiers": verifiers, "tok": tok, "supply": whole_bytes(&supply),
               "allocs": allocs.into_iter().map(|x| x.1).collect::<Vec<_>>(),
               "claims": claims.into_iter().map(|x| x.1).collect::<Vec<_>>(),
               "next": st.next_allocation_id})
    }

    /// the claims as the registry's `GetClaims` method reports them (per provider, for every id below
    /// the next allocation id): [{id, c}] for the ids found
    fn project_get_claims(&self, next: u64) -> Value {
        let mut out = vec![];
        for p in ["m1", "m2"] {
            let ids: Vec<u64> = (1..next).collect();
            if ids.is_empty() {
                continue;
            }
            let o = self.v.run_p(&self.names["x"], &VERIFIED_REGISTRY_ACTOR_ADDR, &TokenAmount::zero(),
                VrMethod::GetClaimsExported as u64,
                &GetClaimsParams { provider: self.id_of(p), claim_ids: ids.clone() });
            assert!(o.ok(), "GetClaims: {}", o.message);
            let r: GetClaimsReturn = o.de();
            let found: Vec<u64> = r.batch_info.successes(&ids).into_iter().cloned().collect();
            assert_eq!(found.len(), r.claims.len());
            for (id, c) in found.iter().zip(r.claims.iter()) {
                out.push((*id, json!({"id": id, "c": self.claim_json(c)})));
            }
        }
        out.sort_by_key(|x| x.0);
        json!(out.into_iter().map(|x| x.1).collect::<Vec<_>>())
    }

    /// where every sector of the miner sits: n -> (deadline, partition, unproven, faulty, terminated)
    fn locations(&self, m: &str) -> BTreeMap<u64, (u64, u64, bool, bool, bool)> {
        let st = self.mstate(m);
        let store = &self.v.store;
        let dls = st.load_deadlines(store).unwrap();
        let mut loc = BTreeMap::new();
        for d in 0..self.v.policy.wpost_period_deadlines {
            let dl = dls.load_deadline(store, d).unwrap();
            dl.partitions_amt(store)
                .unwrap()
                .for_each(|pi, p| {
                    for n in p.sectors.iter() {
                        loc.insert(n, (d, pi, p.unproven.get(n), p.faults.get(n), p.terminated.get(n)));
                    }
                    Ok(())
                })
                .unwrap();
        }
        loc
    }

    fn project_miner(&self, m: &str) -> Value {
        let st = self.mstate(m);
        let store = &self.v.store;
        let loc = self.locations(m);
        let mut sectors = vec![];
        Sectors::load(store, &st.sectors)
            .unwrap()
            .amt
            .for_each(|n, s: &SectorOnChainInfo| {
                let l = loc.get(&n).cloned().unwrap_or((99, 99, false, false, true));
                let vw = s.verified_deal_weight.to_i64().unwrap();
                assert!(vw < (1 << 31), "verified weight too large for TLC");
                sectors.push(json!({"n": n, "act": s.activation, "exp": s.expiration, "base": s.power_base_epoch,
                    "vw": vw, "dw": s.deal_weight.to_i64().unwrap(),
                    "simple": s.flags.contains(SectorOnChainInfoFlags::SIMPLE_QA_POWER),
                    "qa": qa_power_for_sector(SSIZE, s).to_i64().unwrap(),
                    "d": l.0, "p": l.1, "unproven": l.2, "faulty": l.3, "term": l.4}));
                Ok(())
            })
            .unwrap();
        let mut pres = vec![];
        let pcs: Map2<_, u64, SectorPreCommitOnChainInfo> =
            Map2::load(store, &st.pre_committed_sectors, fil_actor_miner::PRECOMMIT_CONFIG, "precommits").unwrap();
        pcs.for_each(|n, pc| {
            pres.push((n, json!({"n": n, "exp": pc.info.expiration, "at": pc.pre_commit_epoch})));
            Ok(())
        })
        .unwrap();
        pres.sort_by_key(|x| x.0);
        let allocated: BitField = {
            use fvm_ipld_encoding::CborStore;
            store.get_cbor(&st.allocated_sectors).unwrap().unwrap()
        };
        let p = self.v.policy.wpost_proving_period;
        json!({"m": m, "pps": st.proving_period_start, "off": st.proving_period_start.rem_euclid(p),
               "cron": st.deadline_cron_active,
               "alloc": allocated.iter().collect::<Vec<u64>>(),
               "pre": pres.into_iter().map(|x| x.1).collect::<Vec<_>>(), "sectors": sectors})
    }

    pub fn project(&self) -> Value {
        let vr = self.project_vr();
        let gc = self.project_get_claims(vr["next"].as_u64().unwrap());
        let ps: PowerState = self.v.state(&STORAGE_POWER_ACTOR_ADDR).unwrap();
        let pc = ps.get_claim(&self.v.store, &self.names["m1"]).unwrap();
        let pow = match pc {
            Some(c) => json!({"raw": c.raw_byte_power.to_i64().unwrap(), "qa": c.quality_adj_power.to_i64().unwrap()}),
            None => json!({"raw": -1, "qa": -1}),
        };
        json!({"epoch": self.v.epoch(), "vr": vr, "gc": gc, "m": self.project_miner("m1"), "pow": pow})
    }

    fn worker(&self, m: &str) -> Address {
        let st = self.mstate(m);
        st.get_info(&self.v.store).unwrap().worker
    }

    /// Window PoSt for everything that is due right now (driver-internal keep-alive)
    fn keep_alive(&self, m: &str) -> Option<String> {
        let st = self.mstate(m);
        let store = &self.v.store;
        let di = st.deadline_info(&self.v.policy, self.v.epoch());
        if !st.deadline_cron_active || !di.period_started() || !di.is_open() {
            return None;
        }
        let dls = st.load_deadlines(store).unwrap();
        let dl = dls.load_deadline(store, di.index).unwrap();
        let mut parts = vec![];
        dl.partitions_amt(store)
            .unwrap()
            .for_each(|pi, p| {
                let provable = p.sectors.iter().any(|n| !p.terminated.get(n) && (!p.faults.get(n) || p.recoveries.get(n)));
                if provable && !dl.partitions_posted.get(pi) {
                    parts.push(PoStPartition { index: pi, skipped: BitField::new() });
                }
                Ok(())
            })
            .unwrap();
        if parts.is_empty() {
            return None;
        }
        let o = self.v.run_p(&self.worker(m), &self.names[m], &TokenAmount::zero(), MinerMethod::SubmitWindowedPoSt as u64,
            &SubmitWindowedPoStParams {
                deadline: di.index,
                partitions: parts,
                proofs: vec![PoStProof { post_proof: POST, proof_bytes: vec![1, 2, 3] }],
                chain_commit_epoch: di.challenge,
                chain_commit_rand: Randomness(RAND_ARRAY.into()),
            });
        if o.ok() { None } else { Some(format!("PoSt dl {} at {}: {}", di.index, self.v.epoch(), o.message)) }
    }

    fn pieces(&self, ps: &Value) -> Vec<PieceActivationManifest> {
        ps.as_array().unwrap().iter().map(|p| PieceActivationManifest {
            cid: data_cid(p["data"].as_str().unwrap()),
            size: PaddedPieceSize(p["size"].as_u64().unwrap()),
            verified_allocation_key: match p["id"].as_u64().unwrap() {
                0 => None,
                id => Some(VerifiedAllocationKey { client: self.id_of(p["client"].as_str().unwrap()), id }),
            },
            notify: vec![],
        }).collect()
    }
    fn commd(&self, proof: RegisteredSealProof, ps: &[PieceActivationManifest]) -> CompactCommD {
        if ps.is_empty() {
            return CompactCommD::empty();
        }
        let pis: Vec<PieceInfo> = ps.iter().map(|p| PieceInfo { size: p.size, cid: p.cid }).collect();
        CompactCommD::of(self.v.primitives().compute_unsealed_sector_cid(proof, &pis).unwrap())
    }

    pub fn step(&self, call: &Value) -> Value {
        let a = call["a"].as_str().unwrap();
        let zero = TokenAmount::zero();
        let mut ev = call.clone();
        ev["ev"] = json!(a);
        let vr = VERIFIED_REGISTRY_ACTOR_ADDR;
        let nm = |k: &str| -> Address { self.names.get(call[k].as_str().unwrap()).cloned().unwrap_or(Address::new_id(999_999)) };
        let ids_of = |k: &str| -> Vec<u64> { call[k].as_array().unwrap().iter().map(|x| x.as_u64().unwrap()).collect() };
        if a == "Tick" {
            let n = call["n"].as_i64().unwrap();
            let mut cron_ok = true;
            let mut notes = vec![];
            for _ in 0..n {
                let o = self.v.tick();
                if !o.ok() {
                    cron_ok = false;
                    notes.push(format!("cron at {}: {}", self.v.epoch() - 1, o.message));
                }
                o.inv.walk(&mut |i, _| {
                    if !i.exit.is_success() {
                        cron_ok = false;
                        notes.push(format!("cron at {}: send to {} method {} failed ({}): {}", self.v.epoch() - 1, i.to, i.method,
                                           i.exit.value(), i.msg.chars().take(120).collect::<String>()));
                    }
                }, 0);
                if let Some(e) = self.keep_alive("m1") {
                    notes.push(e);
                }
            }
            ev["ok"] = json!(true);
            ev["cronOK"] = json!(cron_ok);
            ev["notes"] = json!(notes);
            ev["st"] = self.project();
            return ev;
        }
        let o = match a {
            "Transfer" => {
                let reqs = AllocationRequests {
                    allocations: call["allocs"].as_array().unwrap().iter().map(|r| AllocationRequest {
                        provider: self.id_of(r["provider"].as_str().unwrap()),
                        data: data_cid(r["data"].as_str().unwrap()),
                        size: PaddedPieceSize(r["size"].as_u64().unwrap()),
                        term_min: r["tmin"].as_i64().unwrap(),
                        term_max: r["tmax"].as_i64().unwrap(),
                        expiration: r["exp"].as_i64().unwrap(),
                    }).collect(),
                    extensions: call["exts"].as_array().unwrap().iter().map(|r| ClaimExtensionRequest {
                        provider: self.id_of(r["provider"].as_str().unwrap()),
                        claim: r["claim"].as_u64().unwrap(),
                        term_max: r["tmax"].as_i64().unwrap(),
                    }).collect(),
                };
                let o = self.v.run_p(&nm("c"), &DATACAP_TOKEN_ACTOR_ADDR, &zero,
                    fil_actor_datacap::Method::TransferExported as u64,
                    &TransferParams {
                        to: nm("to"),
                        amount: TokenAmount::from_whole(call["amt"].as_i64().unwrap()),
                        operator_data: RawBytes::serialize(&reqs).unwrap(),
                    });
                ev["ids"] = json!([]);
                if o.ok() {
                    let r: TransferReturn = o.de();
                    if let Ok(resp) = r.recipient_data.deserialize::<AllocationsResponse>() {
                        ev["ids"] = json!(resp.new_allocations);
                    }
                }
                o
            }
            "RemoveExpiredAllocs" => {
                let o = self.v.run_p(&nm("c"), &vr, &zero, VrMethod::RemoveExpiredAllocations as u64,
                    &RemoveExpiredAllocationsParams { client: self.id_of(call["cl"].as_str().unwrap()), allocation_ids: ids_of("ids") });
                ev["removed"] = json!([]);
                if o.ok() {
                    let r: RemoveExpiredAllocationsReturn = o.de();
                    let ok_ids: Vec<u64> = r.results.successes(&r.considered).into_iter().cloned().collect();
                    ev["removed"] = json!(ok_ids);
                }
                o
            }
            "ExtendClaimTerms" => {
                let terms: Vec<ClaimTerm> = call["terms"].as_array().unwrap().iter().map(|t| ClaimTerm {
                    provider: self.id_of(t["provider"].as_str().unwrap()),
                    claim_id: t["claim"].as_u64().unwrap(),
                    term_max: t["tmax"].as_i64().unwrap(),
                }).collect();
                let n = terms.len();
                let o = self.v.run_p(&nm("c"), &vr, &zero, VrMethod::ExtendClaimTerms as u64, &ExtendClaimTermsParams { terms });
                ev["res"] = json!([]);
                if o.ok() {
                    let r: BatchReturn = o.de();
                    ev["res"] = batch_bools(&r, n);
                }
                o
            }
            "RemoveExpiredClaims" => {
                let o = self.v.run_p(&nm("c"), &vr, &zero, VrMethod::RemoveExpiredClaims as u64,
                    &RemoveExpiredClaimsParams { provider: self.id_of(call["p"].as_str().unwrap()), claim_ids: ids_of("ids") });
                ev["removed"] = json!([]);
                if o.ok() {
                    let r: RemoveExpiredClaimsReturn = o.de();
                    let ok_ids: Vec<u64> = r.results.successes(&r.considered).into_iter().cloned().collect();
                    ev["removed"] = json!(ok_ids);
                }
                o
            }
            _ => {
                // miner calls, sent by the worker (who may call what is C11's business)
                let m = call["m"].as_str().unwrap();
                let maddr = self.names[m];
                let from = self.worker(m);
                let loc = self.locations(m);
                let where_is = |n: u64| -> (u64, u64) { loc.get(&n).map(|l| (l.0, l.1)).unwrap_or((0, 0)) };
                match a {
                    "CommitNI" => {
                        let n = call["n"].as_u64().unwrap();
                        let mid = maddr.id().unwrap();
                        self.v.run_p(&from, &maddr, &zero, MinerMethod::ProveCommitSectorsNI as u64,
                            &fil_actor_miner::ProveCommitSectorsNIParams {
                                sectors: vec![fil_actor_miner::SectorNIActivationInfo {
                                    sealing_number: n, sealer_id: mid, sealed_cid: make_sealed_cid(format!("ni: {n}").as_bytes()),
                                    sector_number: n, seal_rand_epoch: self.v.epoch() - 1, expiration: call["exp"].as_i64().unwrap(),
                                }],
                                aggregate_proof: RawBytes::new(vec![1, 2, 3]), seal_proof_type: SEAL_NI,
                                aggregate_proof_type: fvm_shared::sector::RegisteredAggregateProof::SnarkPackV2,
                                proving_deadline: call["d"].as_u64().unwrap(),
                                require_activation_success: true,
                            })
                    }
                    "PreCommit" => {
                        let sectors: Vec<SectorPreCommitInfo> = call["secs"].as_array().unwrap().iter().map(|s| {
                            let n = s["n"].as_u64().unwrap();
                            SectorPreCommitInfo {
                                seal_proof: SEAL_PC,
                                sector_number: n,
                                sealed_cid: make_sealed_cid(format!("sn: {n}").as_bytes()),
                                seal_rand_epoch: self.v.epoch() - 1,
                                deal_ids: vec![],
                                expiration: s["exp"].as_i64().unwrap(),
                                unsealed_cid: self.commd(SEAL_PC, &self.pieces(&s["pieces"])),
                            }
                        }).collect();
                        self.v.run_p(&from, &maddr, &zero, MinerMethod::PreCommitSectorBatch2 as u64,
                            &PreCommitSectorBatchParams2 { sectors })
                    }
                    "ProveCommit" => {
                        let secs = call["secs"].as_array().unwrap();
                        let acts: Vec<SectorActivationManifest> = secs.iter().map(|s| SectorActivationManifest {
                            sector_number: s["n"].as_u64().unwrap(), pieces: self.pieces(&s["pieces"]) }).collect();
                        let o = self.v.run_p(&from, &maddr, &zero, MinerMethod::ProveCommitSectors3 as u64,
                            &ProveCommitSectors3Params {
                                sector_proofs: secs.iter().map(|s| RawBytes::new(vec![s["n"].as_u64().unwrap() as u8; 4])).collect(),
                                sector_activations: acts,
                                aggregate_proof: vec![].into(),
                                aggregate_proof_type: None,
                                require_activation_success: call["requireAll"].as_bool().unwrap(),
                                require_notification_success: false,
                            });
                        ev["res"] = json!([]);
                        if o.ok() {
                            let r: ProveCommitSectors3Return = o.de();
                            ev["res"] = batch_bools(&r.activation_results, secs.len());
                        }
                        o
                    }
                    "ReplicaUpdate" => {
                        let ups = call["ups"].as_array().unwrap();
                        let manifests: Vec<SectorUpdateManifest> = ups.iter().map(|u| {
                            let n = u["n"].as_u64().unwrap();
                            let (d, p) = where_is(n);
                            SectorUpdateManifest { sector: n, deadline: d, partition: p,
                                new_sealed_cid: make_sealed_cid(format!("ru: {n}").as_bytes()), pieces: self.pieces(&u["pieces"]) }
                        }).collect();
                        let o = self.v.run_p(&from, &maddr, &zero, MinerMethod::ProveReplicaUpdates3 as u64,
                            &ProveReplicaUpdates3Params {
                                sector_proofs: ups.iter().map(|_| RawBytes::new(vec![1, 2, 3, 4])).collect(),
                                sector_updates: manifests,
                                aggregate_proof: RawBytes::default(),
                                update_proofs_type: SEAL_NI.registered_update_proof().unwrap(),
                                aggregate_proof_type: None,
                                require_activation_success: call["requireAll"].as_bool().unwrap(),
                                require_notification_success: false,
                            });
                        ev["res"] = json!([]);
                        if o.ok() {
                            let r: ProveReplicaUpdates3Return = o.de();
                            ev["res"] = batch_bools(&r.activation_results, ups.len());
                        }
                        o
                    }
                    "Extend" => {
                        // one declaration per entry, each naming one sector: without claims when both lists
                        // are empty, else in sectors_with_claims
                        let extensions: Vec<ExpirationExtension2> = call["decls"].as_array().unwrap().iter().map(|dc| {
                            let n = dc["n"].as_u64().unwrap();
                            let (d, p) = where_is(n);
                            let ids = |k: &str| -> Vec<u64> { dc[k].as_array().unwrap().iter().map(|x| x.as_u64().unwrap()).collect() };
                            let (maintain, drop) = (ids("maintain"), ids("drop"));
                            let mut plain = BitField::new();
                            let mut with_claims = vec![];
                            if maintain.is_empty() && drop.is_empty() {
                                plain.set(n);
                            } else {
                                with_claims.push(SectorClaim { sector_number: n, maintain_claims: maintain, drop_claims: drop });
                            }
                            ExpirationExtension2 { deadline: d, partition: p, sectors: plain, sectors_with_claims: with_claims,
                                                   new_expiration: dc["exp"].as_i64().unwrap() }
                        }).collect();
                        self.v.run_p(&from, &maddr, &zero, MinerMethod::ExtendSectorExpiration2 as u64,
                            &ExtendSectorExpiration2Params { extensions })
                    }
                    "Terminate" => {
                        let n = call["n"].as_u64().unwrap();
                        let (d, p) = where_is(n);
                        let mut b = BitField::new();
                        b.set(n);
                        self.v.run_p(&from, &maddr, &zero, MinerMethod::TerminateSectors as u64,
                            &TerminateSectorsParams { terminations: vec![TerminationDeclaration { deadline: d, partition: p, sectors: b }] })
                    }
                    _ => panic!("unknown call {a}"),
                }
            }
        };
        ev["ok"] = json!(o.ok());
        ev["class"] = json!(o.class());
        ev["code"] = json!(o.code.value());
        ev["msg"] = json!(o.message.chars().take(200).collect::<String>());
        ev["st"] = self.project();
        ev
    }
}

fn batch_bools(b: &BatchReturn, n: usize) -> Value {
    let fails: Vec<u32> = b.fail_codes.iter().map(|f| f.idx).collect();
    json!((0..n as u32).map(|i| !fails.contains(&i)).collect::<Vec<_>>())
}

fn whole_bytes(t: &TokenAmount) -> i64 {
    let one = BigInt::from(10u64.pow(18));
    assert!((t.atto() % &one).is_zero(), "fractional datacap {t}");
    (t.atto() / &one).to_i64().unwrap()
}

/// a call of spec/MC_Claims.tla (epochs counted from a proving-period start of m1) in real epochs
fn from_model(c: &Value, e0: i64) -> Value {
    let mut o = c.clone();
    let shift = |v: &mut Value| {
        if let Some(x) = v.as_i64() {
            *v = json!(x + e0);
        }
    };
    match c["a"].as_str().unwrap() {
        "Transfer" => {
            for r in o["allocs"].as_array_mut().unwrap() {
                shift(&mut r["exp"]);
            }
        }
        "CommitNI" => shift(&mut o["exp"]),
        "Extend" => {
            for d in o["decls"].as_array_mut().unwrap() {
                shift(&mut d["exp"]);
            }
        }
        "PreCommit" => {
            for s in o["secs"].as_array_mut().unwrap() {
                shift(&mut s["exp"]);
            }
        }
        _ => {}
    }
    o
}

pub fn header(p: &Policy) -> Value {
    json!({"D": p.wpost_period_deadlines, "W": p.wpost_challenge_window,
           "MinLife": p.min_sector_expiration, "MaxLife": p.max_sector_expiration_extension,
           "PCDelay": p.pre_commit_challenge_delay,
           "PCWindow": fil_actor_miner::max_prove_commit_duration(p, SEAL_PC).unwrap(),
           "DropPeriod": p.end_of_life_claim_drop_period, "SectorSize": SSIZE as u64,
           "MinSize": p.minimum_verified_allocation_size.to_i64().unwrap(),
           "MinTerm": p.minimum_verified_allocation_term, "MaxTerm": p.maximum_verified_allocation_term,
           "MaxExp": p.maximum_verified_allocation_expiration})
}

// ---------------------------------------------------------------------------------------------
// guided random schedules

fn random_call(rng: &mut Rng, w: &CW, p: &Policy) -> Value {
    let st = w.project();
    let epoch = st["epoch"].as_i64().unwrap();
    let allocs = st["vr"]["allocs"].as_array().unwrap();
    let claims = st["vr"]["claims"].as_array().unwrap();
    let next = st["vr"]["next"].as_i64().unwrap();
    let ms = &st["m"];
    let sectors = ms["sectors"].as_array().unwrap();
    let pres = ms["pre"].as_array().unwrap();
    let used: Vec<u64> = ms["alloc"].as_array().unwrap().iter().map(|x| x.as_u64().unwrap()).collect();
    let fresh = (1..200u64).find(|x| !used.contains(x)).unwrap_or(201);
    let wdw = p.wpost_challenge_window;
    let period = p.wpost_proving_period;
    let nd = p.wpost_period_deadlines as i64;
    let off = ms["off"].as_i64().unwrap();
    let cur = ((epoch - off).rem_euclid(period)) / wdw;
    let drop_period = p.end_of_life_claim_drop_period;
    let g = |v: &Value, k: &str| v[k].as_i64().unwrap();
    // next opening of deadline d, and whether d may be changed now
    let open_of = |d: i64| -> i64 {
        let ps = epoch - (epoch - off).rem_euclid(period);
        let o = ps + d * wdw;
        if epoch >= o + wdw { o + period } else { o }
    };
    let mutable = |d: i64| -> bool { epoch < open_of(d) - wdw };
    let live: Vec<&Value> = sectors.iter().filter(|s| !s["term"].as_bool().unwrap() && g(s, "exp") >= epoch).collect();
    let active: Vec<&Value> = live.iter().filter(|s| !s["unproven"].as_bool().unwrap()).cloned().collect();
    let cc: Vec<&Value> = active.iter().filter(|s| g(s, "vw") == 0 && g(s, "dw") == 0 && mutable(g(s, "d"))).cloned().collect();
    let verified: Vec<&Value> = active.iter().filter(|s| g(s, "vw") > 0).cloned().collect();
    let any_id = |rng: &mut Rng| rng.range(1, next.max(1));
    let my_allocs: Vec<&Value> = allocs.iter().filter(|a| a["a"]["provider"] == json!("m1") && g(&a["a"], "exp") >= epoch).collect();
    let fits = |a: &Value, remaining: i64| -> bool { remaining >= g(&a["a"], "tmin") && remaining <= g(&a["a"], "tmax") };
    let noise = rng.chance(12);
    // pieces for a sector that will expire at `expiry`, claimed now (or `delay` epochs from now)
    let pick_pieces = |rng: &mut Rng, expiry: i64, delay: i64| -> Vec<Value> {
        let remaining = expiry - epoch - delay;
        let mut cands: Vec<&Value> = my_allocs.iter().filter(|a| fits(a, remaining)).cloned().collect();
        if cands.is_empty() || rng.chance(6) {
            cands = allocs.iter().collect();
        }
        let mut out: Vec<Value> = vec![];
        let mut room = 2048;
        let k = *rng.pick(&[1, 2, 2, 2, 3, 3]);
        for _ in 0..k {
            if cands.is_empty() {
                break;
            }
            let a = *rng.pick(&cands);
            let size = g(&a["a"], "size");
            let dup = out.iter().any(|p: &Value| p["id"] == a["id"]);
            if size > room || (dup && !rng.chance(5)) {
                continue;
            }
            room -= size;
            out.push(json!({"id": a["id"], "client": a["a"]["client"],
                "data": if rng.chance(97) { a["a"]["data"].clone() } else { json!("dC") },
                "size": if rng.chance(97) { size } else { 256 }}));
        }
        if rng.chance(10) && room >= 256 {
            out.push(json!({"id": 0, "client": "c1", "data": "dB", "size": 256}));
        }
        if rng.chance(4) {
            out.push(json!({"id": any_id(rng), "client": "c1", "data": "dA", "size": 512}));
        }
        out
    };
    // ---- what is worth doing now, with weights
    let mut menu: Vec<(&str, u64)> = vec![("tick", 22), ("transfer", if my_allocs.len() < 4 { 6 } else { 1 }), ("commit", 4), ("misc", 6)];
    if live.len() < 2 { menu.push(("commit", 14)); }
    if !cc.is_empty() {
        let s = cc[0];
        if my_allocs.iter().any(|a| fits(a, g(s, "exp") - epoch)) { menu.push(("update", 40)); } else { menu.push(("transfer", 30)); }
    }
    if live.iter().any(|s| g(s, "vw") == 0 && g(s, "dw") == 0) && my_allocs.is_empty() { menu.push(("transfer", 10)); }
    if !verified.is_empty() { menu.push(("extend", 34)); menu.push(("terms", 8)); }
    if !active.is_empty() { menu.push(("extend", 4)); menu.push(("terminate", 2)); }
    if !claims.is_empty() { menu.push(("terms", 3)); menu.push(("rmclaims", 4)); menu.push(("extspend", 2)); }
    if !allocs.is_empty() { menu.push(("rmallocs", 3)); }
    if pres.is_empty() && live.len() < 3 { menu.push(("precommit", 4)); }
    if pres.iter().any(|pc| epoch > g(pc, "at") + 1 && epoch < g(pc, "at") + 50) { menu.push(("prove", 30)); }
    else if !pres.is_empty() { menu.push(("prove", 1)); menu.push(("tick", 20)); }
    let total: u64 = menu.iter().map(|m| m.1).sum();
    let mut r = rng.below(total);
    let mut what = "tick";
    for (k, wgt) in &menu {
        if r < *wgt { what = k; break; }
        r -= wgt;
    }
    match what {
        "transfer" => {
            // allocations aimed at a data-less sector, a pre-commit to be made, or nothing in particular
            let targets: Vec<i64> = live.iter().filter(|s| g(s, "vw") == 0 && g(s, "dw") == 0).map(|s| g(s, "exp") - epoch).collect();
            let target = if !targets.is_empty() && rng.chance(85) { *rng.pick(&targets) - *rng.pick(&[0, 0, 6, 12, 18]) }
                         else if rng.chance(60) { p.min_sector_expiration - 18 } else { 2953 + *rng.pick(&[0, 10, 30]) };
            let na = *rng.pick(&[1, 2, 2, 2, 3]);
            let size = *rng.pick(&[512, 512, 512, 256, 1024]);
            let mut al = vec![];
            for _ in 0..na {
                let mut tmin = *rng.pick(&[24, 24, 30, (target - 12).max(24)]);
                let mut tmax = (target + *rng.pick(&[0, 0, 6, 12, 24, 48, 200])).max(tmin);
                let mut sz = if rng.chance(80) { size } else { *rng.pick(&[256, 512, 1024]) };
                let mut exp = epoch + *rng.pick(&[20, 30, 60, 60]);
                if noise {
                    match rng.below(6) { 0 => tmin = 23, 1 => tmax = 4001, 2 => sz = 128, 3 => exp = epoch + 61, 4 => exp = epoch - 1, _ => tmax = tmin - 1 }
                }
                al.push(json!({"provider": if rng.chance(94) { "m1" } else { "m2" }, "data": *rng.pick(&["dA", "dA", "dB"]),
                    "size": sz, "tmin": tmin, "tmax": tmax, "exp": exp}));
            }
            let want: i64 = al.iter().map(|a| g(a, "size")).sum();
            let amt = if rng.chance(95) { want } else { want + 256 };
            json!({"a": "Transfer", "c": *rng.pick(&["c1", "c1", "c1", "c2"]), "to": "vr", "amt": amt, "allocs": al, "exts": [], "ids": []})
        }
        "extspend" => {
            let c = rng.pick(claims);
            let tmax = g(&c["c"], "tmax") + *rng.pick(&[1, 24, 48, 100, 0, -1, -12]);
            json!({"a": "Transfer", "c": c["c"]["client"], "to": "vr", "amt": c["c"]["size"], "allocs": [],
                   "exts": [{"provider": c["c"]["provider"], "claim": c["id"], "tmax": tmax}], "ids": []})
        }
        "commit" => {
            let d = if !noise { (cur + 2 + rng.range(0, 1)) % nd } else { rng.range(0, nd - 1) };
            json!({"a": "CommitNI", "m": "m1", "n": if !noise { fresh } else { rng.range(1, 4) as u64 },
                   "exp": epoch + p.min_sector_expiration + *rng.pick(&[0, 0, 6, 24, 40]) - if noise { 1 } else { 0 }, "d": d})
        }
        "update" => {
            let pool: Vec<&Value> = if noise && !live.is_empty() { live.clone() } else { cc.clone() };
            let s = *rng.pick(&pool);
            let ps = pick_pieces(rng, g(s, "exp"), 0);
            let mut ups = vec![json!({"n": s["n"], "pieces": ps})];
            if cc.len() >= 2 && rng.chance(25) {
                let s2 = cc.iter().find(|x| x["n"] != s["n"]).unwrap();
                ups.push(json!({"n": s2["n"], "pieces": pick_pieces(rng, g(s2, "exp"), 0)}));
            }
            json!({"a": "ReplicaUpdate", "m": "m1", "ups": ups, "requireAll": rng.chance(50), "res": []})
        }
        "precommit" => {
            let exp = epoch + 2881 + p.min_sector_expiration + *rng.pick(&[0, 5, 20, 60]) - if noise { 1 } else { 0 };
            if !noise && !my_allocs.iter().any(|a| fits(a, exp - epoch - 2)) {
                // first the allocations such a sector can claim
                let life = exp - epoch - 2;
                let al: Vec<Value> = (0..*rng.pick(&[1, 2, 2, 3])).map(|_| json!({"provider": "m1", "data": "dA", "size": *rng.pick(&[512, 512, 256]),
                    "tmin": *rng.pick(&[24, 1000, life - 20]), "tmax": life + *rng.pick(&[0, 2, 10, 30, 100]), "exp": epoch + 60})).collect();
                let want: i64 = al.iter().map(|a| g(a, "size")).sum();
                return json!({"a": "Transfer", "c": "c1", "to": "vr", "amt": want, "allocs": al, "exts": [], "ids": []});
            }
            let ps = if rng.chance(90) { pick_pieces(rng, exp, 2) } else { vec![] };
            let mut secs = vec![json!({"n": fresh, "exp": exp, "pieces": ps})];
            if rng.chance(25) {
                secs.push(json!({"n": fresh + 1, "exp": exp, "pieces": pick_pieces(rng, exp, 2)}));
            }
            json!({"a": "PreCommit", "m": "m1", "secs": secs})
        }
        // the pieces are not recorded on chain: the schedule runner remembers them (see `main`)
        "prove" => json!({"a": "ProveCommitAll", "requireAll": rng.chance(50)}),
        "extend" => {
            let pool: Vec<&Value> = if noise { live.clone() } else if !verified.is_empty() && rng.chance(85) { verified.clone() } else { active.clone() };
            let s = *rng.pick(&pool);
            let n = s["n"].as_u64().unwrap();
            let exp = g(s, "exp");
            let mine: Vec<&Value> = claims.iter().filter(|c| c["c"]["sector"] == json!(n) && c["c"]["provider"] == json!("m1")).collect();
            let ends: Vec<i64> = mine.iter().map(|c| g(&c["c"], "tstart") + g(&c["c"], "tmax")).collect();
            let lo = ends.iter().cloned().min().unwrap_or(exp + 48);
            let hi = ends.iter().cloned().max().unwrap_or(exp + 48);
            let new_exp = *rng.pick(&[lo, lo, lo + 1, hi, hi + 1, exp + 24, exp + 1, exp, lo + 30, exp - 1]);
            let in_window = exp - epoch <= drop_period;
            let mut maintain: Vec<u64> = vec![];
            let mut dropl: Vec<u64> = vec![];
            for c in &mine {
                let id = c["id"].as_u64().unwrap();
                let cmax = g(&c["c"], "tstart") + g(&c["c"], "tmax");
                let r = rng.below(100);
                if (new_exp > cmax && r < 70 && (in_window || r < 15)) || r < 5 { dropl.push(id) } else if r < 97 { maintain.push(id) }
            }
            match rng.below(24) {
                0 if !maintain.is_empty() => { let x = maintain[0]; maintain.push(x); }          // repeated id
                1 if maintain.len() >= 2 => { maintain[1] = maintain[0]; }                        // repeated instead of the other
                2 => maintain.push(any_id(rng) as u64),                                           // unknown / foreign
                3 if !dropl.is_empty() => { let x = dropl[0]; maintain.push(x); }                 // both kept and dropped
                4 if !maintain.is_empty() && !dropl.is_empty() => { dropl[0] = maintain[0]; }
                5 if !dropl.is_empty() => { let x = dropl[0]; dropl.push(x); }
                _ => {}
            }
            let mut decls = vec![json!({"n": n, "exp": new_exp, "maintain": maintain, "drop": dropl})];
            match rng.below(14) {
                // the same sector once more in the message, without claims and later; with a claim; another sector
                0 => decls.push(json!({"n": n, "exp": new_exp + *rng.pick(&[24, 48, 1]), "maintain": [], "drop": []})),
                1 if !mine.is_empty() => decls.push(json!({"n": n, "exp": new_exp + 24, "maintain": [rng.pick(&mine)["id"]], "drop": []})),
                2 if active.len() >= 2 => {
                    let s2 = *rng.pick(&active);
                    if s2["n"] != s["n"] {
                        let c2: Vec<u64> = claims.iter().filter(|c| c["c"]["sector"] == s2["n"]).map(|c| c["id"].as_u64().unwrap()).collect();
                        decls.push(json!({"n": s2["n"], "exp": g(s2, "exp") + *rng.pick(&[6, 24]), "maintain": c2, "drop": []}));
                    }
                }
                3 => decls.insert(0, json!({"n": n, "exp": exp, "maintain": [], "drop": []})),
                _ => {}
            }
            json!({"a": "Extend", "m": "m1", "decls": decls})
        }
        "terms" => {
            let (id, tm) = if !claims.is_empty() { let c = rng.pick(claims); (g(c, "id"), g(&c["c"], "tmax")) } else { (any_id(rng), 30) };
            json!({"a": "ExtendClaimTerms", "c": *rng.pick(&["c1", "c1", "c1", "c1", "c2"]),
                   "terms": [{"provider": "m1", "claim": id, "tmax": tm + *rng.pick(&[6, 12, 24, 24, 48, 0, -1, 4000])}], "res": []})
        }
        "rmclaims" => {
            let ids: Vec<i64> = if rng.chance(40) { vec![] } else { vec![g(rng.pick(claims), "id")] };
            json!({"a": "RemoveExpiredClaims", "c": "x", "p": *rng.pick(&["m1", "m1", "m1", "m2"]), "ids": ids, "removed": []})
        }
        "rmallocs" => {
            let ids: Vec<i64> = if rng.chance(40) { vec![] } else { vec![g(rng.pick(allocs), "id")] };
            json!({"a": "RemoveExpiredAllocs", "c": "x", "cl": *rng.pick(&["c1", "c1", "c2"]), "ids": ids, "removed": []})
        }
        "terminate" => json!({"a": "Terminate", "m": "m1", "n": rng.pick(&live)["n"]}),
        "misc" => {
            // calls aimed at nothing in particular
            match rng.below(4) {
                0 => json!({"a": "RemoveExpiredClaims", "c": "x", "p": "m1", "ids": [any_id(rng)], "removed": []}),
                1 => json!({"a": "RemoveExpiredAllocs", "c": "x", "cl": "c1", "ids": [any_id(rng)], "removed": []}),
                2 => json!({"a": "Extend", "m": "m1", "decls": [{"n": rng.range(1, 4), "exp": epoch + 100, "maintain": [any_id(rng)], "drop": []}]}),
                _ => json!({"a": "Terminate", "m": "m1", "n": rng.range(1, 4)}),
            }
        }
        _ => {
            // time: to the next epoch at which something changes (first proof, a deadline turning mutable, the
            // drop period, an expiration, a term end, an allocation's expiration), or a little
            let mut marks: Vec<i64> = vec![];
            for s in &live {
                let exp = g(s, "exp");
                marks.extend([exp - drop_period - 1, exp - drop_period, exp - 1, exp, exp + 1]);
                if s["unproven"].as_bool().unwrap() { marks.push(open_of(g(s, "d"))); }
                if g(s, "vw") == 0 && !mutable(g(s, "d")) { marks.push(open_of(g(s, "d")) + wdw); }
            }
            for c in claims {
                let end = g(&c["c"], "tstart") + g(&c["c"], "tmax");
                marks.extend([end - 1, end]);
            }
            for a in allocs {
                marks.extend([g(&a["a"], "exp") - 1, g(&a["a"], "exp"), g(&a["a"], "exp") + 1]);
            }
            for pc in pres {
                marks.push(g(pc, "at") + 2);
            }
            let ahead: Vec<i64> = marks.into_iter().filter(|m| *m > epoch).collect();
            let n = if !ahead.is_empty() && rng.chance(70) {
                let nearest = *ahead.iter().min().unwrap();
                if rng.chance(75) { nearest - epoch } else { *rng.pick(&ahead) - epoch }
            } else {
                *rng.pick(&[1, 1, 2, 3, wdw, 2 * wdw, period])
            };
            json!({"a": "Tick", "n": n.clamp(1, 3200)})
        }
    }
}

pub fn main(args: &[String]) {
    let out = arg(args, "--out").expect("--out");
    let seed = arg_u64(args, "--seed", 1);
    let mut t = TraceOut::create(out);
    let mut sched_out = arg(args, "--schedules").map(TraceOut::create);
    let policy = cl_policy();
    let mut first = true;
    let mut begin = |t: &mut TraceOut, w: &CW| {
        let ev = if first { "Init" } else { "Reset" };
        first = false;
        t.line(&json!({"ev": ev, "const": header(&w.v.policy), "st": w.project()}));
        t.traces += 1;
    };
    // the pieces of pre-committed sectors are known to the storage provider, not to the chain
    let run = |t: &mut TraceOut, w: &CW, call: &Value, pre_pieces: &mut BTreeMap<u64, Value>| {
        let call = if call["a"] == json!("ProveCommitAll") {
            let st = w.project();
            let secs: Vec<Value> = st["m"]["pre"].as_array().unwrap().iter().map(|pc| {
                let n = pc["n"].as_u64().unwrap();
                json!({"n": n, "pieces": pre_pieces.get(&n).cloned().unwrap_or(json!([]))})
            }).collect();
            json!({"a": "ProveCommit", "m": "m1", "secs": secs, "requireAll": call["requireAll"], "res": []})
        } else {
            call.clone()
        };
        if call["a"] == json!("PreCommit") {
            for s in call["secs"].as_array().unwrap() {
                pre_pieces.insert(s["n"].as_u64().unwrap(), s["pieces"].clone());
            }
        }
        t.line(&w.step(&call));
    };
    if let Some(b) = arg(args, "--behaviours") {
        for (i, (_, beh)) in read_schedules(b, 1).iter().enumerate() {
            let model = beh.first().map(|c| c["a"] != json!("Create")).unwrap_or(false);
            let w = CW::new(seed + i as u64);
            // behaviours of MC_Claims count epochs from a proving-period start of miner m1
            let mut e0 = 0;
            if model {
                let pps = w.mstate("m1").proving_period_start;
                let p = w.v.policy.wpost_proving_period;
                while (w.v.epoch() - pps).rem_euclid(p) != 0 || w.v.epoch() < pps {
                    w.v.tick();
                }
                e0 = w.v.epoch();
            }
            begin(&mut t, &w);
            let mut pp = BTreeMap::new();
            for call in beh {
                if call["a"] == json!("Create") {
                    continue;
                }
                let call = if model { from_model(call, e0) } else { call.clone() };
                run(&mut t, &w, &call, &mut pp);
            }
            if let Some(s) = sched_out.as_mut() {
                s.line(&json!({"scale": 1, "calls": beh}));
            }
        }
    }
    let n = arg_u64(args, "--random", 0);
    let len = arg_u64(args, "--len", 60);
    let mut rng = Rng::new(seed);
    for i in 0..n {
        let w = CW::new(seed.wrapping_mul(1000) + i);
        begin(&mut t, &w);
        let mut calls = vec![json!({"a": "Create"})];
        let mut pp = BTreeMap::new();
        for _ in 0..len {
            let call = random_call(&mut rng, &w, &policy);
            run(&mut t, &w, &call, &mut pp);
            calls.push(call);
        }
        if let Some(s) = sched_out.as_mut() {
            s.line(&json!({"scale": 1, "calls": calls}));
        }
    }
    t.flush();
    if let Some(s) = sched_out.as_mut() {
        s.flush();
    }
    println!("{}", json!({"driver": "claims", "traces": t.traces, "events": t.events}));
}
