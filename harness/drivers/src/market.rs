//! Driver + projection for the storage market actor (spec/Market.tla; C06, C07, C08 and the market
//! clause of C01).  Providers are real miner actors created through the power actor; activation and
//! termination are sent from the miner's address (component level, DESIGN.md 3.6).
use crate::minerctl::{create_bls_accounts, create_miner};
use crate::util::*;
use crate::vm::*;
use cid::Cid;
use fil_actor_market::ext::miner::{
    PieceChange, SectorChanges, SectorContentChangedParams, SectorContentChangedReturn,
};
use fil_actor_market::{
    BatchActivateDealsParams, BatchActivateDealsResult, ClientDealProposal, DealArray,
    DealMetaArray, DealProposal, DealState, Label, Method, OnMinerSectorsTerminateParams,
    PublishStorageDealsParams, PublishStorageDealsReturn, SectorDeals, SettleDealPaymentsParams,
    SettleDealPaymentsReturn, State, WithdrawBalanceParams, WithdrawBalanceReturn,
    balance_table::BalanceTable,
};
use fil_actors_runtime::runtime::Policy;
use fil_actors_runtime::test_utils::make_piece_cid;
use fil_actors_runtime::{
    BURNT_FUNDS_ACTOR_ADDR, CRON_ACTOR_ADDR, STORAGE_MARKET_ACTOR_ADDR, SYSTEM_ACTOR_ADDR,
};
use fvm_ipld_bitfield::BitField;
use fvm_ipld_encoding::RawBytes;
use fvm_shared::address::Address;
use fvm_shared::clock::ChainEpoch;
use fvm_shared::crypto::signature::{Signature, SignatureType};
use fvm_shared::econ::TokenAmount;
use fvm_shared::piece::PaddedPieceSize;
use fvm_shared::sector::{RegisteredPoStProof, RegisteredSealProof};
use multihash_codetable::{Code, MultihashDigest};
use serde_json::{Value, json};
use std::cell::RefCell;
use std::collections::BTreeMap;
use vm_api::VM;

pub struct Mkt {
    pub v: VVM,
    pub names: BTreeMap<String, Address>,
    pub pks: BTreeMap<String, Address>,
    /// every proposal the driver ever submitted: cid -> content
    reg: RefCell<BTreeMap<Cid, Value>>,
    burnt0: TokenAmount,
}

const PIECE_SIZE: u64 = 2048;

fn proposal_cid(p: &DealProposal) -> Cid {
    let data = RawBytes::serialize(p).unwrap();
    Cid::new_v1(fvm_ipld_encoding::DAG_CBOR, Code::Blake2b256.digest(data.bytes()))
}

impl Mkt {
    pub fn new(seed: u64) -> Mkt {
        Mkt::new_with_id_base(seed, 0)
    }

    /// `id_base`: the first deal id the market hands out.  The epoch at which the cron first looks at a deal is
    /// start + (id mod the processing interval); with the tiny ids of a fresh chain a deal that missed its start is
    /// cleaned up within an epoch or two, with realistic ids it stays around (and can be settled by hand) for a while.
    pub fn new_with_id_base(seed: u64, id_base: u64) -> Mkt {
        let v = VVM::genesis(Policy::default());
        if id_base > 0 {
            let mut ms: State = v.state(&STORAGE_MARKET_ACTOR_ADDR).unwrap();
            ms.next_id = id_base;
            let head = v.put_store(&ms);
            let mut a = v.actor(&STORAGE_MARKET_ACTOR_ADDR).unwrap();
            a.state = head;
            v.set_actor(&STORAGE_MARKET_ACTOR_ADDR, a);
            v.checkpoint();
        }
        let accts = v.create_accounts(5, seed, &TokenAmount::from_whole(100_000));
        let bls = create_bls_accounts(&v, 2, seed, &TokenAmount::from_whole(10));
        let mut names = BTreeMap::new();
        for (n, a) in ["c1", "c2", "x", "o1", "o2"].iter().zip(accts.iter()) {
            names.insert(n.to_string(), *a);
        }
        names.insert("w1".into(), bls[0]);
        names.insert("w2".into(), bls[1]);
        let proof = RegisteredPoStProof::StackedDRGWindow32GiBV1P1;
        for (m, o, w) in [("m1", "o1", "w1"), ("m2", "o2", "w2")] {
            let (id, out) = create_miner(&v, &names[o], &names[w], proof, &TokenAmount::from_whole(1000));
            assert!(out.ok(), "create miner: {}", out.message);
            names.insert(m.into(), id.unwrap());
        }
        // with a zero circulating supply the minimum provider collateral is zero, so the small
        // driver-chosen collaterals are within bounds
        v.set_circulating_supply(TokenAmount::from_atto(0));
        let mut pks = BTreeMap::new();
        for n in ["c1", "c2", "x"] {
            let st: fil_actor_account::State = v.state(&names[n]).unwrap();
            pks.insert(n.to_string(), st.address);
        }
        // "k": a contract client.  Its AuthenticateMessage (FRC-0044, reached through
        // handle_filecoin_method) answers a well-formed CBOR bool taken from storage slot 0 -- `false`
        // is a refusal that does NOT abort, unlike the account actor's; any other call stores its
        // first calldata word in slot 0.
        let k_code: Vec<u8> = vec![
            0x5f, 0x35, 0x60, 0xe0, 0x1c, 0x63, 0x86, 0x8e, 0x10, 0xc4, 0x14, 0x60, 0x13, 0x57, // selector == native?
            0x5f, 0x35, 0x5f, 0x55, 0x00, // no: slot0 := calldata[0..32]; STOP
            0x5b, // yes: return (exit 0, codec 0x51, bytes [0xf4 + slot0])
            0x60, 0x51, 0x60, 0x20, 0x52, 0x60, 0x60, 0x60, 0x40, 0x52, 0x60, 0x01, 0x60, 0x60, 0x52,
            0x5f, 0x54, 0x60, 0xf4, 0x01, 0x60, 0xf8, 0x1b, 0x60, 0x80, 0x52, 0x60, 0xa0, 0x5f, 0xf3,
        ];
        let o = v.run_p(
            &names["x"],
            &fil_actors_runtime::EAM_ACTOR_ADDR,
            &TokenAmount::from_atto(0),
            fil_actor_eam::Method::CreateExternal as u64,
            &fil_actor_eam::CreateExternalParams(crate::evm::loader(&k_code)),
        );
        assert!(o.ok(), "deploy contract client: {}", o.message);
        let r: fil_actor_eam::CreateExternalReturn = o.de();
        names.insert("k".into(), Address::new_id(r.actor_id));
        let burnt0 = v.balance(&BURNT_FUNDS_ACTOR_ADDR);
        Mkt { v, names, pks, reg: RefCell::new(BTreeMap::new()), burnt0 }
    }

    fn name_of(&self, a: &Address) -> String {
        let id = self.v.resolve_id_address(a).unwrap_or(*a);
        for (n, x) in &self.names {
            if *x == id {
                return n.clone();
            }
        }
        format!("{}", id)
    }

    fn to_real(&self, d: &Value) -> DealProposal {
        let uid = d["uid"].as_i64().unwrap();
        DealProposal {
            piece_cid: make_piece_cid(format!("piece-{uid}").as_bytes()),
            piece_size: PaddedPieceSize(PIECE_SIZE),
            verified_deal: false,
            client: self.names[d["c"].as_str().unwrap()],
            provider: self.names[d["p"].as_str().unwrap()],
            label: Label::String(format!("uid-{uid}")),
            start_epoch: d["start"].as_i64().unwrap(),
            end_epoch: d["end"].as_i64().unwrap(),
            storage_price_per_epoch: TokenAmount::from_atto(d["price"].as_i64().unwrap()),
            provider_collateral: TokenAmount::from_atto(d["pcol"].as_i64().unwrap()),
            client_collateral: TokenAmount::from_atto(d["ccol"].as_i64().unwrap()),
        }
    }

    fn to_abstract(&self, p: &DealProposal) -> Value {
        let uid = match &p.label {
            Label::String(s) => s.trim_start_matches("uid-").parse::<i64>().unwrap_or(-1),
            _ => -1,
        };
        json!({"c": self.name_of(&p.client), "p": self.name_of(&p.provider), "start": p.start_epoch,
               "end": p.end_epoch, "price": small(&p.storage_price_per_epoch),
               "pcol": small(&p.provider_collateral), "ccol": small(&p.client_collateral), "uid": uid})
    }

    pub fn project(&self) -> Value {
        let st: State = self.v.state(&STORAGE_MARKET_ACTOR_ADDR).unwrap();
        let store = &self.v.store;
        let escrow = BalanceTable::from_root(store, &st.escrow_table, "escrow").unwrap();
        let locked = BalanceTable::from_root(store, &st.locked_table, "locked").unwrap();
        let mut esc = serde_json::Map::new();
        let mut lck = serde_json::Map::new();
        for n in ["c1", "c2", "m1", "m2", "x", "k"] {
            esc.insert(n.into(), small(&escrow.get(&self.names[n]).unwrap()));
            lck.insert(n.into(), small(&locked.get(&self.names[n]).unwrap()));
        }
        let props = DealArray::load(&st.proposals, store).unwrap();
        let mut prop = vec![];
        let mut live: BTreeMap<Cid, Value> = BTreeMap::new();
        props
            .for_each(|id, p: &DealProposal| {
                let a = self.to_abstract(p);
                live.insert(proposal_cid(p), a.clone());
                prop.push(json!({"id": id, "d": a}));
                Ok(())
            })
            .unwrap();
        let states = DealMetaArray::load(&st.states, store).unwrap();
        let mut sts = vec![];
        states
            .for_each(|id, s: &DealState| {
                sts.push(json!({"id": id, "s": {"sector": s.sector_number, "sstart": s.sector_start_epoch,
                                "lu": s.last_updated_epoch, "slash": s.slash_epoch}}));
                Ok(())
            })
            .unwrap();
        let pending_set = st.load_pending_deals(store).unwrap();
        let mut pending = vec![];
        pending_set
            .for_each(|c: Cid| {
                let v = live.get(&c).cloned().or_else(|| self.reg.borrow().get(&c).cloned());
                pending.push(v.unwrap_or(json!({"c": "?", "p": "?", "start": 0, "end": 0, "price": 0,
                                                 "pcol": 0, "ccol": 0, "uid": -2})));
                Ok(())
            })
            .unwrap();
        pending.sort_by_key(|v| v.to_string());
        let ops = st.load_deal_ops(store).unwrap();
        let mut opsv: Vec<(ChainEpoch, Vec<u64>)> = vec![];
        let mut keys: Vec<ChainEpoch> = vec![];
        ops.for_each(|e: ChainEpoch, _| {
            keys.push(e);
            Ok(())
        })
        .unwrap();
        for e in keys {
            let mut v: Vec<u64> = vec![];
            ops.for_each_in(&e, |id| {
                v.push(id);
                Ok(())
            })
            .unwrap();
            v.sort();
            opsv.push((e, v));
        }
        opsv.sort();
        let ps = st.load_provider_sectors(store).unwrap();
        let mut psec = vec![];
        ps.for_each(|prov, root| {
            let sd = fil_actor_market::SectorDealsMap::load(
                store,
                root,
                fil_actor_market::SECTOR_DEALS_CONFIG,
                "sector deals",
            )?;
            let mut secs = vec![];
            sd.for_each(|sn, ids: &Vec<u64>| {
                if !ids.is_empty() {
                    let mut ids = ids.clone();
                    ids.sort();
                    secs.push(json!({"sector": sn, "ids": ids}));
                }
                Ok(())
            })?;
            secs.sort_by_key(|s| s["sector"].as_u64());
            if !secs.is_empty() {
                psec.push(json!({"p": self.name_of(&Address::new_id(prov)), "secs": secs}));
            }
            Ok(())
        })
        .unwrap();
        psec.sort_by_key(|p| p["p"].as_str().map(|s| s.to_string()));
        json!({
            "escrow": esc, "locked": lck,
            "tcc": small(&st.total_client_locked_collateral),
            "tpc": small(&st.total_provider_locked_collateral),
            "tfee": small(&st.total_client_storage_fee),
            "next": st.next_id, "prop": prop, "st": sts, "pending": pending,
            "ops": opsv.iter().map(|(e, ids)| json!({"e": e, "ids": ids})).collect::<Vec<_>>(),
            "lastCron": st.last_cron, "psec": psec,
            "bal": small(&self.v.balance(&STORAGE_MARKET_ACTOR_ADDR)),
            "burnt": small(&(self.v.balance(&BURNT_FUNDS_ACTOR_ADDR) - &self.burnt0)),
            "epoch": self.v.epoch(),
        })
    }

    fn piece_of(&self, id: u64) -> Cid {
        let st: State = self.v.state(&STORAGE_MARKET_ACTOR_ADDR).unwrap();
        let props = DealArray::load(&st.proposals, &self.v.store).unwrap();
        props.get(id).unwrap().map(|p| p.piece_cid).unwrap_or(make_piece_cid(b"unknown"))
    }

    fn due_epochs(&self, from: ChainEpoch, to: ChainEpoch) -> Vec<ChainEpoch> {
        let st: State = self.v.state(&STORAGE_MARKET_ACTOR_ADDR).unwrap();
        let ops = st.load_deal_ops(&self.v.store).unwrap();
        let mut v = vec![];
        ops.for_each(|e: ChainEpoch, _| {
            if e >= from && e <= to {
                v.push(e);
            }
            Ok(())
        })
        .unwrap();
        v.sort();
        v
    }

    fn cron(&self) -> Outcome {
        self.v.run(
            &SYSTEM_ACTOR_ADDR,
            &CRON_ACTOR_ADDR,
            &TokenAmount::from_atto(0),
            fil_actor_cron::Method::EpochTick as u64,
            None,
        )
    }

    pub fn step(&self, call: &Value) -> Value {
        let a = call["a"].as_str().unwrap();
        let zero = TokenAmount::from_atto(0);
        let mut ev = call.clone();
        ev["ev"] = json!(a);
        let mk = STORAGE_MARKET_ACTOR_ADDR;
        let o = match a {
            "Tick" => {
                // the end-of-epoch cron runs at EVERY epoch; epochs at which the market has nothing
                // scheduled only move last_cron, so they are skipped (the model states the same)
                let n = call["n"].as_i64().unwrap();
                let e0 = self.v.epoch();
                let last = e0 + n - 1;
                let mut cur = e0;
                let mut all_ok = true;
                let mut msg = String::new();
                loop {
                    let due = self.due_epochs(cur, last);
                    let k = match due.first() {
                        Some(k) => *k,
                        None => break,
                    };
                    self.v.set_epoch(k);
                    let o = self.cron();
                    if !o.ok() || o.inv.subs.iter().any(|s| !s.exit.is_success()) {
                        all_ok = false;
                        msg = format!("cron failed at {k}: {}", o.message);
                    }
                    cur = k + 1;
                    if cur > last {
                        break;
                    }
                }
                if cur <= last {
                    self.v.set_epoch(last);
                    let o = self.cron();
                    if !o.ok() || o.inv.subs.iter().any(|s| !s.exit.is_success()) {
                        all_ok = false;
                        msg = format!("cron failed at {last}: {}", o.message);
                    }
                }
                self.v.set_epoch(e0 + n);
                ev["ok"] = json!(true);
                ev["cronOK"] = json!(all_ok);
                ev["msg"] = json!(msg);
                ev["st"] = self.project();
                return ev;
            }
            "AddBalance" => self.v.run_p(
                &self.names[call["c"].as_str().unwrap()],
                &mk,
                &TokenAmount::from_atto(call["amt"].as_i64().unwrap()),
                Method::AddBalance as u64,
                &self.names[call["party"].as_str().unwrap()],
            ),
            "Withdraw" => self.v.run_p(
                &self.names[call["c"].as_str().unwrap()],
                &mk,
                &zero,
                Method::WithdrawBalance as u64,
                &WithdrawBalanceParams {
                    provider_or_client: self.names[call["party"].as_str().unwrap()],
                    amount: TokenAmount::from_atto(call["amt"].as_i64().unwrap()),
                },
            ),
            "Publish" => {
                // the contract client answers what the first of its entries says
                if let Some(b) = call["batch"].as_array().unwrap().iter().find(|b| b["d"]["c"] == json!("k")) {
                    let mut word = vec![0u8; 32];
                    word[31] = b["sigOK"].as_bool().unwrap() as u8;
                    let o = self.v.run_p(&self.names["x"], &self.names["k"], &zero,
                        fil_actor_evm::Method::InvokeContract as u64,
                        &fil_actor_evm::InvokeContractParams { input_data: word });
                    assert!(o.ok(), "set contract client's answer: {}", o.message);
                }
                let deals: Vec<ClientDealProposal> = call["batch"]
                    .as_array()
                    .unwrap()
                    .iter()
                    .map(|b| {
                        let p = self.to_real(&b["d"]);
                        self.reg.borrow_mut().insert(proposal_cid(&p), b["d"].clone());
                        let bytes = RawBytes::serialize(&p).unwrap();
                        let client_pk = self.pks.get(b["d"]["c"].as_str().unwrap()).cloned().unwrap_or(p.client);
                        let sig = if b["sigOK"].as_bool().unwrap() {
                            sign(&client_pk, bytes.bytes())
                        } else {
                            sign(&self.pks["x"], bytes.bytes())
                        };
                        ClientDealProposal {
                            proposal: p,
                            client_signature: Signature { sig_type: SignatureType::Secp256k1, bytes: sig },
                        }
                    })
                    .collect();
                self.v.run_p(
                    &self.names[call["c"].as_str().unwrap()],
                    &mk,
                    &zero,
                    Method::PublishStorageDeals as u64,
                    &PublishStorageDealsParams { deals },
                )
            }
            "Activate" => {
                let sectors: Vec<SectorDeals> = call["sectors"]
                    .as_array()
                    .unwrap()
                    .iter()
                    .map(|s| SectorDeals {
                        sector_number: s["sector"].as_u64().unwrap(),
                        sector_type: RegisteredSealProof::StackedDRG32GiBV1P1,
                        sector_expiry: s["expiry"].as_i64().unwrap(),
                        deal_ids: s["ids"].as_array().unwrap().iter().map(|x| x.as_u64().unwrap()).collect(),
                    })
                    .collect();
                self.v.run_p(
                    &self.names[call["m"].as_str().unwrap()],
                    &mk,
                    &zero,
                    Method::BatchActivateDeals as u64,
                    &BatchActivateDealsParams { sectors, compute_cid: false },
                )
            }
            "ContentChanged" => {
                let sectors: Vec<SectorChanges> = call["sectors"]
                    .as_array()
                    .unwrap()
                    .iter()
                    .map(|s| SectorChanges {
                        sector: s["sector"].as_u64().unwrap(),
                        minimum_commitment_epoch: s["commit"].as_i64().unwrap(),
                        added: s["pieces"]
                            .as_array()
                            .unwrap()
                            .iter()
                            .map(|pc| {
                                let id = pc["id"].as_u64().unwrap();
                                PieceChange {
                                    data: if pc["dataOK"].as_bool().unwrap() {
                                        self.piece_of(id)
                                    } else {
                                        make_piece_cid(b"some other data")
                                    },
                                    size: PaddedPieceSize(PIECE_SIZE),
                                    payload: RawBytes::serialize(id).unwrap(),
                                }
                            })
                            .collect(),
                    })
                    .collect();
                self.v.run_p(
                    &self.names[call["m"].as_str().unwrap()],
                    &mk,
                    &zero,
                    Method::SectorContentChangedExported as u64,
                    &SectorContentChangedParams { sectors },
                )
            }
            "Settle" => {
                let mut bf = BitField::new();
                for x in call["ids"].as_array().unwrap() {
                    bf.set(x.as_u64().unwrap());
                }
                self.v.run_p(
                    &self.names[call["c"].as_str().unwrap()],
                    &mk,
                    &zero,
                    Method::SettleDealPaymentsExported as u64,
                    &SettleDealPaymentsParams { deal_ids: bf },
                )
            }
            "Terminate" => {
                let mut bf = BitField::new();
                for x in call["secs"].as_array().unwrap() {
                    bf.set(x.as_u64().unwrap());
                }
                self.v.run_p(
                    &self.names[call["m"].as_str().unwrap()],
                    &mk,
                    &zero,
                    Method::OnMinerSectorsTerminate as u64,
                    &OnMinerSectorsTerminateParams { epoch: self.v.epoch(), sectors: bf },
                )
            }
            _ => panic!("unknown call {a}"),
        };
        ev["ok"] = json!(o.ok());
        ev["class"] = json!(o.class());
        ev["msg"] = json!(o.message);
        match a {
            "Withdraw" => {
                ev["paid"] = json!(0);
                ev["to"] = json!("none");
                if o.ok() {
                    let r: WithdrawBalanceReturn = o.de();
                    ev["paidClaimed"] = small(&r.amount_withdrawn);
                    // what really left the market and to whom, from the invocation tree
                    let mut tr = vec![];
                    o.inv.effective_transfers(&mut tr);
                    let mid = mk.id().unwrap();
                    let mut paid = TokenAmount::from_atto(0);
                    for (from, to, amt) in tr {
                        if from == mid {
                            paid += amt;
                            ev["to"] = json!(self.name_of(&Address::new_id(to)));
                        }
                    }
                    ev["paid"] = small(&paid);
                    if ev["to"] == json!("none") {
                        // nothing moved: the recipient is the nominal one
                        let party = call["party"].as_str().unwrap();
                        ev["to"] = json!(match party { "m1" => "o1", "m2" => "o2", p => p });
                    }
                }
            }
            "Publish" => {
                if o.ok() {
                    let r: PublishStorageDealsReturn = o.de();
                    let n = call["batch"].as_array().unwrap().len();
                    ev["ids"] = json!(r.ids);
                    ev["valid"] = json!((0..n as u64).map(|i| r.valid_deals.get(i)).collect::<Vec<_>>());
                } else {
                    ev["ids"] = json!([]);
                    ev["valid"] = json!([]);
                }
            }
            "Activate" => {
                if o.ok() {
                    let r: BatchActivateDealsResult = o.de();
                    let n = call["sectors"].as_array().unwrap().len();
                    let fails: Vec<u32> = r.activation_results.fail_codes.iter().map(|f| f.idx).collect();
                    ev["res"] = json!((0..n as u32).map(|i| !fails.contains(&i)).collect::<Vec<_>>());
                } else {
                    ev["res"] = json!([]);
                }
            }
            "ContentChanged" => {
                if o.ok() {
                    let r: SectorContentChangedReturn = o.de();
                    ev["res"] = json!(r
                        .sectors
                        .iter()
                        .map(|s| s.added.iter().map(|p| p.accepted).collect::<Vec<_>>())
                        .collect::<Vec<_>>());
                } else {
                    ev["res"] = json!([]);
                }
            }
            "Settle" => {
                if o.ok() {
                    let r: SettleDealPaymentsReturn = o.de();
                    let n = call["ids"].as_array().unwrap().len();
                    let fails: Vec<u32> = r.results.fail_codes.iter().map(|f| f.idx).collect();
                    let mut k = 0;
                    let mut res = vec![];
                    for i in 0..n as u32 {
                        if fails.contains(&i) {
                            res.push(json!({"ok": false, "pay": 0, "completed": false}));
                        } else {
                            let s = &r.settlements[k];
                            k += 1;
                            res.push(json!({"ok": true, "pay": small(&s.payment), "completed": s.completed}));
                        }
                    }
                    ev["res"] = json!(res);
                } else {
                    ev["res"] = json!([]);
                }
            }
            _ => {}
        }
        ev["st"] = self.project();
        ev
    }
}

const MIN_DUR: i64 = 180 * 2880;
const INTERVAL: i64 = 30 * 2880;

fn random_call(rng: &mut Rng, m: &Mkt) -> Value {
    let st = m.project();
    let epoch = st["epoch"].as_i64().unwrap();
    let next = st["next"].as_i64().unwrap();
    let ids: Vec<i64> = st["prop"].as_array().unwrap().iter().map(|p| p["id"].as_i64().unwrap()).collect();
    let pick_id = |rng: &mut Rng| -> i64 {
        if !ids.is_empty() && rng.chance(85) { *rng.pick(&ids) } else { rng.range(0, next + 1) }
    };
    // guided moves: activate what can be activated, by the right miner, into a long-lived sector
    let active: Vec<i64> = st["st"].as_array().unwrap().iter().map(|s| s["id"].as_i64().unwrap()).collect();
    let waiting: Vec<&Value> = st["prop"].as_array().unwrap().iter()
        .filter(|p| !active.contains(&p["id"].as_i64().unwrap()) && p["d"]["start"].as_i64().unwrap() >= epoch)
        .collect();
    if !waiting.is_empty() && rng.chance(22) {
        let w = *rng.pick(&waiting);
        let id = w["id"].as_i64().unwrap();
        let m = w["d"]["p"].as_str().unwrap();
        let exp = w["d"]["end"].as_i64().unwrap() + *rng.pick(&[0, 0, 1, 100000]);
        let mut sids = vec![id];
        if waiting.len() > 1 && rng.chance(40) {
            let w2 = *rng.pick(&waiting);
            if w2["d"]["p"] == w["d"]["p"] && w2["id"] != w["id"] && w2["d"]["end"].as_i64().unwrap() <= exp {
                sids.push(w2["id"].as_i64().unwrap());
            }
        }
        return if rng.chance(60) {
            json!({"a": "Activate", "m": m, "sectors": [{"sector": rng.range(1, 3), "expiry": exp, "ids": sids}]})
        } else {
            json!({"a": "ContentChanged", "m": m, "sectors": [{"sector": rng.range(1, 3), "commit": exp,
                   "pieces": sids.iter().map(|i| json!({"id": i, "dataOK": true})).collect::<Vec<_>>()}]})
        };
    }
    // a sector holding an expired-but-unsettled deal next to a running one: terminate it now and then
    {
        let stv = st["st"].as_array().unwrap();
        for s1 in stv {
            let d1 = st["prop"].as_array().unwrap().iter().find(|p| p["id"] == s1["id"]);
            if let Some(d1) = d1 {
                if d1["d"]["end"].as_i64().unwrap() <= epoch && rng.chance(35) {
                    let sector = s1["s"]["sector"].as_i64().unwrap();
                    // ... together with the sectors of the same provider's running deals (so that one call covers an
                    // expired deal with a lower id and a live one with a higher id)
                    let mut secs = vec![sector];
                    for s2 in stv {
                        if let Some(d2) = st["prop"].as_array().unwrap().iter().find(|p| p["id"] == s2["id"]) {
                            let sec2 = s2["s"]["sector"].as_i64().unwrap();
                            if d2["d"]["p"] == d1["d"]["p"] && d2["d"]["end"].as_i64().unwrap() > epoch && !secs.contains(&sec2) && rng.chance(70) {
                                secs.push(sec2);
                            }
                        }
                    }
                    return json!({"a": "Terminate", "m": d1["d"]["p"], "secs": secs});
                }
            }
        }
    }
    // published deals whose start epoch has passed without activation ("timed out"), not yet reached by the cron:
    // settle several of them in ONE call now and then
    {
        let late: Vec<i64> = st["prop"].as_array().unwrap().iter()
            .filter(|p| !active.contains(&p["id"].as_i64().unwrap()) && p["d"]["start"].as_i64().unwrap() < epoch)
            .map(|p| p["id"].as_i64().unwrap()).collect();
        if late.len() >= 2 && rng.chance(45) {
            let mut ids = late.clone();
            if rng.chance(30) && !active.is_empty() {
                ids.push(*rng.pick(&active));
            }
            ids.sort();
            ids.dedup();
            return json!({"a": "Settle", "c": *rng.pick(&["x", "c1", "o1"]), "ids": ids});
        }
    }
    // activation lists with a non-adjacent repeat
    if waiting.len() >= 2 && rng.chance(12) {
        // two deals of the same provider that can both still be activated, if there are such
        let ok = |w: &Value| w["d"]["start"].as_i64().unwrap() >= epoch;
        let mut pair = (0usize, 1usize);
        'find: for i in 0..waiting.len() {
            for j in 0..waiting.len() {
                if i != j && waiting[i]["d"]["p"] == waiting[j]["d"]["p"] && ok(&waiting[i]) && ok(&waiting[j]) {
                    pair = (i, j);
                    break 'find;
                }
            }
        }
        let a = waiting[pair.0]["id"].as_i64().unwrap();
        let b = waiting[pair.1]["id"].as_i64().unwrap();
        let m = waiting[pair.0]["d"]["p"].as_str().unwrap();
        let exp = waiting[pair.0]["d"]["end"].as_i64().unwrap().max(waiting[pair.1]["d"]["end"].as_i64().unwrap());
        return json!({"a": "Activate", "m": m, "sectors": [{"sector": rng.range(1, 3), "expiry": exp, "ids": [a, b, a]}]});
    }
    if !active.is_empty() && rng.chance(20) {
        let mut sids = vec![*rng.pick(&active)];
        if rng.chance(30) { sids.push(*rng.pick(&active)); }
        sids.sort();
        sids.dedup();
        return json!({"a": "Settle", "c": *rng.pick(&["x", "c1", "o1"]), "ids": sids});
    }
    match rng.below(100) {
        0..=9 => json!({"a": "AddBalance", "c": "x", "party": *rng.pick(&["c1", "c2", "m1", "m2", "x", "k"]),
                        "amt": *rng.pick(&[0, 1, 7, MIN_DUR, 2 * MIN_DUR + 50, 4 * MIN_DUR])}),
        10..=17 => json!({"a": "Withdraw", "c": *rng.pick(&["c1", "c2", "o1", "w1", "o2", "x"]),
                          "party": *rng.pick(&["c1", "c2", "m1", "m2"]),
                          "amt": *rng.pick(&[-1, 0, 1, 5, MIN_DUR, 100 * MIN_DUR])}),
        18..=39 => {
            let n = *rng.pick(&[1, 1, 1, 2, 2, 3]);
            let mut batch = vec![];
            let prov = *rng.pick(&["m1", "m1", "m2"]);
            for _ in 0..n {
                let start = epoch + *rng.pick(&[0, 0, 1, 5, 100, INTERVAL, -1]);
                let dur = MIN_DUR + *rng.pick(&[0, 0, 0, 1, 77, INTERVAL, -1]);
                let mut d = json!({"c": *rng.pick(&["c1", "c1", "c2", "c1", "c1", "c2", "k"]), "p": prov, "start": start.max(0),
                    "end": start.max(0) + dur, "price": *rng.pick(&[0, 1, 1, 2, 3]),
                    "pcol": *rng.pick(&[0, 3, 9, -1]), "ccol": *rng.pick(&[0, 5, 11]),
                    "uid": rng.range(1, 3)});
                if rng.chance(10) {
                    d["p"] = json!(*rng.pick(&["m1", "m2", "x"]));
                }
                // re-submit something already published now and then
                if rng.chance(20) && !st["prop"].as_array().unwrap().is_empty() {
                    d = rng.pick(st["prop"].as_array().unwrap())["d"].clone();
                }
                let ok = if d["c"] == json!("k") { rng.chance(55) } else { rng.chance(92) };
                batch.push(json!({"d": d, "sigOK": ok}));
            }
            // the contract client gives one answer per message
            if let Some(a) = batch.iter().find(|b| b["d"]["c"] == json!("k")).map(|b| b["sigOK"].clone()) {
                for b in batch.iter_mut() {
                    if b["d"]["c"] == json!("k") {
                        b["sigOK"] = a.clone();
                    }
                }
            }
            if rng.chance(15) && batch.len() > 1 {
                let b0 = batch[0].clone();
                batch[1] = b0;
            }
            let c = match (prov, rng.below(10)) {
                (_, 0) => "x",
                ("m1", 1) => "w2",
                ("m1", k) if k % 2 == 0 => "w1",
                ("m1", _) => "o1",
                (_, k) if k % 2 == 0 => "w2",
                _ => "o2",
            };
            json!({"a": "Publish", "c": c, "batch": batch})
        }
        40..=54 => {
            let ns = *rng.pick(&[1, 1, 2]);
            let mut sectors = vec![];
            for _ in 0..ns {
                let k = *rng.pick(&[1, 1, 2, 3]);
                let sids: Vec<i64> = (0..k).map(|_| pick_id(rng)).collect();
                let exp = *rng.pick(&[epoch + 10 * MIN_DUR, epoch + MIN_DUR, epoch + MIN_DUR + 78, epoch + 5]);
                sectors.push(json!({"sector": rng.range(1, 3), "expiry": exp, "ids": sids}));
            }
            json!({"a": "Activate", "m": *rng.pick(&["m1", "m1", "m2"]), "sectors": sectors})
        }
        55..=62 => {
            let ns = *rng.pick(&[1, 1, 2]);
            let mut sectors = vec![];
            for _ in 0..ns {
                let k = *rng.pick(&[1, 1, 2, 3]);
                let pcs: Vec<Value> = (0..k).map(|_| json!({"id": pick_id(rng), "dataOK": rng.chance(90)})).collect();
                let exp = *rng.pick(&[epoch + 10 * MIN_DUR, epoch + MIN_DUR, epoch + MIN_DUR + 78]);
                sectors.push(json!({"sector": rng.range(1, 3), "commit": exp, "pieces": pcs}));
            }
            json!({"a": "ContentChanged", "m": *rng.pick(&["m1", "m1", "m2"]), "sectors": sectors})
        }
        63..=77 => {
            let k = *rng.pick(&[1, 1, 2, 3]);
            let mut sids: Vec<i64> = (0..k).map(|_| pick_id(rng)).collect();
            sids.sort();
            sids.dedup();
            json!({"a": "Settle", "c": *rng.pick(&["x", "c1", "o1"]), "ids": sids})
        }
        78..=83 => {
            let secs = rng.pick(&[vec![1], vec![2], vec![3], vec![1, 2], vec![1, 2, 3]]).clone();
            json!({"a": "Terminate", "m": *rng.pick(&["m1", "m1", "m2"]), "secs": secs})
        }
        _ => {
            // jump to somewhere interesting on a deal's timeline or the cron schedule
            let mut targets = vec![epoch + 1, epoch + 2, epoch + INTERVAL];
            for p in st["prop"].as_array().unwrap() {
                let s = p["d"]["start"].as_i64().unwrap();
                let e = p["d"]["end"].as_i64().unwrap();
                for t in [s - 1, s, s + 1, s + 1000, e - 1, e, e + 1, e + INTERVAL] {
                    targets.push(t);
                }
            }
            for o in st["ops"].as_array().unwrap() {
                let e = o["e"].as_i64().unwrap();
                targets.push(e);
                targets.push(e + 1);
            }
            // with two or more published-but-unactivated deals: just past the latest of their start epochs (both have
            // then timed out, usually before the cron reaches either)
            if waiting.len() >= 2 {
                let latest = waiting.iter().map(|w| w["d"]["start"].as_i64().unwrap()).max().unwrap();
                for _ in 0..4 {
                    targets.push(latest + 1);
                }
            }
            let fut: Vec<i64> = targets.into_iter().filter(|t| *t > epoch).collect();
            let t = *rng.pick(&fut);
            json!({"a": "Tick", "n": t - epoch})
        }
    }
}

pub fn main(args: &[String]) {
    let out = arg(args, "--out").expect("--out");
    let seed = arg_u64(args, "--seed", 1);
    let mut t = TraceOut::create(out);
    let mut sched_out = arg(args, "--schedules").map(TraceOut::create);
    let policy = Policy::default();
    let mut first = true;
    let mut begin = |t: &mut TraceOut, m: &Mkt| {
        let ev = if first { "Init" } else { "Reset" };
        first = false;
        t.line(&json!({"ev": ev, "const": {"MinDur": MIN_DUR, "MaxDur": 1278 * 2880,
                       "Interval": policy.deal_updates_interval}, "st": m.project()}));
        t.traces += 1;
    };
    if let Some(b) = arg(args, "--behaviours") {
        for (i, (_, beh)) in read_schedules(b, 1).iter().enumerate() {
            // a recorded random schedule starts with the parameters of its world
            let id_base = beh.first().filter(|c| c["a"] == json!("World")).and_then(|c| c["idBase"].as_u64()).unwrap_or(0);
            let m = Mkt::new_with_id_base(seed + i as u64, id_base);
            begin(&mut t, &m);
            for call in beh {
                if call["a"] == json!("World") {
                    continue;
                }
                t.line(&m.step(call));
            }
            if let Some(s) = sched_out.as_mut() {
                s.line(&json!({"scale": 1, "calls": beh}));
            }
        }
    }
    let n = arg_u64(args, "--random", 0);
    let len = arg_u64(args, "--len", 40);
    let mut rng = Rng::new(seed);
    for i in 0..n {
        // every fifth trace opens with the "late batch" recipe (below), which needs deal ids whose cron slot is not
        // the start epoch itself
        let recipe = i % 5 == 2;
        let id_base = if rng.chance(60) || recipe { 40_000 + rng.range(0, 5000) as u64 } else { 0 };
        let m = Mkt::new_with_id_base(seed.wrapping_mul(1000) + i, id_base);
        begin(&mut t, &m);
        let mut calls = vec![json!({"a": "World", "idBase": id_base})];
        // start funded, so that publications have a chance
        for (party, amt) in [("c1", 3 * MIN_DUR + 40), ("m1", 50), ("m2", 20), ("k", 2 * MIN_DUR + 11)] {
            let call = json!({"a": "AddBalance", "c": "x", "party": party, "amt": amt});
            t.line(&m.step(&call));
            calls.push(call);
        }
        if recipe {
            // several deals published together, none activated; just after the last start epoch (before the cron
            // reaches them) ONE SettleDealPayments call names them all
            let epoch = m.project()["epoch"].as_i64().unwrap();
            let k = 2 + rng.below(2) as i64;
            let batch: Vec<Value> = (0..k).map(|j| {
                let start = epoch + 3 + rng.range(0, 2);
                json!({"d": {"c": "c1", "p": "m1", "start": start, "end": start + MIN_DUR + j, "price": *rng.pick(&[0, 1]),
                             "pcol": *rng.pick(&[3, 9, 5]), "ccol": *rng.pick(&[0, 5]), "uid": j + 1}, "sigOK": true})
            }).collect();
            let latest = batch.iter().map(|b| b["d"]["start"].as_i64().unwrap()).max().unwrap();
            let mut opening = vec![json!({"a": "Publish", "c": "w1", "batch": batch})];
            opening.push(json!({"a": "Tick", "n": latest + 1 - epoch}));
            for call in opening {
                t.line(&m.step(&call));
                calls.push(call);
            }
            let st = m.project();
            let ids: Vec<i64> = st["prop"].as_array().unwrap().iter().map(|p| p["id"].as_i64().unwrap()).collect();
            if !ids.is_empty() {
                let call = json!({"a": "Settle", "c": "x", "ids": ids});
                t.line(&m.step(&call));
                calls.push(call);
            }
        }
        for _ in 0..len {
            let call = random_call(&mut rng, &m);
            t.line(&m.step(&call));
            calls.push(call);
        }
        if let Some(s) = sched_out.as_mut() {
            s.line(&json!({"scale": 1, "calls": calls}));
        }
    }
    t.flush();
    if let Some(s) = sched_out.as_mut() {
        s.flush();
    }
    println!("{}", json!({"driver": "market", "traces": t.traces, "events": t.events}));
}
