//! Driver + projection for the multisig actor (spec/Multisig.tla, property C12).
use crate::util::*;
use crate::vm::*;
use fil_actor_multisig::{
    AddSignerParams, ApproveReturn, ChangeNumApprovalsThresholdParams, ConstructorParams,
    LockBalanceParams, Method, PendingTxnMap, ProposeParams, ProposeReturn, RemoveSignerParams,
    State, SwapSignerParams, Transaction, TxnID, TxnIDParams, compute_proposal_hash,
    PENDING_TXN_CONFIG,
};
use fil_actors_runtime::INIT_ACTOR_ADDR;
use fil_actors_runtime::runtime::Policy;
use fil_actors_runtime::test_utils::MULTISIG_ACTOR_CODE_ID;
use fvm_ipld_encoding::RawBytes;
use fvm_ipld_encoding::ipld_block::IpldBlock;
use fvm_shared::address::Address;
use fvm_shared::econ::TokenAmount;
use fvm_shared::{METHOD_SEND, MethodNum};
use serde_json::{Value, json};
use std::cell::Cell;
use std::collections::BTreeMap;
use vm_api::VM;

pub struct Wallet {
    pub v: VVM,
    pub names: BTreeMap<String, Address>, // a, b, c, x -> id address
    pub pks: BTreeMap<String, Address>,
    pub w: Address,
    ctr: Cell<u64>,
}

const FAIL_METHOD: MethodNum = 3; // not a method of an account actor

impl Wallet {
    pub fn new(seed: u64, create: &Value) -> Wallet {
        let v = VVM::genesis(Policy::default());
        let accts = v.create_accounts(4, seed, &TokenAmount::from_atto(1_000_000));
        let mut names = BTreeMap::new();
        let mut pks = BTreeMap::new();
        for (n, a) in ["a", "b", "c", "x"].iter().zip(accts.iter()) {
            names.insert(n.to_string(), *a);
            let st: fil_actor_account::State = v.state(a).unwrap();
            pks.insert(n.to_string(), st.address);
        }
        let signers: Vec<Address> = create["signers"]
            .as_array()
            .unwrap()
            .iter()
            .map(|s| names[s.as_str().unwrap()])
            .collect();
        let lock = &create["lock"];
        let ctor = ConstructorParams {
            signers,
            num_approvals_threshold: create["th"].as_u64().unwrap(),
            unlock_duration: lock["dur"].as_i64().unwrap(),
            start_epoch: lock["start"].as_i64().unwrap(),
        };
        let o = v.run_p(
            &names["a"],
            &INIT_ACTOR_ADDR,
            &TokenAmount::from_atto(create["bal"].as_i64().unwrap()),
            fil_actor_init::Method::Exec as u64,
            &fil_actor_init::ExecParams {
                code_cid: *MULTISIG_ACTOR_CODE_ID,
                constructor_params: RawBytes::serialize(&ctor).unwrap(),
            },
        );
        assert!(o.ok(), "multisig create: {}", o.message);
        let ret: fil_actor_init::ExecReturn = o.de();
        Wallet { v, names, pks, w: ret.id_address, ctr: Cell::new(seed) }
    }

    fn name_of(&self, a: &Address) -> String {
        if *a == self.w {
            return "w".into();
        }
        let id = self.v.resolve_id_address(a).unwrap_or(*a);
        for (n, x) in &self.names {
            if *x == id {
                return n.clone();
            }
        }
        format!("{}", id)
    }

    /// address of a named party as it is written into message params: ID form or (for accounts,
    /// every other use) the public-key form -- the actor must resolve both.
    fn addr_param(&self, n: &str) -> Address {
        if n == "w" {
            return self.w;
        }
        let c = self.ctr.get();
        self.ctr.set(c.wrapping_mul(6364136223846793005).wrapping_add(1442695040888963407));
        if (c >> 33) & 1 == 1 { self.pks[n] } else { self.names[n] }
    }

    /// (to, method, params) of the message that payload `p` stands for
    fn encode(&self, p: &Value) -> (Address, MethodNum, RawBytes) {
        let k = p["k"].as_str().unwrap();
        let ser = |x: RawBytes| x;
        match k {
            "pay" => (self.names[p["to"].as_str().unwrap()], METHOD_SEND, RawBytes::default()),
            "failcall" => (self.names[p["to"].as_str().unwrap()], FAIL_METHOD, RawBytes::default()),
            "add" => (
                self.w,
                Method::AddSigner as u64,
                ser(RawBytes::serialize(AddSignerParams {
                    signer: self.addr_param(p["s"].as_str().unwrap()),
                    increase: p["inc"].as_bool().unwrap(),
                })
                .unwrap()),
            ),
            "remove" => (
                self.w,
                Method::RemoveSigner as u64,
                RawBytes::serialize(RemoveSignerParams {
                    signer: self.addr_param(p["s"].as_str().unwrap()),
                    decrease: p["dec"].as_bool().unwrap(),
                })
                .unwrap(),
            ),
            "swap" => (
                self.w,
                Method::SwapSigner as u64,
                RawBytes::serialize(SwapSignerParams {
                    from: self.addr_param(p["from"].as_str().unwrap()),
                    to: self.addr_param(p["to"].as_str().unwrap()),
                })
                .unwrap(),
            ),
            "th" => (
                self.w,
                Method::ChangeNumApprovalsThreshold as u64,
                RawBytes::serialize(ChangeNumApprovalsThresholdParams {
                    new_threshold: p["n"].as_u64().unwrap(),
                })
                .unwrap(),
            ),
            "lock" => (
                self.w,
                Method::LockBalance as u64,
                RawBytes::serialize(LockBalanceParams {
                    start_epoch: p["start"].as_i64().unwrap(),
                    unlock_duration: p["dur"].as_i64().unwrap(),
                    amount: TokenAmount::from_atto(p["amt"].as_i64().unwrap()),
                })
                .unwrap(),
            ),
            "propose" => {
                let tx = &p["tx"];
                let (to, method, params) = self.encode(&tx["p"]);
                (
                    self.w,
                    Method::Propose as u64,
                    RawBytes::serialize(ProposeParams {
                        to,
                        value: TokenAmount::from_atto(tx["val"].as_i64().unwrap()),
                        method,
                        params,
                    })
                    .unwrap(),
                )
            }
            "approve" | "cancel" => {
                let id = TxnID(p["id"].as_i64().unwrap());
                let hash = if !p["hashOK"].as_bool().unwrap() {
                    vec![1u8; 32]
                } else if p["id"].as_i64().unwrap() % 2 == 0 {
                    vec![]
                } else {
                    self.real_hash(id).unwrap_or_default()
                };
                (
                    self.w,
                    if k == "approve" { Method::Approve as u64 } else { Method::Cancel as u64 },
                    RawBytes::serialize(TxnIDParams { id, proposal_hash: hash }).unwrap(),
                )
            }
            _ => panic!("unknown payload kind {k}"),
        }
    }

    fn real_hash(&self, id: TxnID) -> Option<Vec<u8>> {
        let st: State = self.v.state(&self.w)?;
        let ptx =
            PendingTxnMap::load(&self.v.store, &st.pending_txs, PENDING_TXN_CONFIG, "p").ok()?;
        let tx = ptx.get(&id).ok()??;
        compute_proposal_hash(tx, &self.v.primitives).ok().map(|h| h.to_vec())
    }

    /// inverse of `encode` for what is stored in the pending map
    fn decode(&self, to: &Address, method: MethodNum, params: &RawBytes) -> Value {
        let to_id = self.v.resolve_id_address(to).unwrap_or(*to);
        if to_id != self.w {
            let n = self.name_of(&to_id);
            return if method == METHOD_SEND {
                json!({"k": "pay", "to": n})
            } else {
                json!({"k": "failcall", "to": n})
            };
        }
        let nm = |a: &Address| self.name_of(a);
        match method {
            m if m == Method::AddSigner as u64 => {
                let p: AddSignerParams = params.deserialize().unwrap();
                json!({"k": "add", "s": nm(&p.signer), "inc": p.increase})
            }
            m if m == Method::RemoveSigner as u64 => {
                let p: RemoveSignerParams = params.deserialize().unwrap();
                json!({"k": "remove", "s": nm(&p.signer), "dec": p.decrease})
            }
            m if m == Method::SwapSigner as u64 => {
                let p: SwapSignerParams = params.deserialize().unwrap();
                json!({"k": "swap", "from": nm(&p.from), "to": nm(&p.to)})
            }
            m if m == Method::ChangeNumApprovalsThreshold as u64 => {
                let p: ChangeNumApprovalsThresholdParams = params.deserialize().unwrap();
                json!({"k": "th", "n": p.new_threshold})
            }
            m if m == Method::LockBalance as u64 => {
                let p: LockBalanceParams = params.deserialize().unwrap();
                json!({"k": "lock", "start": p.start_epoch, "dur": p.unlock_duration, "amt": small(&p.amount)})
            }
            m if m == Method::Propose as u64 => {
                let p: ProposeParams = params.deserialize().unwrap();
                json!({"k": "propose", "tx": {"val": small(&p.value), "p": self.decode(&p.to, p.method, &p.params)}})
            }
            m if m == Method::Approve as u64 || m == Method::Cancel as u64 => {
                let p: TxnIDParams = params.deserialize().unwrap();
                let ok = p.proposal_hash.is_empty()
                    || Some(p.proposal_hash.clone()) == self.real_hash(p.id)
                    || p.proposal_hash != vec![1u8; 32];
                json!({"k": if m == Method::Approve as u64 {"approve"} else {"cancel"}, "id": p.id.0, "hashOK": ok})
            }
            _ => json!({"k": "other", "method": method}),
        }
    }

    pub fn project(&self) -> Value {
        let st: State = self.v.state(&self.w).unwrap();
        let mut signers: Vec<String> = st.signers.iter().map(|a| self.name_of(a)).collect();
        signers.sort();
        let ptx =
            PendingTxnMap::load(&self.v.store, &st.pending_txs, PENDING_TXN_CONFIG, "p").unwrap();
        let mut pend = vec![];
        ptx.for_each(|id: TxnID, tx: &Transaction| {
            pend.push((
                id.0,
                json!({"id": id.0, "val": small(&tx.value), "p": self.decode(&tx.to, tx.method, &tx.params),
                   "appr": tx.approved.iter().map(|a| self.name_of(a)).collect::<Vec<_>>()}),
            ));
            Ok(())
        })
        .unwrap();
        pend.sort_by_key(|x| x.0);
        json!({"signers": signers, "th": st.num_approvals_threshold, "next": st.next_tx_id.0,
               "pend": pend.into_iter().map(|x| x.1).collect::<Vec<_>>(),
               "lock": {"init": small(&st.initial_balance), "start": st.start_epoch, "dur": st.unlock_duration},
               "bal": small(&self.v.balance(&self.w)), "epoch": self.v.epoch()})
    }

    /// transaction ids whose inner send happened (effectively) during the message
    fn executed(&self, inv: &Inv, out: &mut Vec<i64>) {
        if !inv.exit.is_success() {
            return;
        }
        if inv.to == self.w
            && (inv.method == Method::Propose as u64 || inv.method == Method::Approve as u64)
        {
            // direct children are the sends made by this invocation = executed transactions
            let id = if inv.method == Method::Propose as u64 {
                inv.ret.as_ref().and_then(|r| r.deserialize::<ProposeReturn>().ok()).map(|r| r.txn_id.0)
            } else {
                inv.params.as_ref().and_then(|r| r.deserialize::<TxnIDParams>().ok()).map(|r| r.id.0)
            };
            let applied = if inv.method == Method::Propose as u64 {
                inv.ret.as_ref().and_then(|r| r.deserialize::<ProposeReturn>().ok()).map(|r| r.applied)
            } else {
                inv.ret.as_ref().and_then(|r| r.deserialize::<ApproveReturn>().ok()).map(|r| r.applied)
            };
            let n_sends = inv.subs.len();
            for _ in 0..n_sends {
                out.push(id.unwrap_or(-1));
            }
            if n_sends == 0 && applied == Some(true) {
                out.push(id.unwrap_or(-1)); // claims to have applied without a visible send
            }
        }
        for s in &inv.subs {
            self.executed(s, out);
        }
    }

    pub fn step(&self, call: &Value) -> Value {
        let a = call["a"].as_str().unwrap();
        match a {
            "Tick" => {
                let n = call["n"].as_i64().unwrap();
                self.v.set_epoch(self.v.epoch() + n);
                json!({"ev": "Tick", "ok": true, "n": n, "ex": [], "st": self.project()})
            }
            "Deposit" => {
                let amt = call["amt"].as_i64().unwrap();
                let o = self.v.run(&self.names["x"], &self.w, &TokenAmount::from_atto(amt), METHOD_SEND, None);
                json!({"ev": "Deposit", "ok": o.ok(), "amt": amt, "ex": [], "st": self.project()})
            }
            "Msg" => {
                let c = call["c"].as_str().unwrap();
                let p = &call["p"];
                let (to, method, params) = self.encode(p);
                assert_eq!(to, self.w);
                let o = self.v.run(
                    &self.names[c],
                    &self.w,
                    &TokenAmount::from_atto(0),
                    method,
                    Some(IpldBlock { codec: fvm_ipld_encoding::CBOR, data: params.to_vec() }),
                );
                let mut ex = vec![];
                if o.ok() {
                    self.executed(&o.inv, &mut ex);
                }
                json!({"ev": "Msg", "ok": o.ok(), "class": o.class(), "c": c, "p": p, "ex": ex,
                       "msg": o.message, "st": self.project()})
            }
            _ => panic!("unknown call {a}"),
        }
    }
}

fn random_payload(rng: &mut Rng, st: &Value, depth: u32) -> Value {
    let addrs = ["a", "b", "c", "w"];
    let next = st["next"].as_i64().unwrap();
    let id = if next > 0 && rng.chance(85) { rng.range((next - 3).max(0), next - 1) } else { rng.range(0, next + 1) };
    match rng.below(if depth == 0 { 13 } else { 10 }) {
        0 | 1 => json!({"k": "pay", "to": "x"}),
        2 => json!({"k": "failcall", "to": "x"}),
        3 => json!({"k": "add", "s": *rng.pick(&addrs), "inc": rng.chance(40)}),
        4 => json!({"k": "remove", "s": *rng.pick(&addrs), "dec": rng.chance(50)}),
        5 => json!({"k": "swap", "from": *rng.pick(&addrs), "to": *rng.pick(&addrs)}),
        6 => json!({"k": "th", "n": rng.range(0, 4)}),
        7 => json!({"k": "lock", "start": rng.range(0, 6), "dur": rng.range(0, 8), "amt": rng.range(0, 6)}),
        8 => json!({"k": "approve", "id": id, "hashOK": true}),
        9 => json!({"k": "cancel", "id": id, "hashOK": true}),
        _ => {
            let inner = random_payload(rng, st, depth + 1);
            let val = if matches!(inner["k"].as_str().unwrap(), "pay" | "failcall") { rng.range(0, 4) } else { 0 };
            json!({"k": "propose", "tx": {"val": val, "p": inner}})
        }
    }
}

fn random_call(rng: &mut Rng, w: &Wallet) -> Value {
    let st = w.project();
    let next = st["next"].as_i64().unwrap();
    let callers = ["a", "b", "c", "x"];
    let k = rng.below(100);
    if k < 35 {
        let inner = random_payload(rng, &st, 0);
        let val = if matches!(inner["k"].as_str().unwrap(), "pay" | "failcall") {
            rng.range(-1, 5)
        } else if rng.chance(10) {
            1
        } else {
            0
        };
        json!({"a": "Msg", "c": *rng.pick(&callers), "p": {"k": "propose", "tx": {"val": val, "p": inner}}})
    } else if k < 65 {
        let id = if next > 0 && rng.chance(90) { rng.range((next - 4).max(0), next - 1) } else { next };
        json!({"a": "Msg", "c": *rng.pick(&callers), "p": {"k": "approve", "id": id, "hashOK": rng.chance(92)}})
    } else if k < 75 {
        let id = if next > 0 && rng.chance(90) { rng.range((next - 4).max(0), next - 1) } else { next };
        json!({"a": "Msg", "c": *rng.pick(&callers), "p": {"k": "cancel", "id": id, "hashOK": rng.chance(92)}})
    } else if k < 80 {
        // direct admin call by a user: must be refused
        let mut p = random_payload(rng, &st, 1);
        while matches!(p["k"].as_str().unwrap(), "pay" | "failcall" | "approve" | "cancel" | "propose") {
            p = random_payload(rng, &st, 1);
        }
        json!({"a": "Msg", "c": *rng.pick(&callers), "p": p})
    } else if k < 90 {
        json!({"a": "Deposit", "amt": rng.range(0, 5)})
    } else {
        json!({"a": "Tick", "n": rng.range(1, 3)})
    }
}

fn random_create(rng: &mut Rng) -> Value {
    let all = ["a", "b", "c"];
    let mut signers: Vec<&str> = all.iter().filter(|_| rng.chance(65)).cloned().collect();
    if signers.is_empty() {
        signers.push("a");
    }
    let th = rng.range(1, signers.len() as i64);
    if rng.chance(40) {
        let init = rng.range(1, 8);
        json!({"a": "Create", "signers": signers, "th": th, "bal": init,
               "lock": {"init": init, "start": rng.range(0, 3), "dur": rng.range(1, 8)}})
    } else {
        json!({"a": "Create", "signers": signers, "th": th, "bal": 0, "lock": {"init": 0, "start": 0, "dur": 0}})
    }
}

pub fn main(args: &[String]) {
    let out = arg(args, "--out").expect("--out");
    let seed = arg_u64(args, "--seed", 1);
    let mut t = TraceOut::create(out);
    let mut sched_out = arg(args, "--schedules").map(TraceOut::create);
    let mut first = true;
    let mut begin = |t: &mut TraceOut, w: &Wallet| {
        let ev = if first { "Init" } else { "Reset" };
        first = false;
        t.line(&json!({"ev": ev, "const": {"MaxSigners": fil_actor_multisig::SIGNERS_MAX}, "st": w.project()}));
        t.traces += 1;
    };
    if let Some(b) = arg(args, "--behaviours") {
        for (i, (_, beh)) in read_schedules(b, 1).iter().enumerate() {
            let w = Wallet::new(seed + i as u64, &beh[0]);
            begin(&mut t, &w);
            for call in &beh[1..] {
                t.line(&w.step(call));
            }
            if let Some(s) = sched_out.as_mut() {
                s.line(&json!({"scale": 1, "calls": beh}));
            }
        }
    }
    let n = arg_u64(args, "--random", 0);
    let len = arg_u64(args, "--len", 30);
    let mut rng = Rng::new(seed);
    for i in 0..n {
        let create = random_create(&mut rng);
        let w = Wallet::new(seed.wrapping_mul(1000) + i, &create);
        begin(&mut t, &w);
        let mut calls = vec![create];
        for _ in 0..len {
            let call = random_call(&mut rng, &w);
            t.line(&w.step(&call));
            calls.push(call);
        }
        if let Some(s) = sched_out.as_mut() {
            s.line(&json!({"scale": 1, "calls": calls}));
        }
    }
    t.flush();
    if let Some(s) = sched_out.as_mut() {
        s.flush();
    }
    println!("{}", json!({"driver": "multisig", "traces": t.traces, "events": t.events}));
}
