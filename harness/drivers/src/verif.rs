//! Driver + projection for the verified registry and the DataCap token (spec/VerifReg.tla; C09 and
//! the registry clauses of C10).  Real datacap + verifreg + multisig (root) + miner actors.
use crate::minerctl::{create_bls_accounts, create_miner};
use crate::util::*;
use crate::vm::*;
use cid::Cid;
use fil_actor_verifreg::{
    AddrPairKey, AllocationClaim, AllocationRequest, AllocationRequests, AllocationsResponse,
    ClaimAllocationsParams, ClaimAllocationsReturn, ClaimExtensionRequest, ClaimTerm,
    ExtendClaimTermsParams, Method, RemoveDataCapParams, RemoveDataCapProposal,
    RemoveDataCapProposalID, RemoveDataCapRequest, RemoveDataCapReturn,
    RemoveExpiredAllocationsParams, RemoveExpiredAllocationsReturn, RemoveExpiredClaimsParams,
    RemoveExpiredClaimsReturn, RemoveVerifierParams, SectorAllocationClaims, State, VerifierParams,
    SIGNATURE_DOMAIN_SEPARATION_REMOVE_DATA_CAP,
};
use fil_actor_verifreg::state::{DATACAP_MAP_CONFIG, DataCapMap, REMOVE_DATACAP_PROPOSALS_CONFIG, RemoveDataCapProposalMap};
use fil_actors_runtime::runtime::Policy;
use fil_actors_runtime::test_utils::make_piece_cid;
use fil_actors_runtime::{
    BatchReturn, DATACAP_TOKEN_ACTOR_ADDR, VERIFIED_REGISTRY_ACTOR_ADDR,
};
use frc46_token::token::types::{TransferParams, TransferReturn};
use fvm_ipld_encoding::RawBytes;
use fvm_ipld_encoding::ipld_block::IpldBlock;
use fvm_shared::address::Address;
use fvm_shared::bigint::BigInt;
use fvm_shared::crypto::signature::{Signature, SignatureType};
use fvm_shared::econ::TokenAmount;
use fvm_shared::piece::PaddedPieceSize;
use fvm_shared::sector::{RegisteredPoStProof, StoragePower};
use num_traits::{ToPrimitive, Zero};
use serde_json::{Value, json};
use std::collections::BTreeMap;
use vm_api::VM;

pub fn vr_policy() -> Policy {
    let mut p = Policy::default();
    p.minimum_verified_allocation_size = StoragePower::from(256);
    p.minimum_verified_allocation_term = 10;
    p.maximum_verified_allocation_term = 20;
    p.maximum_verified_allocation_expiration = 5;
    p
}

pub struct Reg {
    pub v: VVM,
    pub names: BTreeMap<String, Address>,
    pub pks: BTreeMap<String, Address>,
}

fn data_cid(d: &str) -> Cid {
    make_piece_cid(d.as_bytes())
}

impl Reg {
    pub fn new(seed: u64) -> Reg {
        let v = VVM::genesis(vr_policy());
        let accts = v.create_accounts(7, seed, &TokenAmount::from_whole(10_000));
        let bls = create_bls_accounts(&v, 2, seed, &TokenAmount::from_whole(10));
        let mut names = BTreeMap::new();
        for (n, a) in ["c1", "c2", "v1", "v2", "x", "o1", "o2"].iter().zip(accts.iter()) {
            names.insert(n.to_string(), *a);
        }
        names.insert("root".into(), TEST_VERIFREG_ROOT_ADDR);
        names.insert("vr".into(), VERIFIED_REGISTRY_ACTOR_ADDR);
        let proof = RegisteredPoStProof::StackedDRGWindow32GiBV1P1;
        for (i, (m, o)) in [("m1", "o1"), ("m2", "o2")].iter().enumerate() {
            let (id, out) = create_miner(&v, &names[*o], &bls[i], proof, &TokenAmount::from_whole(1000));
            assert!(out.ok(), "create miner: {}", out.message);
            names.insert(m.to_string(), id.unwrap());
        }
        let mut pks = BTreeMap::new();
        for n in ["c1", "c2", "v1", "v2", "x"] {
            let st: fil_actor_account::State = v.state(&names[n]).unwrap();
            pks.insert(n.to_string(), st.address);
        }
        Reg { v, names, pks }
    }

    fn name_of_id(&self, id: u64) -> String {
        let a = Address::new_id(id);
        for (n, x) in &self.names {
            if *x == a {
                return n.clone();
            }
        }
        format!("{}", a)
    }
    fn id_of(&self, n: &str) -> u64 {
        self.names.get(n).map(|a| a.id().unwrap()).unwrap_or(999_999)
    }
    fn data_name(&self, c: &Cid) -> String {
        for d in ["dA", "dB", "dC"] {
            if data_cid(d) == *c {
                return d.into();
            }
        }
        "d?".into()
    }

    fn tok_balance(&self, a: &Address) -> i64 {
        let o = self.v.run_p(
            &self.names["x"],
            &DATACAP_TOKEN_ACTOR_ADDR,
            &TokenAmount::zero(),
            fil_actor_datacap::Method::BalanceExported as u64,
            a,
        );
        let t: TokenAmount = o.de();
        whole_bytes(&t)
    }

    pub fn project(&self) -> Value {
        let st: State = self.v.state(&VERIFIED_REGISTRY_ACTOR_ADDR).unwrap();
        let store = &self.v.store;
        let mut verifiers = vec![];
        DataCapMap::load(store, &st.verifiers, DATACAP_MAP_CONFIG, "verifiers")
            .unwrap()
            .for_each(|a: Address, c: &fvm_shared::bigint::bigint_ser::BigIntDe| {
                verifiers.push(json!([self.name_of_id(a.id().unwrap()), c.0.to_i64().unwrap()]));
                Ok(())
            })
            .unwrap();
        verifiers.sort_by_key(|v| v[0].as_str().map(|s| s.to_string()));
        let mut tok = serde_json::Map::new();
        for h in ["c1", "c2", "v1", "v2", "vr", "x"] {
            tok.insert(h.into(), json!(self.tok_balance(&self.names[h])));
        }
        let o = self.v.run(
            &self.names["x"],
            &DATACAP_TOKEN_ACTOR_ADDR,
            &TokenAmount::zero(),
            fil_actor_datacap::Method::TotalSupplyExported as u64,
            None,
        );
        let supply: TokenAmount = o.de();
        let mut allocs = vec![];
        let mut am = st.load_allocs(store).unwrap();
        for owner in self.names.values().filter_map(|a| a.id().ok()) {
            am.for_each_in(owner, |key, a: &fil_actor_verifreg::Allocation| {
                let id = fil_actors_runtime::parse_uint_key(key).unwrap();
                allocs.push((id, json!({"id": id, "a": {"client": self.name_of_id(a.client), "provider": self.name_of_id(a.provider),
                    "data": self.data_name(&a.data), "size": a.size.0, "tmin": a.term_min, "tmax": a.term_max, "exp": a.expiration}})));
                Ok(())
            })
            .unwrap();
        }
        allocs.sort_by_key(|x| x.0);
        let mut claims = vec![];
        let mut cm = st.load_claims(store).unwrap();
        for owner in self.names.values().filter_map(|a| a.id().ok()) {
            cm.for_each_in(owner, |key, c: &fil_actor_verifreg::Claim| {
                let id = fil_actors_runtime::parse_uint_key(key).unwrap();
                claims.push((id, json!({"id": id, "c": {"client": self.name_of_id(c.client), "provider": self.name_of_id(c.provider),
                    "data": self.data_name(&c.data), "size": c.size.0, "tmin": c.term_min, "tmax": c.term_max,
                    "tstart": c.term_start, "sector": c.sector}})));
                Ok(())
            })
            .unwrap();
        }
        claims.sort_by_key(|x| x.0);
        json!({"verifiers": verifiers, "tok": tok, "supply": whole_bytes(&supply),
               "allocs": allocs.into_iter().map(|x| x.1).collect::<Vec<_>>(),
               "claims": claims.into_iter().map(|x| x.1).collect::<Vec<_>>(),
               "next": st.next_allocation_id, "epoch": self.v.epoch()})
    }

    /// send `method(params)` to the registry as the root multisig would: the root signer proposes it
    /// to the root multisig (threshold 1), which executes it at once
    fn via_root<P: serde::Serialize>(&self, method: u64, params: &P) -> (bool, String) {
        let o = self.v.run_p(
            &TEST_VERIFREG_ROOT_SIGNER_ADDR,
            &TEST_VERIFREG_ROOT_ADDR,
            &TokenAmount::zero(),
            fil_actor_multisig::Method::Propose as u64,
            &fil_actor_multisig::ProposeParams {
                to: VERIFIED_REGISTRY_ACTOR_ADDR,
                value: TokenAmount::zero(),
                method,
                params: RawBytes::serialize(params).unwrap(),
            },
        );
        if !o.ok() {
            return (false, o.message);
        }
        let r: fil_actor_multisig::ProposeReturn = o.de();
        (r.applied && r.code.is_success(), format!("inner code {}", r.code))
    }

    fn proposal_id(&self, verifier: &Address, client: &Address) -> u64 {
        let st: State = self.v.state(&VERIFIED_REGISTRY_ACTOR_ADDR).unwrap();
        let m = RemoveDataCapProposalMap::load(
            &self.v.store,
            &st.remove_data_cap_proposal_ids,
            REMOVE_DATACAP_PROPOSALS_CONFIG,
            "p",
        )
        .unwrap();
        m.get(&AddrPairKey::new(*verifier, *client)).unwrap().map(|p| p.id).unwrap_or(0)
    }

    pub fn step(&self, call: &Value) -> Value {
        let a = call["a"].as_str().unwrap();
        let zero = TokenAmount::zero();
        let mut ev = call.clone();
        ev["ev"] = json!(a);
        let vr = VERIFIED_REGISTRY_ACTOR_ADDR;
        let nm = |k: &str| -> Address { self.names.get(call[k].as_str().unwrap()).cloned().unwrap_or(Address::new_id(999_999)) };
        let dc = |n: i64| -> StoragePower { BigInt::from(n) };
        let (ok, msg): (bool, String) = match a {
            "Tick" => {
                self.v.set_epoch(self.v.epoch() + call["n"].as_i64().unwrap());
                (true, String::new())
            }
            "AddVerifier" | "RemoveVerifier" => {
                let c = call["c"].as_str().unwrap();
                if a == "AddVerifier" {
                    let p = VerifierParams { address: nm("v"), allowance: dc(call["amt"].as_i64().unwrap()) };
                    if c == "root" {
                        self.via_root(Method::AddVerifier as u64, &p)
                    } else {
                        let o = self.v.run_p(&nm("c"), &vr, &zero, Method::AddVerifier as u64, &p);
                        (o.ok(), o.message)
                    }
                } else {
                    let p = RemoveVerifierParams { verifier: nm("v") };
                    if c == "root" {
                        self.via_root(Method::RemoveVerifier as u64, &p)
                    } else {
                        let o = self.v.run_p(&nm("c"), &vr, &zero, Method::RemoveVerifier as u64, &p);
                        (o.ok(), o.message)
                    }
                }
            }
            "AddClient" => {
                let o = self.v.run_p(&nm("c"), &vr, &zero, Method::AddVerifiedClient as u64,
                    &VerifierParams { address: nm("cl"), allowance: dc(call["amt"].as_i64().unwrap()) });
                (o.ok(), o.message)
            }
            "RemoveDataCap" => {
                let client = nm("cl");
                let amt = dc(call["amt"].as_i64().unwrap());
                let mk = |vname: &str, good: bool| -> RemoveDataCapRequest {
                    let vaddr = self.names[vname];
                    let id = self.proposal_id(&vaddr, &client);
                    let prop = RemoveDataCapProposal {
                        verified_client: client,
                        data_cap_amount: amt.clone(),
                        removal_proposal_id: RemoveDataCapProposalID { id },
                    };
                    let b = RawBytes::serialize(prop).unwrap();
                    let payload = [SIGNATURE_DOMAIN_SEPARATION_REMOVE_DATA_CAP, b.bytes()].concat();
                    let signer = if good { self.pks[vname] } else { self.pks["x"] };
                    RemoveDataCapRequest {
                        verifier: vaddr,
                        signature: Signature { sig_type: SignatureType::Secp256k1, bytes: sign(&signer, &payload) },
                    }
                };
                let p = RemoveDataCapParams {
                    verified_client_to_remove: client,
                    data_cap_amount_to_remove: amt.clone(),
                    verifier_request_1: mk(call["v1"].as_str().unwrap(), call["sig1OK"].as_bool().unwrap()),
                    verifier_request_2: mk(call["v2"].as_str().unwrap(), call["sig2OK"].as_bool().unwrap()),
                };
                let before = self.tok_balance(&client);
                let r = self.via_root(Method::RemoveVerifiedClientDataCap as u64, &p);
                ev["removed"] = json!(if r.0 { before - self.tok_balance(&client) } else { 0 });
                r
            }
            "Transfer" => {
                let reqs = AllocationRequests {
                    allocations: call["allocs"].as_array().unwrap().iter().map(|r| AllocationRequest {
                        provider: self.id_of(r["provider"].as_str().unwrap()),
                        data: data_cid(r["data"].as_str().unwrap()),
                        size: PaddedPieceSize(r["size"].as_u64().unwrap()),
                        term_min: r["tmin"].as_i64().unwrap(),
                        term_max: r["tmax"].as_i64().unwrap(),
                        expiration: r["exp"].as_i64().unwrap(),
                    }).collect(),
                    extensions: call["exts"].as_array().unwrap().iter().map(|r| ClaimExtensionRequest {
                        provider: self.id_of(r["provider"].as_str().unwrap()),
                        claim: r["claim"].as_u64().unwrap(),
                        term_max: r["tmax"].as_i64().unwrap(),
                    }).collect(),
                };
                let o = self.v.run_p(&nm("c"), &DATACAP_TOKEN_ACTOR_ADDR, &zero,
                    fil_actor_datacap::Method::TransferExported as u64,
                    &TransferParams {
                        to: nm("to"),
                        amount: TokenAmount::from_whole(call["amt"].as_i64().unwrap()),
                        operator_data: RawBytes::serialize(&reqs).unwrap(),
                    });
                ev["ids"] = json!([]);
                if o.ok() {
                    let r: TransferReturn = o.de();
                    if let Ok(resp) = r.recipient_data.deserialize::<AllocationsResponse>() {
                        ev["ids"] = json!(resp.new_allocations);
                    }
                }
                (o.ok(), o.message)
            }
            "Claim" => {
                let sectors: Vec<SectorAllocationClaims> = call["sectors"].as_array().unwrap().iter().map(|s| SectorAllocationClaims {
                    sector: s["sector"].as_u64().unwrap(),
                    expiry: s["expiry"].as_i64().unwrap(),
                    claims: s["claims"].as_array().unwrap().iter().map(|k| AllocationClaim {
                        client: self.id_of(k["client"].as_str().unwrap()),
                        allocation_id: k["id"].as_u64().unwrap(),
                        data: data_cid(k["data"].as_str().unwrap()),
                        size: PaddedPieceSize(k["size"].as_u64().unwrap()),
                    }).collect(),
                }).collect();
                let n = sectors.len();
                let o = self.v.run_p(&nm("m"), &vr, &zero, Method::ClaimAllocations as u64,
                    &ClaimAllocationsParams { sectors, all_or_nothing: call["aon"].as_bool().unwrap() });
                ev["res"] = json!([]);
                if o.ok() {
                    let r: ClaimAllocationsReturn = o.de();
                    ev["res"] = batch_bools(&r.sector_results, n);
                }
                (o.ok(), o.message)
            }
            "RemoveExpiredAllocs" => {
                let ids: Vec<u64> = call["ids"].as_array().unwrap().iter().map(|x| x.as_u64().unwrap()).collect();
                let o = self.v.run_p(&nm("c"), &vr, &zero, Method::RemoveExpiredAllocations as u64,
                    &RemoveExpiredAllocationsParams { client: self.id_of(call["cl"].as_str().unwrap()), allocation_ids: ids });
                ev["removed"] = json!([]);
                if o.ok() {
                    let r: RemoveExpiredAllocationsReturn = o.de();
                    let ok_ids: Vec<u64> = r.results.successes(&r.considered).into_iter().cloned().collect();
                    ev["removed"] = json!(ok_ids);
                }
                (o.ok(), o.message)
            }
            "ExtendClaimTerms" => {
                let terms: Vec<ClaimTerm> = call["terms"].as_array().unwrap().iter().map(|t| ClaimTerm {
                    provider: self.id_of(t["provider"].as_str().unwrap()),
                    claim_id: t["claim"].as_u64().unwrap(),
                    term_max: t["tmax"].as_i64().unwrap(),
                }).collect();
                let n = terms.len();
                let o = self.v.run_p(&nm("c"), &vr, &zero, Method::ExtendClaimTerms as u64, &ExtendClaimTermsParams { terms });
                ev["res"] = json!([]);
                if o.ok() {
                    let r: BatchReturn = o.de();
                    ev["res"] = batch_bools(&r, n);
                }
                (o.ok(), o.message)
            }
            "RemoveExpiredClaims" => {
                let ids: Vec<u64> = call["ids"].as_array().unwrap().iter().map(|x| x.as_u64().unwrap()).collect();
                let o = self.v.run_p(&nm("c"), &vr, &zero, Method::RemoveExpiredClaims as u64,
                    &RemoveExpiredClaimsParams { provider: self.id_of(call["p"].as_str().unwrap()), claim_ids: ids });
                ev["removed"] = json!([]);
                if o.ok() {
                    let r: RemoveExpiredClaimsReturn = o.de();
                    let ok_ids: Vec<u64> = r.results.successes(&r.considered).into_iter().cloned().collect();
                    ev["removed"] = json!(ok_ids);
                }
                (o.ok(), o.message)
            }
            _ => panic!("unknown call {a}"),
        };
        ev["ok"] = json!(ok);
        ev["msg"] = json!(msg.chars().take(160).collect::<String>());
        ev["st"] = self.project();
        ev
    }
}

fn batch_bools(b: &BatchReturn, n: usize) -> Value {
    let fails: Vec<u32> = b.fail_codes.iter().map(|f| f.idx).collect();
    json!((0..n as u32).map(|i| !fails.contains(&i)).collect::<Vec<_>>())
}

fn whole_bytes(t: &TokenAmount) -> i64 {
    let one = BigInt::from(10u64.pow(18));
    assert!((t.atto() % &one).is_zero(), "fractional datacap {t}");
    (t.atto() / &one).to_i64().unwrap()
}

fn random_call(rng: &mut Rng, r: &Reg, p: &Policy) -> Value {
    let st = r.project();
    let epoch = st["epoch"].as_i64().unwrap();
    let min = 256;
    let allocs = st["allocs"].as_array().unwrap();
    let claims = st["claims"].as_array().unwrap();
    let next = st["next"].as_i64().unwrap();
    let any_id = |rng: &mut Rng| rng.range(1, next.max(1));
    match rng.below(100) {
        0..=9 => json!({"a": "AddVerifier", "c": *rng.pick(&["root", "root", "root", "c1"]), "v": *rng.pick(&["v1", "v2", "c1"]),
                        "amt": *rng.pick(&[min - 1, 2 * min, 4 * min, 8 * min])}),
        10..=12 => json!({"a": "RemoveVerifier", "c": *rng.pick(&["root", "root", "v1"]), "v": *rng.pick(&["v1", "v2", "c1"])}),
        13..=27 => json!({"a": "AddClient", "c": *rng.pick(&["v1", "v1", "v2", "c1"]), "cl": *rng.pick(&["c1", "c1", "c2", "v2", "c1", "c2", "m1"]),
                          "amt": *rng.pick(&[min, min, 2 * min, 3 * min])}),
        28..=30 => json!({"a": "RemoveDataCap", "c": "root", "cl": *rng.pick(&["c1", "c2"]), "amt": *rng.pick(&[min, 10 * min]),
                          "v1": "v1", "v2": *rng.pick(&["v2", "v2", "v1"]), "sig1OK": rng.chance(90), "sig2OK": rng.chance(85), "removed": 0}),
        31..=52 => {
            let na = *rng.pick(&[0, 1, 1, 1, 2]);
            let mut al = vec![];
            for _ in 0..na {
                let tmin = p.minimum_verified_allocation_term + *rng.pick(&[0, 0, 1, -1]);
                al.push(json!({"provider": *rng.pick(&["m1", "m1", "m1", "m2", "m2", "c2"]), "data": *rng.pick(&["dA", "dA", "dB"]),
                    "size": *rng.pick(&[min, min, min, 2 * min, min / 2]), "tmin": tmin,
                    "tmax": tmin + *rng.pick(&[0, 2, 5, 11]), "exp": epoch + *rng.pick(&[0, 1, 3, 5, 5, 5, 6, -1])}));
            }
            let mut ex = vec![];
            if !claims.is_empty() && rng.chance(30) {
                let c = rng.pick(claims);
                ex.push(json!({"provider": c["c"]["provider"], "claim": c["id"],
                               "tmax": c["c"]["tmax"].as_i64().unwrap() + *rng.pick(&[0, 1, 3, 30])}));
            }
            let want: i64 = al.iter().map(|a| a["size"].as_i64().unwrap()).sum::<i64>()
                + ex.iter().map(|x| claims.iter().find(|c| c["id"] == x["claim"]).map(|c| c["c"]["size"].as_i64().unwrap()).unwrap_or(0)).sum::<i64>();
            let amt = if rng.chance(85) { want } else { want + *rng.pick(&[min, -min, 1]) };
            json!({"a": "Transfer", "c": *rng.pick(&["c1", "c1", "c2"]), "to": if rng.chance(93) {"vr"} else {"c2"},
                   "amt": amt.max(0), "allocs": al, "exts": ex, "ids": []})
        }
        53..=70 if allocs.len() >= 2 && rng.chance(30) => {
            // several sector groups that can all succeed: distinct open allocations of one provider,
            // claimed exactly as allocated; sometimes followed by a group without claims
            let prov = allocs[0]["a"]["provider"].clone();
            let mine: Vec<&Value> = allocs.iter().filter(|a| a["a"]["provider"] == prov).collect();
            let take = mine.len().min(*rng.pick(&[2, 2, 3]));
            let mut sectors = vec![];
            for (s, a) in mine.iter().take(take).enumerate() {
                sectors.push(json!({"sector": s + 1, "expiry": epoch + a["a"]["tmin"].as_i64().unwrap() + *rng.pick(&[0, 0, 1]),
                    "claims": [{"client": a["a"]["client"], "id": a["id"], "data": a["a"]["data"], "size": a["a"]["size"]}]}));
            }
            if rng.chance(35) {
                sectors.push(json!({"sector": take + 1, "expiry": epoch + p.minimum_verified_allocation_term, "claims": []}));
            }
            json!({"a": "Claim", "m": prov, "sectors": sectors, "aon": rng.chance(40), "res": []})
        }
        53..=70 => {
            let ns = *rng.pick(&[1, 1, 2]);
            let mut who = rng.pick(&["m1", "m1", "m2", "c1"]).to_string();
            let mut sectors = vec![];
            for s in 0..ns {
                let k = *rng.pick(&[1, 1, 2]);
                let mut cl = vec![];
                let mut expiry = epoch + p.minimum_verified_allocation_term;
                for _ in 0..k {
                    if !allocs.is_empty() && rng.chance(85) {
                        let a = rng.pick(allocs);
                        if rng.chance(80) {
                            who = a["a"]["provider"].as_str().unwrap().to_string();
                        }
                        expiry = epoch + a["a"]["tmin"].as_i64().unwrap() + *rng.pick(&[0, 0, 0, 1, -1, 30]);
                        cl.push(json!({"client": a["a"]["client"], "id": a["id"],
                            "data": if rng.chance(92) { a["a"]["data"].clone() } else { json!("dC") },
                            "size": if rng.chance(95) { a["a"]["size"].clone() } else { json!(512) }}));
                    } else {
                        cl.push(json!({"client": "c1", "id": any_id(rng), "data": "dA", "size": min}));
                    }
                }
                sectors.push(json!({"sector": s + 1, "expiry": expiry, "claims": cl}));
            }
            json!({"a": "Claim", "m": who, "sectors": sectors, "aon": rng.chance(40), "res": []})
        }
        71..=78 => {
            let ids: Vec<i64> = if rng.chance(40) { vec![] } else { vec![any_id(rng)] };
            json!({"a": "RemoveExpiredAllocs", "c": "x", "cl": *rng.pick(&["c1", "c1", "c2"]), "ids": ids, "removed": []})
        }
        79..=85 => {
            let (id, tm) = if !claims.is_empty() { let c = rng.pick(claims); (c["id"].as_i64().unwrap(), c["c"]["tmax"].as_i64().unwrap()) } else { (any_id(rng), 10) };
            json!({"a": "ExtendClaimTerms", "c": *rng.pick(&["c1", "c1", "c2"]),
                   "terms": [{"provider": "m1", "claim": id, "tmax": tm + *rng.pick(&[0, 1, 3, -1, 40])}], "res": []})
        }
        86..=90 => {
            let ids: Vec<i64> = if rng.chance(40) { vec![] } else { vec![any_id(rng)] };
            json!({"a": "RemoveExpiredClaims", "c": "x", "p": *rng.pick(&["m1", "m1", "m2"]), "ids": ids, "removed": []})
        }
        _ => json!({"a": "Tick", "n": *rng.pick(&[1, 1, 2, 5, 10, 12])}),
    }
}

pub fn main(args: &[String]) {
    let out = arg(args, "--out").expect("--out");
    let seed = arg_u64(args, "--seed", 1);
    let mut t = TraceOut::create(out);
    let mut sched_out = arg(args, "--schedules").map(TraceOut::create);
    let p = vr_policy();
    let mut first = true;
    let mut begin = |t: &mut TraceOut, r: &Reg| {
        let ev = if first { "Init" } else { "Reset" };
        first = false;
        t.line(&json!({"ev": ev, "const": {"MinSize": 256, "MinTerm": r.v.policy.minimum_verified_allocation_term,
            "MaxTerm": r.v.policy.maximum_verified_allocation_term, "MaxExp": r.v.policy.maximum_verified_allocation_expiration},
            "st": r.project()}));
        t.traces += 1;
    };
    if let Some(b) = arg(args, "--behaviours") {
        for (i, (_, beh)) in read_schedules(b, 1).iter().enumerate() {
            let r = Reg::new(seed + i as u64);
            begin(&mut t, &r);
            for call in beh {
                t.line(&r.step(call));
            }
            if let Some(s) = sched_out.as_mut() {
                s.line(&json!({"scale": 1, "calls": beh}));
            }
        }
    }
    let n = arg_u64(args, "--random", 0);
    let len = arg_u64(args, "--len", 40);
    let mut rng = Rng::new(seed);
    for i in 0..n {
        let r = Reg::new(seed.wrapping_mul(1000) + i);
        begin(&mut t, &r);
        let mut calls = vec![];
        // most traces start with a verifier and a client that hold DataCap, so that allocations and claims happen
        if rng.chance(80) {
            for call in [json!({"a": "AddVerifier", "c": "root", "v": "v1", "amt": 64 * 256}),
                         json!({"a": "AddClient", "c": "v1", "cl": "c1", "amt": 16 * 256}),
                         json!({"a": "AddClient", "c": "v1", "cl": "c2", "amt": 4 * 256})] {
                t.line(&r.step(&call));
                calls.push(call);
            }
        }
        for _ in 0..len {
            let call = random_call(&mut rng, &r, &p);
            t.line(&r.step(&call));
            calls.push(call);
        }
        if let Some(s) = sched_out.as_mut() {
            s.line(&json!({"scale": 1, "calls": calls}));
        }
    }
    t.flush();
    if let Some(s) = sched_out.as_mut() {
        s.flush();
    }
    println!("{}", json!({"driver": "verif", "traces": t.traces, "events": t.events}));
}
