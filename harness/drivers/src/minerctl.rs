//! Driver + projection for miner control hand-over (spec/MinerControl.tla; C13 and the caller/quota
//! clauses of C14).  The miner is created through the real power actor (never the repo helper).
use crate::util::*;
use crate::vm::*;
use fil_actor_miner::{
    ChangeBeneficiaryParams, ChangeOwnerAddressParams, ChangeWorkerAddressParams, CronEventPayload,
    DeferredCronEventParams, GetAvailableBalanceReturn, Method, State as MinerState,
    WithdrawBalanceParams, CRON_EVENT_PROVING_DEADLINE,
};
use fil_actor_power::{CreateMinerParams, CreateMinerReturn, Method as PowerMethod};
use fil_actors_runtime::runtime::Policy;
use fil_actors_runtime::{
    BURNT_FUNDS_ACTOR_ADDR, REWARD_ACTOR_ADDR, STORAGE_POWER_ACTOR_ADDR,
};
use fvm_ipld_encoding::{BytesDe, RawBytes};
use fvm_shared::METHOD_SEND;
use fvm_shared::address::Address;
use fvm_shared::econ::TokenAmount;
use fvm_shared::sector::RegisteredPoStProof;
use num_traits::{Signed, ToPrimitive, Zero};
use serde_json::{Value, json};
use std::collections::BTreeMap;
use vm_api::VM;

pub const AVAIL_CAP: i64 = 1 << 30;

/// BLS-keyed account actors (workers must have a BLS key)
pub fn create_bls_accounts(v: &VVM, n: usize, seed: u64, balance: &TokenAmount) -> Vec<Address> {
    let mut out = vec![];
    for i in 0..n {
        let mut key = [0u8; fvm_shared::address::BLS_PUB_LEN];
        key[..8].copy_from_slice(&seed.to_be_bytes());
        key[8..16].copy_from_slice(&(i as u64).to_be_bytes());
        key[47] = 9;
        let a = Address::new_bls(&key).unwrap();
        let o = v.run(&TEST_FAUCET_ADDR, &a, balance, METHOD_SEND, None);
        assert!(o.ok(), "faucet: {}", o.message);
        out.push(v.resolve_id_address(&a).unwrap());
    }
    out
}

/// CreateMiner through the power actor; returns (miner id address, outcome)
pub fn create_miner(
    v: &VVM,
    owner: &Address,
    worker: &Address,
    proof: RegisteredPoStProof,
    value: &TokenAmount,
) -> (Option<Address>, Outcome) {
    let params = CreateMinerParams {
        owner: *owner,
        worker: *worker,
        window_post_proof_type: proof,
        peer: b"peer".to_vec(),
        multiaddrs: vec![BytesDe(b"addr".to_vec())],
    };
    let o = v.run_p(owner, &STORAGE_POWER_ACTOR_ADDR, value, PowerMethod::CreateMiner as u64, &params);
    let id = if o.ok() { Some(o.de::<CreateMinerReturn>().id_address) } else { None };
    (id, o)
}

/// The creation deposit the miner constructor would lock right now (measured with a throw-away
/// miner on a scratch copy is not possible, so it is read back from a probe miner).
pub fn probe_deposit(v: &VVM, owner: &Address, worker: &Address, proof: RegisteredPoStProof) -> TokenAmount {
    let (m, o) = create_miner(v, owner, worker, proof, &TokenAmount::from_whole(1000));
    assert!(o.ok(), "probe miner: {}", o.message);
    let st: MinerState = v.state(&m.unwrap()).unwrap();
    st.locked_funds
}

pub struct Ctl {
    pub v: VVM,
    pub names: BTreeMap<String, Address>,
    pub miner: Address,
}

impl Ctl {
    pub fn new(seed: u64, extra: i64) -> Ctl {
        let v = VVM::genesis(Policy::default());
        let accts = v.create_accounts(5, seed, &TokenAmount::from_whole(10_000));
        let bls = create_bls_accounts(&v, 3, seed, &TokenAmount::from_whole(10));
        let mut names = BTreeMap::new();
        for (n, a) in ["o1", "o2", "b1", "c1", "s"].iter().zip(accts.iter()) {
            names.insert(n.to_string(), *a);
        }
        for (n, a) in ["w1", "w2", "w0"].iter().zip(bls.iter()) {
            names.insert(n.to_string(), *a);
        }
        let proof = RegisteredPoStProof::StackedDRGWindow32GiBV1P1;
        let dep = probe_deposit(&v, &names["s"], &names["w0"], proof);
        let (m, o) = create_miner(
            &v,
            &names["o1"],
            &names["w1"],
            proof,
            &(dep + TokenAmount::from_atto(extra)),
        );
        assert!(o.ok(), "create miner: {}", o.message);
        Ctl { v, names, miner: m.unwrap() }
    }

    fn name_of(&self, a: &Address) -> String {
        let id = self.v.resolve_id_address(a).unwrap_or(*a);
        for (n, x) in &self.names {
            if *x == id {
                return n.clone();
            }
        }
        if id == STORAGE_POWER_ACTOR_ADDR {
            return "power".into();
        }
        format!("{}", id)
    }

    pub fn avail(&self) -> i64 {
        let o = self.v.run(
            &self.names["s"],
            &self.miner,
            &TokenAmount::zero(),
            Method::GetAvailableBalanceExported as u64,
            None,
        );
        let r: GetAvailableBalanceReturn = o.de();
        let a = r.available_balance.atto().clone();
        if a.is_negative() {
            -1
        } else {
            a.to_i64().map(|x| x.min(AVAIL_CAP)).unwrap_or(AVAIL_CAP)
        }
    }

    pub fn project(&self) -> Value {
        let st: MinerState = self.v.state(&self.miner).unwrap();
        let info = st.get_info(&self.v.store).unwrap();
        let mut control: Vec<String> = info.control_addresses.iter().map(|a| self.name_of(a)).collect();
        control.sort();
        let pw = match &info.pending_worker_key {
            Some(k) => json!({"addr": self.name_of(&k.new_worker), "at": k.effective_at}),
            None => json!({"addr": "none", "at": 0}),
        };
        let pb = match &info.pending_beneficiary_term {
            Some(p) => json!({"addr": self.name_of(&p.new_beneficiary), "quota": small(&p.new_quota),
                              "exp": p.new_expiration, "aBen": p.approved_by_beneficiary,
                              "aNom": p.approved_by_nominee}),
            None => json!({"addr": "none", "quota": 0, "exp": 0, "aBen": false, "aNom": false}),
        };
        json!({
            "owner": self.name_of(&info.owner),
            "pOwner": info.pending_owner_address.map(|a| self.name_of(&a)).unwrap_or("none".into()),
            "worker": self.name_of(&info.worker),
            "pWorker": pw,
            "control": control,
            "ben": self.name_of(&info.beneficiary),
            "term": {"quota": small(&info.beneficiary_term.quota), "used": small(&info.beneficiary_term.used_quota),
                     "exp": info.beneficiary_term.expiration},
            "pBen": pb,
            "epoch": self.v.epoch(),
        })
    }

    pub fn step(&self, call: &Value, scale: i64) -> Value {
        let a = call["a"].as_str().unwrap();
        let zero = TokenAmount::zero();
        let mut ev = call.clone();
        ev["ev"] = json!(a);
        ev["paid"] = json!(0);
        ev["payee"] = json!("none");
        let o = match a {
            "Tick" => {
                let n = call["n"].as_i64().unwrap() * scale;
                self.v.set_epoch(self.v.epoch() + n);
                ev["n"] = json!(n);
                ev["ok"] = json!(true);
                ev["st"] = self.project();
                return ev;
            }
            "Deposit" => {
                let amt = call["amt"].as_i64().unwrap();
                self.v.run(&self.names["s"], &self.miner, &TokenAmount::from_atto(amt), METHOD_SEND, None)
            }
            "ChangeOwner" => self.v.run_p(
                &self.names[call["c"].as_str().unwrap()],
                &self.miner,
                &zero,
                Method::ChangeOwnerAddress as u64,
                &ChangeOwnerAddressParams { new_owner: self.names[call["new"].as_str().unwrap()] },
            ),
            "ChangeWorker" => self.v.run_p(
                &self.names[call["c"].as_str().unwrap()],
                &self.miner,
                &zero,
                Method::ChangeWorkerAddress as u64,
                &ChangeWorkerAddressParams {
                    new_worker: self.names[call["nw"].as_str().unwrap()],
                    new_control_addresses: call["ctl"]
                        .as_array()
                        .unwrap()
                        .iter()
                        .map(|x| self.names[x.as_str().unwrap()])
                        .collect(),
                },
            ),
            "ConfirmWorker" => self.v.run(
                &self.names[call["c"].as_str().unwrap()],
                &self.miner,
                &zero,
                Method::ConfirmChangeWorkerAddress as u64,
                None,
            ),
            "ChangeBen" => {
                let x = call["x"].as_i64().unwrap() * scale;
                ev["x"] = json!(x);
                self.v.run_p(
                    &self.names[call["c"].as_str().unwrap()],
                    &self.miner,
                    &zero,
                    Method::ChangeBeneficiary as u64,
                    &ChangeBeneficiaryParams {
                        new_beneficiary: self.names[call["nb"].as_str().unwrap()],
                        new_quota: TokenAmount::from_atto(call["q"].as_i64().unwrap()),
                        new_expiration: x,
                    },
                )
            }
            "Withdraw" => {
                ev["avail"] = json!(self.avail());
                ev["canPay"] = json!(true);
                self.v.run_p(
                    &self.names[call["c"].as_str().unwrap()],
                    &self.miner,
                    &zero,
                    Method::WithdrawBalance as u64,
                    &WithdrawBalanceParams {
                        amount_requested: TokenAmount::from_atto(call["req"].as_i64().unwrap()),
                    },
                )
            }
            "CronDeadline" => {
                // component level: the power actor's deferred cron callback, sent directly
                let rew: fil_actor_reward::State = self.v.state(&REWARD_ACTOR_ADDR).unwrap();
                let pow: fil_actor_power::State = self.v.state(&STORAGE_POWER_ACTOR_ADDR).unwrap();
                self.v.run_p(
                    &STORAGE_POWER_ACTOR_ADDR,
                    &self.miner,
                    &zero,
                    Method::OnDeferredCronEvent as u64,
                    &DeferredCronEventParams {
                        event_payload: RawBytes::serialize(CronEventPayload {
                            event_type: CRON_EVENT_PROVING_DEADLINE,
                        })
                        .unwrap()
                        .to_vec(),
                        reward_smoothed: rew.this_epoch_reward_smoothed.clone(),
                        quality_adj_power_smoothed: pow.this_epoch_qa_power_smoothed.clone(),
                    },
                )
            }
            _ => panic!("unknown call {a}"),
        };
        ev["ok"] = json!(o.ok());
        ev["class"] = json!(o.class());
        ev["msg"] = json!(o.message);
        if a == "Withdraw" && o.ok() {
            // what actually left the miner, and to whom (burn and power bookkeeping excluded)
            let mut tr = vec![];
            o.inv.effective_transfers(&mut tr);
            let mid = self.miner.id().unwrap();
            for (from, to, amt) in tr {
                if from == mid && Address::new_id(to) != BURNT_FUNDS_ACTOR_ADDR {
                    ev["paid"] = small(&amt);
                    ev["payee"] = json!(self.name_of(&Address::new_id(to)));
                }
            }
            if ev["payee"] == json!("none") {
                // nothing paid: the payee is whoever would have been paid
                ev["payee"] = self.project_before_payee(&ev);
            }
        }
        ev["st"] = self.project();
        ev
    }

    fn project_before_payee(&self, _ev: &Value) -> Value {
        // a zero withdrawal moves nothing; report the current beneficiary (unchanged by Withdraw)
        self.project()["ben"].clone()
    }
}

fn random_call(rng: &mut Rng, c: &Ctl, delay: i64) -> Value {
    let st = c.project();
    let epoch = st["epoch"].as_i64().unwrap();
    let principals = ["o1", "o2", "b1", "c1", "s", "w1"];
    // bias callers toward the parties that currently matter
    let mut pool: Vec<String> = principals.iter().map(|s| s.to_string()).collect();
    for k in ["owner", "pOwner", "ben"] {
        let n = st[k].as_str().unwrap();
        if n != "none" {
            pool.push(n.to_string());
            pool.push(n.to_string());
        }
    }
    let pb = st["pBen"]["addr"].as_str().unwrap();
    if pb != "none" {
        pool.push(pb.to_string());
        pool.push(pb.to_string());
    }
    let who = rng.pick(&pool).clone();
    match rng.below(100) {
        0..=17 => json!({"a": "ChangeOwner", "c": who, "new": *rng.pick(&["o1", "o2", "b1"])}),
        18..=32 => json!({"a": "ChangeWorker", "c": who, "nw": *rng.pick(&["w1", "w2", "w2", "s"]),
                          "ctl": if rng.chance(50) { json!(["c1"]) } else { json!([]) }}),
        33..=42 => json!({"a": "ConfirmWorker", "c": who}),
        43..=62 => {
            let (nb, q, x) = if pb != "none" && rng.chance(70) {
                (pb.to_string(), st["pBen"]["quota"].as_i64().unwrap(), st["pBen"]["exp"].as_i64().unwrap())
            } else {
                (rng.pick(&["o1", "o2", "b1", "s"]).to_string(), rng.range(0, 6),
                 *rng.pick(&[0, epoch, epoch + 1, epoch + 500, epoch + 5000]))
            };
            json!({"a": "ChangeBen", "c": who, "nb": nb, "q": q, "x": x})
        }
        63..=77 => json!({"a": "Withdraw", "c": who, "req": rng.range(-1, 6)}),
        78..=82 => json!({"a": "CronDeadline", "c": "power"}),
        83..=87 => json!({"a": "Deposit", "amt": rng.range(1, 4)}),
        _ => {
            let pw_at = st["pWorker"]["at"].as_i64().unwrap();
            let to = (pw_at - epoch).max(1);
            json!({"a": "Tick", "n": *rng.pick(&[1, 1, 2, delay - 1, delay, to - 1, to, to + 1, 100]).max(&1)})
        }
    }
}

pub fn main(args: &[String]) {
    let out = arg(args, "--out").expect("--out");
    let seed = arg_u64(args, "--seed", 1);
    let mut t = TraceOut::create(out);
    let mut sched_out = arg(args, "--schedules").map(TraceOut::create);
    let policy = Policy::default();
    let delay = policy.worker_key_change_delay;
    let mut first = true;
    let mut begin = |t: &mut TraceOut, c: &Ctl| {
        let ev = if first { "Init" } else { "Reset" };
        first = false;
        t.line(&json!({"ev": ev, "const": {"WorkerDelay": delay}, "st": c.project()}));
        t.traces += 1;
    };
    if let Some(b) = arg(args, "--behaviours") {
        // model time: WorkerDelay = 2  ->  real delay / 2 epochs per model tick
        for (i, (scale, beh)) in read_schedules(b, delay / 2).iter().enumerate() {
            let c = Ctl::new(seed + i as u64, 3);
            begin(&mut t, &c);
            for call in beh {
                t.line(&c.step(call, *scale));
            }
            if let Some(s) = sched_out.as_mut() {
                s.line(&json!({"scale": scale, "calls": beh}));
            }
        }
    }
    let n = arg_u64(args, "--random", 0);
    let len = arg_u64(args, "--len", 30);
    let mut rng = Rng::new(seed);
    for i in 0..n {
        let c = Ctl::new(seed.wrapping_mul(1000) + i, rng.range(0, 5));
        begin(&mut t, &c);
        let mut calls = vec![];
        for _ in 0..len {
            let call = random_call(&mut rng, &c, delay);
            t.line(&c.step(&call, 1));
            calls.push(call);
        }
        if let Some(s) = sched_out.as_mut() {
            s.line(&json!({"scale": 1, "calls": calls}));
        }
    }
    t.flush();
    if let Some(s) = sched_out.as_mut() {
        s.flush();
    }
    println!("{}", json!({"driver": "minerctl", "traces": t.traces, "events": t.events}));
}
