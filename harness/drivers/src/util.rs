//! Trace I/O and small helpers shared by all drivers.
use fvm_shared::bigint::BigInt;
use fvm_shared::econ::TokenAmount;
use num_traits::{Signed, ToPrimitive, Zero};
use rand::{RngCore, SeedableRng};
use rand_chacha::ChaCha8Rng;
use serde_json::{Value, json};
use std::fs::File;
use std::io::{BufRead, BufReader, BufWriter, Write};

pub struct TraceOut {
    w: BufWriter<File>,
    pub traces: usize,
    pub events: usize,
}

impl TraceOut {
    pub fn create(path: &str) -> TraceOut {
        TraceOut { w: BufWriter::new(File::create(path).expect("create trace")), traces: 0, events: 0 }
    }
    pub fn line(&mut self, v: &Value) {
        serde_json::to_writer(&mut self.w, v).unwrap();
        self.w.write_all(b"\n").unwrap();
        self.events += 1;
    }
    pub fn flush(&mut self) {
        self.w.flush().unwrap();
    }
}

/// Small amounts (driver-chosen) as plain JSON integers; panics if it does not fit in i32
/// (TLC integers are 32 bit).
pub fn small(t: &TokenAmount) -> Value {
    let v = t.atto().to_i64().expect("amount too large for a small trace integer");
    assert!(v.abs() < (1 << 31), "amount {v} too large for TLC");
    json!(v)
}

/// Big amounts as [sign, limb0, limb1, ...] with little-endian base-10^4 limbs.
pub fn big(t: &TokenAmount) -> Value {
    bigint(t.atto())
}
pub fn bigint(b: &BigInt) -> Value {
    let sign = if b.is_negative() { -1 } else { 1 };
    let mut m = b.abs();
    let base = BigInt::from(10_000);
    let mut limbs: Vec<i64> = vec![];
    while !m.is_zero() {
        limbs.push((&m % &base).to_i64().unwrap());
        m /= &base;
    }
    let mut out = vec![json!(sign)];
    out.extend(limbs.into_iter().map(|l| json!(l)));
    Value::Array(out)
}

pub struct Rng(pub ChaCha8Rng);
impl Rng {
    pub fn new(seed: u64) -> Rng {
        Rng(ChaCha8Rng::seed_from_u64(seed))
    }
    pub fn below(&mut self, n: u64) -> u64 {
        if n == 0 { 0 } else { self.0.next_u64() % n }
    }
    pub fn range(&mut self, lo: i64, hi: i64) -> i64 {
        lo + self.below((hi - lo + 1) as u64) as i64
    }
    pub fn chance(&mut self, pct: u64) -> bool {
        self.below(100) < pct
    }
    pub fn pick<'a, T>(&mut self, xs: &'a [T]) -> &'a T {
        &xs[self.below(xs.len() as u64) as usize]
    }
}

/// Read behaviours exported by TLC: lines containing `"REPLAY"` followed by a JSON array, or a
/// plain ndjson file of arrays.
pub fn read_behaviours(path: &str) -> Vec<Vec<Value>> {
    read_schedules(path, 0).into_iter().map(|(_, c)| c).collect()
}

/// Like `read_behaviours` but keeps a per-schedule time scale: a line is either a JSON array of
/// calls (scale = `default_scale`) or an object {"scale": n, "calls": [...]}.
pub fn read_schedules(path: &str, default_scale: i64) -> Vec<(i64, Vec<Value>)> {
    let f = BufReader::new(File::open(path).expect("open behaviours"));
    let mut out = vec![];
    for line in f.lines() {
        let line = line.unwrap();
        let line = line.trim();
        if line.is_empty() {
            continue;
        }
        let v: Value = match serde_json::from_str(line) {
            Ok(v) => v,
            Err(_) => continue,
        };
        match v {
            Value::Array(a) => out.push((default_scale, a)),
            Value::Object(o) => {
                let scale = o.get("scale").and_then(|s| s.as_i64()).unwrap_or(default_scale);
                if let Some(Value::Array(a)) = o.get("calls") {
                    out.push((scale, a.clone()));
                }
            }
            _ => {}
        }
    }
    out
}

#[allow(dead_code)]
fn read_behaviours_old(path: &str) -> Vec<Vec<Value>> {
    let f = BufReader::new(File::open(path).expect("open behaviours"));
    let mut out = vec![];
    for line in f.lines() {
        let line = line.unwrap();
        let line = line.trim();
        if line.is_empty() {
            continue;
        }
        let v: Value = match serde_json::from_str(line) {
            Ok(v) => v,
            Err(_) => continue,
        };
        if let Value::Array(a) = v {
            out.push(a);
        }
    }
    out
}

pub fn arg<'a>(args: &'a [String], name: &str) -> Option<&'a str> {
    args.iter().position(|a| a == name).and_then(|i| args.get(i + 1)).map(|s| s.as_str())
}
pub fn arg_u64(args: &[String], name: &str, default: u64) -> u64 {
    arg(args, name).map(|s| s.parse().expect("numeric argument")).unwrap_or(default)
}
