//! Driver + projection for the storage power actor (spec/Power.tla; the power-actor clauses of C02, C03,
//! C05, C11).
//!
//! World: `VVM::genesis` under the tiny policy with a small `minimum_consensus_power`.  Miners are REAL miner
//! actors created through the real `CreateMiner`; power updates, cron enrolments and pledge updates are sent
//! to the power actor as top-level messages whose sender is the miner actor's ID address (the VM lets any
//! actor originate a message), so that arbitrary deltas can be driven.  `Tick` is the real cron tick
//! (system -> cron.EpochTick -> power.OnEpochTickEnd -> miner.OnDeferredCronEvent ...); a callback is made
//! to fail either naturally (an undecodable payload, kind "bad") or by a fault plan on the k-th
//! power -> miner OnDeferredCronEvent send.  After every step `CurrentTotalPower` is called from an account.
use crate::minerctl::create_bls_accounts;
use crate::util::*;
use crate::vm::*;
use fil_actor_miner::{
    CRON_EVENT_PROVING_DEADLINE, CronEventPayload, DeferredCronEventParams, Method as MinerMethod,
    State as MinerState,
};
use fil_actor_power::{
    CONSENSUS_MINER_MIN_MINERS, CRON_QUEUE_AMT_BITWIDTH, CRON_QUEUE_HAMT_BITWIDTH, CreateMinerParams,
    CreateMinerReturn, CronEvent, CurrentTotalPowerReturn, EnrollCronEventParams, Method as PowerMethod,
    State as PowerState, UpdateClaimedPowerParams, UpdatePledgeTotalParams,
};
use fil_actors_runtime::runtime::builtins::Type;
use fil_actors_runtime::{CRON_ACTOR_ADDR, Multimap, STORAGE_POWER_ACTOR_ADDR};
use fvm_ipld_encoding::{BytesDe, RawBytes};
use fvm_shared::METHOD_SEND;
use fvm_shared::address::Address;
use fvm_shared::bigint::BigInt;
use fvm_shared::econ::TokenAmount;
use fvm_shared::sector::StoragePower;
use num_traits::{Signed, ToPrimitive, Zero};
use serde_json::{Value, json};
use vm_api::VM;

/// model power units -> bytes when a TLC behaviour is replayed
pub const UNIT: i64 = 2048;
/// never more miners than this in one world (the trace constant NumMiners is one more)
pub const MAX_MINERS: usize = 8;

fn int(b: &BigInt) -> i64 {
    let v = b.to_i64().expect("value too large");
    assert!(v.abs() < (1 << 31), "value {v} too large for TLC");
    v
}

pub struct World {
    pub v: VVM,
    pub acct: Address,
    pub worker: Address,
    pub miners: Vec<Address>,
    pub min_power: i64,
}

fn payload_bytes(kind: &str) -> RawBytes {
    match kind {
        // WORKER_KEY_CHANGE (0) is no longer a cron event: the miner logs "invalid event type" and returns Ok
        "noop" => RawBytes::serialize(CronEventPayload { event_type: 0 }).unwrap(),
        "deadline" => RawBytes::serialize(CronEventPayload { event_type: CRON_EVENT_PROVING_DEADLINE }).unwrap(),
        // not CBOR for a CronEventPayload: the miner fails to unmarshal it
        _ => RawBytes::new(vec![0xff, 0x00, 0x13]),
    }
}
fn payload_kind(bytes: &[u8]) -> String {
    match fvm_ipld_encoding::from_slice::<CronEventPayload>(bytes) {
        Ok(p) if p.event_type == 0 => "noop".into(),
        Ok(p) if p.event_type == CRON_EVENT_PROVING_DEADLINE => "deadline".into(),
        Ok(p) => format!("type{}", p.event_type),
        Err(_) => "bad".into(),
    }
}

impl World {
    pub fn new(seed: u64, min_power: i64) -> World {
        let mut p = crate::sectors::tiny_policy();
        p.minimum_consensus_power = StoragePower::from(min_power);
        let v = VVM::genesis(p);
        let acct = v.create_accounts(1, seed, &TokenAmount::from_whole(1_000_000))[0];
        let worker = create_bls_accounts(&v, 1, seed, &TokenAmount::from_whole(10))[0];
        World { v, acct, worker, miners: vec![], min_power }
    }

    pub fn name_of(&self, a: &Address) -> String {
        match self.miners.iter().position(|m| m == a) {
            Some(i) => format!("m{}", i + 1),
            None if *a == self.acct => "acct".into(),
            None if *a == CRON_ACTOR_ADDR => "cron".into(),
            None => format!("{a}"),
        }
    }
    /// the address a caller class sends from
    pub fn addr_of(&self, c: &str) -> Address {
        match c {
            "acct" => self.acct,
            "cron" => CRON_ACTOR_ADDR,
            m => {
                let i: usize = m.trim_start_matches('m').parse().expect("caller name");
                self.miners[i - 1]
            }
        }
    }

    fn pstate(&self) -> PowerState {
        self.v.state(&STORAGE_POWER_ACTOR_ADDR).unwrap()
    }

    /// Abstract state of spec/Power.tla read from the real power actor.
    pub fn project(&self) -> Value {
        let store = &self.v.store;
        let ps = self.pstate();
        let mut claims = vec![];
        ps.load_claims(store)
            .unwrap()
            .for_each(|a, c| {
                claims.push(json!([self.name_of(&a), int(&c.raw_byte_power), int(&c.quality_adj_power)]));
                Ok(())
            })
            .unwrap();
        claims.sort_by_key(|c| c[0].as_str().map(|s| s.to_string()));
        let mut byepoch: Vec<(i64, Vec<Value>)> = vec![];
        let mm: Multimap<_> =
            Multimap::from_root(store, &ps.cron_event_queue, CRON_QUEUE_HAMT_BITWIDTH, CRON_QUEUE_AMT_BITWIDTH)
                .unwrap();
        mm.for_all::<_, CronEvent>(|k, arr| {
            let e = <i64 as integer_encoding::VarInt>::decode_var(k).map(|x| x.0).expect("epoch key");
            let mut evs = vec![];
            arr.for_each(|_, ev: &CronEvent| {
                evs.push(json!([e, self.name_of(&ev.miner_addr), payload_kind(ev.callback_payload.bytes())]));
                Ok(())
            })?;
            byepoch.push((e, evs));
            Ok(())
        })
        .unwrap();
        byepoch.sort_by_key(|x| x.0);
        let queue: Vec<Value> = byepoch.into_iter().flat_map(|x| x.1).collect();
        json!({
            "created": self.miners.len(), "claims": claims,
            "totRaw": int(&ps.total_raw_byte_power), "totQa": int(&ps.total_quality_adj_power),
            "comRaw": int(&ps.total_bytes_committed), "comQa": int(&ps.total_qa_bytes_committed),
            "minerCount": ps.miner_count, "aboveCount": ps.miner_above_min_power_count,
            "pledge": int(ps.total_pledge_collateral.atto()),
            "queue": queue, "firstCron": ps.first_cron_epoch,
            "snapRaw": int(&ps.this_epoch_raw_byte_power), "snapQa": int(&ps.this_epoch_quality_adj_power),
            "snapPledge": int(ps.this_epoch_pledge_collateral.atto()),
            "epoch": self.v.epoch(),
        })
    }

    /// What CurrentTotalPower returns right now (called from the account).
    pub fn report(&self) -> Value {
        let o = self.v.run(
            &self.acct,
            &STORAGE_POWER_ACTOR_ADDR,
            &TokenAmount::zero(),
            PowerMethod::CurrentTotalPower as u64,
            None,
        );
        if !o.ok() {
            return json!({"raw": -1, "qa": -1, "pledge": -1, "failed": o.message});
        }
        let r: CurrentTotalPowerReturn = o.de();
        json!({"raw": int(&r.raw_byte_power), "qa": int(&r.quality_adj_power), "pledge": int(r.pledge_collateral.atto())})
    }

    /// the creation deposit a miner created right now would have to bring (probed on a throw-away miner)
    fn deposit(&self) -> TokenAmount {
        let root = self.v.checkpoint();
        let o = self.create(&self.acct, &TokenAmount::from_whole(10_000));
        assert!(o.ok(), "probe miner: {}", o.message);
        let m = o.de::<CreateMinerReturn>().id_address;
        let st: MinerState = self.v.state(&m).unwrap();
        self.v.rollback(root);
        st.locked_funds
    }

    fn create(&self, from: &Address, value: &TokenAmount) -> Outcome {
        let params = CreateMinerParams {
            owner: self.acct,
            worker: self.worker,
            window_post_proof_type: crate::sectors::POST,
            peer: b"peer".to_vec(),
            multiaddrs: vec![BytesDe(b"addr".to_vec())],
        };
        self.v.run_p(from, &STORAGE_POWER_ACTOR_ADDR, value, PowerMethod::CreateMiner as u64, &params)
    }

    fn finish(&self, mut ev: Value, o: &Outcome) -> Value {
        ev["ok"] = json!(o.ok());
        ev["class"] = json!(o.class());
        ev["code"] = json!(o.code.value());
        ev["msg"] = json!(o.message);
        ev["st"] = self.project();
        ev["ret"] = self.report();
        ev
    }

    /// Execute one abstract call (power amounts in the call are multiplied by `scale`); returns the event.
    pub fn step(&mut self, call: &Value, scale: i64) -> Value {
        let a = call["a"].as_str().unwrap();
        let p = STORAGE_POWER_ACTOR_ADDR;
        let zero = TokenAmount::zero();
        match a {
            "CreateMiner" => {
                let c = call["c"].as_str().unwrap();
                let funded = call["funded"].as_bool().unwrap();
                let from = self.addr_of(c);
                let dep = self.deposit();
                assert!(dep.is_positive(), "creation deposit is zero: an under-funded creation cannot be driven");
                let value = if funded { dep } else { dep - TokenAmount::from_atto(1) };
                if from != self.acct {
                    // any actor may create a miner: give the caller what it forwards
                    let o = self.v.run(&TEST_FAUCET_ADDR, &from, &value, METHOD_SEND, None);
                    assert!(o.ok(), "top-up: {}", o.message);
                }
                let pbal = self.v.balance(&p);
                let o = if self.miners.len() >= MAX_MINERS {
                    panic!("too many miners for one world")
                } else {
                    self.create(&from, &value)
                };
                let mut fwd = true;
                if o.ok() {
                    let m = o.de::<CreateMinerReturn>().id_address;
                    fwd = self.v.balance(&m) == value && self.v.balance(&p) == pbal;
                    self.miners.push(m);
                }
                self.finish(json!({"ev": a, "c": c, "funded": funded, "fwd": fwd}), &o)
            }
            "UpdateClaimedPower" => {
                let c = call["c"].as_str().unwrap();
                let (dr, dq) = (call["dr"].as_i64().unwrap() * scale, call["dq"].as_i64().unwrap() * scale);
                let o = self.v.run_p(
                    &self.addr_of(c),
                    &p,
                    &zero,
                    PowerMethod::UpdateClaimedPower as u64,
                    &UpdateClaimedPowerParams {
                        raw_byte_delta: StoragePower::from(dr),
                        quality_adjusted_delta: StoragePower::from(dq),
                    },
                );
                self.finish(json!({"ev": a, "c": c, "dr": dr, "dq": dq}), &o)
            }
            "EnrollCronEvent" => {
                let c = call["c"].as_str().unwrap();
                let e = call["e"].as_i64().unwrap();
                let kind = call["p"].as_str().unwrap();
                let o = self.v.run_p(
                    &self.addr_of(c),
                    &p,
                    &zero,
                    PowerMethod::EnrollCronEvent as u64,
                    &EnrollCronEventParams { event_epoch: e, payload: payload_bytes(kind) },
                );
                self.finish(json!({"ev": a, "c": c, "e": e, "p": kind}), &o)
            }
            "UpdatePledgeTotal" => {
                let c = call["c"].as_str().unwrap();
                let d = call["d"].as_i64().unwrap();
                let o = self.v.run_p(
                    &self.addr_of(c),
                    &p,
                    &zero,
                    PowerMethod::UpdatePledgeTotal as u64,
                    &UpdatePledgeTotalParams { pledge_delta: TokenAmount::from_atto(d) },
                );
                self.finish(json!({"ev": a, "c": c, "d": d}), &o)
            }
            "OnEpochTickEnd" => {
                let c = call["c"].as_str().unwrap();
                let o = self.v.run(&self.addr_of(c), &p, &zero, PowerMethod::OnEpochTickEnd as u64, None);
                self.finish(json!({"ev": a, "c": c}), &o)
            }
            "CurrentTotalPower" => {
                let c = call["c"].as_str().unwrap();
                let o = self.v.run(&self.addr_of(c), &p, &zero, PowerMethod::CurrentTotalPower as u64, None);
                self.finish(json!({"ev": a, "c": c}), &o)
            }
            "Tick" => {
                // which callbacks (by position in the dispatch order) are made to fail by injection: those the
                // schedule wants to fail and that would not fail by themselves
                let want: Vec<(bool, String)> = call["cbs"]
                    .as_array()
                    .map(|x| {
                        x.iter()
                            .map(|cb| (cb["ok"].as_bool().unwrap_or(true), cb["p"].as_str().unwrap_or("noop").to_string()))
                            .collect()
                    })
                    .unwrap_or_default();
                let mut fired_before = 0u32;
                for (i, (ok, kind)) in want.iter().enumerate() {
                    if !*ok && kind != "bad" {
                        // a rule does not see the sends an earlier rule consumed
                        self.v.add_fault(FaultRule {
                            from_type: Some(Type::Power),
                            method: Some(MinerMethod::OnDeferredCronEvent as u64),
                            skip: i as u32 - fired_before,
                            times: 1,
                            ..Default::default()
                        });
                        fired_before += 1;
                    }
                }
                let o = self.v.tick();
                self.v.clear_faults();
                // what really happened: the callbacks power made, and what each of them asked power for
                let mut cbs = vec![];
                let mut tick_ok = o.ok();
                let mut seen_tick = false;
                o.inv.walk(
                    &mut |inv, _| {
                        if inv.to == p && inv.method == PowerMethod::OnEpochTickEnd as u64 {
                            seen_tick = true;
                            tick_ok = tick_ok && inv.exit.is_success();
                            for s in &inv.subs {
                                if s.method == MinerMethod::OnDeferredCronEvent as u64 && s.to_type == Some(Type::Miner) {
                                    cbs.push(self.callback(s));
                                }
                            }
                        }
                    },
                    0,
                );
                let mut ev = self.finish(json!({"ev": a, "cbs": cbs}), &o);
                ev["ok"] = json!(tick_ok && seen_tick);
                ev
            }
            _ => panic!("unknown call {a}"),
        }
    }

    /// one observed power -> miner callback
    fn callback(&self, s: &Inv) -> Value {
        let kind = s
            .params
            .as_ref()
            .and_then(|b| b.deserialize::<DeferredCronEventParams>().ok())
            .map(|d| payload_kind(&d.event_payload))
            .unwrap_or_else(|| "undecodable-params".into());
        let m = self.name_of(&s.to);
        let mut calls = vec![];
        s.walk(
            &mut |n, depth| {
                if depth == 0 || n.to != STORAGE_POWER_ACTOR_ADDR {
                    return;
                }
                let c = self.name_of(&Address::new_id(n.from));
                let ok = n.exit.is_success();
                if n.method == PowerMethod::EnrollCronEvent as u64 {
                    if let Some(q) = n.params.as_ref().and_then(|b| b.deserialize::<EnrollCronEventParams>().ok()) {
                        calls.push(json!({"a": "EnrollCronEvent", "c": c, "e": q.event_epoch,
                                          "p": payload_kind(q.payload.bytes()), "ok": ok}));
                    }
                } else if n.method == PowerMethod::UpdateClaimedPower as u64 {
                    if let Some(q) = n.params.as_ref().and_then(|b| b.deserialize::<UpdateClaimedPowerParams>().ok()) {
                        calls.push(json!({"a": "UpdateClaimedPower", "c": c, "dr": int(&q.raw_byte_delta),
                                          "dq": int(&q.quality_adjusted_delta), "ok": ok}));
                    }
                } else if n.method == PowerMethod::UpdatePledgeTotal as u64 {
                    if let Some(q) = n.params.as_ref().and_then(|b| b.deserialize::<UpdatePledgeTotalParams>().ok()) {
                        calls.push(json!({"a": "UpdatePledgeTotal", "c": c, "d": int(q.pledge_delta.atto()), "ok": ok}));
                    }
                }
            },
            0,
        );
        // why a callback failed: made to (fault plan), a payload no miner would enrol, finding F1's mechanism
        // (the miner's UpdatePledgeTotal refused for a negative total), or something else
        let mut pledge_refused = false;
        s.walk(
            &mut |n, _| {
                if n.to == STORAGE_POWER_ACTOR_ADDR
                    && n.method == PowerMethod::UpdatePledgeTotal as u64
                    && !n.exit.is_success()
                    && n.msg.contains("negative total pledge")
                {
                    pledge_refused = true;
                }
            },
            0,
        );
        let cause = if s.exit.is_success() {
            "-"
        } else if s.injected {
            "injected"
        } else if kind == "bad" {
            "bad-payload"
        } else if pledge_refused {
            "pledge"
        } else {
            "other"
        };
        json!({"m": m, "p": kind, "ok": s.exit.is_success(), "cause": cause, "calls": calls, "msg": s.msg})
    }
}

// ---------------------------------------------------------------------------------------------------
// guided random schedules

/// the callbacks the next tick will make, as the generator expects them: (miner, payload kind)
fn expected_dispatch(st: &Value) -> Vec<(String, String)> {
    let epoch = st["epoch"].as_i64().unwrap();
    let has_claim = |m: &str| st["claims"].as_array().unwrap().iter().any(|c| c[0] == m);
    st["queue"]
        .as_array()
        .unwrap()
        .iter()
        .filter(|ev| ev[0].as_i64().unwrap() <= epoch && has_claim(ev[1].as_str().unwrap()))
        .map(|ev| (ev[1].as_str().unwrap().to_string(), ev[2].as_str().unwrap().to_string()))
        .collect()
}

fn random_call(rng: &mut Rng, w: &World, step: u64) -> Value {
    let st = w.project();
    let epoch = st["epoch"].as_i64().unwrap();
    let first = st["firstCron"].as_i64().unwrap();
    let pledge = st["pledge"].as_i64().unwrap();
    let min = w.min_power;
    let n = w.miners.len();
    let claim_of = |m: &str| -> Option<(i64, i64)> {
        st["claims"].as_array().unwrap().iter().find(|c| c[0] == m).map(|c| (c[1].as_i64().unwrap(), c[2].as_i64().unwrap()))
    };
    let above = st["aboveCount"].as_i64().unwrap();
    let pick_caller = |rng: &mut Rng, pct_bad: u64| -> String {
        if n == 0 || rng.chance(pct_bad) {
            rng.pick(&["acct", "cron"]).to_string()
        } else {
            format!("m{}", rng.range(1, n as i64))
        }
    };
    // early on: build the population
    if n < 2 || (n < MAX_MINERS - 2 && rng.chance(if step < 12 { 35 } else { 6 })) {
        let c = if n > 0 && rng.chance(10) { pick_caller(rng, 50) } else { "acct".to_string() };
        return json!({"a": "CreateMiner", "c": c, "funded": !rng.chance(12)});
    }
    let k = rng.below(100);
    if k < 45 {
        let c = pick_caller(rng, 6);
        let (raw, qa) = claim_of(&c).unwrap_or((0, 0));
        // aim at the threshold from both sides, at zero, and beyond; while few miners are above the minimum
        // prefer to lift them so that the regime of CONSENSUS_MINER_MIN_MINERS is reached and left again
        let lift = above < CONSENSUS_MINER_MIN_MINERS + 1 && rng.chance(45);
        let target = if lift {
            *rng.pick(&[min, min + 1, 2 * min, min + 7])
        } else {
            *rng.pick(&[0, 1, min - 1, min, min + 1, min - UNIT, min + UNIT, 3 * min, raw, raw + 1, raw - 1, -1, raw - min])
        };
        let dr = target - raw;
        let dq = match rng.below(6) {
            0 => dr,
            1 => dr * 10,
            2 => -qa,
            3 => -qa - 1,
            4 => rng.range(-3, 3),
            _ => (raw + dr).max(0) * *rng.pick(&[1, 2, 10]) - qa,
        };
        json!({"a": "UpdateClaimedPower", "c": c, "dr": dr, "dq": dq})
    } else if k < 67 {
        let c = pick_caller(rng, 6);
        let e = *rng.pick(&[epoch, epoch, epoch + 1, epoch + 1, epoch + 2, epoch + 3, epoch - 1, epoch - 2, first - 1, -1, 0]);
        let p = *rng.pick(&["noop", "noop", "noop", "deadline", "deadline", "bad"]);
        json!({"a": "EnrollCronEvent", "c": c, "e": e, "p": p})
    } else if k < 77 {
        let c = pick_caller(rng, 8);
        let d = *rng.pick(&[1, 2, 5, -1, -2, -pledge, -pledge - 1, pledge, 0]);
        json!({"a": "UpdatePledgeTotal", "c": c, "d": d})
    } else if k < 80 {
        let c = if rng.chance(50) { "acct".to_string() } else { pick_caller(rng, 0) };
        json!({"a": "OnEpochTickEnd", "c": c})
    } else if k < 83 {
        json!({"a": "CurrentTotalPower", "c": pick_caller(rng, 50)})
    } else {
        let cbs: Vec<Value> = expected_dispatch(&st)
            .into_iter()
            .map(|(m, p)| {
                let ok = p != "bad" && !rng.chance(18);
                json!({"m": m, "p": p, "ok": ok, "calls": []})
            })
            .collect();
        json!({"a": "Tick", "cbs": cbs})
    }
}

fn header(w: &World) -> Value {
    json!({"MinPower": w.min_power, "MinMiners": CONSENSUS_MINER_MIN_MINERS, "NumMiners": MAX_MINERS + 1})
}

/// The consensus minimum of every world of one trace file (the trace spec takes it as a constant): 4 sectors of
/// 2 KiB unless `--minpower` says otherwise.  The first call of a schedule may name the model's threshold,
/// {"a": "World", "minPower": units}; the model's power unit is then min_power / units bytes.
fn world_of(calls: &[Value], scale: i64, seed: u64, min_power: i64) -> (World, usize, i64) {
    match calls.first() {
        Some(c) if c["a"] == "World" => {
            let units = c["minPower"].as_i64().unwrap();
            let scale = if scale > 0 { scale } else { min_power / units };
            assert!(units * scale == min_power, "the model's threshold {units} does not divide {min_power}");
            (World::new(seed, min_power), 1, scale)
        }
        _ => (World::new(seed, min_power), 0, if scale > 0 { scale } else { UNIT }),
    }
}

/// Entry point: `drive power --out F [--behaviours B] [--random N --len L --seed S] [--schedules F]`
pub fn main(args: &[String]) {
    let out = arg(args, "--out").expect("--out");
    let seed = arg_u64(args, "--seed", 1);
    let mut t = TraceOut::create(out);
    let mut sched_out = arg(args, "--schedules").map(TraceOut::create);
    let mut first = true;
    let mut begin = |t: &mut TraceOut, w: &World| {
        let ev = if first { "Init" } else { "Reset" };
        first = false;
        t.line(&json!({"ev": ev, "const": header(w), "st": w.project(), "ret": w.report()}));
        t.traces += 1;
    };
    let min_power = arg_u64(args, "--minpower", (4 * UNIT) as u64) as i64;
    if let Some(b) = arg(args, "--behaviours") {
        for (i, (scale, beh)) in read_schedules(b, 0).iter().enumerate() {
            let (mut w, skip, scale) = world_of(beh, *scale, seed + i as u64, min_power);
            begin(&mut t, &w);
            for call in &beh[skip..] {
                let ev = w.step(call, scale);
                t.line(&ev);
            }
            if let Some(s) = sched_out.as_mut() {
                s.line(&json!({"scale": scale, "calls": beh}));
            }
        }
    }
    let n = arg_u64(args, "--random", 0);
    let len = arg_u64(args, "--len", 40);
    let mut rng = Rng::new(seed);
    for i in 0..n {
        let mut w = World::new(seed.wrapping_mul(1000) + i, min_power);
        begin(&mut t, &w);
        let mut calls = vec![json!({"a": "World", "minPower": min_power})];
        for k in 0..len {
            let call = random_call(&mut rng, &w, k);
            let ev = w.step(&call, 1);
            t.line(&ev);
            calls.push(call);
        }
        if let Some(s) = sched_out.as_mut() {
            s.line(&json!({"scale": 1, "calls": calls}));
        }
    }
    t.flush();
    if let Some(s) = sched_out.as_mut() {
        s.flush();
    }
    println!("{}", json!({"driver": "power", "traces": t.traces, "events": t.events}));
}
