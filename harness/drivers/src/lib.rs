pub use vvm as vm;
pub mod util;
pub mod paych;
pub mod multisig;
pub mod minerctl;
pub mod market;
pub mod calls;
pub mod initd;
